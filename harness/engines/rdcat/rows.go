package rdcat

import (
	"database/sql/driver"
	"encoding/binary"
	"encoding/hex"
	"encoding/json"
	"fmt"
	"math"
	"math/rand"
	"sort"
	"strconv"
	"strings"

	common "go.opentelemetry.io/proto/otlp/common/v1"
	v1 "go.opentelemetry.io/proto/otlp/trace/v1"
	"google.golang.org/protobuf/proto"
)

// ---------- models of what the database returns ----------

// LogRow is one row of a streams (Line) or matrix (Value) statement.
type LogRow struct {
	TsNs  int64   `json:"ts"`
	Line  string  `json:"line,omitempty"`
	Value float64 `json:"-"`
	// VBits carries Value through JSON (replay files) without loss, also for NaN/Inf.
	VBits uint64 `json:"vbits,omitempty"`
}

// LogSeries is one series of a LogQL result: the statement orders by fingerprint, so all
// rows of a series are adjacent.
type LogSeries struct {
	Fp     uint64            `json:"fp"`
	Labels map[string]string `json:"labels"`
	Rows   []LogRow          `json:"rows"`
}

func cloneMap(m map[string]string) map[string]string {
	o := make(map[string]string, len(m))
	for k, v := range m {
		o[k] = v
	}
	return o
}

// StreamsRows renders series (in the given order) as rows of a KStreams statement.
func StreamsRows(ss []LogSeries) [][]driver.Value {
	var out [][]driver.Value
	for _, s := range ss {
		for _, r := range s.Rows {
			out = append(out, []driver.Value{s.Fp, cloneMap(s.Labels), r.Line, r.TsNs})
		}
	}
	return out
}

// MatrixRows renders series as rows of a KMatrix statement.
func MatrixRows(ss []LogSeries) [][]driver.Value {
	var out [][]driver.Value
	for _, s := range ss {
		for _, r := range s.Rows {
			out = append(out, []driver.Value{s.Fp, cloneMap(s.Labels), r.Value, r.TsNs})
		}
	}
	return out
}

// InterleavedStreamsRows renders the rows ordered by timestamp only (descending unless asc):
// the contract of the statements whose pipeline continues in Go (ORDER BY timestamp_ns).
func InterleavedStreamsRows(ss []LogSeries, asc bool) [][]driver.Value {
	type fr struct {
		s *LogSeries
		r LogRow
	}
	var all []fr
	for i := range ss {
		for _, r := range ss[i].Rows {
			all = append(all, fr{&ss[i], r})
		}
	}
	sort.SliceStable(all, func(i, j int) bool {
		if asc {
			return all[i].r.TsNs < all[j].r.TsNs
		}
		return all[i].r.TsNs > all[j].r.TsNs
	})
	out := make([][]driver.Value, len(all))
	for i, x := range all {
		out[i] = []driver.Value{x.s.Fp, cloneMap(x.s.Labels), x.r.Line, x.r.TsNs}
	}
	return out
}

// PromSample / PromSeries model the two statements of a PromQL selector.
type PromSample struct {
	TsMs  int64   `json:"ts"`
	V     float64 `json:"-"`
	VBits uint64  `json:"vbits"`
}
type PromSeries struct {
	Fp      uint64       `json:"fp"`
	Labels  [][2]string  `json:"labels"`
	Samples []PromSample `json:"samples"`
}

func PromSampleRows(ss []PromSeries) [][]driver.Value {
	var out [][]driver.Value
	for _, s := range ss {
		for _, p := range s.Samples {
			out = append(out, []driver.Value{s.Fp, p.V, p.TsMs})
		}
	}
	return out
}

func PromLabelRows(ss []PromSeries) [][]driver.Value {
	var out [][]driver.Value
	for _, s := range ss {
		pairs := make([][]interface{}, len(s.Labels))
		for i, l := range s.Labels {
			pairs[i] = []interface{}{l[0], l[1]}
		}
		out = append(out, []driver.Value{s.Fp, pairs})
	}
	return out
}

// StringRows renders a one-column result.
func StringRows(vals []string) [][]driver.Value {
	out := make([][]driver.Value, len(vals))
	for i, v := range vals {
		out[i] = []driver.Value{v}
	}
	return out
}

// Span models one row of tempo_traces.
type Span struct {
	TraceID     string      `json:"trace_id"` // hex, 32
	SpanID      string      `json:"span_id"`  // hex, 16
	ParentID    string      `json:"parent_id"`
	TsNs        int64       `json:"ts"`
	DurNs       int64       `json:"dur"`
	PayloadType int         `json:"payload_type"` // 1 zipkin JSON, 2 OTLP protobuf
	Name        string      `json:"name"`
	Service     string      `json:"service"`
	Tags        [][2]string `json:"tags"`
	// Nums: numeric attributes (OTLP payloads only): an int64 or a double, which the response must render without loss
	Nums []NumTag `json:"nums,omitempty"`
}

type NumTag struct {
	Key   string  `json:"key"`
	Int   int64   `json:"int"`
	Dbl   float64 `json:"dbl"`
	IsInt bool    `json:"is_int"`
}

func unhex(s string) string { b, _ := hex.DecodeString(s); return string(b) }

// Payload renders the stored payload of the span.
func (s Span) Payload() string {
	if s.PayloadType == 2 {
		sp := &v1.Span{TraceId: []byte(unhex(s.TraceID)), SpanId: []byte(unhex(s.SpanID)), Name: s.Name,
			StartTimeUnixNano: uint64(s.TsNs), EndTimeUnixNano: uint64(s.TsNs + s.DurNs)}
		if s.ParentID != "" {
			sp.ParentSpanId = []byte(unhex(s.ParentID))
		}
		for _, t := range s.Tags {
			sp.Attributes = append(sp.Attributes, &common.KeyValue{Key: t[0], Value: &common.AnyValue{Value: &common.AnyValue_StringValue{StringValue: t[1]}}})
		}
		for _, n := range s.Nums {
			if n.IsInt {
				sp.Attributes = append(sp.Attributes, &common.KeyValue{Key: n.Key, Value: &common.AnyValue{Value: &common.AnyValue_IntValue{IntValue: n.Int}}})
			} else {
				sp.Attributes = append(sp.Attributes, &common.KeyValue{Key: n.Key, Value: &common.AnyValue{Value: &common.AnyValue_DoubleValue{DoubleValue: n.Dbl}}})
			}
		}
		sp.Attributes = append(sp.Attributes, &common.KeyValue{Key: "service.name", Value: &common.AnyValue{Value: &common.AnyValue_StringValue{StringValue: s.Service}}})
		b, _ := proto.Marshal(sp)
		return string(b)
	}
	tags := map[string]string{}
	for _, t := range s.Tags {
		tags[t[0]] = t[1]
	}
	doc := map[string]any{"traceId": s.TraceID, "id": s.SpanID, "name": s.Name, "timestamp": s.TsNs / 1000, "duration": s.DurNs / 1000,
		"localEndpoint": map[string]any{"serviceName": s.Service}, "tags": tags}
	if s.ParentID != "" {
		doc["parentId"] = s.ParentID
	}
	b, _ := json.Marshal(doc)
	return string(b)
}

func SpanRows(ss []Span) [][]driver.Value {
	out := make([][]driver.Value, len(ss))
	for i, s := range ss {
		out[i] = []driver.Value{unhex(s.TraceID), unhex(s.SpanID), s.ParentID, s.TsNs, s.DurNs, int64(s.PayloadType), s.Payload()}
	}
	return out
}

// TraceHit models one row of the tag search statement.
type TraceHit struct {
	TraceID string `json:"trace_id"`
	Service string `json:"service"`
	Name    string `json:"name"`
	StartNs int64  `json:"start"`
	DurMs   int64  `json:"dur_ms"`
}

func TraceHitRows(hs []TraceHit) [][]driver.Value {
	out := make([][]driver.Value, len(hs))
	for i, h := range hs {
		out[i] = []driver.Value{h.TraceID, h.Service, h.Name, h.StartNs, h.DurMs}
	}
	return out
}

// TQLTrace models one row of the TraceQL result statement.
type TQLTrace struct {
	TraceID string   `json:"trace_id"`
	SpanIDs []string `json:"span_ids"`
	DurNs   []int64  `json:"durs"`
	TsNs    []int64  `json:"tss"`
	StartNs int64    `json:"start"`
	DurMs   float64  `json:"dur_ms"`
	Service string   `json:"service"`
	Name    string   `json:"name"`
}

func TQLRows(ts []TQLTrace) [][]driver.Value {
	out := make([][]driver.Value, len(ts))
	for i, t := range ts {
		out[i] = []driver.Value{t.TraceID, append([]string{}, t.SpanIDs...), append([]int64{}, t.DurNs...), append([]int64{}, t.TsNs...), t.StartNs, t.DurMs, t.Service, t.Name}
	}
	return out
}

// ---------- strings and numbers ----------

var safeAlpha = "abcdefghijklmnopqrstuvwxyz0123456789_"

func SafeStr(r *rand.Rand, min, max int) string {
	n := min + r.Intn(max-min+1)
	b := make([]byte, n)
	for i := range b {
		b[i] = safeAlpha[r.Intn(len(safeAlpha))]
	}
	return string(b)
}

// HostilePieces are the byte sequences label values and lines are assembled from.
var HostilePieces = []string{`"`, `\`, `\"`, `\\`, `\n`, "\n", "\r", "\t", "\x00", "\x01", "\x1f", "\x7f", "\b", "\f", "/", "<", ">", "&", "'",
	"\u2028", "\u2029", "\u00e9", "\U0001F600", "\ufffd", "\xc3\x28", "\xff", "\xed\xa0\x80", "\xc0\xaf", "\xe2\x82", "{", "}", "[", "]", ",", ":", " ", "%", `\u0041`, `\x41`, "\u0080", "\u009f", "]}", `"]`, "null"}

// HostileStr assembles up to maxPieces hostile pieces with safe filler.
func HostileStr(r *rand.Rand, maxPieces int) string {
	var sb strings.Builder
	n := 1 + r.Intn(maxPieces)
	for i := 0; i < n; i++ {
		if r.Intn(3) == 0 {
			sb.WriteString(SafeStr(r, 1, 4))
		}
		sb.WriteString(HostilePieces[r.Intn(len(HostilePieces))])
	}
	return sb.String()
}

// StrClass names the most hostile property of a string (for case classes and signatures).
func StrClass(s string) string {
	cls := "plain"
	rank := 0
	set := func(c string, k int) {
		if k > rank {
			cls, rank = c, k
		}
	}
	if len(s) > 60000 {
		set("64KiB", 2)
	}
	for i := 0; i < len(s); i++ {
		b := s[i]
		switch {
		case b < 0x20 || b == 0x7f:
			set("control-byte", 6)
		case b == '"' || b == '\\':
			set("quote-backslash", 4)
		case b >= 0x80:
			set("non-ascii", 3)
		}
	}
	if strings.Contains(s, "\u2028") || strings.Contains(s, "\u2029") {
		set("u2028", 5)
	}
	if strings.ToValidUTF8(s, "") != s {
		set("invalid-utf8", 7)
	}
	return cls
}

// JSONDecoded is what a JSON decoder yields for the string s after a correct encoder wrote it:
// s itself, with every byte that is not part of a valid UTF-8 sequence replaced by U+FFFD
// (encoding/json documents this replacement for both directions).
func JSONDecoded(s string) string {
	b, err := json.Marshal(s)
	if err != nil {
		return s
	}
	var out string
	if json.Unmarshal(b, &out) != nil {
		return s
	}
	return out
}

// Floats are the values C15 renders.
var Floats = []float64{0, math.Copysign(0, -1), 1, -1, 2, 1e-320, 5e-324, -5e-324, 1e308, -1e308, math.MaxFloat64, 1e21, 1e22, 123456789012345680, 9007199254740993, 0.30000000000000004 /* 0.1+0.2 in float64 */, 0.1, 1.0 / 3, 1e-7, 1.5e-10, 100, 1e6, 3.0000000000000004, 2.5, 1e15, 1e16, 1e17, 4.35, 0.000001, 0.0000001}

// SpecialFloats are returned by the database only for some expressions (division, stddev of one value…).
var SpecialFloats = []float64{math.NaN(), math.Inf(1), math.Inf(-1)}

func FloatClass(v float64) string {
	switch {
	case math.IsNaN(v):
		return "nan"
	case math.IsInf(v, 0):
		return "inf"
	case v == 0 && math.Signbit(v):
		return "-0"
	case v == 0:
		return "0"
	case math.Abs(v) < 2.3e-308:
		return "subnormal"
	case math.Abs(v) >= 1e21:
		return "huge"
	case v == math.Trunc(v):
		return "integral"
	}
	return "fraction"
}

func fpOf(i int, r *rand.Rand) uint64 {
	return uint64(r.Int63())<<1 | 1
}

// HexID returns n random bytes as hex.
func HexID(r *rand.Rand, n int) string {
	b := make([]byte, n)
	r.Read(b)
	return hex.EncodeToString(b)
}

func u64bytes(v uint64) string {
	b := make([]byte, 8)
	binary.BigEndian.PutUint64(b, v)
	return string(b)
}

// ---------- generic well-shaped results for C12 ----------

// WellShaped generates n rows of the kind with plausible contents: rows are grouped by
// series where the statement orders by fingerprint, timestamps lie inside [fromNs, toNs].
func WellShaped(k Kind, r *rand.Rand, n int, fromNs, toNs int64) [][]driver.Value {
	if toNs <= fromNs {
		fromNs, toNs = 1700000000e9, 1700003600e9
	}
	span := toNs - fromNs
	str := func() string {
		if r.Intn(4) == 0 {
			return HostileStr(r, 3)
		}
		return SafeStr(r, 1, 8)
	}
	lbls := func() map[string]string {
		m := map[string]string{}
		for i := 0; i < 1+r.Intn(3); i++ {
			m[SafeStr(r, 1, 5)] = str()
		}
		return m
	}
	pairs := func() [][]interface{} {
		var p [][]interface{}
		for i := 0; i < 1+r.Intn(3); i++ {
			p = append(p, []interface{}{SafeStr(r, 1, 5), str()})
		}
		return p
	}
	var out [][]driver.Value
	switch k {
	case KStreams, KMatrix, KPromSamples, KProfPoints:
		nser := 1 + r.Intn(4)
		if n < nser {
			nser = max(n, 1)
		}
		per := (n + nser - 1) / nser
		fps := make([]uint64, nser)
		for i := range fps {
			fps[i] = uint64(r.Int63())
		}
		sort.Slice(fps, func(i, j int) bool { return fps[i] < fps[j] })
		for s := 0; s < nser && len(out) < n; s++ {
			l := lbls()
			pr := pairs()
			for i := 0; i < per && len(out) < n; i++ {
				ts := fromNs + (span/int64(per+1))*int64(i)
				switch k {
				case KStreams:
					out = append(out, []driver.Value{fps[s], cloneMap(l), logLine(r, i), ts})
				case KMatrix:
					out = append(out, []driver.Value{fps[s], cloneMap(l), float64(r.Intn(100)) / 4, ts / 1e9 * 1e9})
				case KPromSamples:
					out = append(out, []driver.Value{fps[s], float64(r.Intn(100)) / 4, ts / 1e6})
				case KProfPoints:
					out = append(out, []driver.Value{ts / 1e6, fps[s], pr, float64(r.Intn(100))})
				}
			}
		}
	case KPromLabels:
		for i := 0; i < n; i++ {
			p := pairs()
			p = append(p, []interface{}{"__name__", "up"})
			out = append(out, []driver.Value{uint64(r.Int63()), p})
		}
	case KLabelKeys, KLabelVals, KTempoKeys, KTempoVals, KProfNames, KProfVals, KUnknown:
		for i := 0; i < n; i++ {
			out = append(out, []driver.Value{str()})
		}
	case KSeries:
		for i := 0; i < n; i++ {
			b, _ := json.Marshal(lbls())
			out = append(out, []driver.Value{string(b)})
		}
	case KTraceSpans:
		tid := HexID(r, 16)
		for i := 0; i < n; i++ {
			s := Span{TraceID: tid, SpanID: HexID(r, 8), TsNs: fromNs + int64(i), DurNs: int64(r.Intn(1e6)), PayloadType: 1 + r.Intn(2), Name: str(), Service: SafeStr(r, 1, 5), Tags: [][2]string{{SafeStr(r, 1, 4), SafeStr(r, 1, 4)}}}
			if strings.ToValidUTF8(s.Name, "") != s.Name {
				s.Name = "n"
			}
			out = append(out, SpanRows([]Span{s})[0])
		}
	case KTempoSearch:
		for i := 0; i < n; i++ {
			out = append(out, []driver.Value{strings.ToUpper(HexID(r, 16)), str(), str(), fromNs + int64(i), int64(r.Intn(1000))})
		}
	case KTQLCount:
		for i := 0; i < max(n, 1); i++ {
			out = append(out, []driver.Value{int64(r.Intn(1000))})
		}
	case KTQLTraces:
		for i := 0; i < n; i++ {
			m := 1 + r.Intn(3)
			t := TQLTrace{TraceID: HexID(r, 16), StartNs: fromNs + int64(i), DurMs: float64(r.Intn(1000)) / 8, Service: str(), Name: str()}
			for j := 0; j < m; j++ {
				t.SpanIDs = append(t.SpanIDs, HexID(r, 8))
				t.DurNs = append(t.DurNs, int64(r.Intn(1e6)))
				t.TsNs = append(t.TsNs, fromNs+int64(i*10+j))
			}
			out = append(out, TQLRows([]TQLTrace{t})[0])
		}
	case KProfTypes:
		for i := 0; i < n; i++ {
			out = append(out, []driver.Value{"process_cpu:cpu:nanoseconds", []interface{}{"cpu", "nanoseconds"}})
		}
	case KProfTree:
		// one row: a small consistent tree
		nodes := [][]interface{}{{uint64(0), uint64(1), uint64(1), int64(0), int64(10)}, {uint64(1), uint64(2), uint64(2), int64(4), int64(4)}, {uint64(1), uint64(3), uint64(3), int64(6), int64(6)}}
		fns := [][]interface{}{{uint64(1), "main"}, {uint64(2), str()}, {uint64(3), "b"}}
		for i := 0; i < n; i++ {
			nodes = append(nodes, []interface{}{uint64(1), uint64(2), uint64(4 + i), int64(1), int64(1)})
		}
		out = append(out, []driver.Value{nodes, fns})
	case KProfPayload:
		for i := 0; i < n; i++ {
			out = append(out, []driver.Value{[]byte{}})
		}
	case KProfSeries:
		for i := 0; i < n; i++ {
			out = append(out, []driver.Value{pairs(), "process_cpu:cpu:nanoseconds", []interface{}{"cpu", "nanoseconds"}})
		}
	case KProfStats:
		out = append(out, []driver.Value{int64(1), fromNs / 1e6, toNs / 1e6})
	case KProfAnalyze:
		out = append(out, []driver.Value{int64(12345), int64(3)})
	}
	return out
}

// logLine draws a stored log line: JSON objects and logfmt lines (so that Go-side parsers,
// label filters and unwrap have something to work on) and free text.
func logLine(r *rand.Rand, i int) string {
	switch r.Intn(8) {
	case 0, 1, 2:
		return fmt.Sprintf(`{"x":"%d","v":%d,"n":"%d","level":"%s","a":{"b":[{"c":"d"}]},"msg":%s}`, i%3, r.Intn(100), r.Intn(10), pick(r, "err", "info"), strconv.Quote(SafeStr(r, 1, 12)))
	case 3:
		return fmt.Sprintf(`{"x":%d,"v":"%s","nested":{"v":%g}}`, i%3, pick(r, "5", "abc", "", "1e400", "NaN"), r.Float64())
	case 4, 5:
		return fmt.Sprintf(`x=%d v=%d level=%s msg="%s" n=%d`, i%3, r.Intn(100), pick(r, "err", "info"), SafeStr(r, 1, 12), r.Intn(10))
	case 6:
		return HostileStr(r, 3)
	}
	return SafeStr(r, 0, 20)
}

// Twist names a deviation of the result set from the well-shaped form.
type Twist string

const (
	TwNone      Twist = ""
	TwStrForNum Twist = "string-for-number" // a numeric column carries text
	TwNull      Twist = "null"              // one column is NULL
	TwWrongType Twist = "wrong-go-type"     // a composite column carries another composite
	TwFp0       Twist = "fingerprint-0"     // every row has fingerprint 0
	TwTsOutside Twist = "ts-outside-window" // timestamps far outside [from,to], negative, MaxInt64
	TwShortID   Twist = "short-id"          // id columns / arrays shorter than the reader assumes
	TwBadBody   Twist = "bad-payload"       // payload columns carry malformed documents
	TwHugeValue Twist = "huge-value"        // numeric columns carry extreme values
	TwFewCols   Twist = "fewer-columns"     // the result has one column less than scanned
	TwTwins     Twist = "twin-series"       // one label set stored under several fingerprints (the fingerprints of the sample and of the label statement agree)
	TwCycle     Twist = "cyclic-tree"       // a stored call tree with a parent/child cycle, a self-parent, repeated node ids; other kinds: every row twice
)

var Twists = []Twist{TwStrForNum, TwNull, TwWrongType, TwFp0, TwTsOutside, TwShortID, TwBadBody, TwHugeValue, TwFewCols, TwCycle, TwTwins}

var badPayloads = []string{"", "{", "{}", "[]", "null", `{"name":1,"tags":[1],"localEndpoint":"x","annotations":{"a":1}}`, `{"attributes":[1]}`, `{"attributes":[{"key":"service.name","value":3}]}`,
	`{"attributes":[{"key":"a"}],"events":[{"timeUnixNano":"1"}]}`, `{"traceId":5}`, `{"traceId":"!!"}`, "\x0a\x03abc\xff\xff\xff", "\x00", `{"events":[1,2]}`, `{"attributes":[{"key":"a","value":{"stringValue":1}}]}`,
	`{"attributes":[{"key":"a","value":{"boolValue":"x"}}]}`, `{"attributes":[{"key":5,"value":{"stringValue":"x"}}]}`, strings.Repeat("[", 5000)}

// ApplyTwist deforms well-shaped rows of the kind in place (returns the rows and the columns).
func ApplyTwist(k Kind, tw Twist, r *rand.Rand, rows [][]driver.Value) ([]string, [][]driver.Value) {
	cols := ColNames(k)
	spec := Columns[k]
	pick := func(types ...string) int {
		var idx []int
		for i, c := range spec {
			for _, t := range types {
				if c.Type == t {
					idx = append(idx, i)
				}
			}
		}
		if len(idx) == 0 {
			return -1
		}
		return idx[r.Intn(len(idx))]
	}
	someRows := func(f func(row []driver.Value)) {
		if len(rows) == 0 {
			return
		}
		mode := r.Intn(3)
		for i := range rows {
			if mode == 0 || (mode == 1 && i == len(rows)-1) || (mode == 2 && i == len(rows)/2) {
				f(rows[i])
			}
		}
	}
	switch tw {
	case TwStrForNum:
		j := pick("u64", "i64", "f64", "i8")
		if j >= 0 {
			txt := []string{"abc", "", "NaN", "1e400", "-", "0x10", "18446744073709551616", "1.5", " 1"}[r.Intn(9)]
			someRows(func(row []driver.Value) { row[j] = txt })
		}
	case TwNull:
		j := r.Intn(len(spec))
		someRows(func(row []driver.Value) { row[j] = nil })
	case TwWrongType:
		j := pick("map", "pairs", "strs", "i64s", "any2", "tree", "funcs", "bytes", "str")
		if j >= 0 {
			alts := []driver.Value{[]interface{}{}, [][]interface{}{{}}, [][]interface{}{{"a"}}, [][]interface{}{{int64(1), int64(2)}}, map[string]string{}, []string{}, int64(7), "x", []interface{}{int64(1)}, []interface{}{"only-one"},
				[][]interface{}{{uint64(1), uint64(2)}}, [][]interface{}{{"a", "b", "c", "d", "e"}}, 3.5, true}
			v := alts[r.Intn(len(alts))]
			someRows(func(row []driver.Value) { row[j] = v })
		}
	case TwFp0:
		for i := range rows {
			for j, c := range spec {
				if c.Type == "u64" {
					rows[i][j] = uint64(0)
				}
			}
		}
	case TwTsOutside:
		vals := []int64{0, -1, math.MinInt64, math.MaxInt64, 1, 4102444800e9, -1700000000e9, math.MaxInt64 - 1}
		for j, c := range spec {
			if c.Type == "i64" && strings.Contains(c.Name, "time") {
				jj := j
				v := vals[r.Intn(len(vals))]
				someRows(func(row []driver.Value) { row[jj] = v })
			}
			if c.Type == "i64s" {
				jj := j
				someRows(func(row []driver.Value) {
					if a, ok := row[jj].([]int64); ok {
						for i := range a {
							a[i] = vals[r.Intn(len(vals))]
						}
					}
				})
			}
		}
	case TwShortID:
		someRows(func(row []driver.Value) {
			for j, c := range spec {
				switch {
				case c.Type == "str" && strings.HasSuffix(c.Name, "_id") || c.Name == "hex(trace_id)":
					row[j] = []string{"", "a", "0123456", "zz"}[r.Intn(4)]
				case c.Type == "strs":
					if a, ok := row[j].([]string); ok && len(a) > 0 {
						row[j] = a[:len(a)-1]
					}
				case c.Type == "i64s" && r.Intn(2) == 0:
					if a, ok := row[j].([]int64); ok && len(a) > 0 {
						row[j] = a[:len(a)-1]
					}
				case c.Type == "any2":
					row[j] = []interface{}{"cpu"}
				case c.Type == "pairs":
					row[j] = [][]interface{}{{"k"}}
				case c.Type == "tree":
					row[j] = [][]interface{}{{uint64(0), uint64(1)}}
				case c.Type == "funcs":
					row[j] = [][]interface{}{{uint64(1)}}
				case c.Name == "type_id":
					row[j] = []string{"", "a", "a:b"}[r.Intn(3)]
				}
			}
		})
	case TwTwins:
		// fingerprints become 1001, 1002, ... in their order (the same in every statement of the request); every row
		// carries the label set of the first
		fj := -1
		for i, c := range spec {
			if c.Name == "fingerprint" {
				fj = i
			}
		}
		if fj < 0 {
			break
		}
		next, ids := uint64(1001), map[uint64]uint64{}
		lj := pick("pairs", "map")
		for i := range rows {
			if fp, ok := rows[i][fj].(uint64); ok {
				if _, seen := ids[fp]; !seen {
					ids[fp] = next
					next++
				}
				rows[i][fj] = ids[fp]
			}
			if lj >= 0 && i > 0 {
				switch l := rows[0][lj].(type) {
				case map[string]string:
					rows[i][lj] = cloneMap(l)
				default:
					rows[i][lj] = rows[0][lj]
				}
			}
		}
	case TwCycle:
		j := pick("tree")
		if j < 0 {
			rows = append(rows, rows...)
			break
		}
		node := func(parent, fn, id uint64) []interface{} {
			return []interface{}{parent, fn, id, int64(1), int64(2)}
		}
		for i := range rows {
			t, ok := rows[i][j].([][]interface{})
			if !ok {
				continue
			}
			switch r.Intn(4) {
			case 0: // root -> 1 -> 2 -> 1
				t = append(t, node(1, 2, 2), node(2, 3, 1))
			case 1: // a node that is its own parent, reachable from the root
				t = append(t, node(1, 1, 1), node(2, 2, 2))
			case 2: // a longer cycle below the root
				t = append(t, node(1, 2, 70), node(70, 3, 71), node(71, 2, 72), node(72, 3, 70))
			case 3: // the root is its own child; the same node id under two parents
				t = append(t, node(1, 1, 0), node(2, 3, 3), node(3, 3, 2))
			}
			rows[i][j] = t
		}
	case TwBadBody:
		someRows(func(row []driver.Value) {
			for j, c := range spec {
				if c.Name == "payload" {
					p := badPayloads[r.Intn(len(badPayloads))]
					if c.Type == "bytes" {
						row[j] = []byte(p)
					} else {
						row[j] = p
					}
				}
				if c.Name == "labels" && c.Type == "str" {
					row[j] = badPayloads[r.Intn(len(badPayloads))]
				}
				if c.Name == "payload_type" {
					row[j] = int64([]int{0, 1, 2, 3, -1, 127}[r.Intn(6)])
				}
			}
		})
	case TwHugeValue:
		someRows(func(row []driver.Value) {
			for j, c := range spec {
				switch c.Type {
				case "f64":
					row[j] = []float64{math.NaN(), math.Inf(1), math.Inf(-1), 1e308, -1e308, 5e-324, 3e9, -1, 1e18}[r.Intn(9)]
				case "i64":
					if !strings.Contains(c.Name, "time") {
						row[j] = []int64{math.MaxInt64, math.MinInt64, -1, 0, 1 << 40}[r.Intn(5)]
					}
				}
			}
		})
	case TwFewCols:
		if len(cols) > 1 {
			cols = cols[:len(cols)-1]
			for i := range rows {
				rows[i] = rows[i][:len(cols)]
			}
		}
	}
	return cols, rows
}

func fmtFloat(v float64) string { return strconv.FormatFloat(v, 'g', -1, 64) }

var _ = fmt.Sprint
