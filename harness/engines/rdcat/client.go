package rdcat

import (
	"bufio"
	"bytes"
	"fmt"
	"io"
	"net"
	"net/http"
	"net/url"
	"sort"
	"strings"
	"syscall"
	"time"
)

// Req is one read request, fully materialised (so that it can be logged before it is sent).
type Req struct {
	Method   string            `json:"method"`
	Path     string            `json:"path"`      // already escaped
	RawQuery string            `json:"raw_query"` // already encoded
	Body     string            `json:"body,omitempty"`
	CType    string            `json:"ctype,omitempty"`
	Header   map[string]string `json:"header,omitempty"`
}

// Q builds a raw query from key/value pairs (repeated keys allowed), in the given order.
func Q(kv ...string) string {
	var sb strings.Builder
	for i := 0; i+1 < len(kv); i += 2 {
		if sb.Len() > 0 {
			sb.WriteByte('&')
		}
		sb.WriteString(url.QueryEscape(kv[i]))
		sb.WriteByte('=')
		sb.WriteString(url.QueryEscape(kv[i+1]))
	}
	return sb.String()
}

// QV encodes url.Values with sorted keys.
func QV(v url.Values) string {
	keys := make([]string, 0, len(v))
	for k := range v {
		keys = append(keys, k)
	}
	sort.Strings(keys)
	var kv []string
	for _, k := range keys {
		for _, x := range v[k] {
			kv = append(kv, k, x)
		}
	}
	return Q(kv...)
}

func (r Req) Target() string {
	if r.RawQuery == "" {
		return r.Path
	}
	return r.Path + "?" + r.RawQuery
}

func (r Req) String() string {
	s := r.Method + " " + r.Target()
	if r.Body != "" {
		b := r.Body
		if len(b) > 300 {
			b = b[:300] + "…"
		}
		s += fmt.Sprintf(" body=%q", b)
	}
	return s
}

// Resp is what the client saw.
type Resp struct {
	Status   int
	Header   http.Header
	Body     []byte
	Err      string
	TimedOut bool
	Wall     time.Duration
}

// Client sends requests over real connections (DESIGN §1.3a).
type Client struct {
	Base    string // http://127.0.0.1:port
	Timeout time.Duration
	hc      *http.Client
	// LastAbandonAddr is the local address of the connection the last Abandon used (the
	// server sees it as the remote address of the connection)
	LastAbandonAddr string
	// SlowRead: the body is read in 16 KiB pieces with a short pause after each (a client on a slow link), so that
	// large answers are still being written while other requests are served
	SlowRead bool
}

func NewClient(base string, timeout time.Duration) *Client {
	tr := &http.Transport{MaxIdleConnsPerHost: 4, DisableCompression: true}
	return &Client{Base: base, Timeout: timeout, hc: &http.Client{Transport: tr, Timeout: timeout}}
}

// SlowLink makes the client behave like one behind a slow link: a receive window of a few KiB (so that the
// server's writes block instead of disappearing into kernel buffers) and a paced read of the body.
func (c *Client) SlowLink() {
	d := &net.Dialer{Timeout: 5 * time.Second, Control: func(network, address string, rc syscall.RawConn) error {
		return rc.Control(func(fd uintptr) { syscall.SetsockoptInt(int(fd), syscall.SOL_SOCKET, syscall.SO_RCVBUF, 8<<10) })
	}}
	c.hc.Transport = &http.Transport{MaxIdleConnsPerHost: 2, DisableCompression: true, DialContext: d.DialContext}
	c.SlowRead = true
}

// Do sends the request and reads the whole response.
func (c *Client) Do(rq Req) Resp {
	t0 := time.Now()
	var body io.Reader
	if rq.Body != "" || rq.Method == "POST" {
		body = strings.NewReader(rq.Body)
	}
	hr, err := http.NewRequest(rq.Method, c.Base+rq.Target(), body)
	if err != nil {
		return Resp{Err: "build: " + err.Error()}
	}
	if rq.CType != "" {
		hr.Header.Set("Content-Type", rq.CType)
	}
	for k, v := range rq.Header {
		hr.Header.Set(k, v)
	}
	resp, err := c.hc.Do(hr)
	if err != nil {
		e := err.Error()
		return Resp{Err: e, TimedOut: isTimeout(e), Wall: time.Since(t0)}
	}
	defer resp.Body.Close()
	var rd io.Reader = io.LimitReader(resp.Body, 1<<30)
	if c.SlowRead {
		rd = &slowBody{r: rd}
	}
	b, err := io.ReadAll(rd)
	out := Resp{Status: resp.StatusCode, Header: resp.Header, Body: b, Wall: time.Since(t0)}
	if err != nil {
		out.Err = "body: " + err.Error()
		out.TimedOut = isTimeout(out.Err)
	}
	return out
}

func isTimeout(e string) bool {
	return strings.Contains(e, "Client.Timeout") || strings.Contains(e, "deadline exceeded") || strings.Contains(e, "i/o timeout")
}

// Abandon sends the request over a raw connection and goes away: it reads at most `after`
// bytes of the response (0 = none: the connection is closed right after the request was
// written) and closes the connection. It reports how many bytes it had read.
func (c *Client) Abandon(rq Req, after int, wait time.Duration) (int, error) {
	u, err := url.Parse(c.Base)
	if err != nil {
		return 0, err
	}
	conn, err := net.DialTimeout("tcp", u.Host, 5*time.Second)
	if err != nil {
		return 0, err
	}
	defer conn.Close()
	c.LastAbandonAddr = conn.LocalAddr().String()
	var buf bytes.Buffer
	m := rq.Method
	if m == "" {
		m = "GET"
	}
	fmt.Fprintf(&buf, "%s %s HTTP/1.1\r\nHost: %s\r\n", m, rq.Target(), u.Host)
	if rq.CType != "" {
		fmt.Fprintf(&buf, "Content-Type: %s\r\n", rq.CType)
	}
	for k, v := range rq.Header {
		fmt.Fprintf(&buf, "%s: %s\r\n", k, v)
	}
	if rq.Body != "" || m == "POST" {
		fmt.Fprintf(&buf, "Content-Length: %d\r\n", len(rq.Body))
	}
	buf.WriteString("\r\n")
	buf.WriteString(rq.Body)
	conn.SetDeadline(time.Now().Add(wait))
	if _, err := conn.Write(buf.Bytes()); err != nil {
		return 0, err
	}
	if after <= 0 {
		return 0, nil
	}
	br := bufio.NewReader(conn)
	n := 0
	tmp := make([]byte, 512)
	for n < after {
		k, err := br.Read(tmp[:min(len(tmp), after-n)])
		n += k
		if err != nil {
			return n, nil
		}
	}
	return n, nil
}

type slowBody struct{ r io.Reader }

func (s *slowBody) Read(p []byte) (int, error) {
	if len(p) > 16<<10 {
		p = p[:16<<10]
	}
	n, err := s.r.Read(p)
	time.Sleep(time.Millisecond)
	return n, err
}
