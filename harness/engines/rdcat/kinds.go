// Package rdcat is the catalogue of qryn's read endpoints used by C12 and C15: how a request
// is built, which statements it issues against the database, which columns (names and Go
// types) the reader's rows.Scan expects for each of them, generators of well-shaped scripted
// result sets that honour the ORDER BY contract of the statement, and validators of the
// response documents.
package rdcat

import (
	"strings"
)

// Kind identifies a statement by the shape of the result set the reader scans from it.
type Kind string

const (
	KStreams     Kind = "logs.streams"       // shared.ClickhouseGetterPlanner.Scan
	KMatrix      Kind = "logs.matrix"        // shared.ClickhouseGetterPlanner.ScanMatrix
	KLabelKeys   Kind = "labels.keys"        // QueryLabelsService.GenericLabelReq
	KLabelVals   Kind = "labels.values"      // QueryLabelsService.GenericLabelReq
	KSeries      Kind = "labels.series"      // QueryLabelsService.Series
	KPromSamples Kind = "prom.samples"       // CLokiQuerier.Select
	KPromLabels  Kind = "prom.labels"        // labelsGetter.Fetch
	KTraceSpans  Kind = "tempo.spans"        // TempoService.OutputQuery
	KTempoKeys   Kind = "tempo.tag.keys"     // TempoService.Tags, allTagsV2RequestProcessor, SimpleTagsV2RequestProcessor
	KTempoVals   Kind = "tempo.tag.values"   // TempoService.Values, SimpleTagsV2RequestProcessor
	KTempoSearch Kind = "tempo.search"       // TempoService.Search
	KTQLCount    Kind = "traceql.complexity" // TraceQLComplexityEvaluator.Process
	KTQLTraces   Kind = "traceql.traces"     // TraceQLRequestProcessor.Process
	KProfTypes   Kind = "prof.types"         // ProfService.ProfileTypes
	KProfNames   Kind = "prof.label.names"   // ProfService.LabelNames
	KProfVals    Kind = "prof.label.values"  // ProfService.LabelValues
	KProfTree    Kind = "prof.tree"          // ProfService.getTree
	KProfPoints  Kind = "prof.points"        // ProfService.SelectSeries
	KProfPayload Kind = "prof.payload"       // ProfService.MergeProfiles
	KProfSeries  Kind = "prof.series"        // ProfService.TimeSeries
	KProfStats   Kind = "prof.stats"         // ProfService.ProfileStats
	KProfAnalyze Kind = "prof.analyze"       // ProfService.AnalyzeQuery
	KUnknown     Kind = "unknown"
)

// Col is one column of a result set: the name the statement gives it and the Go type the
// reader scans it into.
type Col struct {
	Name string
	// Type: u64 i64 i8 f64 str bytes map(map[string]string) pairs([][]any{{string,string}})
	// strs([]string) i64s([]int64) any2([]any{string,string}) tree([][]any{u64,u64,u64,i64,i64})
	// funcs([][]any{u64,string})
	Type string
}

// Columns gives, for every statement kind, the columns in scan order.
var Columns = map[Kind][]Col{
	KStreams:     {{"fingerprint", "u64"}, {"labels", "map"}, {"string", "str"}, {"timestamp_ns", "i64"}},
	KMatrix:      {{"fingerprint", "u64"}, {"labels", "map"}, {"value", "f64"}, {"timestamp_ns", "i64"}},
	KLabelKeys:   {{"key", "str"}},
	KLabelVals:   {{"val", "str"}},
	KSeries:      {{"labels", "str"}},
	KPromSamples: {{"fingerprint", "u64"}, {"value", "f64"}, {"timestamp_ms", "i64"}},
	KPromLabels:  {{"fingerprint", "u64"}, {"labels", "pairs"}},
	KTraceSpans:  {{"trace_id", "str"}, {"span_id", "str"}, {"parent_id", "str"}, {"timestamp_ns", "i64"}, {"duration_ns", "i64"}, {"payload_type", "i8"}, {"payload", "str"}},
	KTempoKeys:   {{"key", "str"}},
	KTempoVals:   {{"val", "str"}},
	KTempoSearch: {{"hex(trace_id)", "str"}, {"root_service_name", "str"}, {"root_trace_name", "str"}, {"start_time_unix_nano", "i64"}, {"duration_ms", "i64"}},
	KTQLCount:    {{"_count", "i64"}},
	KTQLTraces:   {{"trace_id", "str"}, {"span_id", "strs"}, {"duration", "i64s"}, {"timestamp_ns", "i64s"}, {"start_time_unix_nano", "i64"}, {"duration_ms", "f64"}, {"root_service_name", "str"}, {"root_trace_name", "str"}},
	KProfTypes:   {{"type_id", "str"}, {"sample_type_unit", "any2"}},
	KProfNames:   {{"key", "str"}},
	KProfVals:    {{"val", "str"}},
	KProfTree:    {{"_tree", "tree"}, {"_functions", "funcs"}},
	KProfPoints:  {{"timestamp_ms", "i64"}, {"fingerprint", "u64"}, {"labels", "pairs"}, {"value", "f64"}},
	KProfPayload: {{"payload", "bytes"}},
	KProfSeries:  {{"tags", "pairs"}, {"type_id", "str"}, {"__sample_types_units", "any2"}},
	KProfStats:   {{"non_empty", "i8"}, {"min_date", "i64"}, {"min_time", "i64"}},
	KProfAnalyze: {{"profile_size", "i64"}, {"fingerprint_count", "i64"}},
	KUnknown:     {{"c0", "str"}},
}

// ColNames returns the column names of a kind.
func ColNames(k Kind) []string {
	cs := Columns[k]
	out := make([]string, len(cs))
	for i, c := range cs {
		out[i] = c.Name
	}
	return out
}

// FinalSelect returns the text of the last SELECT at parenthesis depth 0 (the statement whose
// select list determines the result columns), skipping string literals.
func FinalSelect(s string) string {
	depth, last := 0, -1
	for i := 0; i < len(s); i++ {
		switch s[i] {
		case '\'':
			i++
			for i < len(s) && s[i] != '\'' {
				if s[i] == '\\' {
					i++
				}
				i++
			}
		case '(':
			depth++
		case ')':
			depth--
		case 'S', 's':
			if depth == 0 && len(s)-i >= 6 && strings.EqualFold(s[i:i+6], "SELECT") {
				last = i
			}
		}
	}
	if last < 0 {
		return s
	}
	return s[last:]
}

// selectList cuts the select list out of the final select ("SELECT [DISTINCT] <list> FROM").
func selectList(fs string) (list string, from string) {
	if len(fs) < len("SELECT") || !strings.EqualFold(fs[:6], "SELECT") {
		return "", ""
	}
	t := strings.TrimSpace(fs[len("SELECT"):])
	if strings.HasPrefix(strings.ToUpper(t), "DISTINCT") {
		t = strings.TrimSpace(t[len("DISTINCT"):])
	}
	depth := 0
	for i := 0; i < len(t); i++ {
		switch t[i] {
		case '\'':
			i++
			for i < len(t) && t[i] != '\'' {
				if t[i] == '\\' {
					i++
				}
				i++
			}
		case '(':
			depth++
		case ')':
			depth--
		case ' ':
			if depth == 0 && strings.HasPrefix(t[i:], " FROM ") {
				return strings.TrimSpace(t[:i]), strings.TrimSpace(t[i+6:])
			}
		}
	}
	return t, ""
}

// Classify maps a statement the reader issued to the kind of result set it scans from it.
func Classify(sql string) Kind {
	fs := FinalSelect(sql)
	list, from := selectList(fs)
	has := func(s string) bool { return strings.Contains(list, s) }
	switch {
	case has("prefinal.string as string"):
		return KStreams
	case has("prefinal.value as value"):
		return KMatrix
	case list == "_count as _count":
		return KTQLCount
	case has("lower(hex(traces.trace_id)) as trace_id"):
		return KTQLTraces
	case has("labels.new_fingerprint as fingerprint") && has("as timestamp_ms"):
		return KProfPoints
	case has("as timestamp_ms") && (strings.HasPrefix(list, "samples.fingerprint") || strings.HasPrefix(list, "fingerprint")):
		return KPromSamples
	case has("JSONExtractKeysAndValues(labels, 'String')") && strings.HasPrefix(list, "fingerprint"):
		return KPromLabels
	case list == "labels as labels":
		return KSeries
	case strings.HasPrefix(list, "trace_id, span_id, parent_id"):
		return KTraceSpans
	case strings.HasPrefix(list, "hex(trace_id)"):
		return KTempoSearch
	case list == "type_id, sample_type_unit":
		return KProfTypes
	case list == "payload":
		return KProfPayload
	case has("groupArray(tree)"):
		return KProfTree
	case has("as tags") && has("type_id as type_id"):
		return KProfSeries
	case has("any(non_empty)"):
		return KProfStats
	case list == "val" || list == "val as val":
		switch {
		case strings.Contains(from, "tempo_traces"):
			return KTempoVals
		case strings.Contains(from, "profiles"):
			return KProfVals
		}
		return KLabelVals
	case list == "key" || list == "key as key":
		switch {
		case strings.Contains(from, "tempo_traces"):
			return KTempoKeys
		case strings.Contains(from, "profiles"):
			return KProfNames
		}
		return KLabelKeys
	}
	if has("as profile_size") && has("as fingerprint_count") {
		return KProfAnalyze
	}
	return KUnknown
}
