package rdcat

import (
	"bytes"
	"encoding/json"
	"fmt"
	"math"
	"math/big"
	"sort"
	"strconv"
	"strings"
)

// Finding is one way a response body fails the documented shape. Rule is stable (it is part
// of known-finding signatures); Detail is for humans.
type Finding struct {
	Rule   string
	Detail string
}

func (f Finding) String() string { return f.Rule + ": " + f.Detail }

func clipS(s string, n int) string {
	if len(s) > n {
		return s[:n] + "…"
	}
	return s
}

// DecodeStrict decodes the body as exactly one JSON document (numbers kept as text).
func DecodeStrict(body []byte) (any, *Finding) {
	dec := json.NewDecoder(bytes.NewReader(body))
	dec.UseNumber()
	var v any
	if err := dec.Decode(&v); err != nil {
		off := dec.InputOffset()
		lo, hi := max(0, int(off)-60), min(len(body), int(off)+40)
		return nil, &Finding{"invalid-json", fmt.Sprintf("%v (offset %d of %d, near %q)", err, off, len(body), body[lo:hi])}
	}
	// everything after the document must be white space
	after := body[dec.InputOffset():]
	if len(bytes.TrimSpace(after)) != 0 {
		return nil, &Finding{"trailing-data", fmt.Sprintf("%d bytes follow the document: %q", len(after), clipS(string(after), 80))}
	}
	return v, nil
}

func obj(v any) (map[string]any, bool) { m, ok := v.(map[string]any); return m, ok }
func arr(v any) ([]any, bool) {
	if v == nil {
		return nil, false
	}
	a, ok := v.([]any)
	return a, ok
}

// LabelKey is the identity of a label set as a JSON consumer sees it.
func LabelKey(m map[string]string) string {
	ks := make([]string, 0, len(m))
	for k, v := range m {
		ks = append(ks, JSONDecoded(k)+"\x00"+JSONDecoded(v))
	}
	sort.Strings(ks)
	return strings.Join(ks, "\x01")
}

func pairsMap(p [][2]string) map[string]string {
	m := map[string]string{}
	for _, kv := range p {
		m[kv[0]] = kv[1]
	}
	return m
}

func decodedLabelKey(v any) (string, bool) {
	m, ok := obj(v)
	if !ok {
		return "", false
	}
	ks := make([]string, 0, len(m))
	for k, x := range m {
		s, ok := x.(string)
		if !ok {
			return "", false
		}
		ks = append(ks, k+"\x00"+s)
	}
	sort.Strings(ks)
	return strings.Join(ks, "\x01"), true
}

// envelope checks {"status":"success","data":{"resultType":rt,"result":[...]}}.
func envelope(doc any, rt string) ([]any, *Finding) {
	top, ok := obj(doc)
	if !ok {
		return nil, &Finding{"shape", "top level is not an object"}
	}
	if s, _ := top["status"].(string); s != "success" {
		return nil, &Finding{"shape", fmt.Sprintf("status is %v", top["status"])}
	}
	data, ok := obj(top["data"])
	if !ok {
		return nil, &Finding{"shape", "data is not an object"}
	}
	if s, _ := data["resultType"].(string); s != rt {
		return nil, &Finding{"shape", fmt.Sprintf("resultType is %v, want %s", data["resultType"], rt)}
	}
	res, ok := arr(data["result"])
	if !ok {
		return nil, &Finding{"shape", fmt.Sprintf("result is %T, not an array", data["result"])}
	}
	return res, nil
}

// decimalNs parses a JSON number of seconds ("1700000000.123000", "1700000000", "1.7e9") to ns exactly.
func decimalNs(s string) (int64, bool) {
	if strings.ContainsAny(s, "eE") {
		f, err := strconv.ParseFloat(s, 64)
		if err != nil || f != math.Trunc(f) || math.Abs(f) > 9e9 {
			return 0, false
		}
		return int64(f) * 1e9, true
	}
	neg := strings.HasPrefix(s, "-")
	s = strings.TrimPrefix(s, "-")
	ip, fp, _ := strings.Cut(s, ".")
	sec, err := strconv.ParseInt(ip, 10, 64)
	if err != nil || sec > 9e9 {
		return 0, false
	}
	for len(fp) < 9 {
		fp += "0"
	}
	if strings.Trim(fp[9:], "0") != "" {
		return 0, false
	}
	frac, err := strconv.ParseInt(fp[:9], 10, 64)
	if err != nil {
		return 0, false
	}
	ns := sec*1e9 + frac
	if neg {
		ns = -ns
	}
	return ns, true
}

func sameFloat(rendered string, want float64) bool {
	got, err := strconv.ParseFloat(rendered, 64)
	if err != nil {
		return false
	}
	if math.IsNaN(want) {
		return math.IsNaN(got)
	}
	return got == want
}

// ---------- Loki streams ----------

// ValidateStreams checks a streams document against the scripted series.
func ValidateStreams(body []byte, ss []LogSeries) []Finding {
	doc, f := DecodeStrict(body)
	if f != nil {
		return []Finding{*f}
	}
	res, f := envelope(doc, "streams")
	if f != nil {
		return []Finding{*f}
	}
	want := map[string]*LogSeries{}
	for i := range ss {
		if len(ss[i].Rows) > 0 {
			want[LabelKey(ss[i].Labels)] = &ss[i]
		}
	}
	var out []Finding
	seen := map[string]int{}
	for i, e := range res {
		o, ok := obj(e)
		if !ok {
			out = append(out, Finding{"shape", fmt.Sprintf("result[%d] is %T, not a stream object", i, e)})
			continue
		}
		key, ok := decodedLabelKey(o["stream"])
		if !ok {
			out = append(out, Finding{"shape", fmt.Sprintf("result[%d].stream is not an object of strings", i)})
			continue
		}
		if _, ok := arr(o["values"]); !ok {
			out = append(out, Finding{"shape", fmt.Sprintf("result[%d].values is not an array", i)})
			continue
		}
		seen[key]++
		if seen[key] == 2 {
			out = append(out, Finding{"duplicate-stream-object", fmt.Sprintf("two result objects carry the label set %q", key)})
		}
		if want[key] == nil {
			out = append(out, Finding{"unknown-series", fmt.Sprintf("result[%d] has label set %q which no scripted series has", i, key)})
		}
	}
	// rows: collect over all objects of a label set (so that a split stream is reported once, as a duplicate object)
	got := map[string]map[string]int{}
	for _, e := range res {
		o, _ := obj(e)
		key, ok := decodedLabelKey(o["stream"])
		vals, ok2 := arr(o["values"])
		if !ok || !ok2 {
			continue
		}
		if got[key] == nil {
			got[key] = map[string]int{}
		}
		for j, v := range vals {
			p, ok := arr(v)
			if !ok || len(p) != 2 {
				out = append(out, Finding{"shape", fmt.Sprintf("value %d of stream %q is not a [ts, line] pair", j, key)})
				continue
			}
			ts, ok1 := p[0].(string)
			line, ok2 := p[1].(string)
			if !ok1 || !ok2 {
				out = append(out, Finding{"shape", fmt.Sprintf("value %d of stream %q is not a pair of strings", j, key)})
				continue
			}
			got[key][ts+"\x00"+line]++
		}
	}
	for key, s := range want {
		if seen[key] == 0 {
			out = append(out, Finding{"missing-series", fmt.Sprintf("scripted series fp=%d %q (%d rows) is not in the result", s.Fp, key, len(s.Rows))})
			continue
		}
		exp := map[string]int{}
		for _, r := range s.Rows {
			exp[strconv.FormatInt(r.TsNs, 10)+"\x00"+JSONDecoded(r.Line)]++
		}
		for k, n := range exp {
			switch g := got[key][k]; {
			case g == 0:
				out = append(out, Finding{"row-missing", fmt.Sprintf("series %q: row %q was returned by the database but is not in the document", key, clipS(k, 80))})
			case g > n:
				out = append(out, Finding{"row-duplicated", fmt.Sprintf("series %q: row %q appears %d times, scripted %d", key, clipS(k, 80), g, n)})
			case g < n:
				out = append(out, Finding{"row-missing", fmt.Sprintf("series %q: row %q appears %d times, scripted %d", key, clipS(k, 80), g, n)})
			}
		}
		for k := range got[key] {
			if exp[k] == 0 {
				out = append(out, Finding{"row-unexpected", fmt.Sprintf("series %q: the document has entry %q which is no scripted row (timestamp or line altered)", key, clipS(k, 80))})
			}
		}
	}
	return dedupe(out)
}

func dedupe(fs []Finding) []Finding {
	seen := map[string]int{}
	var out []Finding
	for _, f := range fs {
		seen[f.Rule]++
		if seen[f.Rule] <= 3 {
			out = append(out, f)
		}
	}
	return out
}

// ---------- matrix (Loki and Prometheus) ----------

// Point is one scripted sample.
type Point struct {
	TsNs int64
	V    float64
}

// MatrixSeries is a scripted series of a matrix/vector endpoint.
type MatrixSeries struct {
	Key    string // LabelKey
	Points []Point
	Name   string
}

// MatrixOpts describes the resampling between database rows and document points.
type MatrixOpts struct {
	// a point that is not a scripted row is accepted when it repeats the value of the latest
	// scripted row of the series that lies at most FillNs before it (range fill / lookback)
	FillNs int64
	// all timestamps must lie on FromNs + k*StepNs (0 = not checked)
	FromNs, StepNs int64
	// rows with value 0 are dropped by design (Loki "zero eater")
	ZeroDropped bool
	// ShapeOnly: the values are computed by the reader (Go-side aggregation): only the
	// document shape, one object per series and the timestamp order are judged
	ShapeOnly bool
}

func parsePoint(v any) (int64, string, bool) {
	p, ok := arr(v)
	if !ok || len(p) != 2 {
		return 0, "", false
	}
	n, ok := p[0].(json.Number)
	if !ok {
		return 0, "", false
	}
	val, ok := p[1].(string)
	if !ok {
		return 0, "", false
	}
	ts, ok := decimalNs(string(n))
	if !ok {
		return 0, "", false
	}
	return ts, val, true
}

// ValidateMatrix checks a matrix document.
func ValidateMatrix(body []byte, ss []MatrixSeries, o MatrixOpts) []Finding {
	doc, f := DecodeStrict(body)
	if f != nil {
		return []Finding{*f}
	}
	res, f := envelope(doc, "matrix")
	if f != nil {
		return []Finding{*f}
	}
	want := map[string]*MatrixSeries{}
	for i := range ss {
		want[ss[i].Key] = &ss[i]
	}
	var out []Finding
	seen := map[string]int{}
	for i, e := range res {
		eo, ok := obj(e)
		if !ok {
			out = append(out, Finding{"shape", fmt.Sprintf("result[%d] is %T, not a series object", i, e)})
			continue
		}
		key, ok := decodedLabelKey(eo["metric"])
		if !ok {
			out = append(out, Finding{"shape", fmt.Sprintf("result[%d].metric is not an object of strings", i)})
			continue
		}
		vals, ok := arr(eo["values"])
		if !ok {
			out = append(out, Finding{"shape", fmt.Sprintf("result[%d].values is not an array", i)})
			continue
		}
		seen[key]++
		if seen[key] == 2 {
			out = append(out, Finding{"duplicate-series-object", fmt.Sprintf("two result objects carry the label set %q", key)})
		}
		s := want[key]
		if s == nil {
			out = append(out, Finding{"unknown-series", fmt.Sprintf("result[%d] has label set %q which no scripted series has", i, key)})
			continue
		}
		if seen[key] > 1 {
			continue
		}
		// the scripted rows that must be visible
		var rows []Point
		for _, p := range s.Points {
			if o.ZeroDropped && p.V == 0 {
				continue
			}
			rows = append(rows, p)
		}
		sort.SliceStable(rows, func(a, b int) bool { return rows[a].TsNs < rows[b].TsNs })
		hit := make([]int, len(rows))
		last := int64(math.MinInt64)
		for j, v := range vals {
			ts, val, ok := parsePoint(v)
			if !ok {
				b, _ := json.Marshal(v)
				out = append(out, Finding{"shape", fmt.Sprintf("series %q value %d is not [seconds, \"value\"]: %s", key, j, clipS(string(b), 80))})
				continue
			}
			if _, perr := strconv.ParseFloat(val, 64); perr != nil {
				out = append(out, Finding{"shape", fmt.Sprintf("series %q value %d: %q is not a number (NaN, +Inf and -Inf are written as such)", key, j, clipS(val, 40))})
				continue
			}
			if ts <= last {
				out = append(out, Finding{"timestamp-order", fmt.Sprintf("series %q: timestamp %d follows %d (duplicate or out of order)", key, ts, last)})
			}
			last = ts
			if o.StepNs > 0 && (ts-o.FromNs)%o.StepNs != 0 {
				out = append(out, Finding{"timestamp-loss", fmt.Sprintf("series %q: timestamp %d ns is not on the step grid %d+k*%d", key, ts, o.FromNs, o.StepNs)})
			}
			if o.ShapeOnly {
				continue
			}
			// latest scripted row at or before ts
			k := sort.Search(len(rows), func(i int) bool { return rows[i].TsNs > ts }) - 1
			if k < 0 || ts-rows[k].TsNs > o.FillNs {
				out = append(out, Finding{"row-unexpected", fmt.Sprintf("series %q: point at %d ns (value %s) has no scripted row within %d ns before it", key, ts, val, o.FillNs)})
				continue
			}
			if !sameFloat(val, rows[k].V) {
				rule := "row-unexpected"
				if rows[k].TsNs == ts {
					rule = "value-loss"
				}
				out = append(out, Finding{rule, fmt.Sprintf("series %q: point at %d ns renders %q, the database returned %s (%s) at %d ns", key, ts, clipS(val, 60), fmtFloat(rows[k].V), FloatClass(rows[k].V), rows[k].TsNs)})
				if rows[k].TsNs == ts {
					hit[k]++
				}
				continue
			}
			if rows[k].TsNs == ts {
				hit[k]++
			}
		}
		for k, n := range hit {
			if n == 0 && !o.ShapeOnly {
				out = append(out, Finding{"row-missing", fmt.Sprintf("series %q: row (%d ns, %s) was returned by the database but no point carries its timestamp", key, rows[k].TsNs, fmtFloat(rows[k].V))})
			}
		}
	}
	for key, s := range want {
		need := false
		for _, p := range s.Points {
			if !(o.ZeroDropped && p.V == 0) {
				need = true
			}
		}
		if need && seen[key] == 0 {
			out = append(out, Finding{"missing-series", fmt.Sprintf("scripted series %s %q (%d rows) is not in the result", s.Name, key, len(s.Points))})
		}
	}
	return dedupe(out)
}

// ValidateVector checks an instant vector: one object per series whose value is the latest
// visible row of the series; the timestamp lies in [row, row+FillNs] (Loki) or equals EvalNs.
func ValidateVector(body []byte, ss []MatrixSeries, o MatrixOpts, evalNs int64) []Finding {
	doc, f := DecodeStrict(body)
	if f != nil {
		return []Finding{*f}
	}
	res, f := envelope(doc, "vector")
	if f != nil {
		return []Finding{*f}
	}
	want := map[string]*MatrixSeries{}
	for i := range ss {
		want[ss[i].Key] = &ss[i]
	}
	var out []Finding
	seen := map[string]int{}
	for i, e := range res {
		eo, ok := obj(e)
		if !ok {
			out = append(out, Finding{"shape", fmt.Sprintf("result[%d] is %T, not a sample object", i, e)})
			continue
		}
		key, ok := decodedLabelKey(eo["metric"])
		if !ok {
			out = append(out, Finding{"shape", fmt.Sprintf("result[%d].metric is not an object of strings", i)})
			continue
		}
		ts, val, ok := parsePoint(eo["value"])
		if !ok {
			b, _ := json.Marshal(eo["value"])
			out = append(out, Finding{"shape", fmt.Sprintf("result[%d].value is not [seconds, \"value\"]: %s", i, clipS(string(b), 80))})
			continue
		}
		seen[key]++
		if seen[key] == 2 {
			out = append(out, Finding{"duplicate-series-object", fmt.Sprintf("two result objects carry the label set %q", key)})
		}
		s := want[key]
		if s == nil {
			out = append(out, Finding{"unknown-series", fmt.Sprintf("result[%d] has label set %q which no scripted series has", i, key)})
			continue
		}
		var lastP *Point
		for j := range s.Points {
			p := &s.Points[j]
			if o.ZeroDropped && p.V == 0 {
				continue
			}
			if evalNs != 0 && p.TsNs > evalNs {
				continue
			}
			if lastP == nil || p.TsNs >= lastP.TsNs {
				lastP = p
			}
		}
		if lastP == nil {
			out = append(out, Finding{"row-unexpected", fmt.Sprintf("series %q has no visible row but appears with value %s", key, val)})
			continue
		}
		if !sameFloat(val, lastP.V) {
			out = append(out, Finding{"value-loss", fmt.Sprintf("series %q renders %q, its latest row is %s (%s)", key, clipS(val, 60), fmtFloat(lastP.V), FloatClass(lastP.V))})
		}
		if evalNs != 0 {
			if ts != evalNs {
				out = append(out, Finding{"timestamp-loss", fmt.Sprintf("series %q: timestamp %d ns, evaluation time %d ns", key, ts, evalNs)})
			}
		} else if ts < lastP.TsNs/1e9*1e9 || ts > lastP.TsNs+o.FillNs {
			out = append(out, Finding{"timestamp-loss", fmt.Sprintf("series %q: timestamp %d ns, latest row at %d ns", key, ts, lastP.TsNs)})
		}
	}
	for key, s := range want {
		need := false
		for _, p := range s.Points {
			if !(o.ZeroDropped && p.V == 0) && (evalNs == 0 || p.TsNs <= evalNs) {
				need = true
			}
		}
		if need && seen[key] == 0 {
			out = append(out, Finding{"missing-series", fmt.Sprintf("scripted series %s %q is not in the result", s.Name, key)})
		}
	}
	return dedupe(out)
}

// ValidateScalar checks a Prometheus scalar result [seconds, "value"].
func ValidateScalar(body []byte, want float64, evalNs int64) []Finding {
	doc, f := DecodeStrict(body)
	if f != nil {
		return []Finding{*f}
	}
	res, f := envelope(doc, "scalar")
	if f != nil {
		return []Finding{*f}
	}
	ts, val, ok := parsePoint(any(res))
	if !ok {
		b, _ := json.Marshal(res)
		return []Finding{{"shape", "scalar result is not [seconds, \"value\"]: " + clipS(string(b), 80)}}
	}
	var out []Finding
	if !sameFloat(val, want) {
		out = append(out, Finding{"value-loss", fmt.Sprintf("scalar renders %q, the value is %s (%s)", clipS(val, 60), fmtFloat(want), FloatClass(want))})
	}
	if ts != evalNs {
		out = append(out, Finding{"timestamp-loss", fmt.Sprintf("scalar timestamp %d ns, evaluation time %d ns", ts, evalNs)})
	}
	return out
}

// ---------- lists ----------

// ValidateStringList checks {"status":"success","data":[...]} (field = "data") or Tempo's
// {"tagNames":[...]} / {"tagValues":[...]}: the list is exactly the scripted one, in order.
func ValidateStringList(body []byte, field string, want []string) []Finding {
	doc, f := DecodeStrict(body)
	if f != nil {
		return []Finding{*f}
	}
	top, ok := obj(doc)
	if !ok {
		return []Finding{{"shape", "top level is not an object"}}
	}
	if field == "data" {
		if s, _ := top["status"].(string); s != "success" {
			return []Finding{{"shape", fmt.Sprintf("status is %v", top["status"])}}
		}
	}
	var list []any
	if top[field] != nil {
		list, ok = arr(top[field])
		if !ok {
			return []Finding{{"shape", field + " is not an array"}}
		}
	} else if _, present := top[field]; !present {
		return []Finding{{"shape", field + " is absent"}}
	}
	var got []string
	for i, v := range list {
		s, ok := v.(string)
		if !ok {
			return []Finding{{"shape", fmt.Sprintf("%s[%d] is %T, not a string", field, i, v)}}
		}
		got = append(got, s)
	}
	return compareLists(got, want)
}

func compareLists(got, want []string) []Finding {
	exp := map[string]int{}
	for _, w := range want {
		exp[JSONDecoded(w)]++
	}
	have := map[string]int{}
	for _, g := range got {
		have[g]++
	}
	var out []Finding
	for k, n := range exp {
		switch g := have[k]; {
		case g < n:
			out = append(out, Finding{"row-missing", fmt.Sprintf("value %q was returned %d time(s) by the database, appears %d time(s) (%s)", clipS(k, 60), n, g, StrClass(k))})
		case g > n:
			out = append(out, Finding{"row-duplicated", fmt.Sprintf("value %q was returned %d time(s) by the database, appears %d time(s)", clipS(k, 60), n, g)})
		}
	}
	for k := range have {
		if exp[k] == 0 {
			out = append(out, Finding{"row-unexpected", fmt.Sprintf("value %q is in the document but was not returned by the database (altered string)", clipS(k, 60))})
		}
	}
	return dedupe(out)
}

// ValidateSeriesList checks {"status":"success","data":[{labels}...]} against the label
// documents the database returned.
func ValidateSeriesList(body []byte, want []map[string]string) []Finding {
	doc, f := DecodeStrict(body)
	if f != nil {
		return []Finding{*f}
	}
	top, ok := obj(doc)
	if !ok {
		return []Finding{{"shape", "top level is not an object"}}
	}
	if s, _ := top["status"].(string); s != "success" {
		return []Finding{{"shape", fmt.Sprintf("status is %v", top["status"])}}
	}
	list, ok := arr(top["data"])
	if !ok {
		return []Finding{{"shape", "data is not an array"}}
	}
	var got, exp []string
	for i, v := range list {
		k, ok := decodedLabelKey(v)
		if !ok {
			return []Finding{{"shape", fmt.Sprintf("data[%d] is not an object of strings", i)}}
		}
		got = append(got, k)
	}
	for _, w := range want {
		exp = append(exp, LabelKey(w))
	}
	// LabelKey already applied the decoder's view; compare verbatim
	have := map[string]int{}
	for _, g := range got {
		have[g]++
	}
	var out []Finding
	need := map[string]int{}
	for _, e := range exp {
		need[e]++
	}
	for k, n := range need {
		if have[k] < n {
			out = append(out, Finding{"row-missing", fmt.Sprintf("label set %q returned by the database is not in the document", clipS(k, 80))})
		} else if have[k] > n {
			out = append(out, Finding{"row-duplicated", fmt.Sprintf("label set %q appears %d times, returned %d times", clipS(k, 80), have[k], n)})
		}
	}
	for k := range have {
		if need[k] == 0 {
			out = append(out, Finding{"row-unexpected", fmt.Sprintf("label set %q is in the document but was not returned by the database", clipS(k, 80))})
		}
	}
	return dedupe(out)
}

// ---------- Tempo ----------

func numStr(v any) (string, bool) {
	switch x := v.(type) {
	case json.Number:
		return string(x), true
	case string:
		return x, true
	}
	return "", false
}

// ValidateTrace checks the JSON trace document: one span object per row.
func ValidateTrace(body []byte, spans []Span) []Finding {
	doc, f := DecodeStrict(body)
	if f != nil {
		return []Finding{*f}
	}
	top, ok := obj(doc)
	if !ok {
		return []Finding{{"shape", "top level is not an object"}}
	}
	rs, ok := arr(top["resourceSpans"])
	if !ok || len(rs) == 0 {
		return []Finding{{"shape", "resourceSpans is not a non-empty array"}}
	}
	var got []map[string]any
	for _, r := range rs {
		ro, _ := obj(r)
		var groups []any
		for _, k := range []string{"instrumentationLibrarySpans", "scopeSpans"} {
			if a, ok := arr(ro[k]); ok {
				groups = append(groups, a...)
			}
		}
		for _, g := range groups {
			gobj, _ := obj(g)
			sp, ok := arr(gobj["spans"])
			if !ok {
				return []Finding{{"shape", "spans is not an array"}}
			}
			for _, s := range sp {
				so, ok := obj(s)
				if !ok {
					return []Finding{{"shape", "a span is not an object"}}
				}
				got = append(got, so)
			}
		}
	}
	var out []Finding
	have := map[string][]map[string]any{}
	for _, g := range got {
		id, _ := g["spanId"].(string)
		have[id] = append(have[id], g)
	}
	// a span id may occur in several rows of a trace (the client and server halves of one RPC in Zipkin's shared-span
	// model): rows are told apart by their start time
	want := map[string]int{}
	for _, s := range spans {
		want[s.SpanID]++
	}
	for _, s := range spans {
		gs := have[s.SpanID]
		if len(gs) < want[s.SpanID] {
			out = append(out, Finding{"row-missing", fmt.Sprintf("span id %s: %d rows stored (payload type %d, name %q), %d spans in the document", s.SpanID, want[s.SpanID], s.PayloadType, clipS(s.Name, 40), len(gs))})
			continue
		}
		if len(gs) > want[s.SpanID] {
			out = append(out, Finding{"row-duplicated", fmt.Sprintf("span %s appears %d times, %d rows stored", s.SpanID, len(gs), want[s.SpanID])})
		}
		g := gs[0]
		for _, cand := range gs {
			if st, _ := numStr(cand["startTimeUnixNano"]); st == strconv.FormatInt(s.TsNs, 10) {
				g = cand
			}
		}
		if t, _ := g["traceId"].(string); t != s.TraceID {
			out = append(out, Finding{"string-mismatch", fmt.Sprintf("span %s: traceId %q, stored %q", s.SpanID, t, s.TraceID)})
		}
		if n, _ := g["name"].(string); n != JSONDecoded(s.Name) {
			out = append(out, Finding{"string-mismatch", fmt.Sprintf("span %s: name %q, stored %q (%s)", s.SpanID, clipS(n, 60), clipS(s.Name, 60), StrClass(s.Name))})
		}
		if st, _ := numStr(g["startTimeUnixNano"]); st != strconv.FormatInt(s.TsNs, 10) {
			out = append(out, Finding{"timestamp-loss", fmt.Sprintf("span %s: startTimeUnixNano %s, stored %d", s.SpanID, st, s.TsNs)})
		}
		if et, _ := numStr(g["endTimeUnixNano"]); et != strconv.FormatInt(s.TsNs+s.DurNs, 10) {
			out = append(out, Finding{"timestamp-loss", fmt.Sprintf("span %s: endTimeUnixNano %s, stored %d", s.SpanID, et, s.TsNs+s.DurNs)})
		}
		attrs, _ := arr(g["attributes"])
		am := map[string]string{}
		for _, a := range attrs {
			ao, _ := obj(a)
			k, _ := ao["key"].(string)
			vo, _ := obj(ao["value"])
			v, _ := vo["stringValue"].(string)
			am[k] = v
		}
		for _, t := range s.Tags {
			if v, ok := am[JSONDecoded(t[0])]; !ok || v != JSONDecoded(t[1]) {
				out = append(out, Finding{"string-mismatch", fmt.Sprintf("span %s: attribute %q is %q (present %v), stored %q (%s)", s.SpanID, clipS(t[0], 40), clipS(v, 40), ok, clipS(t[1], 40), StrClass(t[0]+t[1]))})
			}
		}
		if s.PayloadType == 2 {
			for _, n := range s.Nums {
				v, ok := am[n.Key]
				if !ok {
					// rendered as a typed value instead of a string?
					for _, a := range attrs {
						ao, _ := obj(a)
						if k, _ := ao["key"].(string); k == n.Key {
							vo, _ := obj(ao["value"])
							for _, f := range []string{"intValue", "doubleValue"} {
								if x, has := vo[f]; has {
									v, ok = fmt.Sprint(x), true
								}
							}
						}
					}
				}
				bf, _, err := big.ParseFloat(strings.TrimSpace(v), 10, 300, big.ToNearestEven)
				want := new(big.Float).SetPrec(300)
				if n.IsInt {
					want.SetInt64(n.Int)
				} else {
					want.SetFloat64(n.Dbl)
				}
				same := err == nil && bf.Cmp(want) == 0
				if !n.IsInt {
					// a double is rendered without loss when the text reads back as the same double
					pf, perr := strconv.ParseFloat(strings.TrimSpace(v), 64)
					same = perr == nil && (pf == n.Dbl || pf != pf && n.Dbl != n.Dbl)
				}
				if !ok || !same {
					what := fmt.Sprintf("double %v", n.Dbl)
					if n.IsInt {
						what = fmt.Sprintf("int64 %d", n.Int)
					}
					out = append(out, Finding{"number-loss", fmt.Sprintf("span %s: numeric attribute %q is rendered %q (present %v), stored %s", s.SpanID, n.Key, clipS(v, 40), ok, what)})
				}
			}
		}
	}
	if len(got) > len(spans) && len(out) == 0 {
		out = append(out, Finding{"row-unexpected", fmt.Sprintf("%d spans in the document, %d rows returned", len(got), len(spans))})
	}
	return dedupe(out)
}

// ValidateSearch checks {"traces":[{traceID, rootServiceName, rootTraceName, startTimeUnixNano, durationMs}]}.
func ValidateSearch(body []byte, hits []TraceHit) []Finding {
	doc, f := DecodeStrict(body)
	if f != nil {
		return []Finding{*f}
	}
	top, ok := obj(doc)
	if !ok {
		return []Finding{{"shape", "top level is not an object"}}
	}
	list, ok := arr(top["traces"])
	if !ok {
		return []Finding{{"shape", "traces is not an array"}}
	}
	var got, want []string
	for i, t := range list {
		o, ok := obj(t)
		if !ok {
			return []Finding{{"shape", fmt.Sprintf("traces[%d] is not an object", i)}}
		}
		id, ok1 := o["traceID"].(string)
		sv, ok2 := o["rootServiceName"].(string)
		nm, ok3 := o["rootTraceName"].(string)
		st, ok4 := numStr(o["startTimeUnixNano"])
		du, ok5 := numStr(o["durationMs"])
		if !(ok1 && ok2 && ok3 && ok4 && ok5) {
			return []Finding{{"shape", fmt.Sprintf("traces[%d] lacks one of traceID/rootServiceName/rootTraceName/startTimeUnixNano/durationMs", i)}}
		}
		got = append(got, strings.Join([]string{id, sv, nm, st, du}, "\x00"))
	}
	for _, h := range hits {
		want = append(want, strings.Join([]string{h.TraceID, h.Service, h.Name, strconv.FormatInt(h.StartNs, 10), strconv.FormatInt(h.DurMs, 10)}, "\x00"))
	}
	return compareLists(got, want)
}

// ValidateTQL checks the TraceQL search document.
func ValidateTQL(body []byte, ts []TQLTrace) []Finding {
	doc, f := DecodeStrict(body)
	if f != nil {
		return []Finding{*f}
	}
	top, ok := obj(doc)
	if !ok {
		return []Finding{{"shape", "top level is not an object"}}
	}
	list, ok := arr(top["traces"])
	if !ok {
		return []Finding{{"shape", "traces is not an array"}}
	}
	var got, want []string
	for i, t := range list {
		o, ok := obj(t)
		if !ok {
			return []Finding{{"shape", fmt.Sprintf("traces[%d] is not an object", i)}}
		}
		id, ok1 := o["traceID"].(string)
		sv, ok2 := o["rootServiceName"].(string)
		nm, ok3 := o["rootTraceName"].(string)
		st, ok4 := numStr(o["startTimeUnixNano"])
		du, ok5 := o["durationMs"].(json.Number)
		ss, ok6 := obj(o["spanSet"])
		if !(ok1 && ok2 && ok3 && ok4 && ok5 && ok6) {
			return []Finding{{"shape", fmt.Sprintf("traces[%d] lacks one of traceID/rootServiceName/rootTraceName/startTimeUnixNano/durationMs/spanSet", i)}}
		}
		d, _ := strconv.ParseFloat(string(du), 64)
		sp, ok := arr(ss["spans"])
		if !ok && ss["spans"] != nil {
			return []Finding{{"shape", fmt.Sprintf("traces[%d].spanSet.spans is not an array", i)}}
		}
		var sps []string
		for _, s := range sp {
			so, _ := obj(s)
			a, _ := so["spanID"].(string)
			b, _ := so["startTimeUnixNano"].(string)
			c, _ := so["durationNanos"].(string)
			sps = append(sps, a+"/"+b+"/"+c)
		}
		sort.Strings(sps)
		got = append(got, strings.Join([]string{id, sv, nm, st, strconv.FormatUint(math.Float64bits(d), 16), strings.Join(sps, ",")}, "\x00"))
	}
	for _, t := range ts {
		var sps []string
		for i, id := range t.SpanIDs {
			d := strconv.FormatInt(t.DurNs[i], 10)
			if t.DurNs[i] == t.TsNs[i] {
				d = "n/a"
			}
			sps = append(sps, id+"/"+strconv.FormatInt(t.TsNs[i], 10)+"/"+d)
		}
		sort.Strings(sps)
		want = append(want, strings.Join([]string{t.TraceID, t.Service, t.Name, strconv.FormatInt(t.StartNs, 10), strconv.FormatUint(math.Float64bits(t.DurMs), 16), strings.Join(sps, ",")}, "\x00"))
	}
	return compareLists(got, want)
}

// ValidateTagsV2 checks {"scopes":[{"name":...,"tags":[...]}]}: the union of the scopes' tags is the scripted list.
func ValidateTagsV2(body []byte, want []string) []Finding {
	doc, f := DecodeStrict(body)
	if f != nil {
		return []Finding{*f}
	}
	top, ok := obj(doc)
	if !ok {
		return []Finding{{"shape", "top level is not an object"}}
	}
	scopes, ok := arr(top["scopes"])
	if !ok {
		return []Finding{{"shape", "scopes is not an array"}}
	}
	var got []string
	for i, s := range scopes {
		so, ok := obj(s)
		if !ok {
			return []Finding{{"shape", fmt.Sprintf("scopes[%d] is not an object", i)}}
		}
		if so["tags"] == nil {
			continue
		}
		tags, ok := arr(so["tags"])
		if !ok {
			return []Finding{{"shape", fmt.Sprintf("scopes[%d].tags is not an array", i)}}
		}
		for _, t := range tags {
			ts, ok := t.(string)
			if !ok {
				return []Finding{{"shape", "a tag is not a string"}}
			}
			got = append(got, ts)
		}
	}
	return compareLists(got, want)
}

// ValidateValuesV2 checks {"tagValues":[{"type":"string","value":v}]}.
func ValidateValuesV2(body []byte, want []string) []Finding {
	doc, f := DecodeStrict(body)
	if f != nil {
		return []Finding{*f}
	}
	top, ok := obj(doc)
	if !ok {
		return []Finding{{"shape", "top level is not an object"}}
	}
	var got []string
	if top["tagValues"] != nil {
		list, ok := arr(top["tagValues"])
		if !ok {
			return []Finding{{"shape", "tagValues is not an array"}}
		}
		for i, v := range list {
			vo, ok := obj(v)
			if !ok {
				return []Finding{{"shape", fmt.Sprintf("tagValues[%d] is not an object", i)}}
			}
			s, ok := vo["value"].(string)
			if !ok {
				return []Finding{{"shape", fmt.Sprintf("tagValues[%d].value is not a string", i)}}
			}
			got = append(got, s)
		}
	}
	return compareLists(got, want)
}
