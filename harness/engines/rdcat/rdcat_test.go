package rdcat

import (
	"context"
	"math/rand"
	"strings"
	"sync"
	"testing"
	"time"

	"verif/harness/engines/sqldrv"
)

// every canonical request is answered 200 when the database returns well-shaped rows of the
// catalogued kind, and every statement it issues is classified.
func TestCanonical(t *testing.T) {
	r := rand.New(rand.NewSource(1))
	var mu sync.Mutex
	seen := map[Kind]int{}
	var unknown []string
	sess := sqldrv.NewSession("rdcat-test", nil)
	sess.SetHandler(Handler(func(ctx context.Context, n int, k Kind, sql string) Answer {
		mu.Lock()
		defer mu.Unlock()
		seen[k]++
		if k == KUnknown {
			unknown = append(unknown, sql)
		}
		return OK(k, WellShaped(k, r, 3, FromS*1e9, ToS*1e9))
	}))
	rd := sqldrv.StartReader(sqldrv.NewRegistry(sess, ""), "")
	defer rd.Server.Close()
	cl := NewClient(rd.Server.URL, 10*time.Second)
	for _, e := range Endpoints {
		if e.WS {
			continue
		}
		before := sess.LogLen()
		resp := cl.Do(e.Canon)
		if resp.Status != 200 && !(resp.Status == 500 && strings.Contains(string(resp.Body), "invalid UTF-8")) { // protojson refuses hostile label bytes
			t.Errorf("%s: %s -> %d %s %.300s", e.Name, e.Canon, resp.Status, resp.Err, resp.Body)
		}
		time.Sleep(5 * time.Millisecond)
		kinds := map[Kind]bool{}
		for _, st := range sess.Statements(before) {
			if strings.Contains(st.SQL, "FROM settings") || strings.HasPrefix(st.SQL, "SHOW TABLES") {
				continue
			}
			kinds[Classify(st.SQL)] = true
		}
		for k := range kinds {
			if k == KUnknown {
				continue
			}
			ok := false
			for _, ek := range e.Kinds {
				ok = ok || ek == k
			}
			if !ok {
				t.Errorf("%s issued a %s statement that the catalogue does not list", e.Name, k)
			}
		}
		if open := sess.OpenRows(); len(open) > 0 {
			t.Errorf("%s left rows open: %.200s", e.Name, open[0])
		}
		t.Logf("%-28s %d %d bytes kinds=%v", e.Name, resp.Status, len(resp.Body), kinds)
	}
	for _, u := range unknown {
		t.Errorf("unclassified statement: %.400s", u)
	}
	t.Logf("kinds seen: %v", seen)
}

func TestGenerators(t *testing.T) {
	r := rand.New(rand.NewSource(2))
	classes := map[string]bool{}
	for i := 0; i < 5000; i++ {
		e := PickEndpoint(r)
		g := e.Gen(r)
		classes[g.Class()] = true
	}
	if len(classes) < 500 {
		t.Errorf("only %d request classes", len(classes))
	}
	t.Logf("%d classes in 5000 requests", len(classes))
}
