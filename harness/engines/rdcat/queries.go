package rdcat

import (
	"fmt"
	"math/rand"
	"strings"
)

// Query generators: grammar-directed texts for the four query languages of the read side,
// a mutator and a random-bytes source. Every generator returns the text and a shape class.

func pick(r *rand.Rand, xs ...string) string { return xs[r.Intn(len(xs))] }

var lblNames = []string{"a", "job", "level", "app", "x_y", "__name__", "service_name", "n"}
var lblValues = []string{"b", "x", "", "err", "a.*", "(?i)lit", "1", "5.5", `q"uote`, `back\\slash`, "é", ".+", "[", "(", "a|b", "\\d+"}
var durations = []string{"5s", "10s", "1m", "1h", "15s", "0s", "1ms", "1ns", "100y", "9999999h", "1d", "1w", "5m", "30s", "1s"}

func quoteLit(r *rand.Rand, s string) string {
	if r.Intn(8) == 0 {
		return "`" + strings.ReplaceAll(s, "`", "") + "`"
	}
	return `"` + strings.ReplaceAll(s, `"`, `\"`) + `"`
}

func matcher(r *rand.Rand) string {
	return pick(r, lblNames...) + pick(r, "=", "!=", "=~", "!~") + quoteLit(r, pick(r, lblValues...))
}

func selector(r *rand.Rand) string {
	n := 1 + r.Intn(3)
	ms := make([]string, n)
	for i := range ms {
		ms[i] = matcher(r)
	}
	return "{" + strings.Join(ms, pick(r, ",", ", ")) + "}"
}

func logPipeline(r *rand.Rand) (string, bool) {
	var sb strings.Builder
	goSide := false
	for i := 0; i < r.Intn(4); i++ {
		switch r.Intn(10) {
		case 0, 1:
			sb.WriteString(" " + pick(r, "|=", "!=", "|~", "!~") + " " + quoteLit(r, pick(r, lblValues...)))
		case 2:
			sb.WriteString(" | json")
			goSide = true
		case 3:
			sb.WriteString(` | json ` + pick(r, "x", "v") + `="` + pick(r, "a.b[0].c", "v", "a", "[0]", "a..b", `a[\"b\"]`) + `"`)
		case 4:
			sb.WriteString(" | logfmt")
			goSide = true
		case 5:
			sb.WriteString(` | regexp ` + quoteLit(r, pick(r, `(?P<n>[0-9]+) (?P<m>\\w+)`, `(?P<n>.*)`, `(`, `(?P<n>a)(?P<n>b)`)))
		case 6:
			sb.WriteString(" | " + pick(r, lblNames...) + pick(r, "=", "!=", "=~", "!~", ">", ">=", "<", "<=", "==") + pick(r, `"err"`, "5", "0", "1e400", `"a.*"`, "-1", "5s"))
		case 7:
			sb.WriteString(` | line_format ` + quoteLit(r, pick(r, "{{.x}}", "{{.a}} {{._entry}}", "{{", "{{ .x | lower }}", "{{ div 1 0 }}", "{{ index .a 5 }}", "{{template \"x\"}}", "{{ printf \"%10000000d\" 1 }}")))
			goSide = true
		case 8:
			sb.WriteString(" | label_format " + pick(r, "z=a", `z="{{.a}}"`, "a=a", `z="{{"`))
		case 9:
			sb.WriteString(" | drop " + pick(r, "y", `y, z="q"`, "a"))
		}
	}
	return sb.String(), goSide
}

// LogQL generates a log or metric query. shape: log, log-go, metric, metric-go, metric-unwrap.
func LogQL(r *rand.Rand) (string, string) {
	sel := selector(r)
	ppl, goSide := logPipeline(r)
	suffix := ""
	if goSide {
		suffix = "-go"
	}
	if r.Intn(5) < 2 {
		return sel + ppl, "log" + suffix
	}
	dur := pick(r, durations...)
	var inner, shape string
	switch r.Intn(4) {
	case 0, 1:
		inner = pick(r, "rate", "count_over_time", "bytes_rate", "bytes_over_time", "absent_over_time") + "(" + sel + ppl + " [" + dur + "])"
		shape = "metric" + suffix
	case 2:
		uw := pick(r, " | unwrap_value", " | unwrap "+pick(r, "v", "n", "a"), ` | json v="v" | unwrap v`)
		inner = pick(r, "sum_over_time", "avg_over_time", "max_over_time", "min_over_time", "first_over_time", "last_over_time", "stddev_over_time", "stdvar_over_time", "rate") + "(" + sel + ppl + uw + " [" + dur + "])"
		if r.Intn(3) == 0 {
			inner += pick(r, " by (a)", " without (a)")
		}
		shape = "metric-unwrap" + suffix
	default:
		inner = "quantile_over_time(" + pick(r, "0.9", "0", "1", "2", "-1", "NaN") + ", " + sel + ppl + " | unwrap_value [" + dur + "])"
		shape = "metric-quantile" + suffix
	}
	switch r.Intn(5) {
	case 0:
		by := pick(r, "", " by (a)", " without (a, job)", " by ()")
		if r.Intn(2) == 0 {
			inner = pick(r, "sum", "avg", "max", "min", "count", "stddev", "stdvar") + by + " (" + inner + ")"
		} else {
			inner = pick(r, "sum", "avg", "max", "min", "count", "stddev", "stdvar") + "(" + inner + ")" + by
		}
		shape += "+agg"
	case 1:
		inner = pick(r, "topk", "bottomk") + "(" + pick(r, "2", "0", "-1", "1000000000", "1.5") + ", " + inner + ")"
		shape += "+topk"
	}
	if r.Intn(5) == 0 {
		inner += " " + pick(r, ">", "<", ">=", "<=", "==", "!=") + " " + pick(r, "1", "0", "-1", "1e400", "0.5", "NaN")
		shape += "+cmp"
	}
	return inner, shape
}

// LogQLSelector generates what label-values `query` and series `match[]` take.
func LogQLSelector(r *rand.Rand) (string, string) {
	if r.Intn(6) == 0 {
		return pick(r, "up", "a", "up"+selector(r)), "named-selector"
	}
	return selector(r), "selector"
}

var promMetrics = []string{"up", "b_bucket", "http_requests_total", "a:b", "_x"}

func promSel(r *rand.Rand) string {
	s := pick(r, promMetrics...)
	if r.Intn(2) == 0 {
		n := 1 + r.Intn(2)
		ms := make([]string, n)
		for i := range ms {
			ms[i] = pick(r, "job", "a", "le", "instance") + pick(r, "=", "!=", "=~", "!~") + `"` + strings.ReplaceAll(pick(r, lblValues...), `"`, `\"`) + `"`
		}
		s += "{" + strings.Join(ms, ",") + "}"
	}
	return s
}

func promExpr(r *rand.Rand, depth int) (string, string) {
	if depth <= 0 {
		return promSel(r), "selector"
	}
	switch r.Intn(10) {
	case 0, 1:
		return promSel(r), "selector"
	case 2, 3:
		fn := pick(r, "rate", "irate", "increase", "delta", "avg_over_time", "max_over_time", "min_over_time", "sum_over_time", "count_over_time", "last_over_time", "quantile_over_time(0.5,", "stddev_over_time", "deriv", "resets", "changes", "absent_over_time", "present_over_time", "holt_winters")
		rng := "[" + pick(r, durations...) + "]"
		if r.Intn(6) == 0 {
			rng = "[" + pick(r, durations...) + ":" + pick(r, "", "1s", "1ms", "0s", "1h") + "]"
		}
		arg := promSel(r) + rng
		if r.Intn(8) == 0 {
			arg += " offset " + pick(r, "5m", "-5m", "100y", "0s")
		}
		if strings.HasSuffix(fn, ",") {
			return fn + " " + arg + ")", "range-fn"
		}
		if fn == "holt_winters" {
			return fn + "(" + arg + ", 0.5, 0.5)", "range-fn"
		}
		return fn + "(" + arg + ")", "range-fn"
	case 4:
		e, _ := promExpr(r, depth-1)
		by := pick(r, "", " by (job)", " without (job, a)", " by ()")
		return pick(r, "sum", "avg", "max", "min", "count", "group", "stddev", "stdvar") + by + " (" + e + ")", "agg"
	case 5:
		e, _ := promExpr(r, depth-1)
		return pick(r, "topk", "bottomk", "quantile", "count_values") + "(" + pick(r, "2", "0", "-1", "0.5", `"x"`, "1e10") + ", " + e + ")", "agg-param"
	case 6:
		a, _ := promExpr(r, depth-1)
		b, _ := promExpr(r, depth-1)
		return "(" + a + ") " + pick(r, "+", "-", "*", "/", "%", "^", "==", "!=", ">", "<", "and", "or", "unless", "> bool", "/ on(job)", "* ignoring(a) group_left") + " (" + b + ")", "binop"
	case 7:
		e, _ := promExpr(r, depth-1)
		switch r.Intn(7) {
		case 0:
			return "histogram_quantile(" + pick(r, "0.9", "2", "-1", "NaN") + ", " + e + ")", "instant-fn"
		case 1:
			return "label_replace(" + e + `, "dst", "$1", "job", "` + pick(r, "(.*)", "(", ".*") + `")`, "instant-fn"
		case 2:
			return "label_join(" + e + `, "dst", "-", "job", "a")`, "instant-fn"
		case 3:
			return "clamp(" + e + ", 0, " + pick(r, "1", "NaN", "-1") + ")", "instant-fn"
		case 4:
			return pick(r, "time() - ", "-", "vector(1) + ", "1 / ") + "(" + e + ")", "instant-fn"
		}
		return pick(r, "abs", "ceil", "exp", "floor", "ln", "log2", "sqrt", "round", "scalar", "sgn", "sort", "timestamp", "absent") + "(" + e + ")", "instant-fn"
	case 8:
		return pick(r, "1", "1+1", "time()", "vector(1)", "pi()", "1/0", "-1^0.5", "scalar(up)", "1e400", "NaN", "Inf", `"str"`), "scalar"
	default:
		e, _ := promExpr(r, depth-1)
		return "(" + e + ")[" + pick(r, "5m", "1h", "100y") + ":" + pick(r, "1m", "1s", "1ms", "") + "]", "subquery"
	}
}

// PromQL generates a query for the Prometheus endpoints.
func PromQL(r *rand.Rand) (string, string) { return promExpr(r, 2) }

// PromSelector generates a match[] value.
func PromSelector(r *rand.Rand) (string, string) {
	if r.Intn(8) == 0 {
		e, _ := PromQL(r)
		return e, "expr-as-match"
	}
	return promSel(r), "selector"
}

func tqlAttr(r *rand.Rand) string {
	return pick(r, ".a", "span.a", "resource.c", "name", "duration", ".n", ".http.status_code", "status", "kind", "rootName", "traceDuration", ".\"quoted attr\"", "parent.a")
}

func tqlCond(r *rand.Rand, depth int) string {
	if depth > 0 && r.Intn(3) == 0 {
		return "(" + tqlCond(r, depth-1) + pick(r, " && ", " || ") + tqlCond(r, depth-1) + ")"
	}
	return tqlAttr(r) + pick(r, "=", "!=", "=~", "!~", ">", "<", ">=", "<=") + pick(r, `"b"`, `"x.*"`, "5", "1s", "1ms", "0", "-1", "1e400", "5.5", "true", "error", `"("`, "1h", "nil")
}

// TraceQL generates a query for /api/search?q= and the v2 tag endpoints.
func TraceQL(r *rand.Rand) (string, string) {
	sset := func() string {
		if r.Intn(8) == 0 {
			return "{}"
		}
		c := tqlCond(r, 2)
		for i := 0; i < r.Intn(2); i++ {
			c += pick(r, " && ", " || ") + tqlCond(r, 1)
		}
		return "{" + c + "}"
	}
	q := sset()
	shape := "spanset"
	for i := 0; i < r.Intn(3); i++ {
		q += pick(r, " && ", " || ", " > ", " >> ", " ~ ") + sset()
		shape = "spanset-op"
	}
	if r.Intn(3) == 0 {
		q += " | " + pick(r, "count()", "avg(duration)", "max(.n)", "min(duration)", "sum(.n)", "avg(.a)") + " " + pick(r, ">", "<", ">=", "<=", "=", "!=") + " " + pick(r, "2", "1ms", "0", "-1", "1e400", "1.5", "1h")
		shape += "+agg"
	}
	return q, shape
}

var profTypes = []string{"process_cpu:cpu:nanoseconds:cpu:nanoseconds", "memory:alloc_objects:count:space:bytes", "a:b:c:d:e", "a:b:c", "", ":", "::::", "a:b:c:d:e:f", "process_cpu", "é:é:é:é:é", "a:b:c:d:" + strings.Repeat("e", 5000)}

// PyroSelector generates a Pyroscope label selector.
func PyroSelector(r *rand.Rand) (string, string) {
	if r.Intn(10) == 0 {
		return pick(r, "{}", "", "{", "}", "{a}", `{a="b",}`, `{a="b" c="d"}`), "degenerate"
	}
	n := 1 + r.Intn(3)
	ms := make([]string, n)
	for i := range ms {
		ms[i] = pick(r, "service_name", "a", "c", "__name__", "__profile_type__", "x.y") + pick(r, "=", "!=", "=~", "!~") + `"` + strings.ReplaceAll(pick(r, lblValues...), `"`, `\"`) + `"`
	}
	return "{" + strings.Join(ms, pick(r, ",", ", ")) + "}", "selector"
}

// TempoTags generates the `tags` parameter of the v1 search.
func TempoTags(r *rand.Rand) (string, string) {
	n := 1 + r.Intn(3)
	ts := make([]string, n)
	for i := range ts {
		ts[i] = pick(r, "service.name", "http.method", "name", "a", "") + pick(r, "=", "= ", "") + pick(r, `"x"`, "GET", `"a b"`, `"unterminated`, "", `"q\"uote"`, "é")
	}
	return strings.Join(ts, " "), "tags"
}

// Mutate applies 1–3 byte-level or token-level mutations to a query text.
func Mutate(r *rand.Rand, q string) (string, string) {
	b := []byte(q)
	ops := []string{}
	for i := 0; i < 1+r.Intn(3); i++ {
		op := r.Intn(9)
		switch op {
		case 0: // truncate
			if len(b) > 0 {
				b = b[:r.Intn(len(b))]
			}
			ops = append(ops, "truncate")
		case 1: // delete a byte
			if len(b) > 0 {
				j := r.Intn(len(b))
				b = append(b[:j], b[j+1:]...)
			}
			ops = append(ops, "delete")
		case 2: // duplicate a slice
			if len(b) > 1 {
				j := r.Intn(len(b) - 1)
				k := j + 1 + r.Intn(len(b)-j-1)
				nb := append([]byte{}, b[:k]...)
				nb = append(nb, b[j:k]...)
				b = append(nb, b[k:]...)
			}
			ops = append(ops, "dup")
		case 3: // splice random bytes
			j := r.Intn(len(b) + 1)
			ins := make([]byte, 1+r.Intn(4))
			r.Read(ins)
			nb := append([]byte{}, b[:j]...)
			nb = append(nb, ins...)
			b = append(nb, b[j:]...)
			ops = append(ops, "splice")
		case 4: // swap a structural char
			str := "{}()[]|\"`=~!,<>.:"
			if len(b) > 0 {
				b[r.Intn(len(b))] = str[r.Intn(len(str))]
			}
			ops = append(ops, "swapchar")
		case 5: // replace a number
			s := string(b)
			for _, d := range []string{"10", "5", "1", "0.9", "2"} {
				if j := strings.Index(s, d); j >= 0 {
					s = s[:j] + pick(r, "0", "-1", "99999999999999999999", "1e400", "NaN", "0x10", "1_0", "") + s[j+len(d):]
					break
				}
			}
			b = []byte(s)
			ops = append(ops, "number")
		case 6: // deep nesting
			n := 50 + r.Intn(2000)
			b = []byte(strings.Repeat("(", n) + string(b) + strings.Repeat(")", n))
			ops = append(ops, "nest")
		case 7: // repeat
			b = []byte(strings.Repeat(string(b)+" ", 2+r.Intn(40)))
			ops = append(ops, "repeat")
		case 8: // long literal
			s := string(b)
			if j := strings.Index(s, `"`); j >= 0 {
				s = s[:j+1] + strings.Repeat(pick(r, "a", "(", "\\", "é", "a|"), 1000+r.Intn(60000)) + s[j+1:]
			}
			b = []byte(s)
			ops = append(ops, "longlit")
		}
	}
	return string(b), "mut:" + ops[0]
}

// RandomBytes returns n random bytes as a query text.
func RandomBytes(r *rand.Rand) (string, string) {
	n := []int{0, 1, 2, 8, 64, 1024, 100000}[r.Intn(7)]
	b := make([]byte, n)
	r.Read(b)
	if r.Intn(2) == 0 { // printable flavour
		for i := range b {
			b[i] = 32 + b[i]%95
		}
		return string(b), "random-printable"
	}
	return string(b), "random-bytes"
}

// GenQuery draws a query of the language: 60 % grammar, 25 % mutated, 15 % random bytes.
func GenQuery(r *rand.Rand, lang string) (string, string) {
	gen := map[string]func(*rand.Rand) (string, string){
		"logql": LogQL, "logql-selector": LogQLSelector, "promql": PromQL, "promql-selector": PromSelector,
		"traceql": TraceQL, "pyro": PyroSelector, "tempo-tags": TempoTags,
	}[lang]
	if gen == nil {
		panic("no generator for " + lang)
	}
	q, shape := gen(r)
	switch x := r.Intn(20); {
	case x < 12:
		return q, shape
	case x < 17:
		m, op := Mutate(r, q)
		return m, op
	default:
		return RandomBytes(r)
	}
}

var _ = fmt.Sprint
