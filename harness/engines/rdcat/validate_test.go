package rdcat

import (
	"math"
	"strconv"
	"strings"
	"testing"
)

func rules(fs []Finding) string {
	var r []string
	for _, f := range fs {
		r = append(r, f.Rule)
	}
	return strings.Join(r, ",")
}

// hand-computed documents: the validators accept the documented shape and name the rule that a
// deviation breaks.
func TestValidateStreams(t *testing.T) {
	ss := []LogSeries{
		{Fp: 7, Labels: map[string]string{"a": "b\xff\"q"}, Rows: []LogRow{{TsNs: 1700000000000000001, Line: "l\n1"}, {TsNs: 1700000000000000002, Line: "l2 "}}},
		{Fp: 0, Labels: map[string]string{"a": "c"}, Rows: []LogRow{{TsNs: 5, Line: ""}}},
	}
	good := `{"status":"success","data":{"resultType":"streams","result":[{"stream":{"a":"b` + "�" + `\"q"},"values":[["1700000000000000001","l\n1"],["1700000000000000002","l2 "]]},{"stream":{"a":"c"},"values":[["5",""]]}]}}` + "\n "
	cases := []struct{ name, body, want string }{
		{"good", good, ""},
		{"raw invalid utf8 decodes to U+FFFD", strings.Replace(good, "�", "\xff", 1), ""},
		{"missing comma", strings.Replace(good, `],["17`, `]["17`, 1), "invalid-json"},
		{"trailing", good + "{}", "trailing-data"},
		{"bare arrays", `{"status":"success","data":{"resultType":"streams","result":[["5",""]]}}`, "shape,missing-series,missing-series"},
		{"split stream", strings.Replace(good, `,["1700000000000000002"`, `]},{"stream":{"a":"b`+"�"+`\"q"},"values":[["1700000000000000002"`, 1), "duplicate-stream-object"},
		{"row lost", strings.Replace(good, `,["1700000000000000002","l2 "]`, ``, 1), "row-missing"},
		{"row twice", strings.Replace(good, `[["5",""]]`, `[["5",""],["5",""]]`, 1), "row-duplicated"},
		{"ts altered", strings.Replace(good, `"1700000000000000001"`, `"1700000000000000000"`, 1), "row-missing,row-unexpected"},
		{"line altered", strings.Replace(good, `l\n1`, `l\\n1`, 1), "row-missing,row-unexpected"},
		{"wrong type", strings.Replace(good, `"streams"`, `"matrix"`, 1), "shape"},
	}
	for _, c := range cases {
		if got := rules(ValidateStreams([]byte(c.body), ss)); got != c.want {
			t.Errorf("%s: rules %q, want %q", c.name, got, c.want)
		}
	}
}

func TestValidateMatrix(t *testing.T) {
	ss := []MatrixSeries{{Key: LabelKey(map[string]string{"a": "b"}), Points: []Point{{TsNs: 1700000000e9, V: 0.30000000000000004}, {TsNs: 1700000005e9, V: 0}, {TsNs: 1700000010e9, V: 5e-324}, {TsNs: 1700000015e9, V: math.NaN()}}}}
	o := MatrixOpts{FillNs: 5e9, FromNs: 1700000000e9, StepNs: 5e9, ZeroDropped: true}
	good := `{"status":"success","data":{"resultType":"matrix","result":[{"metric":{"a":"b"},"values":[[1700000000.000000,"0.30000000000000004"],[1700000005.000000,"0.30000000000000004"],[1700000010,"` + strconv.FormatFloat(5e-324, 'f', -1, 64) + `"],[1700000015.000,"NaN"],[1700000020.000000,"NaN"]]}]}}`
	cases := []struct{ name, body, want string }{
		{"good (with range fill after the first and the last row)", good, ""},
		{"value rounded", strings.Replace(good, `"0.30000000000000004"],[1700000005`, `"0.300"],[1700000005`, 1), "value-loss"},
		{"fill with another value", strings.Replace(good, `[1700000005.000000,"0.30000000000000004"]`, `[1700000005.000000,"7"]`, 1), "row-unexpected"},
		{"row lost", strings.Replace(good, `[1700000000.000000,"0.30000000000000004"],`, ``, 1), "row-missing"},
		{"off grid", strings.Replace(good, `1700000005.000000`, `1700000005.100000`, 1), "timestamp-loss,row-unexpected"},
		{"out of order", strings.Replace(good, `[1700000020.000000,"NaN"]`, `[1700000015.000000,"NaN"]`, 1), "timestamp-order"},
		{"fill too far", strings.Replace(good, `1700000020.000000`, `1700000025.000000`, 1), "row-unexpected"},
		{"series missing", `{"status":"success","data":{"resultType":"matrix","result":[]}}`, "missing-series"},
	}
	for _, c := range cases {
		fs := ValidateMatrix([]byte(c.body), ss, o)
		if got := rules(fs); got != c.want {
			t.Errorf("%s: rules %q, want %q: %v", c.name, got, c.want, fs)
		}
	}
}

func TestValidateLists(t *testing.T) {
	want := []string{"a", "b\x00", "c\xff"}
	if got := rules(ValidateStringList([]byte(`{"status": "success","data": ["a","b\u0000","c`+"�"+`"]}`), "data", want)); got != "" {
		t.Errorf("good list: %s", got)
	}
	if got := rules(ValidateStringList([]byte(`{"tagNames": ["a","b\x00","c"]}`), "tagNames", want)); got != "invalid-json" {
		t.Errorf("go-quoted list: %s", got)
	}
	if got := rules(ValidateStringList([]byte(`{"status": "success","data": ["a","c`+"�"+`"]}`), "data", want)); got != "row-missing" {
		t.Errorf("short list: %s", got)
	}
	docs := []map[string]string{{"a": "b"}, {"a": "c", "d": "\"e"}}
	if got := rules(ValidateSeriesList([]byte(`{"status":"success", "data":[{"a":"b"},{"d":"\"e","a":"c"}]}`), docs)); got != "" {
		t.Errorf("good series: %s", got)
	}
	if got := rules(ValidateSeriesList([]byte(`{"status":"success", "data":[{"a":"b"}{"d":"\"e","a":"c"}]}`), docs)); got != "invalid-json" {
		t.Errorf("series without comma: %s", got)
	}
	if ns, ok := decimalNs("1700000005.123000"); !ok || ns != 1700000005123000000 {
		t.Errorf("decimalNs: %d %v", ns, ok)
	}
	if _, ok := decimalNs("1700000005.1230000001"); ok {
		t.Errorf("decimalNs accepted sub-ns digits")
	}
}
