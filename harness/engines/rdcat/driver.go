package rdcat

import (
	"context"
	"database/sql/driver"

	"verif/harness/engines/sqldrv"
)

// Answer is what a scripted database returns for one statement.
type Answer struct {
	Cols   []string
	Rows   [][]driver.Value
	Err    error // error at open
	ErrAt  int   // -1 = none
	RowErr error
	Block  func(i int)
}

// Rows converts the answer for the driver.
func (a Answer) SQLRows() (*sqldrv.Rows, error) {
	if a.Err != nil {
		return nil, a.Err
	}
	r := sqldrv.NewRows(a.Cols, a.Rows)
	r.ErrAt = a.ErrAt
	r.Err = a.RowErr
	r.Block = a.Block
	return r, nil
}

// OK builds a plain answer of the kind.
func OK(k Kind, rows [][]driver.Value) Answer {
	return Answer{Cols: ColNames(k), Rows: rows, ErrAt: -1}
}

// Handler adapts a per-kind answer function to the driver: every statement is classified
// first; n counts the statements of the session answered through this handler.
func Handler(f func(ctx context.Context, n int, k Kind, sql string) Answer) sqldrv.Handler {
	n := 0
	return func(ctx context.Context, q string) (*sqldrv.Rows, error) {
		k := Classify(q)
		a := f(ctx, n, k, q)
		n++
		return a.SQLRows()
	}
}
