// Package lex is E-LEX (DESIGN §2.5): a lexer for the ClickHouse SQL *token* grammar.
//
// It is written from the ClickHouse lexical rules (string literals with backslash escapes and
// doubled quotes, back-quoted / double-quoted identifiers, numbers, bare words, operators,
// `--`, `#` and `/* */` comments, `$tag$ … $tag$` here-documents), deliberately independent of
// E-CHSQL's parser: E-CHSQL accepts what the planners emit, E-LEX accepts ANY byte string and
// never fails. Whatever cannot be a token is reported as a token of kind Other; a literal,
// quoted identifier, comment or here-document that is not closed is reported with a kind of its
// own (Unterminated*), so that "the statement lexes to completion" is a property of the token
// list.
//
// Where ClickHouse versions differ the lexer takes the reading that is WORSE for the statement
// under test (it is used as a security oracle): every `#` starts a comment (ClickHouse: only
// `# ` and `#!`), block comments nest (ClickHouse ≥ 21), a `$tag$` without its closing tag is
// an unterminated here-document.
package lex

import (
	"errors"
	"fmt"
	"strings"
)

type Kind uint8

const (
	Space       Kind = iota // white space (only returned by LexAll)
	String                  // '…'
	QuotedIdent             // `…` or "…"
	Number
	Ident   // bare word: identifier or keyword
	Op      // operator or punctuation
	Comment // -- …, # …, /* … */
	HereDoc // $tag$ … $tag$
	Other   // a byte that starts no token (stray backslash, control byte, non-ASCII …)
	UnterminatedString
	UnterminatedQuotedIdent
	UnterminatedComment
	UnterminatedHereDoc
)

var kindNames = [...]string{"space", "string", "quoted-ident", "number", "ident", "op", "comment", "heredoc", "other",
	"unterminated-string", "unterminated-quoted-ident", "unterminated-comment", "unterminated-heredoc"}

func (k Kind) String() string {
	if int(k) < len(kindNames) {
		return kindNames[k]
	}
	return fmt.Sprintf("kind(%d)", int(k))
}

// Unterminated reports whether the kind is one of the "ran into the end of input" kinds.
func (k Kind) Unterminated() bool { return k >= UnterminatedString }

type Token struct {
	Kind Kind
	Text string // exact source bytes of the token (quotes included)
	Pos  int    // byte offset in the input
}

func isSpace(c byte) bool {
	return c == ' ' || c == '\t' || c == '\n' || c == '\r' || c == '\f' || c == '\v'
}
func isDigit(c byte) bool { return c >= '0' && c <= '9' }
func isHex(c byte) bool {
	return isDigit(c) || (c >= 'a' && c <= 'f') || (c >= 'A' && c <= 'F')
}
func isWordStart(c byte) bool { return c == '_' || (c >= 'a' && c <= 'z') || (c >= 'A' && c <= 'Z') }
func isWord(c byte) bool      { return isWordStart(c) || isDigit(c) }

// Lex returns the significant tokens of s (white space dropped). It accepts any byte string;
// the concatenation of LexAll(s) texts is s.
func Lex(s string) []Token {
	all := LexAll(s)
	out := all[:0:0]
	for _, t := range all {
		if t.Kind != Space {
			out = append(out, t)
		}
	}
	return out
}

// Complete reports whether no token is of an unterminated kind.
func Complete(ts []Token) bool {
	for _, t := range ts {
		if t.Kind.Unterminated() {
			return false
		}
	}
	return true
}

// LexAll returns every token including white space.
func LexAll(s string) []Token {
	var out []Token
	n := len(s)
	i := 0
	emit := func(k Kind, from, to int) {
		out = append(out, Token{Kind: k, Text: s[from:to], Pos: from})
	}
	prevSignificant := func() *Token {
		for j := len(out) - 1; j >= 0; j-- {
			if out[j].Kind != Space && out[j].Kind != Comment {
				return &out[j]
			}
		}
		return nil
	}
	for i < n {
		c := s[i]
		switch {
		case isSpace(c):
			j := i + 1
			for j < n && isSpace(s[j]) {
				j++
			}
			emit(Space, i, j)
			i = j
		case c == '\'' || c == '`' || c == '"':
			j, closed := scanQuoted(s, i)
			k := String
			if c != '\'' {
				k = QuotedIdent
			}
			if !closed {
				k = UnterminatedString
				if c != '\'' {
					k = UnterminatedQuotedIdent
				}
			}
			emit(k, i, j)
			i = j
		case c == '-' && i+1 < n && s[i+1] == '-', c == '#':
			j := i
			for j < n && s[j] != '\n' {
				j++
			}
			emit(Comment, i, j)
			i = j
		case c == '/' && i+1 < n && s[i+1] == '*':
			j := i + 2
			depth := 1
			for j < n && depth > 0 {
				switch {
				case s[j] == '*' && j+1 < n && s[j+1] == '/':
					depth--
					j += 2
				case s[j] == '/' && j+1 < n && s[j+1] == '*':
					depth++
					j += 2
				default:
					j++
				}
			}
			if depth > 0 {
				emit(UnterminatedComment, i, n)
				i = n
			} else {
				emit(Comment, i, j)
				i = j
			}
		case c == '$':
			// $tag$ … $tag$ (tag = word characters, possibly empty)
			j := i + 1
			for j < n && isWord(s[j]) {
				j++
			}
			if j < n && s[j] == '$' {
				tag := s[i : j+1]
				if e := strings.Index(s[j+1:], tag); e >= 0 {
					end := j + 1 + e + len(tag)
					emit(HereDoc, i, end)
					i = end
				} else {
					emit(UnterminatedHereDoc, i, n)
					i = n
				}
				break
			}
			// `$` inside/at the start of a bare word
			if i+1 < n && (isWord(s[i+1])) {
				j = i + 1
				for j < n && (isWord(s[j]) || s[j] == '$') {
					j++
				}
				emit(Ident, i, j)
				i = j
				break
			}
			emit(Other, i, i+1)
			i++
		case isDigit(c) || (c == '.' && i+1 < n && isDigit(s[i+1]) && !afterValue(prevSignificant())):
			j := scanNumber(s, i)
			emit(Number, i, j)
			i = j
		case isWordStart(c):
			j := i + 1
			for j < n && (isWord(s[j]) || s[j] == '$') {
				j++
			}
			emit(Ident, i, j)
			i = j
		default:
			if l := opLen(s[i:]); l > 0 {
				emit(Op, i, i+l)
				i += l
			} else {
				emit(Other, i, i+1)
				i++
			}
		}
	}
	return out
}

// afterValue: a '.' directly after an identifier, a closing bracket or a number is the member
// access operator (t.1, x[1].2), not the start of a number.
func afterValue(t *Token) bool {
	if t == nil {
		return false
	}
	switch t.Kind {
	case Ident, QuotedIdent, Number:
		return true
	case Op:
		return t.Text == ")" || t.Text == "]"
	}
	return false
}

// scanQuoted scans a quoted token starting at s[i] (quote character q = s[i]): a backslash
// escapes the next byte whatever it is, a doubled q is an escaped q.
func scanQuoted(s string, i int) (end int, closed bool) {
	q := s[i]
	j := i + 1
	for j < len(s) {
		switch s[j] {
		case '\\':
			j += 2
		case q:
			if j+1 < len(s) && s[j+1] == q {
				j += 2
				continue
			}
			return j + 1, true
		default:
			j++
		}
	}
	return len(s), false
}

func scanNumber(s string, i int) int {
	n := len(s)
	j := i
	if s[j] == '0' && j+1 < n && (s[j+1] == 'x' || s[j+1] == 'X') && j+2 < n && isHex(s[j+2]) {
		j += 2
		for j < n && isHex(s[j]) {
			j++
		}
		if j < n && s[j] == '.' {
			j++
			for j < n && isHex(s[j]) {
				j++
			}
		}
		if j < n && (s[j] == 'p' || s[j] == 'P') {
			k := j + 1
			if k < n && (s[k] == '+' || s[k] == '-') {
				k++
			}
			if k < n && isDigit(s[k]) {
				for k < n && isDigit(s[k]) {
					k++
				}
				j = k
			}
		}
	} else if s[j] == '0' && j+1 < n && (s[j+1] == 'b' || s[j+1] == 'B') && j+2 < n && (s[j+2] == '0' || s[j+2] == '1') {
		j += 2
		for j < n && (s[j] == '0' || s[j] == '1') {
			j++
		}
	} else {
		for j < n && isDigit(s[j]) {
			j++
		}
		if j < n && s[j] == '.' {
			j++
			for j < n && isDigit(s[j]) {
				j++
			}
		}
		if j < n && (s[j] == 'e' || s[j] == 'E') {
			k := j + 1
			if k < n && (s[k] == '+' || s[k] == '-') {
				k++
			}
			if k < n && isDigit(s[k]) {
				for k < n && isDigit(s[k]) {
					k++
				}
				j = k
			}
		}
	}
	// a number glued to word characters is one (ill-formed) number token, as in ClickHouse
	for j < n && (isWord(s[j]) || s[j] == '$') {
		j++
	}
	return j
}

var ops3 = []string{"<=>"}
var ops2 = []string{"->", "==", "!=", "<>", "<=", ">=", "::", "||", "@@"}

const ops1 = "()[]{},;.*/%+-=<>?:|^@!~&"

func opLen(s string) int {
	for _, o := range ops3 {
		if strings.HasPrefix(s, o) {
			return 3
		}
	}
	for _, o := range ops2 {
		if strings.HasPrefix(s, o) {
			return 2
		}
	}
	if strings.IndexByte(ops1, s[0]) >= 0 {
		return 1
	}
	return 0
}

// ---------------------------------------------------------------------------------------
// Rule A1: string literal decoding
// ---------------------------------------------------------------------------------------

var ErrNotALiteral = errors.New("lex: not a closed single-quoted literal")

// DecodeString decodes the text of a String token (quotes included) by rule A1 of DESIGN
// Appendix A, exactly: `\b \f \r \n \t \0 \a \v \xHH \\ \'` are decoded; any other `\c`
// stays `\c` (both bytes); `”` inside the literal is one quote.
// A `\x` that is not followed by two hexadecimal digits is an error (ClickHouse refuses the
// statement or reads garbage, depending on the version).
func DecodeString(tok string) ([]byte, error) { return decode(tok, false) }

// DecodeStringServer decodes like the ClickHouse server's readQuotedString does today, which
// is rule A1 plus: `\e` → ESC, `\"`, "\`" and `\/` → the character without the backslash, and
// `\N` → nothing. The C10 oracle requires both decoders to agree with the intended value, so
// that a literal whose meaning depends on this difference is never accepted.
func DecodeStringServer(tok string) ([]byte, error) { return decode(tok, true) }

func decode(tok string, server bool) ([]byte, error) {
	n := len(tok)
	if n < 2 || tok[0] != '\'' || tok[n-1] != '\'' {
		return nil, ErrNotALiteral
	}
	body := tok[1 : n-1]
	out := make([]byte, 0, len(body))
	for i := 0; i < len(body); {
		c := body[i]
		switch c {
		case '\'':
			if i+1 < len(body) && body[i+1] == '\'' {
				out = append(out, '\'')
				i += 2
				continue
			}
			// a lone quote inside the body: the token was not a single literal
			return nil, ErrNotALiteral
		case '\\':
			if i+1 >= len(body) {
				// the closing quote was escaped: not a closed literal
				return nil, ErrNotALiteral
			}
			e := body[i+1]
			i += 2
			switch e {
			case 'b':
				out = append(out, '\b')
			case 'f':
				out = append(out, '\f')
			case 'r':
				out = append(out, '\r')
			case 'n':
				out = append(out, '\n')
			case 't':
				out = append(out, '\t')
			case '0':
				out = append(out, 0)
			case 'a':
				out = append(out, '\a')
			case 'v':
				out = append(out, '\v')
			case '\\':
				out = append(out, '\\')
			case '\'':
				out = append(out, '\'')
			case 'x':
				if i+1 < len(body) && isHex(body[i]) && isHex(body[i+1]) {
					out = append(out, unhex(body[i])<<4|unhex(body[i+1]))
					i += 2
				} else {
					return nil, fmt.Errorf("lex: \\x escape without two hexadecimal digits at byte %d of the literal", i-1)
				}
			default:
				if server {
					switch e {
					case 'e':
						out = append(out, 0x1b)
						continue
					case '"', '`', '/':
						out = append(out, e)
						continue
					case 'N':
						continue
					}
				}
				out = append(out, '\\', e)
			}
		default:
			out = append(out, c)
			i++
		}
	}
	return out, nil
}

func unhex(c byte) byte {
	switch {
	case c >= '0' && c <= '9':
		return c - '0'
	case c >= 'a' && c <= 'f':
		return c - 'a' + 10
	default:
		return c - 'A' + 10
	}
}

// EncodeString renders b as a ClickHouse literal that DecodeString and DecodeStringServer both
// map back to b (used by tests and as the reference escaping).
func EncodeString(b []byte) string {
	var sb strings.Builder
	sb.WriteByte('\'')
	for _, c := range b {
		switch c {
		case '\\':
			sb.WriteString(`\\`)
		case '\'':
			sb.WriteString(`\'`)
		case 0:
			sb.WriteString(`\0`)
		case '\n':
			sb.WriteString(`\n`)
		case '\r':
			sb.WriteString(`\r`)
		case '\t':
			sb.WriteString(`\t`)
		case '\b':
			sb.WriteString(`\b`)
		default:
			sb.WriteByte(c)
		}
	}
	sb.WriteByte('\'')
	return sb.String()
}

// ---------------------------------------------------------------------------------------
// Rule A2: LIKE patterns
// ---------------------------------------------------------------------------------------

type LikeKind uint8

const (
	LikeLit    LikeKind = iota // one literal byte
	LikeAnyRun                 // %
	LikeAnyOne                 // _
)

type LikeElem struct {
	Kind LikeKind
	Byte byte
}

// LikeParse splits a LIKE pattern (the DECODED literal) into its elements by rule A2:
// `%` any run, `_` one character, `\%` `\_` `\\` the literal character; a backslash before any
// other byte, or at the end of the pattern, is a literal backslash (the other byte is then read
// on its own).
func LikeParse(p []byte) []LikeElem {
	out := make([]LikeElem, 0, len(p))
	for i := 0; i < len(p); i++ {
		c := p[i]
		switch c {
		case '%':
			out = append(out, LikeElem{Kind: LikeAnyRun})
		case '_':
			out = append(out, LikeElem{Kind: LikeAnyOne})
		case '\\':
			if i+1 < len(p) && (p[i+1] == '%' || p[i+1] == '_' || p[i+1] == '\\') {
				out = append(out, LikeElem{Kind: LikeLit, Byte: p[i+1]})
				i++
			} else {
				out = append(out, LikeElem{Kind: LikeLit, Byte: '\\'})
			}
		default:
			out = append(out, LikeElem{Kind: LikeLit, Byte: c})
		}
	}
	return out
}

// LikeEscape returns the LIKE pattern that matches exactly the bytes of s.
func LikeEscape(s []byte) []byte {
	out := make([]byte, 0, len(s)+8)
	for _, c := range s {
		if c == '%' || c == '_' || c == '\\' {
			out = append(out, '\\')
		}
		out = append(out, c)
	}
	return out
}

// LikeUnescape returns the byte string a wildcard-free pattern matches; ok is false if the
// pattern contains an unescaped `%` or `_`.
func LikeUnescape(p []byte) (lit []byte, ok bool) {
	es := LikeParse(p)
	lit = make([]byte, 0, len(es))
	for _, e := range es {
		if e.Kind != LikeLit {
			return nil, false
		}
		lit = append(lit, e.Byte)
	}
	return lit, true
}

// LikeContains reports whether pattern p means "the string contains lit": `%`, then only
// literal elements, then `%`. It returns the literal.
func LikeContains(p []byte) (lit []byte, ok bool) {
	es := LikeParse(p)
	if len(es) < 2 || es[0].Kind != LikeAnyRun || es[len(es)-1].Kind != LikeAnyRun {
		return nil, false
	}
	lit = make([]byte, 0, len(es))
	for _, e := range es[1 : len(es)-1] {
		if e.Kind != LikeLit {
			return nil, false
		}
		lit = append(lit, e.Byte)
	}
	return lit, true
}

// LikeMatch evaluates pattern p against s (whole-string match, byte-wise), rule A2. It is the
// executable meaning of a pattern, used by tests to validate the helpers above.
func LikeMatch(p, s []byte) bool {
	es := LikeParse(p)
	// dp over elements × positions
	cur := map[int]bool{0: true}
	for _, e := range es {
		nxt := map[int]bool{}
		for pos := range cur {
			switch e.Kind {
			case LikeLit:
				if pos < len(s) && s[pos] == e.Byte {
					nxt[pos+1] = true
				}
			case LikeAnyOne:
				if pos < len(s) {
					nxt[pos+1] = true
				}
			case LikeAnyRun:
				for k := pos; k <= len(s); k++ {
					nxt[k] = true
				}
			}
		}
		cur = nxt
		if len(cur) == 0 {
			return false
		}
	}
	return cur[len(s)]
}
