package lex

import (
	"bytes"
	"math/rand"
	"os"
	"strings"
	"testing"
)

func kinds(ts []Token) string {
	var sb strings.Builder
	for i, t := range ts {
		if i > 0 {
			sb.WriteByte(' ')
		}
		sb.WriteString(t.Kind.String())
	}
	return sb.String()
}

func texts(ts []Token) []string {
	out := make([]string, len(ts))
	for i, t := range ts {
		out[i] = t.Text
	}
	return out
}

func TestTokens(t *testing.T) {
	cases := []struct {
		in    string
		texts []string
		kinds string
	}{
		{`SELECT a, 'x' FROM t`, []string{"SELECT", "a", ",", "'x'", "FROM", "t"}, "ident ident op string ident ident"},
		{`'a\'b'`, []string{`'a\'b'`}, "string"},
		{`'a''b'`, []string{`'a''b'`}, "string"},
		{`'a\\'b'`, []string{`'a\\'`, "b", `'`}, "string ident unterminated-string"},
		{`'a\\\'b'`, []string{`'a\\\'b'`}, "string"},
		{`'abc`, []string{`'abc`}, "unterminated-string"},
		{`'abc\'`, []string{`'abc\'`}, "unterminated-string"},
		{`'abc\`, []string{`'abc\`}, "unterminated-string"},
		{"`a``b` \"c\"\"d\" `x\\`y`", []string{"`a``b`", `"c""d"`, "`x\\`y`"}, "quoted-ident quoted-ident quoted-ident"},
		{"`abc", []string{"`abc"}, "unterminated-quoted-ident"},
		{`"abc`, []string{`"abc`}, "unterminated-quoted-ident"},
		{"a -- c 'x\nb", []string{"a", "-- c 'x", "b"}, "ident comment ident"},
		{"a # c 'x\nb", []string{"a", "# c 'x", "b"}, "ident comment ident"},
		{"a#b", []string{"a", "#b"}, "ident comment"},
		{"a /* c 'x */ b", []string{"a", "/* c 'x */", "b"}, "ident comment ident"},
		{"a /* c /* d */ e */ b", []string{"a", "/* c /* d */ e */", "b"}, "ident comment ident"},
		{"a /* c", []string{"a", "/* c"}, "ident unterminated-comment"},
		{"a /* c /* d */", []string{"a", "/* c /* d */"}, "ident unterminated-comment"},
		{"a */ b", []string{"a", "*", "/", "b"}, "ident op op ident"},
		{"1 1.5 (.5 1e10 1.5E-3 0x1F 0b101 1e", []string{"1", "1.5", "(", ".5", "1e10", "1.5E-3", "0x1F", "0b101", "1e"}, "number number op number number number number number number"},
		{"1 .5", []string{"1", ".", "5"}, "number op number"},
		{"t.1 x[1].2 (a).3", []string{"t", ".", "1", "x", "[", "1", "]", ".", "2", "(", "a", ")", ".", "3"}, "ident op number ident op number op op number op ident op op number"},
		{"a->b a==b a!=b a<>b a<=b a>=b a::Int8 a||b a<=>b", []string{"a", "->", "b", "a", "==", "b", "a", "!=", "b", "a", "<>", "b", "a", "<=", "b", "a", ">=", "b", "a", "::", "Int8", "a", "||", "b", "a", "<=>", "b"},
			"ident op ident ident op ident ident op ident ident op ident ident op ident ident op ident ident op ident ident op ident ident op ident"},
		{"$$a 'b$$ c", []string{"$$a 'b$$", "c"}, "heredoc ident"},
		{"$tag$ x $$ $tag$ y", []string{"$tag$ x $$ $tag$", "y"}, "heredoc ident"},
		{"$$ abc", []string{"$$ abc"}, "unterminated-heredoc"},
		{"a$b $x", []string{"a$b", "$x"}, "ident ident"},
		{"$ a", []string{"$", "a"}, "other ident"},
		{"a \\ b \x00 \xff é", []string{"a", "\\", "b", "\x00", "\xff", "\xc3", "\xa9"}, "ident other ident other other other other"},
		{"", nil, ""},
		{"   ", nil, ""},
		{"a;b", []string{"a", ";", "b"}, "ident op ident"},
		{"labels['x']", []string{"labels", "[", "'x'", "]"}, "ident op string op"},
		{"like(samples.string, '%x\\%')", []string{"like", "(", "samples", ".", "string", ",", `'%x\%'`, ")"}, "ident op ident op ident op string op"},
		{"'\n--\n/*'", []string{"'\n--\n/*'"}, "string"},
		{"'a' 'b'", []string{"'a'", "'b'"}, "string string"},
		{"'a''", []string{"'a''"}, "unterminated-string"},
		{"''''", []string{"''''"}, "string"},
		{"'''", []string{"'''"}, "unterminated-string"},
	}
	for _, c := range cases {
		ts := Lex(c.in)
		if got := kinds(ts); got != c.kinds {
			t.Errorf("%q: kinds %q, want %q (%q)", c.in, got, c.kinds, texts(ts))
			continue
		}
		got := texts(ts)
		if len(got) != len(c.texts) {
			t.Errorf("%q: texts %q, want %q", c.in, got, c.texts)
			continue
		}
		for i := range got {
			if got[i] != c.texts[i] {
				t.Errorf("%q: token %d %q, want %q", c.in, i, got[i], c.texts[i])
			}
		}
	}
}

func TestComplete(t *testing.T) {
	if !Complete(Lex("select 'a' /* x */ -- y")) {
		t.Error("complete statement reported incomplete")
	}
	for _, s := range []string{"select 'a", "select `a", "select \"a", "select /* a", "select $$ a", "x 'a\\'"} {
		if Complete(Lex(s)) {
			t.Errorf("%q reported complete", s)
		}
	}
}

// The lexer is total: any byte string lexes, positions are contiguous, the texts concatenate to
// the input and no token is empty.
func TestTotalAndLossless(t *testing.T) {
	r := rand.New(rand.NewSource(1))
	alphabet := []byte("ab0 1'\"`\\-#/*$;.,()[]%_\n\x00\xff\xc3\xa9eEx=<>!|:")
	for n := 0; n < 20000; n++ {
		l := r.Intn(40)
		b := make([]byte, l)
		for i := range b {
			if r.Intn(10) == 0 {
				b[i] = byte(r.Intn(256))
			} else {
				b[i] = alphabet[r.Intn(len(alphabet))]
			}
		}
		s := string(b)
		ts := LexAll(s)
		pos := 0
		var sb strings.Builder
		for _, tk := range ts {
			if tk.Pos != pos {
				t.Fatalf("%q: token at %d, expected %d", s, tk.Pos, pos)
			}
			if tk.Text == "" {
				t.Fatalf("%q: empty token", s)
			}
			pos += len(tk.Text)
			sb.WriteString(tk.Text)
		}
		if sb.String() != s {
			t.Fatalf("%q: lossy: %q", s, sb.String())
		}
		// an unterminated token can only be the last one
		for i, tk := range ts {
			if tk.Kind.Unterminated() && i != len(ts)-1 {
				t.Fatalf("%q: unterminated token %d is not last", s, i)
			}
		}
	}
}

func TestDecodeString(t *testing.T) {
	ok := []struct{ in, out string }{
		{`''`, ""},
		{`'abc'`, "abc"},
		{`'a\'b'`, "a'b"},
		{`'a''b'`, "a'b"},
		{`'a\\b'`, `a\b`},
		{`'\b\f\r\n\t\0\a\v'`, "\b\f\r\n\t\x00\a\v"},
		{`'\x41\x00\xfF'`, "A\x00\xff"},
		{`'\%\_\.\d\q'`, `\%\_\.\d\q`},
		{`'%x\%'`, `%x\%`},
		{`'a\\\'b'`, `a\'b`},
		{`'\\\\'`, `\\`},
		{"'\xff\xfe é\n'", "\xff\xfe é\n"},
		{`''''`, "'"},
		{`'\x1a'`, "\x1a"},
	}
	for _, c := range ok {
		got, err := DecodeString(c.in)
		if err != nil || string(got) != c.out {
			t.Errorf("DecodeString(%q) = %q, %v; want %q", c.in, got, err, c.out)
		}
	}
	bad := []string{``, `'`, `abc`, `'abc`, `abc'`, `'a'b'`, `'abc\'`, `'\x'`, `'\x1'`, `'\xg1'`, `'\x1g'`, `"abc"`}
	for _, c := range bad {
		if got, err := DecodeString(c); err == nil {
			t.Errorf("DecodeString(%q) = %q, want error", c, got)
		}
	}
	// the server decoder differs from A1 exactly on \e \" \` \/ \N
	diff := []struct{ in, a1, server string }{
		{`'\e'`, `\e`, "\x1b"},
		{`'\"'`, `\"`, `"`},
		{"'\\`'", "\\`", "`"},
		{`'\/'`, `\/`, `/`},
		{`'a\Nb'`, `a\Nb`, `ab`},
		{`'\%\_'`, `\%\_`, `\%\_`},
	}
	for _, c := range diff {
		a, err1 := DecodeString(c.in)
		s, err2 := DecodeStringServer(c.in)
		if err1 != nil || err2 != nil || string(a) != c.a1 || string(s) != c.server {
			t.Errorf("%q: A1 %q (%v) server %q (%v); want %q / %q", c.in, a, err1, s, err2, c.a1, c.server)
		}
	}
}

func TestEncodeDecodeRoundTrip(t *testing.T) {
	r := rand.New(rand.NewSource(2))
	alphabet := []byte("ab'\\\"`%_\n\r\t\b\x00\x1a xeN/0")
	for n := 0; n < 20000; n++ {
		b := make([]byte, r.Intn(12))
		for i := range b {
			if r.Intn(6) == 0 {
				b[i] = byte(r.Intn(256))
			} else {
				b[i] = alphabet[r.Intn(len(alphabet))]
			}
		}
		lit := EncodeString(b)
		ts := Lex(lit)
		if len(ts) != 1 || ts[0].Kind != String {
			t.Fatalf("%q encodes to %q which lexes to %s", b, lit, kinds(ts))
		}
		d1, err1 := DecodeString(lit)
		d2, err2 := DecodeStringServer(lit)
		if err1 != nil || err2 != nil || !bytes.Equal(d1, b) || !bytes.Equal(d2, b) {
			t.Fatalf("%q -> %q -> %q (%v) / %q (%v)", b, lit, d1, err1, d2, err2)
		}
	}
}

// every token the lexer calls String decodes; conversely what it calls unterminated does not
func TestLexDecodeAgree(t *testing.T) {
	r := rand.New(rand.NewSource(3))
	alphabet := []byte("a'\\ x1%")
	for n := 0; n < 50000; n++ {
		b := make([]byte, 1+r.Intn(8))
		for i := range b {
			b[i] = alphabet[r.Intn(len(alphabet))]
		}
		s := "'" + string(b)
		ts := Lex(s)
		first := ts[0]
		_, err := DecodeString(first.Text)
		switch first.Kind {
		case String:
			if err != nil && !strings.Contains(err.Error(), `\x escape`) {
				t.Fatalf("%q: String token %q does not decode: %v", s, first.Text, err)
			}
		case UnterminatedString:
			if err == nil && len(first.Text) >= 2 {
				// e.g. 'a\' : decode must refuse it as well
				t.Fatalf("%q: unterminated token %q decodes", s, first.Text)
			}
		default:
			t.Fatalf("%q: first token kind %s", s, first.Kind)
		}
	}
}

func TestLike(t *testing.T) {
	type m struct {
		p, s string
		want bool
	}
	for _, c := range []m{
		{`%x%`, "axb", true}, {`%x%`, "ab", false}, {`x`, "x", true}, {`x`, "xx", false},
		{`a_c`, "abc", true}, {`a_c`, "ac", false}, {`a\_c`, "a_c", true}, {`a\_c`, "abc", false},
		{`a\%c`, "a%c", true}, {`a\%c`, "abbc", false}, {`a\\c`, `a\c`, true}, {`a\\%`, `a\zzz`, true},
		{`a\bc`, `a\bc`, true}, {`a\`, `a\`, true}, {`%x\%`, "zzx%", true}, {`%x\%`, "zzx'zz", false},
		{`%%`, "", true}, {`%`, "anything", true}, {`_`, "", false},
	} {
		if got := LikeMatch([]byte(c.p), []byte(c.s)); got != c.want {
			t.Errorf("LikeMatch(%q, %q) = %v", c.p, c.s, got)
		}
	}
	r := rand.New(rand.NewSource(4))
	alphabet := []byte(`ab%_\'`)
	for n := 0; n < 5000; n++ {
		s := make([]byte, r.Intn(6))
		for i := range s {
			s[i] = alphabet[r.Intn(len(alphabet))]
		}
		esc := LikeEscape(s)
		if !LikeMatch(esc, s) {
			t.Fatalf("LikeEscape(%q) = %q does not match it", s, esc)
		}
		u, ok := LikeUnescape(esc)
		if !ok || !bytes.Equal(u, s) {
			t.Fatalf("LikeUnescape(LikeEscape(%q)) = %q, %v", s, u, ok)
		}
		pat := append(append([]byte{'%'}, esc...), '%')
		lit, ok := LikeContains(pat)
		if !ok || !bytes.Equal(lit, s) {
			t.Fatalf("LikeContains(%q) = %q, %v", pat, lit, ok)
		}
		// the escaped pattern matches nothing but s among random strings
		o := make([]byte, r.Intn(6))
		for i := range o {
			o[i] = alphabet[r.Intn(len(alphabet))]
		}
		if LikeMatch(esc, o) != bytes.Equal(o, s) {
			t.Fatalf("LikeMatch(%q, %q) disagrees with equality to %q", esc, o, s)
		}
		// "contains" meaning
		if LikeMatch(pat, o) != bytes.Contains(o, s) {
			t.Fatalf("LikeMatch(%q, %q) disagrees with contains %q", pat, o, s)
		}
	}
	if _, ok := LikeContains([]byte(`%x\%`)); ok {
		t.Errorf("%s accepted as a contains-pattern", `%x\%`)
	}
	if _, ok := LikeContains([]byte(`%a_b%`)); ok {
		t.Errorf("%s accepted as a contains-pattern", `%a_b%`)
	}
	if _, ok := LikeUnescape([]byte(`a%`)); ok {
		t.Errorf("%s accepted as wildcard-free", `a%`)
	}
}

// every statement of the reader's SQL corpus lexes to completion, without Other tokens, and
// every string literal in it decodes
func TestCorpus(t *testing.T) {
	for _, f := range []string{"/verif/design/sql_corpus_single.txt", "/verif/design/sql_corpus_cluster.txt"} {
		b, err := os.ReadFile(f)
		if err != nil {
			t.Skip("corpus not available")
		}
		nstmt, nlit := 0, 0
		for _, line := range strings.Split(string(b), "\n") {
			if line == "" || strings.HasPrefix(line, "###") {
				continue
			}
			nstmt++
			for _, tk := range Lex(line) {
				if tk.Kind.Unterminated() || tk.Kind == Other || tk.Kind == HereDoc || tk.Kind == Comment {
					t.Fatalf("%s: token %s %q in %q", f, tk.Kind, tk.Text, line)
				}
				if tk.Kind == String {
					nlit++
					if _, err := DecodeString(tk.Text); err != nil {
						t.Fatalf("%s: literal %q: %v", f, tk.Text, err)
					}
				}
			}
		}
		if nstmt < 50 || nlit < 100 {
			t.Fatalf("%s: only %d statements / %d literals", f, nstmt, nlit)
		}
	}
}
