package reftraceql

import (
	"reflect"
	"testing"
)

// Hand-computed cases: the evaluator is an oracle, so it is tested like one.

const (
	from = int64(1000)
	to   = int64(2000)
)

func sp(id string, ts, dur int64, name string, kv ...string) *Span {
	s := &Span{SpanID: id, TS: ts, Dur: dur, Name: name, Service: "svc"}
	for i := 0; i+1 < len(kv); i += 2 {
		s.Attrs = append(s.Attrs, Attr{Key: kv[i], Val: kv[i+1], Scope: "span"})
	}
	return s
}

func db() *DB {
	return &DB{Traces: []*Trace{
		{ID: "t1", Spans: []*Span{sp("a1", 1100, 5, "op1", "a", "x", "n", "7"), sp("a2", 1200, 50, "op2", "b", "y", "n", "abc")}},
		{ID: "t2", Spans: []*Span{sp("b1", 1300, 500, "op1", "a", "x", "b", "y", "n", "3")}},
		{ID: "t3", Spans: []*Span{sp("c1", 999, 5, "op1", "a", "x"), sp("c2", 2000, 5, "op1", "a", "x")}},   // both outside [from,to)
		{ID: "t4", Spans: []*Span{sp("d1", 1000, 1, "op3", "a", "z"), sp("d2", 1999, 1, "op3", "n", "10")}}, // both edges inside
	}}
}

func term(scope, name, op string, kind int, v string) *Item {
	t := &Term{Scope: scope, Name: name, Op: op, Kind: kind}
	if kind == KStr {
		t.Str = v
	} else {
		t.Lit = v
	}
	return &Item{Term: t}
}

func one(items []*Item, ops ...string) *Script {
	return &Script{Sels: []*Selector{{Expr: &Seq{Items: items, Ops: ops}}}}
}

func ids(t *testing.T, s *Script, r Reading) []string {
	t.Helper()
	sel, _, err := Eval(s, db(), from, to, r)
	if err != nil {
		t.Fatalf("%s: %v", s, err)
	}
	return sel.IDs()
}

func want(t *testing.T, s *Script, r Reading, exp ...string) {
	t.Helper()
	got := ids(t, s, r)
	if len(got) == 0 && len(exp) == 0 {
		return
	}
	if !reflect.DeepEqual(got, exp) {
		t.Errorf("%s under %s: got %v want %v", s, r, got, exp)
	}
}

func TestTerms(t *testing.T) {
	b := Reading{}
	want(t, one([]*Item{term(".", "a", "=", KStr, "x")}), b, "t1", "t2")  // t3's spans are outside the window
	want(t, one([]*Item{term(".", "a", "!=", KStr, "x")}), b, "t4")       // absent attribute: != is false
	want(t, one([]*Item{term(".", "zz", "!~", KStr, "x")}), b)            // absent attribute: !~ is false
	want(t, one([]*Item{term(".", "n", ">", KNum, "5")}), b, "t1", "t4")  // "abc" is not numeric text
	want(t, one([]*Item{term(".", "n", "!=", KNum, "7")}), b, "t2", "t4") // needs numeric text
	want(t, one([]*Item{term(".", "n", "<=", KNum, "3")}), b, "t2")       //
	want(t, one([]*Item{term("", "name", "=", KStr, "op3")}), b, "t4")    // intrinsic
	want(t, one([]*Item{term("", "duration", ">=", KDur, "50ns")}), b, "t1", "t2")
	want(t, one([]*Item{term("", "duration", "<", KDur, "0.002us")}), b, "t4") // 2ns
	want(t, one([]*Item{term(".", "a", "=~", KStr, "x|z")}), b, "t1", "t2", "t4")
	want(t, one([]*Item{term(".", "n", "=~", KStr, "b")}), b, "t1")                          // unanchored
	want(t, one([]*Item{term(".", "n", "=~", KStr, "b")}), Reading{RegexAnchored: true})     // anchored: no match
	want(t, one([]*Item{term(".", "n", "=", KStr, "7")}), b, "t1")                           // text equality
	want(t, one([]*Item{term(".", "n", "=", KStr, "7")}), Reading{Typed: true})              // a number is not a string
	want(t, one([]*Item{term("resource.", "a", "=", KStr, "x")}), Reading{ScopeAware: true}) // span attribute
	want(t, one([]*Item{term("resource.", "a", "=", KStr, "x")}), b, "t1", "t2")             // scope-blind
	want(t, one([]*Item{term(".", "service.name", "=", KStr, "svc")}), b, "t1", "t2", "t4")  // always stored
	want(t, &Script{Sels: []*Selector{{}}}, b, "t1", "t2", "t4")                             // {}
}

func TestBooleanAndAssociation(t *testing.T) {
	ax := term(".", "a", "=", KStr, "x")
	by := term(".", "b", "=", KStr, "y")
	n3 := term(".", "n", "=", KNum, "3")
	// same span must satisfy both
	want(t, one([]*Item{ax, by}, "&&"), Reading{}, "t2")
	want(t, one([]*Item{ax, by}, "||"), Reading{}, "t1", "t2")
	// a || b && n=3 : right-nested and and-first agree, left-assoc does not
	s := one([]*Item{ax, by, n3}, "||", "&&")
	want(t, s, Reading{ExprAssoc: AssocRight}, "t1", "t2")
	want(t, s, Reading{ExprAssoc: AssocPrec}, "t1", "t2")
	want(t, s, Reading{ExprAssoc: AssocLeft}, "t2")
	v, err := EvalAll(s, db(), from, to)
	if err != nil || v.TracesAgree {
		t.Errorf("mixed sequence must be a probe: %+v %v", v, err)
	}
	// parentheses remove the ambiguity
	p := one([]*Item{ax, {Sub: &Seq{Items: []*Item{by, n3}, Ops: []string{"&&"}}}}, "||")
	v, err = EvalAll(p, db(), from, to)
	if err != nil || !v.TracesAgree || !reflect.DeepEqual(v.Base.IDs(), []string{"t1", "t2"}) {
		t.Errorf("parenthesised: %+v %v", v, err)
	}
}

func TestAggregatesAndChains(t *testing.T) {
	any := &Seq{Items: []*Item{term(".", "service.name", "=", KStr, "svc")}}
	sel := func(a *Agg) *Script { return &Script{Sels: []*Selector{{Expr: any, Agg: a}}} }
	b := Reading{}
	want(t, sel(&Agg{Fn: "count", Cmp: ">", Num: "1"}), b, "t1", "t4")
	want(t, sel(&Agg{Fn: "count", Cmp: "=", Num: "1"}), b, "t2")
	want(t, sel(&Agg{Fn: "avg", Name: "duration", Cmp: ">", Num: "27", Unit: "ns"}), b, "t1", "t2") // t1: 27.5
	want(t, sel(&Agg{Fn: "max", Name: "duration", Cmp: "<=", Num: "0.05", Unit: "us"}), b, "t1", "t4")
	want(t, sel(&Agg{Fn: "sum", Scope: ".", Name: "n", Cmp: ">=", Num: "7"}), b, "t1", "t4") // "abc" skipped
	want(t, sel(&Agg{Fn: "min", Scope: ".", Name: "n", Cmp: "<", Num: "5"}), b, "t2")
	// aggregate over no value: undefined unless the zero-default reading
	want(t, sel(&Agg{Fn: "max", Scope: ".", Name: "zz", Cmp: "<", Num: "5"}), b)
	want(t, sel(&Agg{Fn: "max", Scope: ".", Name: "zz", Cmp: "<", Num: "5"}), Reading{AggEmptyZero: true}, "t1", "t2", "t4")

	ax := &Selector{Expr: &Seq{Items: []*Item{term(".", "a", "=", KStr, "x")}}}
	by := &Selector{Expr: &Seq{Items: []*Item{term(".", "b", "=", KStr, "y")}}}
	n10 := &Selector{Expr: &Seq{Items: []*Item{term(".", "n", "=", KNum, "10")}}}
	// && between selectors is per trace, not per span: t1 has a=x on one span and b=y on another
	want(t, &Script{Sels: []*Selector{ax, by}, Ops: []string{"&&"}}, b, "t1", "t2")
	want(t, &Script{Sels: []*Selector{ax, n10}, Ops: []string{"||"}}, b, "t1", "t2", "t4")
	mixed := &Script{Sels: []*Selector{n10, ax, by}, Ops: []string{"||", "&&"}}
	want(t, mixed, Reading{ChainAssoc: AssocRight}, "t1", "t2", "t4")
	want(t, mixed, Reading{ChainAssoc: AssocLeft}, "t1", "t2")
}

func TestValidCut(t *testing.T) {
	s := &Selection{Traces: []TraceSel{
		{ID: "a", Recency: [5]int64{10, 10, 10, 10, 10}},
		{ID: "b", Recency: [5]int64{20, 20, 20, 20, 20}},
		{ID: "c", Recency: [5]int64{20, 20, 20, 20, 20}},
		{ID: "d", Recency: [5]int64{30, 30, 30, 30, 30}},
	}}
	for _, c := range []struct {
		got   []string
		limit int
		want  string
	}{
		{[]string{"a", "b", "c", "d"}, 20, ""},
		{[]string{"d", "b"}, 2, ""}, {[]string{"d", "c"}, 2, ""}, // tie at the cut: any choice
		{[]string{"b", "c"}, 2, "not-the-most-recent"},
		{[]string{"d", "a"}, 2, "not-the-most-recent"},
		{[]string{"d"}, 2, "fewer-than-limit"},
		{[]string{"d", "b", "c"}, 2, "more-than-limit"},
		{[]string{"a", "b", "c"}, 20, "selected-trace-missing"},
		{[]string{"a", "b", "c", "d", "e"}, 20, "unselected-trace-returned"},
		{[]string{"d", "d"}, 2, "duplicate-trace"},
	} {
		if got := ValidCut(s, c.got, c.limit); got != c.want {
			t.Errorf("ValidCut(%v, %d) = %q want %q", c.got, c.limit, got, c.want)
		}
	}
}

func TestParseDur(t *testing.T) {
	for lit, ns := range map[string]int64{"1s": 1e9, "1.5s": 15e8, "0.5ms": 5e5, "2m": 120e9, "1h": 3600e9, "1d": 86400e9, "100us": 1e5, "7ns": 7} {
		got, exact, err := ParseDur(lit)
		if err != nil || !exact || got != ns {
			t.Errorf("ParseDur(%q) = %d %v %v, want %d", lit, got, exact, err, ns)
		}
	}
	if _, exact, _ := ParseDur("1.5ns"); exact {
		t.Error("1.5ns is not a whole number of nanoseconds")
	}
	if _, _, err := ParseDur("5"); err == nil {
		t.Error("a bare number is not a duration")
	}
}

func TestRender(t *testing.T) {
	s := &Script{Sels: []*Selector{
		{Expr: &Seq{Items: []*Item{term("span.", "a", "=", KStr, `q"t`), {Sub: &Seq{Items: []*Item{term("", "duration", ">", KDur, "1.5s"), term(".", "n", "<=", KNum, "-2.5")}, Ops: []string{"||"}}}}, Ops: []string{"&&"}},
			Agg: &Agg{Fn: "avg", Name: "duration", Cmp: ">=", Num: "10", Unit: "ms"}},
		{}}, Ops: []string{"||"}}
	const exp = `{span.a = "q\"t" && (duration > 1.5s || .n <= -2.5)} | avg(duration) >= 10ms || {}`
	if s.String() != exp {
		t.Errorf("render:\n got %s\nwant %s", s, exp)
	}
	if c := s.Clone(); c.String() != exp {
		t.Errorf("clone renders %s", c)
	}
}
