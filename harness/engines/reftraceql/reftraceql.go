// Package reftraceql is the E-REF evaluator for TraceQL (property C11): an AST that renders to
// TraceQL text, a tiny trace database model, and a direct evaluator written from the property
// text and DESIGN.md Appendix E — it shares no code with qryn's parser or planners and never
// looks at SQL.
//
// # Semantics (Appendix E, "TraceQL (C11)")
//
//   - a condition on an attribute a span does not carry is false (also for != and !~);
//   - numeric comparisons require numeric text;
//   - `name` and `duration` are intrinsics;
//   - only spans with from <= timestamp < to are visible;
//   - a selector selects a trace iff at least one visible span satisfies its boolean expression and
//     the aggregate over *those* spans passes the aggregate filter;
//   - `A && B` = traces selected by both, `A || B` = by either;
//   - the answer holds at most `limit` most recent traces.
//
// # Ambiguity policy
//
// Wherever the property text leaves a choice, the choice is a field of Reading. EvalAll evaluates a
// script under every combination of the readings that are relevant to it; a case is *judged* only if
// all readings select the same traces (and the same spans), otherwise it is a *probe*.
package reftraceql

import (
	"encoding/json"
	"fmt"
	"math"
	"regexp"
	"sort"
	"strconv"
	"strings"
)

// ---------------------------------------------------------------------------------------------
// AST
// ---------------------------------------------------------------------------------------------

// Script is a chain of selectors: Sels[0] Ops[0] Sels[1] …
type Script struct {
	Sels []*Selector
	Ops  []string // "&&" | "||"
}

// Selector is `{ expr? } [| agg]`.
type Selector struct {
	Expr *Seq // nil = `{}`
	Agg  *Agg
}

// Seq is a flat boolean sequence `item op item op item`; how a mixed sequence associates is a Reading.
type Seq struct {
	Items []*Item
	Ops   []string
}

// Item is a term or a parenthesised sub-sequence.
type Item struct {
	Term *Term
	Sub  *Seq
}

const (
	KStr = iota
	KNum
	KDur
)

// Term is `label op value`.
type Term struct {
	Scope string // "" (intrinsic: Name is "name" or "duration", or an unsupported bare label), "span.", "resource.", "."
	Name  string
	Op    string // = != =~ !~ > >= < <=
	Kind  int
	Str   string // KStr: the string *content*
	Tick  bool   // KStr: render with back-ticks
	Lit   string // KNum: number text ("5", "-2.5"); KDur: duration text ("1.5ms")
}

// Agg is `| fn(attr) cmp num[unit]`.
type Agg struct {
	Fn    string // count sum min max avg
	Scope string // "", "span.", "resource.", "."   ("" with Name "duration" = intrinsic; "" with Name "" = count())
	Name  string
	Cmp   string
	Num   string
	Unit  string
}

func (s *Script) String() string {
	var b strings.Builder
	for i, sel := range s.Sels {
		if i > 0 {
			b.WriteString(" " + s.Ops[i-1] + " ")
		}
		b.WriteString(sel.String())
	}
	return b.String()
}

func (s *Selector) String() string {
	res := "{"
	if s.Expr != nil {
		res += s.Expr.String()
	}
	res += "}"
	if s.Agg != nil {
		res += " | " + s.Agg.String()
	}
	return res
}

func (q *Seq) String() string {
	var b strings.Builder
	for i, it := range q.Items {
		if i > 0 {
			b.WriteString(" " + q.Ops[i-1] + " ")
		}
		if it.Term != nil {
			b.WriteString(it.Term.String())
		} else {
			b.WriteString("(" + it.Sub.String() + ")")
		}
	}
	return b.String()
}

func (t *Term) Label() string { return t.Scope + t.Name }

func (t *Term) String() string {
	return t.Label() + " " + t.Op + " " + t.ValueText()
}

func (t *Term) ValueText() string {
	switch t.Kind {
	case KStr:
		if t.Tick {
			return "`" + strings.ReplaceAll(t.Str, "`", "\\`") + "`"
		}
		return QuoteString(t.Str)
	}
	return t.Lit
}

// QuoteString renders a TraceQL double-quoted string (the grammar's strings are JSON strings).
func QuoteString(s string) string {
	var b strings.Builder
	b.WriteByte('"')
	for _, r := range s {
		switch {
		case r == '"':
			b.WriteString(`\"`)
		case r == '\\':
			b.WriteString(`\\`)
		case r == '\n':
			b.WriteString(`\n`)
		case r == '\t':
			b.WriteString(`\t`)
		case r < 0x20:
			fmt.Fprintf(&b, `\u%04x`, r)
		default:
			b.WriteRune(r)
		}
	}
	b.WriteByte('"')
	return b.String()
}

func (a *Agg) String() string {
	return a.Fn + "(" + a.Scope + a.Name + ") " + a.Cmp + " " + a.Num + a.Unit
}

// Terms lists all terms of the script in order.
func (s *Script) Terms() []*Term {
	var out []*Term
	for _, sel := range s.Sels {
		out = append(out, sel.Expr.Terms()...)
	}
	return out
}

func (q *Seq) Terms() []*Term {
	if q == nil {
		return nil
	}
	var out []*Term
	for _, it := range q.Items {
		if it.Term != nil {
			out = append(out, it.Term)
		} else {
			out = append(out, it.Sub.Terms()...)
		}
	}
	return out
}

// Clone deep-copies the script.
func (s *Script) Clone() *Script {
	b, _ := json.Marshal(s)
	n := &Script{}
	json.Unmarshal(b, n)
	return n
}

// ---------------------------------------------------------------------------------------------
// data
// ---------------------------------------------------------------------------------------------

// Attr is one stored attribute. Scope ("span" | "resource") is the hidden truth of where the
// attribute was attached at ingest; qryn's index does not store it.
type Attr struct {
	Key   string `json:"k"`
	Val   string `json:"v"`
	Scope string `json:"s,omitempty"`
}

type Span struct {
	SpanID  string `json:"id"` // 16 hex digits
	TS      int64  `json:"ts"`
	Dur     int64  `json:"dur"`
	Name    string `json:"name"`
	Service string `json:"svc"`
	Attrs   []Attr `json:"attrs,omitempty"`
}

type Trace struct {
	ID    string  `json:"id"` // 32 hex digits
	Spans []*Span `json:"spans"`
}

type DB struct {
	Traces []*Trace `json:"traces"`
}

func (d *DB) Clone() *DB {
	b, _ := json.Marshal(d)
	n := &DB{}
	json.Unmarshal(b, n)
	return n
}

// ---------------------------------------------------------------------------------------------
// readings
// ---------------------------------------------------------------------------------------------

const (
	AssocRight = iota // as qryn's grammar writes it: a op (b op (c …))
	AssocPrec         // && binds tighter than ||
	AssocLeft         // ((a op b) op c)
	nAssoc
)

// Reading fixes every choice the property text leaves open. The zero value is the base reading.
type Reading struct {
	RegexAnchored bool // =~ must match the whole value (Prometheus/Tempo style) instead of a part of it
	NumEqAsText   bool // `.n = 5` / `.n != 5` compare the stored text with the literal's text
	Typed         bool // stored numeric text is a number: comparing it with a string literal or regex is false
	LenientNum    bool // numeric text = anything strconv.ParseFloat accepts (else: -?digits[.digits])
	ScopeAware    bool // span.x sees only span attributes, resource.x only resource attributes, .name/.duration are attributes
	ExprAssoc     int  // association of mixed &&/|| inside a selector
	ChainAssoc    int  // association of mixed &&/|| between selectors
	AggEmptyZero  bool // sum/min/max over no numeric value is 0 (avg stays undefined)
}

func (r Reading) String() string {
	var p []string
	if r.RegexAnchored {
		p = append(p, "regex-anchored")
	}
	if r.NumEqAsText {
		p = append(p, "num-eq-as-text")
	}
	if r.Typed {
		p = append(p, "typed-values")
	}
	if r.LenientNum {
		p = append(p, "lenient-numeric-text")
	}
	if r.ScopeAware {
		p = append(p, "scope-aware")
	}
	if r.ExprAssoc != 0 {
		p = append(p, "expr-assoc="+assocName(r.ExprAssoc))
	}
	if r.ChainAssoc != 0 {
		p = append(p, "chain-assoc="+assocName(r.ChainAssoc))
	}
	if r.AggEmptyZero {
		p = append(p, "agg-empty-zero")
	}
	if len(p) == 0 {
		return "base"
	}
	return strings.Join(p, ",")
}

func assocName(a int) string {
	switch a {
	case AssocPrec:
		return "and-first"
	case AssocLeft:
		return "left"
	}
	return "right"
}

// ---------------------------------------------------------------------------------------------
// evaluation
// ---------------------------------------------------------------------------------------------

var strictNum = regexp.MustCompile(`^-?[0-9]+(\.[0-9]+)?$`)

func numericText(s string, lenient bool) (float64, bool) {
	if !lenient && !strictNum.MatchString(s) {
		return 0, false
	}
	if lenient && strings.TrimSpace(s) != s {
		return 0, false
	}
	f, err := strconv.ParseFloat(s, 64)
	if err != nil {
		return 0, false
	}
	return f, true
}

var durRe = regexp.MustCompile(`^([0-9]+)(?:\.([0-9]*))?(ns|us|ms|s|m|h|d)$`)

var unitNs = map[string]int64{"ns": 1, "us": 1e3, "ms": 1e6, "s": 1e9, "m": 60e9, "h": 3600e9, "d": 86400e9}

// ParseDur converts a TraceQL duration literal to nanoseconds; exact reports whether the literal is a
// whole number of nanoseconds (otherwise rounding is implementation-defined and the case is a probe).
func ParseDur(lit string) (ns int64, exact bool, err error) {
	m := durRe.FindStringSubmatch(lit)
	if m == nil {
		return 0, false, fmt.Errorf("not a duration: %q", lit)
	}
	ip, err := strconv.ParseInt(m[1], 10, 64)
	if err != nil {
		return 0, false, err
	}
	u := unitNs[m[3]]
	if ip > math.MaxInt64/u/2 {
		return 0, false, fmt.Errorf("duration overflow: %q", lit)
	}
	ns = ip * u
	exact = true
	if m[2] != "" {
		if len(m[2]) > 15 {
			return 0, false, fmt.Errorf("too many fraction digits: %q", lit)
		}
		fp, _ := strconv.ParseInt(m[2], 10, 64)
		scale := int64(1)
		for range m[2] {
			scale *= 10
		}
		// fp/scale * u, exactly when divisible
		num := fp * u
		if fp != 0 && num/fp != u {
			return 0, false, fmt.Errorf("duration overflow: %q", lit)
		}
		if num%scale != 0 {
			exact = false
		}
		ns += num / scale
	}
	return ns, exact, nil
}

type evaluator struct {
	r       Reading
	from    int64
	to      int64
	res     map[string]*regexp.Regexp
	inexact bool
}

func (e *evaluator) regex(pat string, anchored bool) (*regexp.Regexp, error) {
	k := pat
	if anchored {
		k = "^(?:" + pat + ")$"
	}
	if re, ok := e.res[k]; ok {
		return re, nil
	}
	re, err := regexp.Compile(k)
	if err != nil {
		return nil, err
	}
	e.res[k] = re
	return re, nil
}

// lookup finds the stored text a label refers to on a span.
func (e *evaluator) lookup(sp *Span, scope, name string) (string, bool) {
	if scope == "" {
		if name == "name" {
			return sp.Name, true
		}
		return "", false
	}
	if e.r.ScopeAware {
		// prefixed labels are attributes; the span's name and duration are not attributes
		for _, a := range sp.Attrs {
			if a.Key == name && (scope == "." || scope == a.Scope+".") {
				return a.Val, true
			}
		}
		if name == "service.name" && (scope == "." || scope == "resource.") {
			return sp.Service, true
		}
		return "", false
	}
	// scope-blind: every stored key (the writer always stores `name` and `service.name`)
	switch name {
	case "name":
		return sp.Name, true
	case "service.name":
		return sp.Service, true
	}
	for _, a := range sp.Attrs {
		if a.Key == name {
			return a.Val, true
		}
	}
	return "", false
}

func cmpFloat(a float64, op string, b float64) bool {
	switch op {
	case "=":
		return a == b
	case "!=":
		return a != b
	case ">":
		return a > b
	case ">=":
		return a >= b
	case "<":
		return a < b
	case "<=":
		return a <= b
	}
	return false
}

func cmpInt(a int64, op string, b int64) bool {
	switch op {
	case "=":
		return a == b
	case "!=":
		return a != b
	case ">":
		return a > b
	case ">=":
		return a >= b
	case "<":
		return a < b
	case "<=":
		return a <= b
	}
	return false
}

// ErrUnsupportedTerm marks constructs the property's list of conditions does not cover
// (string ordering, duration literal against an attribute, …): the evaluator refuses them.
type ErrUnsupportedTerm struct{ Why string }

func (e *ErrUnsupportedTerm) Error() string {
	return "reftraceql: not covered by the property: " + e.Why
}

func (e *evaluator) term(sp *Span, t *Term) (bool, error) {
	if t.Scope == "" && t.Name == "duration" {
		if t.Kind != KDur {
			return false, &ErrUnsupportedTerm{"duration compared with a non-duration literal"}
		}
		ns, exact, err := ParseDur(t.Lit)
		if err != nil {
			return false, &ErrUnsupportedTerm{err.Error()}
		}
		if !exact {
			e.inexact = true
		}
		if t.Op == "=~" || t.Op == "!~" {
			return false, &ErrUnsupportedTerm{"regex on duration"}
		}
		return cmpInt(sp.Dur, t.Op, ns), nil
	}
	if t.Scope == "" && t.Name != "name" {
		return false, &ErrUnsupportedTerm{"bare label " + t.Name}
	}
	if t.Kind == KDur {
		return false, &ErrUnsupportedTerm{"duration literal against an attribute"}
	}
	val, ok := e.lookup(sp, t.Scope, t.Name)
	switch t.Kind {
	case KStr:
		var re *regexp.Regexp
		switch t.Op {
		case "=", "!=":
		case "=~", "!~":
			var err error
			re, err = e.regex(t.Str, e.r.RegexAnchored)
			if err != nil {
				return false, &ErrUnsupportedTerm{"invalid regex"}
			}
		default:
			return false, &ErrUnsupportedTerm{"ordering comparison with a string"}
		}
		if !ok {
			return false, nil
		}
		if e.r.Typed {
			if _, num := numericText(val, e.r.LenientNum); num {
				return false, nil
			}
		}
		switch t.Op {
		case "=":
			return val == t.Str, nil
		case "!=":
			return val != t.Str, nil
		case "=~":
			return re.MatchString(val), nil
		default:
			return !re.MatchString(val), nil
		}
	case KNum:
		if t.Op == "=~" || t.Op == "!~" {
			return false, &ErrUnsupportedTerm{"regex with a number"}
		}
		lit, err := strconv.ParseFloat(t.Lit, 64)
		if err != nil {
			return false, &ErrUnsupportedTerm{"bad number"}
		}
		if !ok {
			return false, nil
		}
		if e.r.NumEqAsText && (t.Op == "=" || t.Op == "!=") {
			return (val == t.Lit) == (t.Op == "="), nil
		}
		f, num := numericText(val, e.r.LenientNum)
		if !num {
			return false, nil
		}
		return cmpFloat(f, t.Op, lit), nil
	}
	return false, &ErrUnsupportedTerm{"unknown literal kind"}
}

// combine folds values (bit masks: && = and, || = or) under an association reading.
func combine(vals []uint64, ops []string, assoc int) uint64 {
	if len(vals) == 0 {
		return 0
	}
	apply := func(a uint64, op string, b uint64) uint64 {
		if op == "&&" {
			return a & b
		}
		return a | b
	}
	switch assoc {
	case AssocLeft:
		acc := vals[0]
		for i, op := range ops {
			acc = apply(acc, op, vals[i+1])
		}
		return acc
	case AssocPrec:
		// split on ||, and-fold the runs
		acc := uint64(0)
		run := vals[0]
		for i, op := range ops {
			if op == "&&" {
				run &= vals[i+1]
			} else {
				acc |= run
				run = vals[i+1]
			}
		}
		return acc | run
	default:
		acc := vals[len(vals)-1]
		for i := len(ops) - 1; i >= 0; i-- {
			acc = apply(vals[i], ops[i], acc)
		}
		return acc
	}
}

func (e *evaluator) seq(sp *Span, q *Seq) (bool, error) {
	vals := make([]uint64, len(q.Items))
	for i, it := range q.Items {
		var b bool
		var err error
		if it.Term != nil {
			b, err = e.term(sp, it.Term)
		} else {
			b, err = e.seq(sp, it.Sub)
		}
		if err != nil {
			return false, err
		}
		if b {
			vals[i] = 1
		}
	}
	return combine(vals, q.Ops, e.r.ExprAssoc) == 1, nil
}

func (e *evaluator) visible(sp *Span) bool { return sp.TS >= e.from && sp.TS < e.to }

// aggregate decides the aggregate filter over the matching spans of one trace.
func (e *evaluator) aggregate(a *Agg, spans []*Span) (bool, error) {
	switch a.Fn {
	case "count":
		if a.Name != "" || a.Scope != "" {
			return false, &ErrUnsupportedTerm{"count with an argument"}
		}
		if a.Unit != "" {
			return false, &ErrUnsupportedTerm{"count compared with a duration"}
		}
		n, err := strconv.ParseFloat(a.Num, 64)
		if err != nil {
			return false, &ErrUnsupportedTerm{"bad number"}
		}
		ids := map[string]bool{}
		for _, sp := range spans {
			ids[sp.SpanID] = true
		}
		return cmpFloat(float64(len(ids)), a.Cmp, n), nil
	case "sum", "min", "max", "avg":
	default:
		return false, &ErrUnsupportedTerm{"aggregate " + a.Fn}
	}
	var vals []float64
	var thr float64
	if a.Scope == "" {
		if a.Name != "duration" {
			return false, &ErrUnsupportedTerm{"aggregate over bare label " + a.Name}
		}
		if a.Unit == "" {
			return false, &ErrUnsupportedTerm{"duration aggregate compared with a bare number"}
		}
		ns, exact, err := ParseDur(a.Num + a.Unit)
		if err != nil {
			return false, &ErrUnsupportedTerm{err.Error()}
		}
		if strings.HasPrefix(a.Num, "-") {
			return false, &ErrUnsupportedTerm{"negative duration"}
		}
		if !exact {
			e.inexact = true
		}
		thr = float64(ns)
		for _, sp := range spans {
			vals = append(vals, float64(sp.Dur))
		}
	} else {
		if a.Unit != "" {
			return false, &ErrUnsupportedTerm{"attribute aggregate compared with a duration"}
		}
		var err error
		thr, err = strconv.ParseFloat(a.Num, 64)
		if err != nil {
			return false, &ErrUnsupportedTerm{"bad number"}
		}
		for _, sp := range spans {
			v, ok := e.lookup(sp, a.Scope, a.Name)
			if !ok {
				continue
			}
			if f, num := numericText(v, e.r.LenientNum); num {
				vals = append(vals, f)
			}
		}
	}
	if len(vals) == 0 {
		if e.r.AggEmptyZero && a.Fn != "avg" {
			return cmpFloat(0, a.Cmp, thr), nil
		}
		return false, nil
	}
	var agg float64
	switch a.Fn {
	case "sum", "avg":
		for _, v := range vals {
			agg += v
		}
		if a.Fn == "avg" {
			agg /= float64(len(vals))
		}
	case "min":
		agg = vals[0]
		for _, v := range vals {
			agg = math.Min(agg, v)
		}
	case "max":
		agg = vals[0]
		for _, v := range vals {
			agg = math.Max(agg, v)
		}
	}
	return cmpFloat(agg, a.Cmp, thr), nil
}

// TraceSel is one selected trace.
type TraceSel struct {
	ID string
	// Spans: ids of the matching spans (single-selector scripts only; nil for chains, whose span
	// sets the property does not describe).
	Spans []string
	// Recency candidates (what "most recent" may refer to): latest matching span, latest / earliest
	// visible span, latest / earliest span of the trace.
	Recency [5]int64
}

// Selection is the set of traces a script selects, before `limit`.
type Selection struct {
	Traces []TraceSel // sorted by ID
}

func (s *Selection) IDs() []string {
	out := make([]string, len(s.Traces))
	for i, t := range s.Traces {
		out[i] = t.ID
	}
	return out
}

func (s *Selection) key(withSpans bool) string {
	var b strings.Builder
	for _, t := range s.Traces {
		b.WriteString(t.ID)
		if withSpans {
			b.WriteString("[" + strings.Join(t.Spans, ",") + "]")
		}
		b.WriteByte(';')
	}
	return b.String()
}

// Eval evaluates the script under one reading. inexact reports that a duration literal is not a
// whole number of nanoseconds (rounding unspecified).
func Eval(s *Script, db *DB, from, to int64, r Reading) (sel *Selection, inexact bool, err error) {
	return eval(s, db, from, to, r, false)
}

// EvalSpanIntersect is NOT a reading of the property: it evaluates `{A} && {B}` the way an INTERSECT of
// the two selectors' (trace, span, latest matched timestamp) rows does - a trace is kept only when one and
// the same span is matched by both selectors and both selectors' latest matched spans have the same timestamp. It exists so that a checker can tell that particular, known, defect from any other
// wrong answer. Only defined for two selectors joined by &&.
func EvalSpanIntersect(s *Script, db *DB, from, to int64, r Reading) (sel *Selection, err error) {
	if len(s.Sels) != 2 || s.Ops[0] != "&&" {
		return nil, fmt.Errorf("reftraceql: span intersection is defined for {A} && {B} only")
	}
	sel, _, err = eval(s, db, from, to, r, true)
	return sel, err
}

func eval(s *Script, db *DB, from, to int64, r Reading, spanAnd bool) (sel *Selection, inexact bool, err error) {
	if len(db.Traces) > 64 {
		return nil, false, fmt.Errorf("reftraceql: more than 64 traces")
	}
	e := &evaluator{r: r, from: from, to: to, res: map[string]*regexp.Regexp{}}
	masks := make([]uint64, len(s.Sels))
	matched := make([]map[int][]*Span, len(s.Sels))
	for si, sl := range s.Sels {
		matched[si] = map[int][]*Span{}
		if sl.Expr == nil && sl.Agg != nil {
			return nil, false, &ErrUnsupportedTerm{"aggregate over `{}`"}
		}
		for ti, tr := range db.Traces {
			var ms []*Span
			for _, sp := range tr.Spans {
				if !e.visible(sp) {
					continue
				}
				ok := true
				if sl.Expr != nil {
					ok, err = e.seq(sp, sl.Expr)
					if err != nil {
						return nil, false, err
					}
				}
				if ok {
					ms = append(ms, sp)
				}
			}
			if len(ms) == 0 {
				continue
			}
			if sl.Agg != nil {
				pass, err := e.aggregate(sl.Agg, ms)
				if err != nil {
					return nil, false, err
				}
				if !pass {
					continue
				}
			}
			matched[si][ti] = ms
			masks[si] |= 1 << uint(ti)
		}
	}
	final := combine(masks, s.Ops, r.ChainAssoc)
	if spanAnd {
		final = 0
		for ti := range db.Traces {
			// the intersected rows are (trace, span, latest timestamp among the selector's matched spans of the trace)
			in0 := map[string]bool{}
			l0, l1 := int64(math.MinInt64), int64(math.MinInt64)
			for _, sp := range matched[0][ti] {
				in0[sp.SpanID] = true
				l0 = max(l0, sp.TS)
			}
			for _, sp := range matched[1][ti] {
				l1 = max(l1, sp.TS)
			}
			for _, sp := range matched[1][ti] {
				if in0[sp.SpanID] && l0 == l1 {
					final |= 1 << uint(ti)
				}
			}
		}
	}
	sel = &Selection{}
	for ti, tr := range db.Traces {
		if final&(1<<uint(ti)) == 0 {
			continue
		}
		ts := TraceSel{ID: tr.ID}
		lm := int64(math.MinInt64)
		for si := range s.Sels {
			for _, sp := range matched[si][ti] {
				if sp.TS > lm {
					lm = sp.TS
				}
			}
		}
		lv, ev, la, ea := int64(math.MinInt64), int64(math.MaxInt64), int64(math.MinInt64), int64(math.MaxInt64)
		for _, sp := range tr.Spans {
			if e.visible(sp) {
				lv = max(lv, sp.TS)
				ev = min(ev, sp.TS)
			}
			la = max(la, sp.TS)
			ea = min(ea, sp.TS)
		}
		ts.Recency = [5]int64{lm, lv, ev, la, ea}
		if len(s.Sels) == 1 || AllOr(s) {
			// the spans of a selected trace: those matched by the selector; for {A} || {B} those matched by either
			ids := map[string]bool{}
			for si := range s.Sels {
				for _, sp := range matched[si][ti] {
					ids[sp.SpanID] = true
				}
			}
			for id := range ids {
				ts.Spans = append(ts.Spans, id)
			}
			sort.Strings(ts.Spans)
		}
		sel.Traces = append(sel.Traces, ts)
	}
	sort.Slice(sel.Traces, func(i, j int) bool { return sel.Traces[i].ID < sel.Traces[j].ID })
	return sel, e.inexact, nil
}

// AllOr tells whether the script is a chain of selectors joined by || only.
func AllOr(s *Script) bool {
	if len(s.Sels) < 2 {
		return false
	}
	for _, o := range s.Ops {
		if o != "||" {
			return false
		}
	}
	return true
}

// Verdict of EvalAll.
type Verdict struct {
	Base *Selection // base reading
	// TracesAgree: every relevant reading selects the same traces. SpansAgree: … and the same spans.
	TracesAgree bool
	SpansAgree  bool
	// Splitters: readings (one dimension changed from base) that change the selected traces or spans.
	Splitters []string
	Readings  int
	// Alts: the distinct selections (by trace-id set) over all readings, each with one reading
	// that produces it; Alts[0] is the base reading's.
	Alts []Alt
}

// Alt is one distinct outcome among the readings.
type Alt struct {
	Reading string
	Sel     *Selection
}

type relevance struct {
	regex, numEq, typed, lenient, scope, exprMixed, chainMixed, aggAttr bool
}

func seqMixed(q *Seq) bool {
	if q == nil {
		return false
	}
	and, or := false, false
	for _, o := range q.Ops {
		if o == "&&" {
			and = true
		} else {
			or = true
		}
	}
	if and && or {
		return true
	}
	for _, it := range q.Items {
		if it.Sub != nil && seqMixed(it.Sub) {
			return true
		}
	}
	return false
}

func relevant(s *Script) relevance {
	var r relevance
	for _, t := range s.Terms() {
		if t.Kind == KStr && (t.Op == "=~" || t.Op == "!~") {
			r.regex = true
		}
		if t.Kind == KNum && (t.Op == "=" || t.Op == "!=") {
			r.numEq = true
		}
		if t.Kind == KStr {
			r.typed = true
		}
		if t.Kind == KNum {
			r.lenient = true
		}
		if t.Scope != "" {
			r.scope = true
		}
	}
	for _, sl := range s.Sels {
		if seqMixed(sl.Expr) {
			r.exprMixed = true
		}
		if sl.Agg != nil && sl.Agg.Scope != "" {
			r.aggAttr = true
			r.scope = true
			r.lenient = true
		}
	}
	and, or := false, false
	for _, o := range s.Ops {
		if o == "&&" {
			and = true
		} else {
			or = true
		}
	}
	r.chainMixed = and && or
	return r
}

func bools(on bool) []bool {
	if on {
		return []bool{false, true}
	}
	return []bool{false}
}

func assocs(on bool) []int {
	if on {
		return []int{AssocRight, AssocPrec, AssocLeft}
	}
	return []int{AssocRight}
}

// Readings enumerates every combination of the readings relevant to s (base reading first).
func Readings(s *Script) []Reading {
	rel := relevant(s)
	var out []Reading
	for _, a := range bools(rel.regex) {
		for _, b := range bools(rel.numEq) {
			for _, c := range bools(rel.typed) {
				for _, d := range bools(rel.lenient) {
					for _, f := range bools(rel.scope) {
						for _, g := range assocs(rel.exprMixed) {
							for _, h := range assocs(rel.chainMixed) {
								for _, i := range bools(rel.aggAttr) {
									out = append(out, Reading{RegexAnchored: a, NumEqAsText: b, Typed: c, LenientNum: d,
										ScopeAware: f, ExprAssoc: g, ChainAssoc: h, AggEmptyZero: i})
								}
							}
						}
					}
				}
			}
		}
	}
	return out
}

func oneDim(r Reading) bool {
	n := 0
	for _, b := range []bool{r.RegexAnchored, r.NumEqAsText, r.Typed, r.LenientNum, r.ScopeAware, r.ExprAssoc != 0, r.ChainAssoc != 0, r.AggEmptyZero} {
		if b {
			n++
		}
	}
	return n == 1
}

// EvalAll evaluates s under all relevant readings.
func EvalAll(s *Script, db *DB, from, to int64) (*Verdict, error) {
	rs := Readings(s)
	v := &Verdict{TracesAgree: true, SpansAgree: true, Readings: len(rs)}
	seen := map[string]bool{}
	var baseT, baseS string
	for i, r := range rs {
		sel, inexact, err := Eval(s, db, from, to, r)
		if err != nil {
			return nil, err
		}
		kt, ks := sel.key(false), sel.key(true)
		if i == 0 {
			v.Base, baseT, baseS = sel, kt, ks
			if inexact {
				v.TracesAgree, v.SpansAgree = false, false
				v.Splitters = append(v.Splitters, "duration-literal-not-whole-ns")
			}
		}
		if !seen[kt] {
			seen[kt] = true
			v.Alts = append(v.Alts, Alt{Reading: r.String(), Sel: sel})
		}
		if kt != baseT {
			v.TracesAgree = false
		}
		if ks != baseS {
			v.SpansAgree = false
		}
		if (kt != baseT || ks != baseS) && oneDim(r) {
			v.Splitters = append(v.Splitters, r.String())
		}
	}
	if !v.TracesAgree {
		v.SpansAgree = false
	}
	if !v.SpansAgree && len(v.Splitters) == 0 {
		v.Splitters = append(v.Splitters, "combination-of-readings")
	}
	return v, nil
}

// ValidCut decides whether `got` is an acceptable answer for `limit` (0 = no limit) given the
// selection: got ⊆ selected, |got| = min(limit, |selected|), and under at least one notion of
// recency no omitted trace is strictly more recent than a returned one (ties: any choice).
// It returns "" if acceptable, else the kind of mismatch.
func ValidCut(sel *Selection, got []string, limit int) string {
	in := map[string]*TraceSel{}
	for i := range sel.Traces {
		in[sel.Traces[i].ID] = &sel.Traces[i]
	}
	g := map[string]bool{}
	for _, id := range got {
		if g[id] {
			return "duplicate-trace"
		}
		g[id] = true
		if in[id] == nil {
			return "unselected-trace-returned"
		}
	}
	want := len(sel.Traces)
	if limit > 0 && want > limit {
		want = limit
	}
	if limit > 0 && len(got) > limit {
		return "more-than-limit"
	}
	if len(got) < want {
		if len(sel.Traces) <= limit || limit == 0 {
			return "selected-trace-missing"
		}
		return "fewer-than-limit"
	}
	if len(got) == len(sel.Traces) {
		return ""
	}
	for k := 0; k < 5; k++ {
		minIn, maxOut := int64(math.MaxInt64), int64(math.MinInt64)
		for _, t := range sel.Traces {
			if g[t.ID] {
				minIn = min(minIn, t.Recency[k])
			} else {
				maxOut = max(maxOut, t.Recency[k])
			}
		}
		if minIn >= maxOut {
			return ""
		}
	}
	// a trace may also be ranked by any one of its visible spans (a `SELECT DISTINCT trace_id … ORDER BY
	// timestamp_ns` keeps an unspecified row per trace): acceptable if some choice of representatives
	// makes the cut a top-n.
	minIn, maxOut := int64(math.MaxInt64), int64(math.MinInt64)
	for _, t := range sel.Traces {
		if g[t.ID] {
			minIn = min(minIn, t.Recency[1])
		} else {
			maxOut = max(maxOut, t.Recency[2])
		}
	}
	if minIn >= maxOut {
		return ""
	}
	return "not-the-most-recent"
}

// AggregateValue computes, under the base reading, the value the selector's aggregate takes on one
// trace (ok=false: no matching span / no numeric value / not computable). Generators use it to aim
// thresholds at the data; verdicts never use it.
func AggregateValue(sl *Selector, tr *Trace, from, to int64) (val float64, ok bool) {
	if sl.Agg == nil || sl.Expr == nil {
		return 0, false
	}
	e := &evaluator{from: from, to: to, res: map[string]*regexp.Regexp{}}
	var vals []float64
	n := 0
	for _, sp := range tr.Spans {
		if !e.visible(sp) {
			continue
		}
		m, err := e.seq(sp, sl.Expr)
		if err != nil || !m {
			continue
		}
		n++
		switch {
		case sl.Agg.Fn == "count":
		case sl.Agg.Scope == "" && sl.Agg.Name == "duration":
			vals = append(vals, float64(sp.Dur))
		default:
			if v, found := e.lookup(sp, sl.Agg.Scope, sl.Agg.Name); found {
				if f, num := numericText(v, false); num {
					vals = append(vals, f)
				}
			}
		}
	}
	if sl.Agg.Fn == "count" {
		return float64(n), n > 0
	}
	if len(vals) == 0 {
		return 0, false
	}
	acc := vals[0]
	for _, v := range vals[1:] {
		switch sl.Agg.Fn {
		case "min":
			acc = math.Min(acc, v)
		case "max":
			acc = math.Max(acc, v)
		default:
			acc += v
		}
	}
	if sl.Agg.Fn == "avg" {
		acc /= float64(len(vals))
	}
	return acc, true
}
