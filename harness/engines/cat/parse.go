package cat

import (
	"fmt"
	"strconv"
	"strings"
	"sync"
)

// QName is a possibly database-qualified object name.
type QName struct{ DB, Name string }

func (q QName) String() string {
	if q.DB == "" {
		return q.Name
	}
	return q.DB + "." + q.Name
}

// Column of a table. DefaultKind is "", DEFAULT, MATERIALIZED, ALIAS or EPHEMERAL.
type Column struct {
	Name, Type, DefaultKind, DefaultExpr, Codec string
}

// TTLItem is one element of a table TTL list.
type TTLItem struct {
	Text    string // canonical text of the whole element
	Base    string // canonical text of the time expression without the interval
	Seconds int64  // interval length; valid when Known
	Known   bool   // the interval could be evaluated to seconds
	Action  string // delete | disk | volume
	Dest    string
}

// Action of an ALTER TABLE.
type Action struct {
	Kind        string // add_column | modify_order_by | modify_setting | modify_ttl
	IfNotExists bool
	Col         Column
	After       string
	OrderBy     []string
	Settings    [][2]string
	TTL         []TTLItem
	TTLText     string
	Index       string // add_index | drop_index | materialize_index: the index name
	IndexDef    string // add_index: canonical text of the definition
	IfExists    bool
}

// Val is one value of an INSERT … VALUES tuple.
type Val struct {
	Text  string // canonical expression text
	IsStr bool
	Str   string
}

// Stmt is a parsed statement; immutable after parsing (shared through the parse cache).
type Stmt struct {
	Verb        string
	IfNotExists bool
	IfExists    bool
	Name        QName
	Cluster     string
	HasCluster  bool
	Obj         *Object    // CREATE …: prototype
	Renames     [][2]QName // RENAME TABLE
	Actions     []Action   // ALTER TABLE
	Cols        []string   // INSERT
	Rows        [][]Val    // INSERT
	Arg         string     // SELECT_VER: k ; SELECT_SETTING: fingerprint
	Canon       string     // canonical token text of the whole statement
}

// Verbs
const (
	VCreateDB      = "CREATE DATABASE"
	VCreateTable   = "CREATE TABLE"
	VCreateView    = "CREATE VIEW"
	VCreateMV      = "CREATE MATERIALIZED VIEW"
	VDropTable     = "DROP TABLE"
	VDropView      = "DROP VIEW"
	VRename        = "RENAME TABLE"
	VExchange      = "EXCHANGE TABLES"
	VSelectVerLast = "SELECT ver ORDER BY ver DESC LIMIT 1"
	VSelectVerAll  = "SELECT k, max(ver) GROUP BY k"
	VAlter         = "ALTER TABLE"
	VInsert        = "INSERT"
	VSelectVer     = "SELECT_VER"
	VSelectSet     = "SELECT_SETTING"
	VShowTables    = "SHOW TABLES"
	VSelectCount   = "SELECT_COUNT"
)

type parser struct {
	t   []tok
	pos int
}

type parseErr struct{ msg string }

func (e *parseErr) Error() string { return e.msg }

func (p *parser) fail(f string, a ...any) {
	near := ""
	if p.pos < len(p.t) {
		end := p.pos + 6
		if end > len(p.t) {
			end = len(p.t)
		}
		near = " near `" + canonToks(p.t[p.pos:end]) + "`"
	} else {
		near = " at end"
	}
	panic(&parseErr{fmt.Sprintf(f, a...) + near})
}

func (p *parser) eof() bool { return p.pos >= len(p.t) }
func (p *parser) peek() tok {
	if p.eof() {
		return tok{}
	}
	return p.t[p.pos]
}
func (p *parser) peekN(n int) tok {
	if p.pos+n >= len(p.t) {
		return tok{}
	}
	return p.t[p.pos+n]
}

// kw consumes the keyword sequence if it is next.
func (p *parser) kw(words ...string) bool {
	for i, w := range words {
		if !p.peekN(i).is(w) {
			return false
		}
	}
	p.pos += len(words)
	return true
}
func (p *parser) expectKw(words ...string) {
	if !p.kw(words...) {
		p.fail("expected %s", strings.Join(words, " "))
	}
}
func (p *parser) punct(s string) bool {
	if p.peek().p(s) {
		p.pos++
		return true
	}
	return false
}
func (p *parser) expectPunct(s string) {
	if !p.punct(s) {
		p.fail("expected %q", s)
	}
}
func (p *parser) ident() string {
	t := p.peek()
	if t.k != tIdent && t.k != tQIdent {
		p.fail("expected identifier")
	}
	p.pos++
	return t.s
}
func (p *parser) qname() QName {
	a := p.ident()
	if p.peek().p(".") {
		p.pos++
		return QName{a, p.ident()}
	}
	return QName{"", a}
}
func (p *parser) onCluster(s *Stmt) {
	if p.kw("ON", "CLUSTER") {
		t := p.peek()
		if t.k != tIdent && t.k != tQIdent && t.k != tString {
			p.fail("expected cluster name")
		}
		p.pos++
		s.Cluster, s.HasCluster = t.s, true
	}
}

// balanced consumes "( … )" and returns the tokens including the parentheses.
func (p *parser) balanced() []tok {
	if !p.peek().p("(") {
		p.fail("expected (")
	}
	start := p.pos
	depth := 0
	for !p.eof() {
		t := p.t[p.pos]
		p.pos++
		if t.p("(") || t.p("[") {
			depth++
		} else if t.p(")") || t.p("]") {
			depth--
			if depth == 0 {
				return p.t[start:p.pos]
			}
		}
	}
	p.fail("unbalanced parentheses")
	return nil
}

// until consumes tokens up to (not including) the first depth-0 token for which stop is
// true, a depth-0 closing parenthesis, or the end.
func (p *parser) until(stop func(t tok) bool) []tok {
	start := p.pos
	depth := 0
	for !p.eof() {
		t := p.t[p.pos]
		if depth == 0 && (stop(t) || t.p(")") || t.p("]") || t.p(";")) {
			break
		}
		if t.p("(") || t.p("[") {
			depth++
		} else if t.p(")") || t.p("]") {
			depth--
		}
		p.pos++
	}
	return p.t[start:p.pos]
}

// splitTop splits tokens on depth-0 commas.
func splitTop(ts []tok) [][]tok {
	var out [][]tok
	depth, start := 0, 0
	for i, t := range ts {
		if t.p("(") || t.p("[") {
			depth++
		} else if t.p(")") || t.p("]") {
			depth--
		} else if depth == 0 && t.p(",") {
			out = append(out, ts[start:i])
			start = i + 1
		}
	}
	if start < len(ts) || len(out) > 0 {
		out = append(out, ts[start:])
	}
	return out
}

// keyList turns "(a, b)" or "a" into its list of top-level key expressions.
func keyList(ts []tok) []string {
	if len(ts) >= 2 && ts[0].p("(") && ts[len(ts)-1].p(")") {
		// make sure the first "(" closes at the end
		depth := 0
		whole := true
		for i, t := range ts {
			if t.p("(") {
				depth++
			} else if t.p(")") {
				depth--
				if depth == 0 && i != len(ts)-1 {
					whole = false
					break
				}
			}
		}
		if whole {
			ts = ts[1 : len(ts)-1]
		}
	}
	var out []string
	for _, e := range splitTop(ts) {
		if len(e) > 0 {
			out = append(out, canonToks(e))
		}
	}
	return out
}

func isTableClause(t tok) bool {
	return t.is("PARTITION") || t.is("ORDER") || t.is("PRIMARY") || t.is("SAMPLE") || t.is("TTL") || t.is("SETTINGS") || t.is("COMMENT")
}

// columnDef parses: name Type [DEFAULT|MATERIALIZED|ALIAS expr] [CODEC(...)]; stops at a
// depth-0 comma / closing parenthesis / FIRST / AFTER.
func (p *parser) columnDef() Column {
	var c Column
	c.Name = p.ident()
	ty := []tok{}
	t := p.peek()
	if t.k != tIdent {
		p.fail("expected column type")
	}
	ty = append(ty, t)
	p.pos++
	if p.peek().p("(") {
		ty = append(ty, p.balanced()...)
	}
	c.Type = canonToks(ty)
	for {
		switch {
		case p.kw("DEFAULT"), p.kw("MATERIALIZED"), p.kw("ALIAS"):
			c.DefaultKind = strings.ToUpper(p.t[p.pos-1].s)
			e := p.until(func(t tok) bool {
				return t.p(",") || t.is("CODEC") || t.is("TTL") || t.is("COMMENT") || t.is("FIRST") || t.is("AFTER")
			})
			if len(e) == 0 {
				p.fail("empty default expression")
			}
			c.DefaultExpr = canonToks(e)
		case p.kw("CODEC"):
			c.Codec = canonToks(p.balanced())
		default:
			return c
		}
	}
}

var intervalUnits = map[string]int64{
	"second": 1, "minute": 60, "hour": 3600, "day": 86400, "week": 7 * 86400,
}

// parseTTLList parses the element list of a table TTL.
func parseTTLList(ts []tok) ([]TTLItem, error) {
	var out []TTLItem
	for _, e := range splitTop(ts) {
		if len(e) == 0 {
			return nil, fmt.Errorf("empty TTL element")
		}
		it := TTLItem{Text: canonToks(e), Action: "delete"}
		// find the action suffix at depth 0
		depth, cut := 0, len(e)
		for i, t := range e {
			if t.p("(") || t.p("[") {
				depth++
			} else if t.p(")") || t.p("]") {
				depth--
			} else if depth == 0 && (t.is("TO") || t.is("DELETE") || t.is("RECOMPRESS") || t.is("WHERE") || t.is("GROUP")) {
				cut = i
				break
			}
		}
		suffix := e[cut:]
		expr := e[:cut]
		switch {
		case len(suffix) == 0:
		case len(suffix) == 1 && suffix[0].is("DELETE"):
		case len(suffix) == 3 && suffix[0].is("TO") && suffix[1].is("DISK") && suffix[2].k == tString:
			it.Action, it.Dest = "disk", suffix[2].s
		case len(suffix) == 3 && suffix[0].is("TO") && suffix[1].is("VOLUME") && suffix[2].k == tString:
			it.Action, it.Dest = "volume", suffix[2].s
		default:
			return nil, fmt.Errorf("TTL action not modelled: %s", canonToks(suffix))
		}
		if len(expr) == 0 {
			return nil, fmt.Errorf("empty TTL expression")
		}
		// expr = BASE + toIntervalX(N)   |   BASE + INTERVAL N UNIT
		depth, plus := 0, -1
		for i, t := range expr {
			if t.p("(") || t.p("[") {
				depth++
			} else if t.p(")") || t.p("]") {
				depth--
			} else if depth == 0 && t.p("+") {
				plus = i
			}
		}
		it.Base = canonToks(expr)
		if plus > 0 {
			r := expr[plus+1:]
			neg := int64(1)
			num, unit := "", ""
			switch {
			case len(r) == 4 && r[0].k == tIdent && strings.HasPrefix(strings.ToLower(r[0].s), "tointerval") && r[1].p("(") && r[2].k == tNumber && r[3].p(")"):
				num, unit = r[2].s, strings.ToLower(r[0].s[len("tointerval"):])
			case len(r) == 5 && r[0].k == tIdent && strings.HasPrefix(strings.ToLower(r[0].s), "tointerval") && r[1].p("(") && r[2].p("-") && r[3].k == tNumber && r[4].p(")"):
				num, unit, neg = r[3].s, strings.ToLower(r[0].s[len("tointerval"):]), -1
			case len(r) == 3 && r[0].is("INTERVAL") && r[1].k == tNumber && r[2].k == tIdent:
				num, unit = r[1].s, strings.ToLower(r[2].s)
			}
			if mul, ok := intervalUnits[unit]; ok {
				if n, err := strconv.ParseInt(num, 10, 64); err == nil {
					it.Base = canonToks(expr[:plus])
					it.Seconds, it.Known = neg*n*mul, true
				}
			}
		}
		out = append(out, it)
	}
	return out, nil
}

func (p *parser) settingsList() [][2]string {
	var out [][2]string
	for {
		k := p.ident()
		p.expectPunct("=")
		t := p.peek()
		v := ""
		switch t.k {
		case tString:
			v = t.s
		case tNumber, tIdent:
			v = t.s
		default:
			p.fail("expected setting value")
		}
		p.pos++
		out = append(out, [2]string{k, v})
		// another "name = value" pair?
		if p.peek().p(",") && (p.peekN(1).k == tIdent || p.peekN(1).k == tQIdent) && p.peekN(2).p("=") {
			p.pos++
			continue
		}
		return out
	}
}

func (p *parser) end() {
	for p.punct(";") {
	}
	if !p.eof() {
		p.fail("unexpected trailing tokens")
	}
}

func (p *parser) createTable(s *Stmt) {
	s.Verb = VCreateTable
	s.IfNotExists = p.kw("IF", "NOT", "EXISTS")
	s.Name = p.qname()
	p.onCluster(s)
	o := &Object{Settings: map[string]string{}}
	body := p.balanced()
	for _, cd := range splitTop(body[1 : len(body)-1]) {
		if len(cd) == 0 {
			p.fail("empty column definition")
		}
		if cd[0].is("INDEX") || cd[0].is("CONSTRAINT") || cd[0].is("PROJECTION") {
			p.fail("table element %s not modelled", cd[0].s)
		}
		cp := &parser{t: cd}
		col := cp.columnDef()
		if !cp.eof() {
			cp.fail("column definition not modelled")
		}
		o.Cols = append(o.Cols, col)
	}
	p.expectKw("ENGINE")
	p.punct("=")
	en := p.peek()
	if en.k != tIdent {
		p.fail("expected engine name")
	}
	p.pos++
	eng := []tok{en}
	if p.peek().p("(") {
		args := p.balanced()
		eng = append(eng, args...)
		for _, a := range splitTop(args[1 : len(args)-1]) {
			o.EngineArgs = append(o.EngineArgs, canonToks(a))
			if len(a) == 1 && a[0].k == tString {
				o.engineStr = append(o.engineStr, a[0].s)
			} else {
				o.engineStr = append(o.engineStr, "")
			}
		}
	}
	o.Engine = canonToks(eng)
	switch {
	case strings.HasSuffix(en.s, "MergeTree"):
		o.Kind = KMergeTree
	case en.s == "Distributed":
		o.Kind = KDist
		if len(o.EngineArgs) < 3 {
			p.fail("Distributed needs cluster, database, table")
		}
	case en.s == "Merge":
		o.Kind = KMerge
	case en.s == "Null":
		o.Kind = KNull
	default:
		p.fail("engine %s not modelled", en.s)
	}
	for !p.eof() && !p.peek().p(";") {
		switch {
		case p.kw("PARTITION", "BY"):
			o.PartitionBy = canonToks(p.until(isTableClause))
		case p.kw("ORDER", "BY"):
			o.OrderBy = keyList(p.until(isTableClause))
		case p.kw("PRIMARY", "KEY"):
			o.PrimaryKey = canonToks(p.until(isTableClause))
		case p.kw("TTL"):
			ts := p.until(isTableClause)
			items, err := parseTTLList(ts)
			if err != nil {
				p.fail("%v", err)
			}
			o.TTL, o.TTLText = items, canonToks(ts)
		case p.kw("SETTINGS"):
			for _, kv := range p.settingsList() {
				o.Settings[kv[0]] = kv[1]
			}
		default:
			p.fail("table clause not modelled")
		}
	}
	if o.Kind != KMergeTree && (len(o.OrderBy) > 0 || o.PartitionBy != "" || len(o.TTL) > 0) {
		p.fail("key/TTL clauses on engine %s not modelled", en.s)
	}
	s.Obj = o
}

// selectSource finds "FROM [db.]table" at depth 0 of a SELECT and returns the source.
func selectSource(ts []tok) (QName, bool) {
	depth := 0
	for i, t := range ts {
		if t.p("(") || t.p("[") {
			depth++
		} else if t.p(")") || t.p("]") {
			depth--
		} else if depth == 0 && t.is("FROM") && i+1 < len(ts) {
			a := ts[i+1]
			if a.k != tIdent && a.k != tQIdent {
				return QName{}, false
			}
			if i+3 < len(ts) && ts[i+2].p(".") && (ts[i+3].k == tIdent || ts[i+3].k == tQIdent) {
				return QName{a.s, ts[i+3].s}, true
			}
			return QName{"", a.s}, true
		}
	}
	return QName{}, false
}

func (p *parser) createView(s *Stmt, materialized bool) {
	s.Verb = VCreateView
	kind := KView
	if materialized {
		s.Verb, kind = VCreateMV, KMView
	}
	s.IfNotExists = p.kw("IF", "NOT", "EXISTS")
	s.Name = p.qname()
	p.onCluster(s)
	o := &Object{Kind: kind, Settings: map[string]string{}}
	if materialized {
		if !p.kw("TO") {
			p.fail("materialized view without TO (inner table) not modelled")
		}
		o.To = p.qname()
		o.HasTo = true
	}
	p.expectKw("AS")
	if !p.peek().is("SELECT") {
		p.fail("expected SELECT")
	}
	sel := p.until(func(tok) bool { return false })
	o.Select = canonToks(sel)
	src, ok := selectSource(sel)
	if !ok {
		p.fail("cannot find the source table of the view's SELECT")
	}
	o.From = src
	s.Obj = o
}

func (p *parser) alter(s *Stmt) {
	s.Verb = VAlter
	s.Name = p.qname()
	p.onCluster(s)
	for {
		paren := p.punct("(")
		var a Action
		switch {
		case p.kw("ADD", "COLUMN"):
			a.Kind = "add_column"
			a.IfNotExists = p.kw("IF", "NOT", "EXISTS")
			a.Col = p.columnDef()
			if p.kw("AFTER") {
				a.After = p.ident()
			} else if p.kw("FIRST") {
				p.fail("ADD COLUMN … FIRST not modelled")
			}
		case p.kw("ADD", "INDEX"):
			a.Kind = "add_index"
			a.IfNotExists = p.kw("IF", "NOT", "EXISTS")
			a.Index = p.ident()
			a.IndexDef = canonToks(p.until(func(t tok) bool { return t.p(",") }))
		case p.kw("DROP", "INDEX"):
			a.Kind = "drop_index"
			a.IfExists = p.kw("IF", "EXISTS")
			a.Index = p.ident()
		case p.kw("MATERIALIZE", "INDEX"):
			a.Kind = "materialize_index"
			a.IfExists = p.kw("IF", "EXISTS")
			a.Index = p.ident()
		case p.kw("MODIFY", "ORDER", "BY"):
			a.Kind = "modify_order_by"
			a.OrderBy = keyList(p.until(func(t tok) bool { return t.p(",") }))
		case p.kw("MODIFY", "SETTING"):
			a.Kind = "modify_setting"
			a.Settings = p.settingsList()
		case p.kw("MODIFY", "TTL"):
			a.Kind = "modify_ttl"
			// the TTL list extends to the end of the statement (an element cannot start
			// with an ALTER action keyword)
			start := p.pos
			ts := p.until(func(tok) bool { return false })
			for _, e := range splitTop(ts) {
				if len(e) > 0 && (e[0].is("ADD") || e[0].is("MODIFY") || e[0].is("DROP") || e[0].is("RENAME") || e[0].is("MATERIALIZE")) {
					p.pos = start
					p.fail("ALTER action after MODIFY TTL not modelled")
				}
			}
			items, err := parseTTLList(ts)
			if err != nil {
				p.fail("%v", err)
			}
			a.TTL, a.TTLText = items, canonToks(ts)
		default:
			p.fail("ALTER action not modelled")
		}
		if paren {
			p.expectPunct(")")
		}
		s.Actions = append(s.Actions, a)
		if !p.punct(",") {
			break
		}
	}
}

func (p *parser) insert(s *Stmt) {
	s.Verb = VInsert
	p.expectKw("INTO")
	p.kw("TABLE")
	s.Name = p.qname()
	cols := p.balanced()
	for _, c := range splitTop(cols[1 : len(cols)-1]) {
		if len(c) != 1 || (c[0].k != tIdent && c[0].k != tQIdent) {
			p.fail("INSERT column list not modelled")
		}
		s.Cols = append(s.Cols, c[0].s)
	}
	p.expectKw("VALUES")
	for {
		tuple := p.balanced()
		var row []Val
		for _, v := range splitTop(tuple[1 : len(tuple)-1]) {
			if len(v) == 0 {
				p.fail("empty value")
			}
			val := Val{Text: canonToks(v)}
			if len(v) == 1 && v[0].k == tString {
				val.IsStr, val.Str = true, v[0].s
			}
			row = append(row, val)
		}
		if len(row) != len(s.Cols) {
			p.fail("INSERT tuple has %d values for %d columns", len(row), len(s.Cols))
		}
		s.Rows = append(s.Rows, row)
		if !p.punct(",") {
			break
		}
	}
}

func (p *parser) selectStmt(s *Stmt) {
	// the three SELECT shapes the maintenance code issues; everything else is unmodelled
	match := func(words ...string) bool {
		save := p.pos
		for _, w := range words {
			t := p.peek()
			ok := false
			switch {
			case w == "<name>":
				if t.k == tIdent || t.k == tQIdent {
					s.Name = p.qname()
					continue
				}
			case w == "<lit>":
				if t.k == tNumber || t.k == tString {
					s.Arg = t.s
					ok = true
				}
			case w == "<emptystr>":
				ok = t.k == tString && t.s == ""
			case len(w) > 0 && (isWordStart(w[0])):
				ok = t.is(w) || (t.k == tQIdent && t.s == w)
			default:
				ok = t.p(w) || (t.k == tNumber && t.s == w)
			}
			if !ok {
				p.pos = save
				return false
			}
			p.pos++
		}
		return true
	}
	switch {
	case match("max", "(", "ver", ")", "as", "ver", "FROM", "<name>", "WHERE", "k", "=", "<lit>"):
		s.Verb = VSelectVer
		if p.kw("FORMAT") {
			p.ident()
		}
	case match("argMax", "(", "value", ",", "inserted_at", ")", "as", "_value", "FROM", "<name>", "WHERE", "fingerprint", "=", "<lit>",
		"GROUP", "BY", "fingerprint", "HAVING", "argMax", "(", "name", ",", "inserted_at", ")", "!=", "<emptystr>"):
		s.Verb = VSelectSet
	case match("ver", "FROM", "<name>", "WHERE", "k", "=", "<lit>", "ORDER", "BY", "ver", "DESC", "LIMIT", "1"):
		// the latest version row of a key, or no row at all when the key has none (unlike max(), which answers 0)
		s.Verb = VSelectVerLast
	case match("count", "(", "1", ")", "FROM", "<name>"):
		s.Verb = VSelectCount
	case match("k", ",", "max", "(", "ver", ")", "as", "ver", "FROM", "<name>", "GROUP", "BY", "k"):
		s.Verb = VSelectVerAll
	default:
		p.fail("SELECT shape not modelled")
	}
}

// parseStmt parses one statement text.
func parseStmt(q string) (s *Stmt, err error) {
	ts, lerr := lex(q)
	if lerr != nil {
		return nil, lerr
	}
	p := &parser{t: ts}
	s = &Stmt{}
	defer func() {
		if r := recover(); r != nil {
			if pe, ok := r.(*parseErr); ok {
				s, err = nil, pe
				return
			}
			panic(r)
		}
	}()
	end := len(ts)
	for end > 0 && ts[end-1].p(";") {
		end--
	}
	s.Canon = canonToks(ts[:end])
	switch {
	case p.kw("CREATE", "DATABASE"):
		s.Verb = VCreateDB
		s.IfNotExists = p.kw("IF", "NOT", "EXISTS")
		s.Name = QName{"", p.ident()}
		p.onCluster(s)
	case p.kw("CREATE", "TABLE"):
		p.createTable(s)
	case p.kw("CREATE", "VIEW"):
		p.createView(s, false)
	case p.kw("CREATE", "MATERIALIZED", "VIEW"):
		p.createView(s, true)
	case p.kw("DROP", "TABLE"), p.kw("DROP", "VIEW"):
		s.Verb = VDropTable
		if p.t[p.pos-1].is("VIEW") {
			s.Verb = VDropView
		}
		s.IfExists = p.kw("IF", "EXISTS")
		s.Name = p.qname()
		p.onCluster(s)
		if p.kw("SYNC") || p.kw("NO", "DELAY") {
		}
	case p.kw("RENAME", "TABLE"):
		s.Verb = VRename
		s.IfExists = p.kw("IF", "EXISTS")
		for {
			a := p.qname()
			p.expectKw("TO")
			b := p.qname()
			s.Renames = append(s.Renames, [2]QName{a, b})
			if !p.punct(",") {
				break
			}
		}
		p.onCluster(s)
	case p.kw("EXCHANGE", "TABLES"):
		// EXCHANGE TABLES a AND b [ON CLUSTER c]: the two names swap their objects atomically
		s.Verb = VExchange
		a := p.qname()
		p.expectKw("AND")
		b := p.qname()
		s.Renames = append(s.Renames, [2]QName{a, b})
		p.onCluster(s)
	case p.kw("ALTER", "TABLE"):
		p.alter(s)
	case p.kw("INSERT"):
		p.insert(s)
	case p.kw("SHOW", "TABLES"):
		s.Verb = VShowTables
	case p.kw("SELECT"):
		p.selectStmt(s)
	default:
		p.fail("statement not modelled")
	}
	p.end()
	return s, nil
}

type parsed struct {
	s   *Stmt
	err error
}

var parseCache sync.Map // statement text -> parsed

// Parse parses (with a process-wide cache; statements are immutable).
func Parse(q string) (*Stmt, error) {
	if v, ok := parseCache.Load(q); ok {
		pr := v.(parsed)
		return pr.s, pr.err
	}
	s, err := parseStmt(q)
	parseCache.Store(q, parsed{s, err})
	return s, err
}
