// Package cat is E-CAT (DESIGN Appendix B): a fake clickhouse.Conn that models what
// ClickHouse DDL does to a catalogue, keeps a full statement log and injects faults at
// chosen statement indexes. It is the observation point of C18 (maintenance.Update) and
// C19 (maintenance.Rotate).
package cat

import (
	"fmt"
	"strings"
)

// token kinds
const (
	tIdent  = 'i' // bare identifier / keyword
	tQIdent = 'q' // `quoted` or "quoted" identifier
	tString = 's' // 'string literal' (value unescaped)
	tNumber = 'n'
	tPunct  = 'p'
)

type tok struct {
	k byte
	s string
}

func (t tok) is(kw string) bool { return t.k == tIdent && strings.EqualFold(t.s, kw) }
func (t tok) p(s string) bool   { return t.k == tPunct && t.s == s }

func isWordStart(c byte) bool {
	return c == '_' || (c >= 'a' && c <= 'z') || (c >= 'A' && c <= 'Z')
}
func isWord(c byte) bool { return isWordStart(c) || (c >= '0' && c <= '9') }

// lex splits a ClickHouse statement into tokens. Anything it does not understand is an
// error (the statement is then "unmodelled", never silently accepted).
func lex(q string) ([]tok, error) {
	var out []tok
	i := 0
	for i < len(q) {
		c := q[i]
		switch {
		case c == ' ' || c == '\t' || c == '\n' || c == '\r':
			i++
		case c == '-' && i+1 < len(q) && q[i+1] == '-':
			for i < len(q) && q[i] != '\n' {
				i++
			}
		case c == '/' && i+1 < len(q) && q[i+1] == '*':
			j := strings.Index(q[i+2:], "*/")
			if j < 0 {
				return nil, fmt.Errorf("unterminated comment")
			}
			i += j + 4
		case isWordStart(c):
			j := i
			for j < len(q) && isWord(q[j]) {
				j++
			}
			out = append(out, tok{tIdent, q[i:j]})
			i = j
		case c >= '0' && c <= '9':
			j := i
			for j < len(q) && (isWord(q[j]) || q[j] == '.') {
				j++
			}
			out = append(out, tok{tNumber, q[i:j]})
			i = j
		case c == '`' || c == '"':
			j := i + 1
			var sb strings.Builder
			for {
				if j >= len(q) {
					return nil, fmt.Errorf("unterminated quoted identifier")
				}
				if q[j] == '\\' && j+1 < len(q) {
					sb.WriteByte(q[j+1])
					j += 2
					continue
				}
				if q[j] == c {
					if j+1 < len(q) && q[j+1] == c {
						sb.WriteByte(c)
						j += 2
						continue
					}
					break
				}
				sb.WriteByte(q[j])
				j++
			}
			out = append(out, tok{tQIdent, sb.String()})
			i = j + 1
		case c == '\'':
			j := i + 1
			var sb strings.Builder
			for {
				if j >= len(q) {
					return nil, fmt.Errorf("unterminated string literal")
				}
				if q[j] == '\\' && j+1 < len(q) {
					switch q[j+1] {
					case 'n':
						sb.WriteByte('\n')
					case 't':
						sb.WriteByte('\t')
					case '0':
						sb.WriteByte(0)
					default:
						sb.WriteByte(q[j+1])
					}
					j += 2
					continue
				}
				if q[j] == '\'' {
					if j+1 < len(q) && q[j+1] == '\'' {
						sb.WriteByte('\'')
						j += 2
						continue
					}
					break
				}
				sb.WriteByte(q[j])
				j++
			}
			out = append(out, tok{tString, sb.String()})
			i = j + 1
		default:
			two := ""
			if i+1 < len(q) {
				two = q[i : i+2]
			}
			switch two {
			case "::", "->", "!=", "||", "<=", ">=", "<>", "==":
				out = append(out, tok{tPunct, two})
				i += 2
				continue
			}
			if strings.IndexByte("()[]{},.=+-*/%<>;:?!", c) >= 0 {
				out = append(out, tok{tPunct, string(c)})
				i++
				continue
			}
			return nil, fmt.Errorf("unexpected character %q", c)
		}
	}
	return out, nil
}

var quoteRepl = strings.NewReplacer(`\`, `\\`, `'`, `\'`)

func quoteStr(s string) string {
	if strings.IndexByte(s, '\'') < 0 && strings.IndexByte(s, '\\') < 0 {
		return "'" + s + "'"
	}
	return "'" + quoteRepl.Replace(s) + "'"
}

func simpleIdent(s string) bool {
	if s == "" || !isWordStart(s[0]) {
		return false
	}
	for i := 1; i < len(s); i++ {
		if !isWord(s[i]) {
			return false
		}
	}
	return true
}

// canonTok renders one token canonically: `x` and x are the same identifier.
func canonTok(t tok) string {
	switch t.k {
	case tString:
		return quoteStr(t.s)
	case tQIdent:
		if simpleIdent(t.s) {
			return t.s
		}
		return "`" + t.s + "`"
	}
	return t.s
}

// canonToks joins tokens with single blanks: a whitespace-, quoting-insensitive form.
func canonToks(ts []tok) string {
	var sb strings.Builder
	for i, t := range ts {
		if i > 0 {
			sb.WriteByte(' ')
		}
		sb.WriteString(canonTok(t))
	}
	return sb.String()
}

// Normalize returns the canonical token text of a statement (or the whitespace-collapsed
// text when it cannot be lexed).
func Normalize(q string) string {
	ts, err := lex(q)
	if err != nil {
		return strings.Join(strings.Fields(q), " ")
	}
	for len(ts) > 0 && ts[len(ts)-1].p(";") {
		ts = ts[:len(ts)-1]
	}
	return canonToks(ts)
}
