package cat

import (
	"fmt"
	"testing"
	"time"

	"github.com/metrico/qryn/ctrl/qryn/maintenance"
)

type nolog struct{}

func (nolog) Error(a ...any) {}
func (nolog) Debug(a ...any) {}
func (nolog) Info(a ...any)  {}

func TestExplore(t *testing.T) {
	for _, m := range []struct {
		name, cl string
		mode    int
		pol     string
	}{{"single", "", 1, ""}, {"cloud", "", 2, "pol"}, {"dist", "cl", 5, ""}, {"distcloud", "cl", 6, "pol"}} {
		c := New("db")
		cn := NewConn(c, "db", nil)
		t0 := time.Now()
		err := maintenance.Update(cn, "db", m.cl, m.mode, 7, m.pol, "", m.cl != "", nolog{})
		fmt.Println(m.name, "err:", err, "stmts:", len(cn.Log), "unmodelled:", len(cn.Unmodelled), time.Since(t0))
		for _, u := range cn.Unmodelled {
			fmt.Println("  U:", u)
		}
		cn2 := NewConn(c, "db", nil)
		t0 = time.Now()
		err = maintenance.Update(cn2, "db", m.cl, m.mode, 7, m.pol, "", m.cl != "", nolog{})
		fmt.Println(m.name, "2nd err:", err, "stmts:", len(cn2.Log), time.Since(t0))
		cn3 := NewConn(c, "db", nil)
		err = maintenance.Rotate(cn3, m.cl, m.cl != "", []maintenance.RotatePolicy{{TTL: time.Hour, MoveTo: "cold"}}, 7, m.pol, nolog{})
		fmt.Println(m.name, "rotate err:", err, "stmts:", len(cn3.Log), "unmodelled:", cn3.Unmodelled)
		if m.name == "distcloud" {
			fmt.Println(c.Canon())
			for _, e := range cn3.Log {
				fmt.Println(e.Index, e.Short(), e.Result, e.Err)
			}
		}
	}
}
