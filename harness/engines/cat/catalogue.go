package cat

import (
	"fmt"
	"sort"
	"strconv"
	"strings"
	"sync"

	"github.com/ClickHouse/clickhouse-go/v2/lib/proto"
)

// Object kinds
const (
	KMergeTree = "mergetree" // any *MergeTree engine: the "data tables"
	KDist      = "distributed"
	KMerge     = "merge"
	KNull      = "null"
	KView      = "view"
	KMView     = "mview"
)

// Object is one catalogue entry. Objects are immutable once stored in a catalogue: every
// mutation stores a modified copy, so Clone() of a catalogue is shallow.
type Object struct {
	Kind        string
	Engine      string // canonical engine text incl. arguments
	EngineArgs  []string
	engineStr   []string // string value of each engine argument that is a string literal
	Cols        []Column
	OrderBy     []string
	PartitionBy string
	PrimaryKey  string
	TTL         []TTLItem
	TTLText     string
	Settings    map[string]string
	To          QName // materialized view target
	HasTo       bool
	From        QName // view / materialized view source
	Select      string
	Indexes     map[string]string // data-skipping indexes added by ALTER: name -> definition
	canon       *lazyCanon
}

type lazyCanon struct {
	once sync.Once
	s    string
}

func (o *Object) clone() *Object {
	n := *o
	n.Cols = append([]Column(nil), o.Cols...)
	n.OrderBy = append([]string(nil), o.OrderBy...)
	n.TTL = append([]TTLItem(nil), o.TTL...)
	n.Settings = make(map[string]string, len(o.Settings))
	for k, v := range o.Settings {
		n.Settings[k] = v
	}
	if o.Indexes != nil {
		n.Indexes = make(map[string]string, len(o.Indexes))
		for k, v := range o.Indexes {
			n.Indexes[k] = v
		}
	}
	n.canon = nil
	return &n
}

func (o *Object) HasCol(name string) bool {
	for _, c := range o.Cols {
		if c.Name == name {
			return true
		}
	}
	return false
}

// StoragePolicy returns the table's storage_policy setting ("" = server default).
func (o *Object) StoragePolicy() string { return o.Settings["storage_policy"] }

func (o *Object) seal() *Object {
	o.canon = &lazyCanon{}
	return o
}

func (o *Object) buildCanon() string {
	var sb strings.Builder
	fmt.Fprintf(&sb, "kind=%s engine=%s", o.Kind, o.Engine)
	sb.WriteString(" cols=[")
	for i, c := range o.Cols {
		if i > 0 {
			sb.WriteString("; ")
		}
		sb.WriteString(c.Name + " " + c.Type)
		if c.DefaultKind != "" {
			sb.WriteString(" " + c.DefaultKind + " " + c.DefaultExpr)
		}
		if c.Codec != "" {
			sb.WriteString(" CODEC" + c.Codec)
		}
	}
	sb.WriteString("]")
	if o.Kind == KMergeTree {
		fmt.Fprintf(&sb, " order=(%s) partition=%s pk=%s", strings.Join(o.OrderBy, " , "), o.PartitionBy, o.PrimaryKey)
		tt := make([]string, len(o.TTL))
		for i, t := range o.TTL {
			tt[i] = t.Text
		}
		sort.Strings(tt)
		fmt.Fprintf(&sb, " ttl=[%s]", strings.Join(tt, " | "))
	}
	if len(o.Indexes) > 0 {
		is := make([]string, 0, len(o.Indexes))
		for k, v := range o.Indexes {
			is = append(is, k+" "+v)
		}
		sort.Strings(is)
		fmt.Fprintf(&sb, " indexes=[%s]", strings.Join(is, " | "))
	}
	if len(o.Settings) > 0 {
		ks := make([]string, 0, len(o.Settings))
		for k := range o.Settings {
			ks = append(ks, k)
		}
		sort.Strings(ks)
		sb.WriteString(" settings={")
		for _, k := range ks {
			sb.WriteString(k + "=" + o.Settings[k] + ";")
		}
		sb.WriteString("}")
	}
	if o.Kind == KMView {
		sb.WriteString(" to=" + o.To.String())
	}
	if o.Kind == KMView || o.Kind == KView {
		sb.WriteString(" from=" + o.From.String() + " select=" + o.Select)
	}
	return sb.String()
}

// Canon is the canonical description of the object (computed once, on demand).
func (o *Object) Canon() string {
	o.canon.once.Do(func() { o.canon.s = o.buildCanon() })
	return o.canon.s
}

// Row of a modelled table content (`ver`, `settings`).
type Row struct {
	Cols []string
	Vals []Val
	At   int64 // logical insertion time: NOW() of the statement
	Node int   // the node whose local table holds the row (see Catalogue.Node)
}

func (r Row) Get(col string) (Val, bool) {
	for i, c := range r.Cols {
		if c == col {
			return r.Vals[i], true
		}
	}
	return Val{}, false
}

// Catalogue is the modelled server state. One catalogue stands for the whole cluster:
// ON CLUSTER statements are assumed to reach every node, so all nodes stay identical.
type Catalogue struct {
	DBs   map[string]map[string]*Object
	Data  map[string][]Row // "db.table" -> rows
	Clock int64
	// Node: the cluster node the current connection goes to. Table definitions are shared by all nodes (DDL runs
	// ON CLUSTER); the rows of `ver` are local: an INSERT stores them on this node, a read of the table itself sees
	// only this node's rows, a read through a Distributed table sees the rows of all nodes.
	Node int
	// Policies: the server's storage policies and the disks each holds (nil = not modelled: every TO DISK is
	// accepted). A table without the setting is on policy "default".
	Policies map[string][]string
}

func New(dbs ...string) *Catalogue {
	c := &Catalogue{DBs: map[string]map[string]*Object{}, Data: map[string][]Row{}}
	for _, d := range dbs {
		c.DBs[d] = map[string]*Object{}
	}
	return c
}

// Clone returns an independent copy (objects are shared, they are immutable).
func (c *Catalogue) Clone() *Catalogue {
	n := &Catalogue{DBs: make(map[string]map[string]*Object, len(c.DBs)), Data: make(map[string][]Row, len(c.Data)), Clock: c.Clock, Node: c.Node, Policies: c.Policies}
	for d, m := range c.DBs {
		nm := make(map[string]*Object, len(m))
		for k, v := range m {
			nm[k] = v
		}
		n.DBs[d] = nm
	}
	for k, rows := range c.Data {
		n.Data[k] = rows[:len(rows):len(rows)] // appends copy
	}
	return n
}

// Get returns the object or nil.
func (c *Catalogue) Get(db, name string) *Object {
	if m := c.DBs[db]; m != nil {
		return m[name]
	}
	return nil
}

// Names lists the objects of a database, sorted.
func (c *Catalogue) Names(db string) []string {
	var out []string
	for n := range c.DBs[db] {
		out = append(out, n)
	}
	sort.Strings(out)
	return out
}

// resolveData follows Distributed tables to the table that holds the rows.
func (c *Catalogue) resolveData(q QName) (QName, *Exception) {
	for hop := 0; hop < 4; hop++ {
		o := c.Get(q.DB, q.Name)
		if o == nil {
			return q, exc(60, "UNKNOWN_TABLE", "Table %s does not exist", q)
		}
		if o.Kind != KDist {
			return q, nil
		}
		if len(o.engineStr) < 3 || o.engineStr[1] == "" || o.engineStr[2] == "" {
			return q, exc(36, "BAD_ARGUMENTS", "Distributed table %s with non-literal arguments", q)
		}
		q = QName{o.engineStr[1], o.engineStr[2]}
	}
	return q, exc(36, "BAD_ARGUMENTS", "Distributed chain too deep")
}

// qualSame returns t itself when resolving it led to no other table (t is read directly, not through a
// Distributed table), and a different name otherwise.
func (c *Catalogue) qualSame(t, resolved QName) QName {
	if t.Name == resolved.Name && (t.DB == resolved.DB || t.DB == "") {
		return resolved
	}
	return QName{"", ""}
}

// VerMaxAllNodes is what the version table records for key k over the whole cluster (for oracles; the code under
// test reads through its connection).
func (c *Catalogue) VerMaxAllNodes(t QName, k string) (uint64, *Exception) {
	var mx uint64
	save := c.Node
	defer func() { c.Node = save }()
	for n := 0; n < 2; n++ {
		c.Node = n
		v, e := c.VerMax(t, k)
		if e != nil {
			return 0, e
		}
		mx = max(mx, v)
	}
	return mx, nil
}

// VerMax implements `SELECT max(ver) FROM <t> WHERE k = <k>` (ReplacingMergeTree(ver):
// the maximum is invariant under merges). Empty set → 0, as ClickHouse's max over no rows.
func (c *Catalogue) VerMax(t QName, k string) (uint64, *Exception) {
	q, e := c.resolveData(t)
	if e != nil {
		return 0, e
	}
	var mx uint64
	local := q == c.qualSame(t, q)
	for _, r := range c.Data[q.String()] {
		if local && r.Node != c.Node {
			continue
		}
		kv, _ := r.Get("k")
		vv, _ := r.Get("ver")
		if kv.Text != k {
			continue
		}
		n, err := strconv.ParseUint(vv.Text, 10, 64)
		if err != nil {
			return 0, exc(-1, "UNMODELLED", "non-numeric ver value %q", vv.Text)
		}
		if n > mx {
			mx = n
		}
	}
	return mx, nil
}

// VerAll implements `SELECT k, max(ver) as ver FROM t GROUP BY k`: one (k, max ver) pair per recorded key.
func (c *Catalogue) VerAll(t QName) ([][2]uint64, *Exception) {
	q, e := c.resolveData(t)
	if e != nil {
		return nil, e
	}
	mx := map[uint64]uint64{}
	local := q == c.qualSame(t, q)
	for _, r := range c.Data[q.String()] {
		if local && r.Node != c.Node {
			continue
		}
		kv, _ := r.Get("k")
		vv, _ := r.Get("ver")
		k, err1 := strconv.ParseUint(kv.Text, 10, 64)
		n, err2 := strconv.ParseUint(vv.Text, 10, 64)
		if err1 != nil || err2 != nil {
			return nil, exc(-1, "UNMODELLED", "non-numeric k/ver value %q/%q", kv.Text, vv.Text)
		}
		if n > mx[k] || mx[k] == 0 {
			mx[k] = max(mx[k], n)
		}
	}
	ks := make([]uint64, 0, len(mx))
	for k := range mx {
		ks = append(ks, k)
	}
	sort.Slice(ks, func(a, b int) bool { return ks[a] < ks[b] })
	out := make([][2]uint64, 0, len(ks))
	for _, k := range ks {
		out = append(out, [2]uint64{k, mx[k]})
	}
	return out, nil
}

// Setting implements `SELECT argMax(value, inserted_at) … WHERE fingerprint = fp GROUP BY
// fingerprint HAVING argMax(name, inserted_at) != ”`: the latest row under the logical clock.
func (c *Catalogue) Setting(t QName, fp string) (value string, found bool, e *Exception) {
	q, e := c.resolveData(t)
	if e != nil {
		return "", false, e
	}
	var best *Row
	rows := c.Data[q.String()]
	for i := range rows {
		f, _ := rows[i].Get("fingerprint")
		if f.Text != fp {
			continue
		}
		if best == nil || rows[i].At >= best.At {
			best = &rows[i]
		}
	}
	if best == nil {
		return "", false, nil
	}
	name, _ := best.Get("name")
	if name.IsStr && name.Str == "" {
		return "", false, nil
	}
	v, _ := best.Get("value")
	if v.IsStr {
		return v.Str, true, nil
	}
	return v.Text, true, nil
}

// Canon is a canonical, comparable text of the whole state: objects, the recorded versions
// and the latest value of every settings row (ReplacingMergeTree read semantics; NOW() is
// abstracted, so states reached through different numbers of retries compare equal).
func (c *Catalogue) Canon() string {
	var sb strings.Builder
	dbs := make([]string, 0, len(c.DBs))
	for d := range c.DBs {
		dbs = append(dbs, d)
	}
	sort.Strings(dbs)
	for _, d := range dbs {
		for _, n := range c.Names(d) {
			sb.WriteString(d + "." + n + ": " + c.DBs[d][n].Canon() + "\n")
		}
	}
	tabs := make([]string, 0, len(c.Data))
	for t := range c.Data {
		tabs = append(tabs, t)
	}
	sort.Strings(tabs)
	for _, t := range tabs {
		rows := c.Data[t]
		latest := map[string]Row{}
		for _, r := range rows {
			key := r.Vals[0].Text
			old, ok := latest[key]
			if !ok {
				latest[key] = r
				continue
			}
			if strings.HasSuffix(t, ".ver") {
				a, _ := r.Get("ver")
				b, _ := old.Get("ver")
				an, _ := strconv.ParseUint(a.Text, 10, 64)
				bn, _ := strconv.ParseUint(b.Text, 10, 64)
				if an > bn {
					latest[key] = r
				}
			} else if r.At >= old.At {
				latest[key] = r
			}
		}
		keys := make([]string, 0, len(latest))
		for k := range latest {
			keys = append(keys, k)
		}
		sort.Strings(keys)
		for _, k := range keys {
			r := latest[k]
			sb.WriteString("data " + t + " [" + k + "]:")
			for i, col := range r.Cols {
				sb.WriteString(" " + col + "=" + r.Vals[i].Text)
			}
			sb.WriteString("\n")
		}
	}
	return sb.String()
}

// Diff returns the lines that differ between two canonical texts (for messages).
func Diff(a, b string) []string {
	am := map[string]bool{}
	for _, l := range strings.Split(a, "\n") {
		am[l] = true
	}
	bm := map[string]bool{}
	for _, l := range strings.Split(b, "\n") {
		bm[l] = true
	}
	var out []string
	for _, l := range strings.Split(a, "\n") {
		if !bm[l] {
			out = append(out, "- "+clip(l, 300))
		}
	}
	for _, l := range strings.Split(b, "\n") {
		if !am[l] {
			out = append(out, "+ "+clip(l, 300))
		}
	}
	return out
}

func clip(s string, n int) string {
	if len(s) > n {
		return s[:n] + "…"
	}
	return s
}

// Exception is the error ClickHouse would return.
type Exception = proto.Exception

func exc(code int32, name, f string, a ...any) *Exception {
	return &Exception{Code: code, Name: name, Message: fmt.Sprintf(f, a...)}
}

// Unmodelled is returned for statements whose effect the catalogue cannot decide.
type Unmodelled struct{ Why string }

func (u *Unmodelled) Error() string { return "E-CAT unmodelled: " + u.Why }

func (c *Catalogue) qual(q QName, defDB string) QName {
	if q.DB == "" {
		q.DB = defDB
	}
	return q
}

func (c *Catalogue) put(q QName, o *Object) {
	c.DBs[q.DB][q.Name] = o.seal()
}

// Apply executes a parsed DDL/INSERT statement against the catalogue with ClickHouse's
// error behaviour. It either applies the whole effect or nothing.
func (c *Catalogue) Apply(s *Stmt, defDB string) error {
	c.Clock++
	switch s.Verb {
	case VCreateDB:
		if _, ok := c.DBs[s.Name.Name]; ok {
			if s.IfNotExists {
				return nil
			}
			return exc(82, "DATABASE_ALREADY_EXISTS", "Database %s already exists", s.Name.Name)
		}
		c.DBs[s.Name.Name] = map[string]*Object{}
		return nil

	case VCreateTable, VCreateView, VCreateMV:
		q := c.qual(s.Name, defDB)
		if _, ok := c.DBs[q.DB]; !ok {
			return exc(81, "UNKNOWN_DATABASE", "Database %s does not exist", q.DB)
		}
		if c.Get(q.DB, q.Name) != nil {
			if s.IfNotExists {
				return nil
			}
			return exc(57, "TABLE_ALREADY_EXISTS", "Table %s already exists", q)
		}
		o := s.Obj.clone()
		if o.Kind == KView || o.Kind == KMView {
			o.From = c.qual(o.From, defDB)
			// the SELECT is analysed at creation: its source must exist
			if c.Get(o.From.DB, o.From.Name) == nil {
				return exc(60, "UNKNOWN_TABLE", "Table %s does not exist (source of %s)", o.From, q)
			}
		}
		if o.Kind == KMView {
			o.To = c.qual(o.To, defDB)
			if c.Get(o.To.DB, o.To.Name) == nil {
				return exc(60, "UNKNOWN_TABLE", "Target table %s of materialized view %s does not exist", o.To, q)
			}
		}
		if o.Kind == KMergeTree {
			seen := map[string]bool{}
			for _, col := range o.Cols {
				if seen[col.Name] {
					return exc(15, "DUPLICATE_COLUMN", "Column %s already exists", col.Name)
				}
				seen[col.Name] = true
			}
		}
		c.put(q, o)
		return nil

	case VDropTable, VDropView:
		q := c.qual(s.Name, defDB)
		o := c.Get(q.DB, q.Name)
		if o == nil {
			if s.IfExists {
				return nil
			}
			return exc(60, "UNKNOWN_TABLE", "Table %s does not exist", q)
		}
		if s.Verb == VDropView && o.Kind != KView && o.Kind != KMView {
			return exc(48, "NOT_IMPLEMENTED", "Table %s is not a View", q)
		}
		delete(c.DBs[q.DB], q.Name)
		delete(c.Data, q.String())
		return nil

	case VRename:
		// all pairs are checked first: a multi-rename is applied completely or not at all
		type mv struct{ a, b QName }
		var moves []mv
		tmp := map[string]bool{}
		gone := map[string]bool{}
		for _, pr := range s.Renames {
			a, b := c.qual(pr[0], defDB), c.qual(pr[1], defDB)
			if (c.Get(a.DB, a.Name) == nil && !tmp[a.String()]) || gone[a.String()] {
				if s.IfExists {
					continue
				}
				return exc(60, "UNKNOWN_TABLE", "Table %s does not exist", a)
			}
			if _, ok := c.DBs[b.DB]; !ok {
				return exc(81, "UNKNOWN_DATABASE", "Database %s does not exist", b.DB)
			}
			if (c.Get(b.DB, b.Name) != nil && !gone[b.String()]) || tmp[b.String()] {
				return exc(57, "TABLE_ALREADY_EXISTS", "Table %s already exists", b)
			}
			gone[a.String()], tmp[b.String()] = true, true
			delete(tmp, a.String())
			delete(gone, b.String())
			moves = append(moves, mv{a, b})
		}
		for _, m := range moves {
			o := c.DBs[m.a.DB][m.a.Name]
			delete(c.DBs[m.a.DB], m.a.Name)
			c.DBs[m.b.DB][m.b.Name] = o
			if rows, ok := c.Data[m.a.String()]; ok {
				delete(c.Data, m.a.String())
				c.Data[m.b.String()] = rows
			}
		}
		return nil

	case VExchange:
		a, b := c.qual(s.Renames[0][0], defDB), c.qual(s.Renames[0][1], defDB)
		for _, q := range []QName{a, b} {
			if c.Get(q.DB, q.Name) == nil {
				return exc(60, "UNKNOWN_TABLE", "Table %s does not exist", q)
			}
		}
		c.DBs[a.DB][a.Name], c.DBs[b.DB][b.Name] = c.DBs[b.DB][b.Name], c.DBs[a.DB][a.Name]
		ra, oka := c.Data[a.String()]
		rb, okb := c.Data[b.String()]
		delete(c.Data, a.String())
		delete(c.Data, b.String())
		if okb {
			c.Data[a.String()] = rb
		}
		if oka {
			c.Data[b.String()] = ra
		}
		return nil

	case VAlter:
		q := c.qual(s.Name, defDB)
		old := c.Get(q.DB, q.Name)
		if old == nil {
			return exc(60, "UNKNOWN_TABLE", "Table %s does not exist", q)
		}
		if old.Kind == KView || old.Kind == KMView {
			return exc(48, "NOT_IMPLEMENTED", "ALTER of view %s is not supported", q)
		}
		o := old.clone()
		added := map[string]bool{}
		for _, a := range s.Actions {
			switch a.Kind {
			case "add_column":
				if o.HasCol(a.Col.Name) {
					if a.IfNotExists {
						continue
					}
					return exc(15, "DUPLICATE_COLUMN", "Cannot add column %s: column with this name already exists", a.Col.Name)
				}
				if a.Col.DefaultKind != "" && simpleIdent(a.Col.DefaultExpr) && !o.HasCol(a.Col.DefaultExpr) {
					return exc(47, "UNKNOWN_IDENTIFIER", "Missing columns: '%s' while processing default expression of %s", a.Col.DefaultExpr, a.Col.Name)
				}
				if a.After != "" {
					if !o.HasCol(a.After) {
						return exc(10, "NOT_FOUND_COLUMN_IN_BLOCK", "Wrong column name. Cannot find column %s to insert after", a.After)
					}
					var cols []Column
					for _, cc := range o.Cols {
						cols = append(cols, cc)
						if cc.Name == a.After {
							cols = append(cols, a.Col)
						}
					}
					o.Cols = cols
				} else {
					o.Cols = append(o.Cols, a.Col)
				}
				added[a.Col.Name] = true
			case "add_index":
				if _, ok := o.Indexes[a.Index]; ok {
					if a.IfNotExists {
						continue
					}
					return exc(44, "ILLEGAL_COLUMN", "Cannot add index %s: index with this name already exists", a.Index)
				}
				if o.Indexes == nil {
					o.Indexes = map[string]string{}
				}
				o.Indexes[a.Index] = a.IndexDef
			case "drop_index":
				if _, ok := o.Indexes[a.Index]; !ok {
					if a.IfExists {
						continue
					}
					return exc(36, "BAD_ARGUMENTS", "Cannot find index %s to drop", a.Index)
				}
				delete(o.Indexes, a.Index)
			case "materialize_index":
				if _, ok := o.Indexes[a.Index]; !ok && !a.IfExists {
					return exc(36, "BAD_ARGUMENTS", "Cannot find index %s to materialize", a.Index)
				}
			case "modify_order_by":
				if o.Kind != KMergeTree {
					return exc(48, "NOT_IMPLEMENTED", "MODIFY ORDER BY is not supported by engine of %s", q)
				}
				// the old key must stay a prefix-subsequence; added expressions may only use
				// columns added by this very ALTER (MergeTreeData::checkAlterIsPossible)
				oi := 0
				var addedExprs []string
				for _, e := range a.OrderBy {
					if oi < len(o.OrderBy) && e == o.OrderBy[oi] {
						oi++
					} else {
						addedExprs = append(addedExprs, e)
					}
				}
				if oi != len(o.OrderBy) {
					return exc(36, "BAD_ARGUMENTS", "Primary key must be a prefix of the sorting key / existing key column removed in MODIFY ORDER BY of %s", q)
				}
				for _, e := range addedExprs {
					if !simpleIdent(e) {
						return &Unmodelled{"MODIFY ORDER BY adds a non-column expression: " + e}
					}
					if !added[e] {
						return exc(36, "BAD_ARGUMENTS", "Existing column %s is used in the expression that was added to the sorting key. You can add expressions that use only the newly added columns", e)
					}
				}
				o.OrderBy = append([]string(nil), a.OrderBy...)
			case "modify_setting":
				if o.Kind != KMergeTree {
					return exc(48, "NOT_IMPLEMENTED", "MODIFY SETTING is not supported by engine of %s", q)
				}
				for _, kv := range a.Settings {
					o.Settings[kv[0]] = kv[1]
				}
			case "modify_ttl":
				if o.Kind != KMergeTree {
					return exc(36, "BAD_ARGUMENTS", "Engine of %s doesn't support TTL clause", q)
				}
				if c.Policies != nil {
					pol := o.StoragePolicy()
					if pol == "" {
						pol = "default"
					}
					for _, it := range a.TTL {
						if it.Action != "disk" {
							continue
						}
						found := false
						for _, d := range c.Policies[pol] {
							found = found || d == it.Dest
						}
						if !found {
							return exc(450, "BAD_TTL_EXPRESSION", "No such disk `%s` for given storage policy `%s`", it.Dest, pol)
						}
					}
				}
				o.TTL = append([]TTLItem(nil), a.TTL...)
				o.TTLText = a.TTLText
			default:
				return &Unmodelled{"ALTER action " + a.Kind}
			}
		}
		c.put(q, o)
		return nil

	case VInsert:
		q := c.qual(s.Name, defDB)
		tq, e := c.resolveData(q)
		if e != nil {
			return e
		}
		o := c.Get(tq.DB, tq.Name)
		if tq.Name != "ver" && tq.Name != "settings" {
			return &Unmodelled{"INSERT into " + tq.String() + " (only ver and settings contents are modelled)"}
		}
		if o.Kind != KMergeTree {
			return &Unmodelled{"INSERT into non-MergeTree " + tq.String()}
		}
		for _, col := range s.Cols {
			if !o.HasCol(col) {
				return exc(16, "NO_SUCH_COLUMN_IN_TABLE", "No such column %s in table %s", col, tq)
			}
		}
		for _, r := range s.Rows {
			if tq.Name == "ver" {
				for i, col := range s.Cols {
					if col == "k" || col == "ver" {
						if _, err := strconv.ParseUint(r[i].Text, 10, 64); err != nil {
							return &Unmodelled{"INSERT INTO ver with non-literal " + col + ": " + r[i].Text}
						}
					}
				}
			}
			c.Data[tq.String()] = append(c.Data[tq.String()], Row{Cols: s.Cols, Vals: r, At: c.Clock, Node: c.Node})
		}
		return nil
	}
	return &Unmodelled{"verb " + s.Verb}
}
