package cat

import (
	"context"
	"errors"
	"fmt"
	"reflect"
	"regexp"
	"strconv"
	"strings"

	chdrv "github.com/ClickHouse/clickhouse-go/v2/lib/driver"
	"github.com/ClickHouse/clickhouse-go/v2/lib/proto"
)

// Fault kinds (DESIGN Appendix B).
const (
	Before   = "before"           // statement i has no effect; an error is returned
	After    = "after"            // statement i takes effect; an error is returned; the process is dead: every later call fails
	VerWrite = "verwrite"         // the first version/marker INSERT issued after statement i fails without effect
	ServerEx = "server-exception" // statement i has no effect; the server answers with an exception of its own (a DDL task the initiator stopped waiting for, memory limit, keeper away, read-only replica) instead of the connection breaking
	Refused  = "refused"          // statement i has no effect and fails, and so does every repetition of the same statement text during this run (a statement the server keeps refusing until the next start)
)

var Kinds = []string{Before, After, VerWrite, Refused, ServerEx}

// serverExceptions: what a ClickHouse server says when it could not carry a statement out (texts as the server words them)
var serverExceptions = []*proto.Exception{
	{Code: 159, Name: "DB::Exception", Message: "Watching task /clickhouse/task_queue/ddl/query-0000000042 is executing longer than distributed_ddl_task_timeout (=180) seconds. There are 1 unfinished hosts (0 of them are currently active), they are going to execute the query in background"},
	{Code: 241, Name: "DB::Exception", Message: "Memory limit (total) exceeded: would use 3.64 GiB (attempt to allocate chunk of 4194304 bytes), maximum: 3.60 GiB"},
	{Code: 999, Name: "Coordination::Exception", Message: "Connection loss, path: /clickhouse/task_queue/ddl"},
	{Code: 242, Name: "DB::Exception", Message: "Table is in readonly mode (replica path: /clickhouse/tables/01/x)"},
	{Code: 159, Name: "DB::Exception", Message: "Timeout exceeded: elapsed 300.2 seconds, maximum: 300"},
}

// Fault is injected at statement index Index (0-based position in the connection's log).
type Fault struct {
	Index int    `json:"index"`
	Kind  string `json:"kind"`
}

func (f *Fault) String() string {
	if f == nil {
		return "none"
	}
	return fmt.Sprintf("%s@%d", f.Kind, f.Index)
}

// ErrInjected is what a faulted call returns.
var ErrInjected = errors.New("injected fault: connection lost")

// ErrDead is returned by every call after an `after` fault (the process is gone).
var ErrDead = errors.New("injected fault: process is dead")

// Entry is one statement seen by the connection.
type Entry struct {
	Index    int
	Op       string // exec | query
	Raw      string
	Args     []any
	Bound    string // text after client-side binding of $n
	Stmt     *Stmt  // nil when unmodelled
	Applied  bool   // the effect reached the catalogue (queries: the answer was computed)
	Err      error  // what the caller got
	Injected string // fault kind injected at this entry ("" none)
	Result   []any  // rows returned by a query
}

// IsVersionWrite: INSERT INTO ver …, or the INSERT of a 'rotate' marker into settings.
func (e *Entry) IsVersionWrite() bool {
	if e.Stmt == nil || e.Stmt.Verb != VInsert {
		return false
	}
	switch e.Stmt.Name.Name {
	case "ver":
		return true
	case "settings":
		for i, c := range e.Stmt.Cols {
			if c == "type" {
				for _, r := range e.Stmt.Rows {
					if r[i].IsStr && r[i].Str == "rotate" {
						return true
					}
				}
			}
		}
	}
	return false
}

func (e *Entry) Short() string {
	s := e.Bound
	if s == "" {
		s = strings.Join(strings.Fields(e.Raw), " ")
	}
	return clip(strings.Join(strings.Fields(s), " "), 160)
}

// Conn is the fake clickhouse.Conn.
type Conn struct {
	Cat        *Catalogue
	DB         string
	Fault      *Fault
	Log        []*Entry
	Unmodelled []string // statement shapes that could not be decided: the run is inconclusive
	OnApplied  func(e *Entry, c *Catalogue)
	armed      bool   // verwrite armed
	refused    string // bound text of the statement a `refused` fault hit: every repetition fails too
	dead       bool
	Fired      bool // the fault was actually injected
}

// NewConn opens a "connection" to the catalogue with default database db.
func NewConn(c *Catalogue, db string, f *Fault) *Conn {
	return &Conn{Cat: c, DB: db, Fault: f}
}

var bindRe = regexp.MustCompile(`\$[0-9]+`)

// bind emulates clickhouse-go's client-side numeric binding.
func bind(q string, args []any) (string, error) {
	if len(args) == 0 {
		return q, nil
	}
	var berr error
	out := bindRe.ReplaceAllStringFunc(q, func(m string) string {
		n, _ := strconv.Atoi(m[1:])
		if n < 1 || n > len(args) {
			berr = fmt.Errorf("have no arg for %s param", m)
			return ""
		}
		switch v := args[n-1].(type) {
		case string:
			return quoteStr(v)
		case bool:
			if v {
				return "1"
			}
			return "0"
		case int, int8, int16, int32, int64, uint, uint8, uint16, uint32, uint64:
			return fmt.Sprintf("%d", v)
		case nil:
			return "NULL"
		default:
			berr = fmt.Errorf("bind of %T not modelled", v)
			return ""
		}
	})
	return out, berr
}

func (c *Conn) do(op, q string, args []any) *Entry {
	e := &Entry{Index: len(c.Log), Op: op, Raw: q, Args: args}
	c.Log = append(c.Log, e)
	if c.dead {
		e.Err = ErrDead
		return e
	}
	b, err := bind(q, args)
	if err != nil {
		e.Err = err
		c.Unmodelled = append(c.Unmodelled, "bind: "+err.Error())
		return e
	}
	e.Bound = b
	st, perr := Parse(b)
	if perr != nil {
		c.Unmodelled = append(c.Unmodelled, perr.Error()+" :: "+clip(strings.Join(strings.Fields(b), " "), 200))
		e.Err = &Unmodelled{perr.Error()}
		return e
	}
	e.Stmt = st
	if (op == "query") != (st.Verb == VSelectVer || st.Verb == VSelectSet || st.Verb == VShowTables || st.Verb == VSelectCount || st.Verb == VSelectVerAll || st.Verb == VSelectVerLast) {
		c.Unmodelled = append(c.Unmodelled, op+" of "+st.Verb)
		e.Err = &Unmodelled{op + " of " + st.Verb}
		return e
	}
	kind := ""
	if c.Fault != nil && c.Fault.Index == e.Index {
		switch c.Fault.Kind {
		case Before, After, ServerEx:
			kind = c.Fault.Kind
		case Refused:
			kind = Refused
			c.refused = b
		case VerWrite:
			c.armed = true
		}
	} else if c.refused != "" && b == c.refused {
		kind = Refused
	} else if c.armed && e.IsVersionWrite() {
		kind = VerWrite
		c.armed = false
	}
	if kind == ServerEx {
		e.Injected, e.Err, c.Fired = kind, serverExceptions[e.Index%len(serverExceptions)], true
		return e
	}
	if kind == Before || kind == VerWrite || kind == Refused {
		e.Injected, e.Err, c.Fired = kind, ErrInjected, true
		return e
	}
	// effect
	var eff error
	if op == "exec" {
		eff = c.Cat.Apply(st, c.DB)
	} else {
		e.Result, eff = c.answer(st)
	}
	if u, ok := eff.(*Unmodelled); ok {
		c.Unmodelled = append(c.Unmodelled, u.Why)
	}
	if ex, ok := eff.(*Exception); ok && ex == nil {
		eff = nil
	}
	e.Err = eff
	e.Applied = eff == nil
	if e.Applied && c.OnApplied != nil {
		c.OnApplied(e, c.Cat)
	}
	if kind == After {
		e.Injected, c.Fired, c.dead = kind, true, true
		if eff == nil {
			e.Err = ErrInjected
		}
	}
	return e
}

func (c *Conn) answer(s *Stmt) ([]any, error) {
	c.Cat.Clock++
	switch s.Verb {
	case VSelectVer:
		v, e := c.Cat.VerMax(c.Cat.qual(s.Name, c.DB), s.Arg)
		if e != nil {
			if e.Code < 0 {
				return nil, &Unmodelled{e.Message}
			}
			return nil, e
		}
		return []any{v}, nil
	case VSelectVerLast:
		pairs, e := c.Cat.VerAll(c.Cat.qual(s.Name, c.DB))
		if e != nil {
			if e.Code < 0 {
				return nil, &Unmodelled{e.Message}
			}
			return nil, e
		}
		for _, p := range pairs {
			if fmt.Sprint(p[0]) == s.Arg {
				return []any{p[1]}, nil
			}
		}
		return nil, nil
	case VSelectVerAll:
		pairs, e := c.Cat.VerAll(c.Cat.qual(s.Name, c.DB))
		if e != nil {
			if e.Code < 0 {
				return nil, &Unmodelled{e.Message}
			}
			return nil, e
		}
		out := make([]any, len(pairs))
		for i, p := range pairs {
			out[i] = p
		}
		return out, nil
	case VSelectSet:
		v, found, e := c.Cat.Setting(c.Cat.qual(s.Name, c.DB), s.Arg)
		if e != nil {
			return nil, e
		}
		if !found {
			return nil, nil
		}
		return []any{v}, nil
	case VShowTables:
		var out []any
		for _, n := range c.Cat.Names(c.DB) {
			out = append(out, n)
		}
		return out, nil
	case VSelectCount:
		q, e := c.Cat.resolveData(c.Cat.qual(s.Name, c.DB))
		if e != nil {
			return nil, e
		}
		return []any{uint64(len(c.Cat.Data[q.String()]))}, nil
	}
	return nil, &Unmodelled{"query " + s.Verb}
}

// ---- driver.Conn ----

func (c *Conn) Exec(ctx context.Context, q string, args ...any) error {
	return c.do("exec", q, args).Err
}

func (c *Conn) Query(ctx context.Context, q string, args ...any) (chdrv.Rows, error) {
	e := c.do("query", q, args)
	if e.Err != nil {
		return nil, e.Err
	}
	return &rows{vals: e.Result}, nil
}

func (c *Conn) unsupported(what string) error {
	c.Unmodelled = append(c.Unmodelled, "driver call "+what)
	return &Unmodelled{"driver call " + what}
}

func (c *Conn) Contributors() []string { return nil }
func (c *Conn) ServerVersion() (*chdrv.ServerVersion, error) {
	return nil, c.unsupported("ServerVersion")
}
func (c *Conn) Select(ctx context.Context, dest any, q string, args ...any) error {
	return c.unsupported("Select")
}
func (c *Conn) QueryRow(ctx context.Context, q string, args ...any) chdrv.Row {
	return &row{err: c.unsupported("QueryRow")}
}
func (c *Conn) PrepareBatch(ctx context.Context, q string, opts ...chdrv.PrepareBatchOption) (chdrv.Batch, error) {
	return nil, c.unsupported("PrepareBatch")
}
func (c *Conn) AsyncInsert(ctx context.Context, q string, wait bool, args ...any) error {
	return c.unsupported("AsyncInsert")
}
func (c *Conn) Ping(context.Context) error {
	if c.dead {
		return ErrDead
	}
	return nil
}
func (c *Conn) Stats() chdrv.Stats { return chdrv.Stats{} }
func (c *Conn) Close() error       { return nil }

type row struct{ err error }

func (r *row) Err() error             { return r.err }
func (r *row) Scan(dest ...any) error { return r.err }
func (r *row) ScanStruct(any) error   { return r.err }

type rows struct {
	vals []any
	i    int
}

func (r *rows) Next() bool { r.i++; return r.i <= len(r.vals) }
func (r *rows) Scan(dest ...any) error {
	if r.i < 1 || r.i > len(r.vals) {
		return errors.New("sql: Scan called without calling Next")
	}
	if tup, ok := r.vals[r.i-1].([2]uint64); ok { // (k, max ver) rows
		if len(dest) != 2 {
			return fmt.Errorf("expected 2 destination arguments in Scan, not %d", len(dest))
		}
		for j, d := range dest {
			p, ok := d.(*uint64)
			if !ok {
				return fmt.Errorf("converting UInt64 to %s is unsupported", reflect.TypeOf(d))
			}
			*p = tup[j]
		}
		return nil
	}
	if len(dest) != 1 {
		return fmt.Errorf("expected 1 destination arguments in Scan, not %d", len(dest))
	}
	v := r.vals[r.i-1]
	switch d := dest[0].(type) {
	case *uint64:
		if x, ok := v.(uint64); ok {
			*d = x
			return nil
		}
	case *string:
		if x, ok := v.(string); ok {
			*d = x
			return nil
		}
	}
	return fmt.Errorf("converting %s to %s is unsupported", reflect.TypeOf(v), reflect.TypeOf(dest[0]))
}
func (r *rows) ScanStruct(dest any) error       { return errors.New("ScanStruct not modelled") }
func (r *rows) ColumnTypes() []chdrv.ColumnType { return nil }
func (r *rows) Totals(dest ...any) error        { return nil }
func (r *rows) Columns() []string               { return nil }
func (r *rows) Close() error                    { return nil }
func (r *rows) Err() error                      { return nil }

var _ chdrv.Conn = (*Conn)(nil)

// NoLog satisfies qryn's ctrl/logger.ILogger and drops everything.
type NoLog struct{}

func (NoLog) Error(...any) {}
func (NoLog) Debug(...any) {}
func (NoLog) Info(...any)  {}
