package cat

import (
	"context"
	"errors"
	"strings"
	"testing"
)

func code(err error) int32 {
	var e *Exception
	if errors.As(err, &e) {
		return e.Code
	}
	if err == nil {
		return 0
	}
	return -1
}

// Self-test corpus of the Appendix B rules.
func TestRules(t *testing.T) {
	c := New("db")
	cn := NewConn(c, "db", nil)
	ex := func(q string, args ...any) int32 { return code(cn.Exec(context.Background(), q, args...)) }
	steps := []struct {
		q    string
		want int32
	}{
		{"CREATE TABLE IF NOT EXISTS db.t (a UInt64, `b` String DEFAULT '0') ENGINE = MergeTree ORDER BY a SETTINGS storage_policy = 'p'", 0},
		{"CREATE TABLE db.t (a UInt64) ENGINE = MergeTree ORDER BY a", 57},
		{"CREATE TABLE IF NOT EXISTS t (a UInt64) ENGINE = MergeTree ORDER BY a", 0},
		{"CREATE TABLE nodb.t (a UInt64) ENGINE = MergeTree ORDER BY a", 81},
		{"CREATE MATERIALIZED VIEW mv TO missing AS SELECT a FROM t", 60},
		{"CREATE MATERIALIZED VIEW mv TO t AS SELECT a FROM missing", 60},
		{"CREATE TABLE t2 (a UInt64) ENGINE = ReplacingMergeTree(a) ORDER BY a", 0},
		{"CREATE MATERIALIZED VIEW mv TO t2 AS SELECT a FROM db.t", 0},
		{"CREATE MATERIALIZED VIEW mv TO t2 AS SELECT a FROM db.t", 57},
		{"CREATE MATERIALIZED VIEW IF NOT EXISTS mv TO t2 AS SELECT a FROM db.t", 0},
		{"ALTER TABLE t ADD COLUMN c UInt8", 0},
		{"ALTER TABLE t ADD COLUMN c UInt8", 15},
		{"ALTER TABLE t (ADD COLUMN `c` UInt8 ALIAS a)", 15},
		{"ALTER TABLE t ADD COLUMN IF NOT EXISTS c UInt8", 0},
		{"ALTER TABLE t ADD COLUMN d UInt8 ALIAS nope", 47},
		{"ALTER TABLE missing ADD COLUMN IF NOT EXISTS c UInt8", 60},
		// atomic: second action fails, first must not stick
		{"ALTER TABLE t ADD COLUMN e UInt8, ADD COLUMN c UInt8", 15},
		{"ALTER TABLE t ADD COLUMN e UInt8, MODIFY ORDER BY (a, e)", 0},
		{"ALTER TABLE t ADD COLUMN IF NOT EXISTS e UInt8, MODIFY ORDER BY (a, e)", 0}, // same key again: no-op
		{"ALTER TABLE t MODIFY ORDER BY (a, e, c)", 36},                               // existing column added to key
		{"ALTER TABLE t MODIFY ORDER BY (e)", 36},
		{"ALTER TABLE mv ADD COLUMN z UInt8", 48},
		{"RENAME TABLE db.mv TO mv_bak", 0},
		{"RENAME TABLE db.mv TO mv_bak", 60},
		{"RENAME TABLE IF EXISTS db.mv TO mv_bak", 0},
		{"RENAME TABLE t2 TO mv_bak", 57},
		{"DROP TABLE IF EXISTS mv_bak", 0},
		{"DROP TABLE mv_bak", 60},
		{"DROP TABLE IF EXISTS mv_bak ON CLUSTER `c`", 0},
		{"ALTER TABLE t MODIFY TTL toDateTime(a) + toIntervalSecond(60) TO DISK 'cold', toDateTime(a) + toIntervalDay(7)", 0},
		{"ALTER TABLE t ON CLUSTER `c` MODIFY SETTING storage_policy=$1", 0},
		{"CREATE TABLE IF NOT EXISTS ver (k UInt64, ver UInt64) ENGINE=ReplacingMergeTree(ver) ORDER BY k", 0},
		{"CREATE TABLE IF NOT EXISTS ver_dist (k UInt64, ver UInt64) ENGINE=Distributed('c','db', 'ver', rand())", 0},
		{"INSERT INTO ver (k, ver) VALUES ($1, $2)", 0},
		{"INSERT INTO ver (k, nope) VALUES (1, 2)", 16},
		{"INSERT INTO missing (k) VALUES (1)", 60},
	}
	for i, s := range steps {
		var got int32
		switch {
		case strings.Contains(s.q, "storage_policy=$1"):
			got = ex(s.q, "po'l")
		case strings.Contains(s.q, "($1, $2)"):
			got = ex(s.q, int64(3), uint64(7))
		default:
			got = ex(s.q)
		}
		if got != s.want {
			t.Errorf("step %d %q: code %d want %d (%v)", i, s.q, got, s.want, cn.Log[len(cn.Log)-1].Err)
		}
	}
	if len(cn.Unmodelled) != 0 {
		t.Errorf("unmodelled: %v", cn.Unmodelled)
	}
	o := c.Get("db", "t")
	if o.HasCol("d") || !o.HasCol("e") || strings.Join(o.OrderBy, ",") != "a,e" {
		t.Errorf("atomic alter / order key wrong: %s", o.Canon())
	}
	if o.StoragePolicy() != "po'l" {
		t.Errorf("storage policy %q", o.StoragePolicy())
	}
	if len(o.TTL) != 2 || !o.TTL[0].Known || o.TTL[0].Seconds != 60 || o.TTL[0].Action != "disk" || o.TTL[0].Dest != "cold" ||
		o.TTL[1].Seconds != 7*86400 || o.TTL[1].Action != "delete" {
		t.Errorf("ttl parse: %+v", o.TTL)
	}
	// ReplacingMergeTree reads
	r, err := cn.Query(context.Background(), "SELECT max(ver) as ver FROM ver_dist WHERE k = $1 FORMAT JSON", int64(3))
	if err != nil {
		t.Fatal(err)
	}
	var v uint64
	for r.Next() {
		r.Scan(&v)
	}
	if v != 7 {
		t.Errorf("max(ver)=%d", v)
	}
	r, _ = cn.Query(context.Background(), "SELECT max(ver) as ver FROM ver WHERE k = $1 FORMAT JSON", int64(4))
	n := 0
	for r.Next() {
		r.Scan(&v)
		n++
	}
	if n != 1 || v != 0 {
		t.Errorf("max over empty set: rows=%d v=%d", n, v)
	}
	// unmodelled shapes are never ok
	for _, q := range []string{"OPTIMIZE TABLE t FINAL", "ALTER TABLE t DROP COLUMN c", "TRUNCATE TABLE t", "SELECT 1",
		"CREATE TABLE x (a UInt64) ENGINE = Log", "ALTER TABLE t MODIFY TTL a + 1 RECOMPRESS CODEC(ZSTD)"} {
		before := len(cn.Unmodelled)
		if err := cn.Exec(context.Background(), q); err == nil || len(cn.Unmodelled) != before+1 {
			t.Errorf("%q: not reported as unmodelled (err=%v)", q, err)
		}
	}
}

func TestSettingsAndFaults(t *testing.T) {
	c := New("db")
	setup := NewConn(c, "db", nil)
	bg := context.Background()
	must := func(err error) {
		t.Helper()
		if err != nil {
			t.Fatal(err)
		}
	}
	must(setup.Exec(bg, "CREATE TABLE settings (fingerprint UInt64, type String, name String, value String, inserted_at DateTime64(9, 'UTC')) ENGINE = ReplacingMergeTree(inserted_at) ORDER BY fingerprint"))
	must(setup.Exec(bg, "CREATE TABLE settings_dist (fingerprint UInt64, type String, name String, value String, inserted_at DateTime64(9, 'UTC')) ENGINE = Distributed('c','db','settings', rand())"))
	get := func(cn *Conn, tbl string) (string, int) {
		r, err := cn.Query(bg, "SELECT argMax(value, inserted_at) as _value FROM "+tbl+" WHERE fingerprint = $1 \nGROUP BY fingerprint HAVING argMax(name, inserted_at) != ''", uint32(5))
		must(err)
		s, n := "", 0
		for r.Next() {
			r.Scan(&s)
			n++
		}
		return s, n
	}
	put := func(cn *Conn, v string) error {
		return cn.Exec(bg, "INSERT INTO settings (fingerprint, type, name, value, inserted_at)\nVALUES ($1, $2, $3, $4, NOW())", uint32(5), "rotate", "x", v)
	}
	if _, n := get(setup, "settings"); n != 0 {
		t.Errorf("rows for missing setting: %d", n)
	}
	must(put(setup, "a"))
	must(put(setup, "b 'q'"))
	if s, n := get(setup, "settings_dist"); n != 1 || s != "b 'q'" {
		t.Errorf("argMax read: %q %d", s, n)
	}
	snap := c.Clone()
	canon := c.Canon()
	// before: no effect; connection stays usable
	cn := NewConn(c, "db", &Fault{Index: 0, Kind: Before})
	if err := put(cn, "c"); err != ErrInjected {
		t.Errorf("before: %v", err)
	}
	if s, _ := get(cn, "settings"); s != "b 'q'" {
		t.Errorf("before had an effect: %q", s)
	}
	// after: effect, error, dead
	cn = NewConn(c, "db", &Fault{Index: 0, Kind: After})
	if err := put(cn, "d"); err != ErrInjected {
		t.Errorf("after: %v", err)
	}
	if err := put(cn, "e"); err != ErrDead {
		t.Errorf("after, later call: %v", err)
	}
	if s, _ := get(NewConn(c, "db", nil), "settings"); s != "d" {
		t.Errorf("after had no effect: %q", s)
	}
	// verwrite: armed at 0, fires at the next marker insert
	cn = NewConn(c, "db", &Fault{Index: 0, Kind: VerWrite})
	get(cn, "settings")
	must(cn.Exec(bg, "ALTER TABLE settings MODIFY SETTING ttl_only_drop_parts = 1, merge_with_ttl_timeout = 3600"))
	if err := put(cn, "f"); err != ErrInjected || !cn.Fired {
		t.Errorf("verwrite: %v", err)
	}
	must(put(cn, "g"))
	// clone independence and canonical comparison
	if snap.Canon() != canon {
		t.Errorf("clone changed with the original")
	}
	if c.Canon() == canon {
		t.Errorf("canon did not change")
	}
	if len(Diff(canon, c.Canon())) == 0 {
		t.Errorf("empty diff")
	}
}
