package logq

import (
	"fmt"
	"math/rand"
	"regexp"
	"strings"
	"time"
)

// Value pools: no value is a substring of another, so that anchored and unanchored regex
// matching agree on whole-value alternations (judged cases); hostile suffixes exercise escaping.
var valuePool = []string{"alpha", "bravo", "carol", "delta", "echo7", "fox_t"}
var hostileTails = []string{"'", "\"", "\\", "%", "_", ".", "*", "(", ")", "[", "]", "{", "}", "|", "^", "$", "\n", "é", "''", "\\'", "%_", " ", "?", "+"}

var labelNames = []string{"app", "env", "lvl", "pod", "num", "zone"}
var tokens = []string{"error", "warn", "GET", "POST", "timeout", "user=7", "100%", "a_b", "x.y", "[ok]", "(retry)", "it's", `say "hi"`, `back\slash`, "end$", "^start", "pipe|line", "star*", "q?", "plus+"}

type GenOpts struct {
	Hostile    bool
	JSONLines  bool // lines are JSON objects (for json stages)
	Logfmt     bool
	Numeric    bool // samples carry numeric values (unwrap_value) and numeric labels
	MaxSeries  int
	MaxSamples int
	StartNs    int64
	EndNs      int64
	StepAlign  int64 // place timestamps around multiples of this (bucket edges)
	NegN       bool  // the n field of the lines is below zero in whole series now and then (C09)
	Malformed  bool  // some lines are cut after a readable prefix / are not objects (json), have an unterminated quote (logfmt)
}

func hv(r *rand.Rand, base string, hostile bool) string {
	if hostile && r.Intn(2) == 0 {
		return base + hostileTails[r.Intn(len(hostileTails))] + fmt.Sprint(r.Intn(3))
	}
	return base
}

// NewDB builds a small database. Every series carries app and env (so matchers on them are
// judged for all series); lvl/pod/num/zone are optional.
func NewDB(r *rand.Rand, o GenOpts) *DB {
	d := &DB{}
	ns := 1 + r.Intn(o.MaxSeries)
	used := map[string]bool{}
	for i := 0; i < ns; i++ {
		s := Series{FP: uint64(1000 + r.Intn(1<<30)), Labels: map[string]string{}, Type: 1}
		for used[fmt.Sprint(s.FP)] {
			s.FP++
		}
		used[fmt.Sprint(s.FP)] = true
		s.Labels["app"] = hv(r, valuePool[r.Intn(3)], o.Hostile)
		s.Labels["env"] = hv(r, valuePool[3+r.Intn(3)], o.Hostile)
		if r.Intn(2) == 0 {
			s.Labels["lvl"] = []string{"err", "info", "dbg"}[r.Intn(3)]
		}
		if r.Intn(2) == 0 {
			s.Labels["pod"] = fmt.Sprintf("p%d", r.Intn(4))
		}
		if o.Numeric {
			s.Labels["num"] = []string{"0", "1", "2", "5", "10", "2.5", "-3", "7"}[r.Intn(8)]
		} else if r.Intn(3) == 0 {
			// a label that usually holds a number and sometimes what producers write when they have none
			s.Labels["num"] = []string{"0", "1", "2", "5", "10", "2.5", "-3", "7", "abc", "-", "12ms", "N/A"}[r.Intn(12)]
		}
		// the label set must be unique
		key := CanonLabels(s.Labels)
		if used[key] {
			s.Labels["zone"] = fmt.Sprintf("z%d", i)
		}
		used[CanonLabels(s.Labels)] = true
		switch r.Intn(8) {
		case 0:
			s.Type = 2 // a metric series with matching labels must stay invisible to LogQL
		case 1:
			s.Type = 0
		}
		d.Series = append(d.Series, s)
		if s.Type != 2 && r.Intn(4) == 0 {
			// the same label set also ingested as a metric: the fingerprint is a hash of the labels, so the index has
			// a second row (fp, type 2) and the samples table holds metric points under the very same fingerprint
			tw := Series{FP: s.FP, Labels: map[string]string{}, Type: 2}
			for k, v := range s.Labels {
				tw.Labels[k] = v
			}
			d.Series = append(d.Series, tw)
		}
	}
	span := o.EndNs - o.StartNs
	for _, s := range d.Series {
		n := r.Intn(o.MaxSamples + 1)
		for j := 0; j < n; j++ {
			var ts int64
			switch r.Intn(8) {
			case 0:
				ts = o.StartNs - 1 - int64(r.Intn(3))*1e9 // just before the window
			case 1:
				ts = o.StartNs
			case 2:
				ts = o.EndNs - 1
			case 3:
				ts = o.EndNs + int64(r.Intn(3))*1e9 // at / after the end
			case 4:
				if o.StepAlign > 0 {
					k := r.Int63n(span/o.StepAlign + 1)
					ts = (o.StartNs/o.StepAlign+k)*o.StepAlign + int64(r.Intn(3)) - 1 // bucket edges
				} else {
					ts = o.StartNs + r.Int63n(span)
				}
			default:
				ts = o.StartNs + r.Int63n(span)
			}
			sm := Sample{FP: s.FP, Ts: ts, Type: s.Type}
			sm.Line = genLine(r, o, j)
			if s.Type == 2 && r.Intn(2) == 0 {
				sm.Line, sm.Value = "", float64(r.Intn(200))/4 // what a metric sample looks like
			}
			if o.Numeric {
				sm.Value = float64(r.Intn(200)) / 4
			}
			d.Samples = append(d.Samples, sm)
		}
	}
	return d
}

// nVal is the numeric field of a line: small integers, zero often enough that whole buckets sum to 0
// numSpellings: JSON numbers as producers write them: 64-bit ids beyond 2^53 (neighbours that one float64
// cannot tell apart), exponents, trailing zeros, a negative zero. An extracted label carries the text of the line.
var numSpellings = []string{"12", "100", "7", "9007199254740993", "9007199254740992", "1234567890123456789", "1234567890123456788", "1e3", "1.50", "0.10", "-0", "1E+2", "2.0"}

func nVal(r *rand.Rand) int {
	if r.Intn(4) == 0 {
		return 0
	}
	return r.Intn(20)
}

// nValO: with NegN every value is below zero or zero (so that whole buckets, whole series hold nothing above zero).
func nValO(r *rand.Rand, o GenOpts) int {
	if o.NegN {
		return -nVal(r)
	}
	return nVal(r)
}

func genLine(r *rand.Rand, o GenOpts, j int) string {
	if o.Malformed && r.Intn(4) == 0 {
		lv := []string{"err", "info", "dbg"}[r.Intn(3)]
		switch {
		case o.JSONLines:
			return []string{
				`{"lvl2":"` + lv + `","n":` + fmt.Sprint(r.Intn(20)) + `,"msg":"cut of`,
				`{"lvl2":"` + lv + `","nested":{"a":{"b":"deep`,
				`[1,"two"]`, `"just a string"`, `{"lvl2":"` + lv + `"} trailing`,
			}[r.Intn(5)]
		case o.Logfmt:
			return fmt.Sprintf(`lvl2=%s n=%d msg="never closed`, lv, r.Intn(20))
		}
	}
	switch {
	case o.JSONLines:
		switch r.Intn(10) {
		case 0:
			return `{"msg":"plain","n":` + fmt.Sprint(nValO(r, o)) + `}`
		case 1:
			return `{"msg":` + Q(tokens[r.Intn(len(tokens))]) + `,"lvl2":"` + []string{"err", "info"}[r.Intn(2)] + `","n":` + fmt.Sprint(nValO(r, o)) + `,"rid":` + numSpellings[r.Intn(len(numSpellings))] + `,"nested":{"a":{"b":"deep` + fmt.Sprint(r.Intn(3)) + `"},"arr":[1,"two",{"k":"v` + fmt.Sprint(r.Intn(3)) + `"}]}}`
		case 2:
			return `{"msg":"x","flag":true,"ratio":2.5,"nested":{"a":{"b":"deep0"}}}`
		default:
			return `{"msg":` + Q(tokens[r.Intn(len(tokens))]+" "+tokens[r.Intn(len(tokens))]) + `,"lvl2":"` + []string{"err", "info", "dbg"}[r.Intn(3)] + `","n":` + fmt.Sprint(nValO(r, o)) + `,"rid":` + numSpellings[r.Intn(len(numSpellings))] + `,"nested":{"a":{"b":"deep` + fmt.Sprint(r.Intn(3)) + `"},"arr":[1,"two",{"k":"v1"}]},"user id":"u` + fmt.Sprint(r.Intn(3)) + `"}`
		}
	case o.Logfmt:
		return fmt.Sprintf(`lvl2=%s n=%d msg="%s" path=/a/b`, []string{"err", "info", "dbg"}[r.Intn(3)], nValO(r, o), strings.ReplaceAll(tokens[r.Intn(12)], `"`, ``))
	}
	n := 1 + r.Intn(4)
	parts := make([]string, n)
	for i := range parts {
		parts[i] = tokens[r.Intn(len(tokens))]
	}
	line := strings.Join(parts, " ")
	if r.Intn(4) == 0 {
		line += fmt.Sprintf(" id=%d took 12ms", r.Intn(30))
	}
	if o.Hostile && r.Intn(3) == 0 {
		line += " " + hostileTails[r.Intn(len(hostileTails))]
	}
	return line
}

// pickVal returns a value of label l that occurs in the database (or a fresh miss).
func pickVal(r *rand.Rand, d *DB, l string) string {
	var vals []string
	for _, s := range d.Series {
		if v, ok := s.Labels[l]; ok {
			vals = append(vals, v)
		}
	}
	if len(vals) == 0 || r.Intn(6) == 0 {
		return "nomatch"
	}
	return vals[r.Intn(len(vals))]
}

func genMatchers(r *rand.Rand, d *DB, n int) []Matcher {
	var ms []Matcher
	common := []string{"app", "env"}
	for i := 0; i < n; i++ {
		l := common[r.Intn(2)]
		op := []string{"=", "=", "!=", "=~", "!~"}[r.Intn(5)]
		v := pickVal(r, d, l)
		if op == "=~" || op == "!~" {
			alts := []string{regexp.QuoteMeta(v)}
			if r.Intn(2) == 0 {
				alts = append(alts, regexp.QuoteMeta(pickVal(r, d, l)))
			}
			v = strings.Join(alts, "|")
			if r.Intn(3) == 0 {
				v = "(" + v + ")"
			}
		}
		ms = append(ms, Matcher{l, op, v})
	}
	return ms
}

func genLineFilter(r *rand.Rand, hostile bool) Stage {
	op := []string{"|=", "!=", "|~", "!~"}[r.Intn(4)]
	tok := tokens[r.Intn(len(tokens))]
	if r.Intn(4) == 0 {
		tok = tok[:1+r.Intn(len(tok))] // a fragment
	}
	if hostile && r.Intn(3) == 0 {
		tok = hostileTails[r.Intn(len(hostileTails))]
	}
	s := Stage{Kind: "line", Op: op, Val: tok, Ticked: r.Intn(4) == 0}
	if r.Intn(12) == 0 {
		s.Val = "" // the empty filter query builders emit: |= and |~ keep every line, != and !~ none
		return s
	}
	if op == "|~" || op == "!~" {
		switch r.Intn(4) {
		case 0:
			s.Val = regexp.QuoteMeta(tok) // a literal in regex clothing
		case 1:
			s.Val = `id=\d+`
		case 2:
			s.Val = `(error|warn)`
		case 3:
			s.Val = `(?i)` + regexp.QuoteMeta(strings.ToUpper(tok))
		}
	}
	return s
}

func strp(s string) *string { return &s }

func genSimpleFilter(r *rand.Rand, d *DB, extracted []string) *LFilter {
	labels := []string{"lvl", "pod", "app", "env", "num"}
	labels = append(labels, extracted...)
	l := labels[r.Intn(len(labels))]
	if l == "num" || l == "n" {
		return &LFilter{Label: l, Fn: []string{"==", "!=", ">", ">=", "<", "<="}[r.Intn(6)], Num: []string{"0", "1", "2", "5", "2.5", "10"}[r.Intn(6)]}
	}
	fn := []string{"=", "!=", "=~", "!~"}[r.Intn(4)]
	v := pickVal(r, d, l)
	switch l {
	case "lvl2":
		v = []string{"err", "info", "dbg"}[r.Intn(3)]
	case "deep":
		v = fmt.Sprintf("deep%d", r.Intn(3))
	}
	if fn == "=~" || fn == "!~" {
		v = "(" + regexp.QuoteMeta(v) + "|zzz)"
	}
	return &LFilter{Label: l, Fn: fn, Str: strp(v)}
}

func genFilter(r *rand.Rand, d *DB, extracted []string, depth int) *LFilter {
	var f *LFilter
	if depth < 2 && r.Intn(4) == 0 {
		f = &LFilter{Paren: genFilter(r, d, extracted, depth+1)}
	} else {
		f = genSimpleFilter(r, d, extracted)
	}
	if depth < 2 && r.Intn(3) == 0 {
		f.Op = []string{"and", "or"}[r.Intn(2)]
		f.Tail = genFilter(r, d, extracted, depth+1)
	}
	return f
}

// GenLogQuery builds a C07-class query (everything runs in SQL): matchers, line filters,
// label filters, json with parameters, regexp, drop.
func GenLogQuery(r *rand.Rand, d *DB, o GenOpts) *LogQuery {
	q := &LogQuery{Matchers: genMatchers(r, d, 1+r.Intn(3))}
	if r.Intn(25) == 0 {
		q.Matchers = genMatchers(r, d, 9+r.Intn(2)) // ≥ 9 matchers: bitmask width
	}
	var extracted []string
	n := r.Intn(4)
	if r.Intn(10) == 0 {
		// Grafana's builder: an empty line filter first, the real stages after it
		q.Stages = append(q.Stages, Stage{Kind: "line", Op: "|=", Val: ""})
		n = 1 + r.Intn(3)
	}
	for i := 0; i < n; i++ {
		switch k := r.Intn(10); {
		case k <= 2:
			q.Stages = append(q.Stages, genLineFilter(r, o.Hostile))
		case k <= 5:
			q.Stages = append(q.Stages, Stage{Kind: "label", Filter: genFilter(r, d, extracted, 0)})
		case k == 6 && o.JSONLines:
			ps := []Param{{A: "lvl2", B: "lvl2"}}
			extracted = append(extracted, "lvl2")
			switch r.Intn(4) {
			case 0:
				ps = append(ps, Param{A: "deep", B: "nested.a.b"})
				extracted = append(extracted, "deep")
			case 1:
				ps = append(ps, Param{A: "n", B: "n"})
				extracted = append(extracted, "n")
			case 2:
				ps = append(ps, Param{A: "elem", B: "nested.arr[1]"})
			case 3:
				ps = append(ps, Param{A: "uid", B: `["user id"]`})
			}
			q.Stages = append(q.Stages, Stage{Kind: "jsonp", Params: ps})
		case k == 7 && !o.JSONLines:
			q.Stages = append(q.Stages, Stage{Kind: "regexp", Val: regexpPatterns[r.Intn(len(regexpPatterns))]})
			extracted = append(extracted, "rid")
		case k == 8:
			// one to three parameters, bare names and name="value" in any order
			var ps []Param
			names := []string{"lvl", "pod", "zone"}
			r.Shuffle(len(names), func(i, j int) { names[i], names[j] = names[j], names[i] })
			np := 1
			if r.Intn(2) == 0 {
				np = 2 + r.Intn(2)
			}
			for k, nm := range names[:np] {
				if k > 0 && r.Intn(4) == 0 {
					nm = names[0] // the same label named twice
				}
				p := Param{A: nm}
				if r.Intn(2) == 0 {
					p.HasB, p.B = true, pickVal(r, d, p.A)
				}
				ps = append(ps, p)
			}
			q.Stages = append(q.Stages, Stage{Kind: "drop", Params: ps})
		default:
			q.Stages = append(q.Stages, genLineFilter(r, o.Hostile))
		}
	}
	return q
}

// regexpPatterns: every one extracts rid from lines "… id=<n> took <m>ms …"; named groups flat, nested in one
// another, beside a non-capturing group, and wrapped in one named group for the whole match.
var regexpPatterns = []string{
	`id=(?P<rid>\d+) took (?P<took>\d+)ms`,
	`id=(?P<rid>\d+) took (?P<took>\d+)ms`,
	`(?P<req>id=(?P<rid>\d+)) took (?P<took>\d+)ms`,
	`(?P<all>id=(?P<rid>\d+) took (?P<took>\d+)ms)`,
	`(?:id)=(?P<rid>\d+) took (?P<took>(?P<first>\d)\d*)ms`,
}

var rangeFns = []string{"rate", "count_over_time", "bytes_rate", "bytes_over_time"}
var unwrapFns = []string{"sum_over_time", "avg_over_time", "min_over_time", "max_over_time", "first_over_time", "last_over_time"}

// GenMetricQuery builds a C08-class query.
func GenMetricQuery(r *rand.Rand, d *DB, o GenOpts, rng time.Duration) *MetricQuery {
	m := &MetricQuery{Range: rng}
	m.Log.Matchers = genMatchers(r, d, 1+r.Intn(2))
	unwrap := o.Numeric && r.Intn(2) == 0
	// pipeline stages that must take effect whatever the range
	n := r.Intn(3)
	var extracted []string
	if r.Intn(6) == 0 {
		// the empty line filter query builders put first; the stages after it must still take effect
		m.Log.Stages = append(m.Log.Stages, Stage{Kind: "line", Op: "|=", Val: ""})
		n = 1 + r.Intn(2)
	}
	for i := 0; i < n; i++ {
		switch r.Intn(4) {
		case 0:
			m.Log.Stages = append(m.Log.Stages, genLineFilter(r, false))
		case 1:
			m.Log.Stages = append(m.Log.Stages, Stage{Kind: "label", Filter: genSimpleFilter(r, d, nil)})
		case 2:
			if o.JSONLines {
				m.Log.Stages = append(m.Log.Stages, Stage{Kind: "jsonp", Params: []Param{{A: "lvl2", B: "lvl2"}}},
					Stage{Kind: "label", Filter: &LFilter{Label: "lvl2", Fn: "=", Str: strp([]string{"err", "info"}[r.Intn(2)])}})
				extracted = append(extracted, "lvl2")
			}
		}
	}
	if unwrap {
		m.Fn = unwrapFns[r.Intn(len(unwrapFns))]
		// qryn unwraps labels only (unwrap_value is accepted by its grammar but not implemented:
		// a probe class, generated rarely), and needs a stage that joins the labels first
		switch k := r.Intn(10); {
		case k == 0:
			m.Log.Stages = append(m.Log.Stages, Stage{Kind: "unwrap", Val: ""})
		case o.JSONLines && k <= 5:
			m.Log.Stages = append(m.Log.Stages, Stage{Kind: "jsonp", Params: []Param{{A: "nv", B: "n"}}}, Stage{Kind: "unwrap", Val: "nv"})
			if r.Intn(6) != 0 {
				m.RangeGrp = genGrouping(r, extracted)
				m.RangeGrp.By = true
			}
		case o.JSONLines:
			m.Log.Stages = append(m.Log.Stages, Stage{Kind: "jsonp", Params: []Param{{A: "lvl2", B: "lvl2"}}}, Stage{Kind: "unwrap", Val: "num"})
		default:
			m.Log.Stages = append(m.Log.Stages, Stage{Kind: "regexp", Val: `id=(?P<rid>\d+) took`}, Stage{Kind: "unwrap", Val: "num"})
		}
		if m.RangeGrp == nil && r.Intn(3) == 0 {
			m.RangeGrp = genGrouping(r, extracted)
		}
	} else {
		m.Fn = rangeFns[r.Intn(len(rangeFns))]
	}
	if r.Intn(5) == 0 {
		m.RangeCmp = genCmp(r)
	}
	if r.Intn(2) == 0 {
		m.Agg = []string{"sum", "avg", "min", "max", "count"}[r.Intn(5)]
		if r.Intn(8) != 0 {
			m.AggGrp = genGrouping(r, extracted)
		}
		if r.Intn(5) == 0 {
			m.AggCmp = genCmp(r)
		}
	}
	if r.Intn(6) == 0 {
		m.TopK = 1 + r.Intn(2)
		m.Bottom = r.Intn(2) == 0
		if r.Intn(3) == 0 {
			m.TopCmp = genCmp(r)
		}
	}
	return m
}

func genGrouping(r *rand.Rand, extracted []string) *Grouping {
	g := &Grouping{By: r.Intn(2) == 0, Suffix: r.Intn(2) == 0}
	pool := append([]string{"app", "env", "lvl", "pod"}, extracted...)
	n := 1 + r.Intn(2)
	perm := r.Perm(len(pool))
	for i := 0; i < n; i++ {
		g.Labels = append(g.Labels, pool[perm[i]])
	}
	return g
}

func genCmp(r *rand.Rand) *Cmp {
	return &Cmp{Op: []string{">", ">=", "<", "<=", "==", "!="}[r.Intn(6)], Val: []string{"0", "1", "2", "0.5", "10"}[r.Intn(5)]}
}
