// Package logq holds E-REF for LogQL: an abstract query model (rendered to LogQL text for
// qryn and evaluated directly by the reference evaluator), a small log database model, the
// generators for both, and the executor that runs qryn's real planner chain over E-CHSQL.
//
// The evaluator is written from the property statements C07–C09 and DESIGN Appendix E, never
// from qryn's planners.
package logq

import (
	"encoding/json"
	"fmt"
	"sort"
	"strconv"
	"strings"
	"time"
)

// ---------- data ----------

type Series struct {
	FP     uint64            `json:"fp"`
	Labels map[string]string `json:"labels"`
	Type   uint8             `json:"type"` // 1 log, 2 metric, 0 both
}

type Sample struct {
	FP    uint64  `json:"fp"`
	Ts    int64   `json:"ts"`
	Line  string  `json:"line"`
	Value float64 `json:"value"`
	Type  uint8   `json:"type"`
}

type DB struct {
	Series  []Series `json:"series"`
	Samples []Sample `json:"samples"`
}

func (d *DB) SeriesByFP() map[uint64]*Series {
	m := map[uint64]*Series{}
	for i := range d.Series {
		m[d.Series[i].FP] = &d.Series[i]
	}
	return m
}

// ---------- query model ----------

type Matcher struct {
	Label string `json:"l"`
	Op    string `json:"op"` // = != =~ !~
	Val   string `json:"v"`
}

// LFilter is a label filter expression in the grammar's shape: Head [and|or Tail].
type LFilter struct {
	Paren *LFilter `json:"paren,omitempty"`
	Label string   `json:"l,omitempty"`
	Fn    string   `json:"fn,omitempty"` // = != =~ !~ == > >= < <=
	Str   *string  `json:"s,omitempty"`
	Num   string   `json:"n,omitempty"`
	Op    string   `json:"op,omitempty"` // and | or | ""
	Tail  *LFilter `json:"tail,omitempty"`
}

type Param struct {
	A      string `json:"a"`
	B      string `json:"b"`
	HasB   bool   `json:"has_b,omitempty"`
	BConst bool   `json:"b_const,omitempty"` // label_format: B is a constant string (else a label name)
}

type Stage struct {
	Kind   string   `json:"kind"` // line label json jsonp logfmt regexp drop line_format label_format unwrap
	Op     string   `json:"op,omitempty"`
	Val    string   `json:"val,omitempty"`
	Ticked bool     `json:"ticked,omitempty"`
	Filter *LFilter `json:"filter,omitempty"`
	Params []Param  `json:"params,omitempty"`
}

type LogQuery struct {
	Matchers []Matcher `json:"matchers"`
	Stages   []Stage   `json:"stages"`
}

type Grouping struct {
	By     bool     `json:"by"`
	Labels []string `json:"labels"`
	Suffix bool     `json:"suffix"` // rendered after the parenthesis
}

type Cmp struct {
	Op  string `json:"op"`
	Val string `json:"val"`
}

// MetricQuery: [topk(k,] [agg [by]] ( fn [by] ( log [range] ) ) [cmp] …
type MetricQuery struct {
	Fn       string        `json:"fn"` // rate count_over_time bytes_rate bytes_over_time sum_over_time … quantile_over_time
	Range    time.Duration `json:"range"`
	Log      LogQuery      `json:"log"`
	RangeGrp *Grouping     `json:"range_grp,omitempty"` // only for unwrapped functions
	RangeCmp *Cmp          `json:"range_cmp,omitempty"`
	Agg      string        `json:"agg,omitempty"` // sum min max avg count stddev stdvar
	AggGrp   *Grouping     `json:"agg_grp,omitempty"`
	AggCmp   *Cmp          `json:"agg_cmp,omitempty"`
	TopK     int           `json:"topk,omitempty"`
	TopCmp   *Cmp          `json:"top_cmp,omitempty"` // threshold written after topk/bottomk: applies to what the cut left
	Bottom   bool          `json:"bottom,omitempty"`
	Quantile string        `json:"quantile,omitempty"`
}

type Request struct {
	Log     *LogQuery     `json:"log,omitempty"`
	Metric  *MetricQuery  `json:"metric,omitempty"`
	StartNs int64         `json:"start"`
	EndNs   int64         `json:"end"`
	Step    time.Duration `json:"step"`
	Limit   int64         `json:"limit"`
	Forward bool          `json:"forward"`
}

// ---------- rendering ----------

// Q renders a string as a LogQL double-quoted literal (JSON escapes: what qryn's Unquote reads).
func Q(s string) string {
	var sb strings.Builder
	enc := json.NewEncoder(&sb)
	enc.SetEscapeHTML(false)
	enc.Encode(s)
	return strings.TrimRight(sb.String(), "\n")
}

// Tick renders with back-ticks when the string allows it.
func Tick(s string) (string, bool) {
	if strings.ContainsAny(s, "`\\\"") {
		return "", false
	}
	return "`" + s + "`", true
}

func (m Matcher) String() string { return m.Label + m.Op + Q(m.Val) }

func (f *LFilter) String() string {
	var sb strings.Builder
	if f.Paren != nil {
		sb.WriteString("(" + f.Paren.String() + ")")
	} else {
		sb.WriteString(f.Label + " " + f.Fn + " ")
		if f.Str != nil {
			sb.WriteString(Q(*f.Str))
		} else {
			sb.WriteString(f.Num)
		}
	}
	if f.Op != "" && f.Tail != nil {
		sb.WriteString(" " + f.Op + " " + f.Tail.String())
	}
	return sb.String()
}

func (s Stage) String() string {
	lit := func(v string) string {
		if s.Ticked {
			if t, ok := Tick(v); ok {
				return t
			}
		}
		return Q(v)
	}
	switch s.Kind {
	case "line":
		return s.Op + " " + lit(s.Val)
	case "label":
		return "| " + s.Filter.String()
	case "json":
		return "| json"
	case "logfmt":
		return "| logfmt"
	case "jsonp":
		ps := make([]string, len(s.Params))
		for i, p := range s.Params {
			ps[i] = p.A + "=" + Q(p.B)
		}
		return "| json " + strings.Join(ps, ", ")
	case "regexp":
		return "| regexp " + lit(s.Val)
	case "drop":
		ps := make([]string, len(s.Params))
		for i, p := range s.Params {
			ps[i] = p.A
			if p.HasB {
				ps[i] += "=" + Q(p.B)
			}
		}
		return "| drop " + strings.Join(ps, ", ")
	case "line_format":
		return "| line_format " + lit(s.Val)
	case "label_format":
		ps := make([]string, len(s.Params))
		for i, p := range s.Params {
			if p.BConst {
				ps[i] = p.A + "=" + Q(p.B)
			} else {
				ps[i] = p.A + "=" + p.B
			}
		}
		return "| label_format " + strings.Join(ps, ", ")
	case "unwrap":
		if s.Val == "" {
			return "| unwrap_value"
		}
		return "| unwrap " + s.Val
	}
	return "?"
}

func (q LogQuery) String() string {
	ms := make([]string, len(q.Matchers))
	for i, m := range q.Matchers {
		ms[i] = m.String()
	}
	out := "{" + strings.Join(ms, ", ") + "}"
	for _, s := range q.Stages {
		out += " " + s.String()
	}
	return out
}

func durStr(d time.Duration) string {
	switch {
	case d%time.Hour == 0:
		return strconv.FormatInt(int64(d/time.Hour), 10) + "h"
	case d%time.Minute == 0:
		return strconv.FormatInt(int64(d/time.Minute), 10) + "m"
	case d%time.Second == 0:
		return strconv.FormatInt(int64(d/time.Second), 10) + "s"
	}
	return strconv.FormatInt(int64(d/time.Millisecond), 10) + "ms"
}

func (g *Grouping) str() string {
	w := "without"
	if g.By {
		w = "by"
	}
	return w + " (" + strings.Join(g.Labels, ", ") + ")"
}

func (m MetricQuery) String() string {
	inner := m.Fn
	if m.RangeGrp != nil && !m.RangeGrp.Suffix {
		inner += " " + m.RangeGrp.str()
	}
	if m.Fn == "quantile_over_time" {
		inner += " (" + m.Quantile + ", " + m.Log.String() + " [" + durStr(m.Range) + "])"
	} else {
		inner += " (" + m.Log.String() + " [" + durStr(m.Range) + "])"
	}
	if m.RangeGrp != nil && m.RangeGrp.Suffix {
		inner += " " + m.RangeGrp.str()
	}
	if m.RangeCmp != nil {
		inner += " " + m.RangeCmp.Op + " " + m.RangeCmp.Val
	}
	out := inner
	if m.Agg != "" {
		out = m.Agg
		if m.AggGrp != nil && !m.AggGrp.Suffix {
			out += " " + m.AggGrp.str()
		}
		out += " (" + inner + ")"
		if m.AggGrp != nil && m.AggGrp.Suffix {
			out += " " + m.AggGrp.str()
		}
		if m.AggCmp != nil {
			out += " " + m.AggCmp.Op + " " + m.AggCmp.Val
		}
	}
	if m.TopK > 0 {
		fn := "topk"
		if m.Bottom {
			fn = "bottomk"
		}
		out = fmt.Sprintf("%s(%d, %s)", fn, m.TopK, out)
		if m.TopCmp != nil {
			out += " " + m.TopCmp.Op + " " + m.TopCmp.Val
		}
	}
	return out
}

func (r Request) QueryString() string {
	if r.Log != nil {
		return r.Log.String()
	}
	return r.Metric.String()
}

// Shape is the structural class of a request (literals abstracted): used for distinct-case
// counting and known-finding signatures.
func (r Request) Shape() string {
	var parts []string
	lq := r.Log
	if r.Metric != nil {
		lq = &r.Metric.Log
	}
	ops := map[string]bool{}
	for _, m := range lq.Matchers {
		ops[m.Op] = true
	}
	var mo []string
	for o := range ops {
		mo = append(mo, o)
	}
	sort.Strings(mo)
	parts = append(parts, "m["+strings.Join(mo, "")+"]")
	for _, s := range lq.Stages {
		switch s.Kind {
		case "line":
			parts = append(parts, "line"+s.Op)
		case "label":
			parts = append(parts, "label("+s.Filter.shape()+")")
		default:
			parts = append(parts, s.Kind)
		}
	}
	if r.Metric != nil {
		m := r.Metric
		p := m.Fn
		if m.RangeGrp != nil {
			p += "+grp"
		}
		if m.RangeCmp != nil {
			p += "+cmp"
		}
		if m.Agg != "" {
			p += "/" + m.Agg
			if m.AggGrp != nil {
				if m.AggGrp.By {
					p += "+by"
				} else {
					p += "+without"
				}
			}
			if m.AggCmp != nil {
				p += "+cmp"
			}
		}
		if m.TopK > 0 {
			if m.Bottom {
				p += "/bottomk"
			} else {
				p += "/topk"
			}
			if m.TopCmp != nil {
				p += "+cmp"
			}
		}
		parts = append(parts, p)
	}
	return strings.Join(parts, " ")
}

func (f *LFilter) shape() string {
	s := ""
	if f.Paren != nil {
		s = "(" + f.Paren.shape() + ")"
	} else if f.Str != nil {
		s = "s" + f.Fn
	} else {
		s = "n" + f.Fn
	}
	if f.Op != "" && f.Tail != nil {
		s += " " + f.Op + " " + f.Tail.shape()
	}
	return s
}

// SigShape is Shape without the matcher-operator class when the query has pipeline stages
// (the minimal failing query keeps one arbitrary matcher; its operator is not the culprit).
func (r Request) SigShape() string {
	sh := r.Shape()
	lq := r.Log
	if r.Metric != nil {
		lq = &r.Metric.Log
	}
	if len(lq.Stages) > 0 || r.Metric != nil {
		if i := strings.Index(sh, "] "); i >= 0 {
			return sh[i+2:]
		}
	}
	return sh
}
