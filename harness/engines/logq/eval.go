package logq

import (
	"encoding/json"
	"fmt"
	"math"
	"regexp"
	"sort"
	"strconv"
	"strings"
	"time"
)

// Entry is one log line after the pipeline, with its stream's (possibly extended) labels.
type Entry struct {
	FP     uint64
	Labels map[string]string
	Ts     int64
	Line   string
	Value  float64 // stored numeric value of the sample
	Unw    float64 // unwrapped value (after an unwrap stage)
	UnwOK  bool
}

func CanonLabels(m map[string]string) string {
	ks := make([]string, 0, len(m))
	for k, v := range m {
		if v != "" {
			ks = append(ks, k)
		}
	}
	sort.Strings(ks)
	var sb strings.Builder
	sb.WriteByte('{')
	for i, k := range ks {
		if i > 0 {
			sb.WriteByte(',')
		}
		sb.WriteString(k + "=" + strconv.Quote(m[k]))
	}
	sb.WriteByte('}')
	return sb.String()
}

// ErrProbe marks a case whose outcome depends on a reading the properties do not settle.
type ErrProbe struct{ Why string }

func (e *ErrProbe) Error() string { return "probe: " + e.Why }

func matchOne(m Matcher, labels map[string]string) (bool, error) {
	v, ok := labels[m.Label]
	if !ok {
		return false, &ErrProbe{"matcher on a label the series does not carry"}
	}
	switch m.Op {
	case "=":
		return v == m.Val, nil
	case "!=":
		return v != m.Val, nil
	case "=~", "!~":
		re, err := regexp.Compile(m.Val)
		if err != nil {
			return false, err
		}
		anch, err := regexp.Compile("^(?:" + m.Val + ")$")
		if err != nil {
			return false, err
		}
		if re.MatchString(v) != anch.MatchString(v) {
			return false, &ErrProbe{"regex matcher where anchoring matters"}
		}
		if m.Op == "=~" {
			return re.MatchString(v), nil
		}
		return !re.MatchString(v), nil
	}
	return false, fmt.Errorf("bad matcher op %q", m.Op)
}

func parseNum(s string) (float64, bool) {
	// numeric label text: the plain decimal grammar both engines agree on
	if s == "" || strings.TrimSpace(s) != s {
		return 0, false
	}
	f, err := strconv.ParseFloat(s, 64)
	if err != nil || math.IsNaN(f) || math.IsInf(f, 0) {
		return 0, false
	}
	for _, c := range s {
		if !(c >= '0' && c <= '9' || c == '.' || c == '-') {
			return 0, false // exponents, hex, "inf": not generated; keep them out of judged cases
		}
	}
	return f, true
}

func (f *LFilter) eval(labels map[string]string) (bool, error) {
	var head bool
	var err error
	if f.Paren != nil {
		head, err = f.Paren.eval(labels)
		if err != nil {
			return false, err
		}
	} else if f.Str != nil {
		v := labels[f.Label]
		switch f.Fn {
		case "=", "==":
			head = v == *f.Str
		case "!=":
			head = v != *f.Str
		case "=~", "!~":
			re, err := regexp.Compile(*f.Str)
			if err != nil {
				return false, err
			}
			anch := regexp.MustCompile("^(?:" + *f.Str + ")$")
			if re.MatchString(v) != anch.MatchString(v) {
				return false, &ErrProbe{"regex label filter where anchoring matters"}
			}
			head = re.MatchString(v)
			if f.Fn == "!~" {
				head = !head
			}
		default:
			return false, fmt.Errorf("bad string filter fn %q", f.Fn)
		}
	} else {
		want, err := strconv.ParseFloat(f.Num, 64)
		if err != nil {
			return false, err
		}
		got, ok := parseNum(labels[f.Label])
		if !ok {
			head = false
		} else {
			switch f.Fn {
			case "==", "=":
				head = got == want
			case "!=":
				head = got != want
			case ">":
				head = got > want
			case ">=":
				head = got >= want
			case "<":
				head = got < want
			case "<=":
				head = got <= want
			default:
				return false, fmt.Errorf("bad numeric filter fn %q", f.Fn)
			}
		}
	}
	if f.Op == "" || f.Tail == nil {
		return head, nil
	}
	tail, err := f.Tail.eval(labels)
	if err != nil {
		return false, err
	}
	if f.Op == "and" {
		return head && tail, nil
	}
	return head || tail, nil
}

// jsonAt: value at a path like a.b[0].c or ["k"]; returns text per the judged rule.
func jsonAt(line string, path string) (string, bool) {
	var v any
	dec := json.NewDecoder(strings.NewReader(line))
	dec.UseNumber()
	if err := dec.Decode(&v); err != nil {
		return "", false
	}
	if dec.More() {
		return "", false
	}
	parts, err := SplitPath(path)
	if err != nil {
		return "", false
	}
	for _, p := range parts {
		switch x := v.(type) {
		case map[string]any:
			if p.IsIdx {
				return "", false
			}
			nv, ok := x[p.Key]
			if !ok {
				return "", false
			}
			v = nv
		case []any:
			if !p.IsIdx || p.Idx < 0 || p.Idx >= len(x) {
				return "", false
			}
			v = x[p.Idx]
		default:
			return "", false
		}
	}
	switch x := v.(type) {
	case string:
		return x, true
	case nil:
		return "", false
	default:
		b, err := json.Marshal(x)
		if err != nil {
			return "", false
		}
		return string(b), true
	}
}

type PathPart struct {
	Key   string
	Idx   int
	IsIdx bool
}

// SplitPath parses the json parameter path grammar: ident(.ident | [n] | ["key"])*
func SplitPath(p string) ([]PathPart, error) {
	var out []PathPart
	i := 0
	for i < len(p) {
		switch {
		case p[i] == '.':
			i++
		case p[i] == '[':
			j := strings.IndexByte(p[i:], ']')
			if j < 0 {
				return nil, fmt.Errorf("bad path")
			}
			in := p[i+1 : i+j]
			if len(in) >= 2 && in[0] == '"' {
				var s string
				if json.Unmarshal([]byte(in), &s) != nil {
					return nil, fmt.Errorf("bad path key")
				}
				out = append(out, PathPart{Key: s})
			} else {
				n, err := strconv.Atoi(in)
				if err != nil {
					return nil, err
				}
				out = append(out, PathPart{Idx: n, IsIdx: true})
			}
			i += j + 1
		default:
			j := i
			for j < len(p) && p[j] != '.' && p[j] != '[' {
				j++
			}
			out = append(out, PathPart{Key: p[i:j]})
			i = j
		}
	}
	return out, nil
}

var sanitizeKey = regexp.MustCompile(`[^a-zA-Z0-9_]`)

// flattenJSON: json stage without parameters (objects flattened with "_", strings as is,
// scalars as raw text, arrays skipped, keys sanitised).
func flattenJSON(line string) (map[string]string, bool) {
	var v any
	dec := json.NewDecoder(strings.NewReader(line))
	dec.UseNumber()
	if err := dec.Decode(&v); err != nil || dec.More() {
		return nil, false
	}
	obj, ok := v.(map[string]any)
	if !ok {
		return nil, false
	}
	out := map[string]string{}
	var walk func(prefix string, o map[string]any)
	walk = func(prefix string, o map[string]any) {
		for k, val := range o {
			key := prefix + sanitizeKey.ReplaceAllString(k, "_")
			switch x := val.(type) {
			case map[string]any:
				walk(key+"_", x)
			case []any:
			case string:
				out[key] = x
			case nil:
			default:
				b, _ := json.Marshal(x)
				out[key] = string(b)
			}
		}
	}
	walk("", obj)
	return out, true
}

// applyStages runs the pipeline on one line; keep=false drops it.
func applyStages(stages []Stage, e *Entry) (keep bool, err error) {
	for _, s := range stages {
		switch s.Kind {
		case "line":
			var hit bool
			switch s.Op {
			case "|=", "!=":
				hit = strings.Contains(e.Line, s.Val)
			case "|~", "!~":
				re, err := regexp.Compile(s.Val)
				if err != nil {
					return false, err
				}
				hit = re.MatchString(e.Line)
			}
			if s.Op == "!=" || s.Op == "!~" {
				hit = !hit
			}
			if !hit {
				return false, nil
			}
		case "label":
			ok, err := s.Filter.eval(e.Labels)
			if err != nil {
				return false, err
			}
			if !ok {
				return false, nil
			}
		case "jsonp":
			for _, p := range s.Params {
				v, ok := jsonAt(e.Line, p.B)
				if _, stored := e.Labels[p.A]; stored && !ok {
					return false, &ErrProbe{"json parameter label collides with a stored label and the path has no value"}
				}
				if ok {
					e.Labels[p.A] = v
				} else {
					delete(e.Labels, p.A)
				}
			}
		case "json":
			m, ok := flattenJSON(e.Line)
			if !ok {
				return false, &ErrProbe{"json stage on a malformed / non-object line"}
			}
			for k, v := range m {
				e.Labels[k] = v
			}
		case "logfmt":
			m, ok := parseLogfmt(e.Line)
			if !ok {
				return false, &ErrProbe{"logfmt stage on a malformed line"}
			}
			for k, v := range m {
				e.Labels[k] = v
			}
		case "regexp":
			re, err := regexp.Compile(s.Val)
			if err != nil {
				return false, err
			}
			m := re.FindStringSubmatch(e.Line)
			for i, n := range re.SubexpNames() {
				if n == "" {
					continue
				}
				if m != nil {
					e.Labels[n] = m[i]
				}
			}
		case "drop":
			for _, p := range s.Params {
				if !p.HasB || e.Labels[p.A] == p.B {
					delete(e.Labels, p.A)
				}
			}
		case "line_format":
			out, err := execTemplate(s.Val, e)
			if err != nil {
				return false, err
			}
			e.Line = out
		case "label_format":
			for _, p := range s.Params {
				if p.BConst {
					e.Labels[p.A] = p.B
				} else {
					e.Labels[p.A] = e.Labels[p.B]
				}
			}
		case "unwrap":
			if s.Val == "" {
				e.Unw, e.UnwOK = e.Value, true
			} else {
				f, ok := parseNum(e.Labels[s.Val])
				if !ok {
					return false, &ErrProbe{"unwrap of a non-numeric label text"}
				}
				e.Unw, e.UnwOK = f, true
			}
		default:
			return false, fmt.Errorf("unknown stage %q", s.Kind)
		}
	}
	return true, nil
}

// EvalLog returns the lines selected by q in [start, end), each with its labels.
func EvalLog(db *DB, q *LogQuery, start, end int64) ([]Entry, error) {
	byFP := db.SeriesByFP()
	selected := map[uint64]bool{}
	for _, s := range db.Series {
		if s.Type == 2 {
			continue
		}
		ok := true
		for _, m := range q.Matchers {
			hit, err := matchOne(m, s.Labels)
			if err != nil {
				return nil, err
			}
			if !hit {
				ok = false
				break
			}
		}
		if ok {
			selected[s.FP] = true
		}
	}
	var out []Entry
	for _, sm := range db.Samples {
		if !selected[sm.FP] || sm.Type == 2 || sm.Ts < start || sm.Ts >= end {
			continue
		}
		e := Entry{FP: sm.FP, Labels: map[string]string{}, Ts: sm.Ts, Line: sm.Line, Value: sm.Value}
		for k, v := range byFP[sm.FP].Labels {
			e.Labels[k] = v
		}
		keep, err := applyStages(q.Stages, &e)
		if err != nil {
			return nil, err
		}
		if keep {
			out = append(out, e)
		}
	}
	return out, nil
}

// ---------- metric queries ----------

// Point is one (series, bucket) value.
type Point struct {
	Key    string
	Labels map[string]string
	Ts     int64
	Value  float64
}

func groupLabels(l map[string]string, g *Grouping) map[string]string {
	out := map[string]string{}
	if g == nil {
		for k, v := range l {
			out[k] = v
		}
		return out
	}
	in := map[string]bool{}
	for _, n := range g.Labels {
		in[n] = true
	}
	for k, v := range l {
		if g.By == in[k] {
			out[k] = v
		}
	}
	return out
}

func cmpOK(c *Cmp, v float64) bool {
	if c == nil {
		return true
	}
	t, _ := strconv.ParseFloat(c.Val, 64)
	switch c.Op {
	case "==":
		return v == t
	case "!=":
		return v != t
	case ">":
		return v > t
	case ">=":
		return v >= t
	case "<":
		return v < t
	case "<=":
		return v <= t
	}
	return false
}

// EvalMetric computes tumbling-bucket values for every bucket touching [evalFrom, evalTo).
func EvalMetric(db *DB, m *MetricQuery, evalFrom, evalTo int64) ([]Point, error) {
	a, err := evalMetric(db, m, evalFrom, evalTo, false)
	if err != nil {
		return nil, err
	}
	// the other reading: the unwrapped label stays part of the series identity
	b, err := evalMetric(db, m, evalFrom, evalTo, true)
	if err != nil {
		return nil, err
	}
	if !samePoints(a, b, unwrapLabelOf(m)) {
		return nil, &ErrProbe{"result depends on whether the unwrapped label stays in the series identity"}
	}
	return a, nil
}

func unwrapLabelOf(m *MetricQuery) string {
	for _, s := range m.Log.Stages {
		if s.Kind == "unwrap" {
			return s.Val
		}
	}
	return ""
}

func samePoints(a, b []Point, unw string) bool {
	key := func(p Point) string {
		l := map[string]string{}
		for k, v := range p.Labels {
			if k != unw {
				l[k] = v
			}
		}
		return CanonLabels(l) + "@" + strconv.FormatInt(p.Ts, 10)
	}
	am := map[string][]float64{}
	for _, p := range a {
		am[key(p)] = append(am[key(p)], p.Value)
	}
	bm := map[string][]float64{}
	for _, p := range b {
		bm[key(p)] = append(bm[key(p)], p.Value)
	}
	if len(am) != len(bm) {
		return false
	}
	for k, av := range am {
		bv := bm[k]
		if len(av) != 1 || len(bv) != 1 {
			return false
		}
		d := math.Abs(av[0] - bv[0])
		if d > 1e-12 && d > 1e-9*math.Max(math.Abs(av[0]), math.Abs(bv[0])) {
			return false
		}
	}
	return true
}

func evalMetric(db *DB, m *MetricQuery, evalFrom, evalTo int64, keepUnwrapped bool) ([]Point, error) {
	if m.Fn == "quantile_over_time" || m.Fn == "absent_over_time" {
		return nil, &ErrProbe{m.Fn + " values are not judged"}
	}
	if m.Agg != "" && m.AggGrp == nil {
		return nil, &ErrProbe{"vector aggregation without by/without (the statement speaks of the aggregation with its grouping)"}
	}
	for i, s := range m.Log.Stages {
		if s.Kind == "unwrap" && s.Val == "" {
			return nil, &ErrProbe{"unwrap_value (accepted by the grammar, not an unwrap of a label)"}
		}
		if s.Kind == "unwrap" && s.Val != "" && (m.RangeGrp == nil || !m.RangeGrp.By) && extractedBefore(m.Log.Stages[:i], s.Val) {
			return nil, &ErrProbe{"unwrap of a per-line extracted label without a by() grouping: series identity is not settled"}
		}
	}
	entries, err := EvalLog(db, &m.Log, evalFrom, evalTo)
	if err != nil {
		return nil, err
	}
	dur := int64(m.Range)
	secs := float64(m.Range.Milliseconds()) / 1000
	unwrapped := ""
	isUnwrap := false
	for _, s := range m.Log.Stages {
		if s.Kind == "unwrap" {
			isUnwrap = true
			unwrapped = s.Val
		}
	}
	type cell struct {
		labels map[string]string
		ts     int64
		es     []Entry
	}
	cells := map[string]*cell{}
	var order []string
	for _, e := range entries {
		l := groupLabels(e.Labels, m.RangeGrp)
		if unwrapped != "" && !keepUnwrapped {
			delete(l, unwrapped) // one reading: series identity does not include the unwrapped label
		}
		b := e.Ts / dur * dur
		k := CanonLabels(l) + "@" + strconv.FormatInt(b, 10)
		c := cells[k]
		if c == nil {
			c = &cell{labels: l, ts: b}
			cells[k] = c
			order = append(order, k)
		}
		c.es = append(c.es, e)
	}
	var pts []Point
	for _, k := range order {
		c := cells[k]
		var v float64
		n := float64(len(c.es))
		vals := make([]float64, len(c.es))
		bytes := 0.0
		for i, e := range c.es {
			vals[i] = e.Unw
			bytes += float64(len(e.Line))
		}
		switch m.Fn {
		case "rate":
			if isUnwrap {
				return nil, &ErrProbe{"rate over unwrapped values"}
			}
			v = n / secs
		case "count_over_time":
			v = n
		case "bytes_rate":
			v = bytes / secs
		case "bytes_over_time":
			v = bytes
		case "sum_over_time":
			for _, x := range vals {
				v += x
			}
		case "avg_over_time":
			for _, x := range vals {
				v += x
			}
			v /= n
		case "min_over_time":
			v = vals[0]
			for _, x := range vals {
				v = math.Min(v, x)
			}
		case "max_over_time":
			v = vals[0]
			for _, x := range vals {
				v = math.Max(v, x)
			}
		case "first_over_time", "last_over_time":
			best := c.es[0]
			tie := false
			for _, e := range c.es[1:] {
				if (m.Fn == "first_over_time" && e.Ts < best.Ts) || (m.Fn == "last_over_time" && e.Ts > best.Ts) {
					best, tie = e, false
				} else if e.Ts == best.Ts && e.Unw != best.Unw {
					tie = true
				}
			}
			if tie {
				return nil, &ErrProbe{"first/last_over_time with equal timestamps"}
			}
			v = best.Unw
		case "stddev_over_time", "stdvar_over_time":
			mean := 0.0
			for _, x := range vals {
				mean += x
			}
			mean /= n
			for _, x := range vals {
				v += (x - mean) * (x - mean)
			}
			v /= n
			if m.Fn == "stddev_over_time" {
				v = math.Sqrt(v)
			}
		default:
			return nil, fmt.Errorf("unknown range function %q", m.Fn)
		}
		if isUnwrap != (m.Fn != "rate" && m.Fn != "count_over_time" && m.Fn != "bytes_rate" && m.Fn != "bytes_over_time") {
			return nil, fmt.Errorf("function %s and unwrap do not fit", m.Fn)
		}
		if cmpOK(m.RangeCmp, v) {
			pts = append(pts, Point{Key: CanonLabels(c.labels), Labels: c.labels, Ts: c.ts, Value: v})
		}
	}
	if m.Agg != "" {
		type acc struct {
			labels map[string]string
			ts     int64
			vals   []float64
		}
		groups := map[string]*acc{}
		var gorder []string
		for _, p := range pts {
			l := map[string]string{}
			if m.AggGrp != nil {
				l = groupLabels(p.Labels, m.AggGrp)
			}
			k := CanonLabels(l) + "@" + strconv.FormatInt(p.Ts, 10)
			g := groups[k]
			if g == nil {
				g = &acc{labels: l, ts: p.Ts}
				groups[k] = g
				gorder = append(gorder, k)
			}
			g.vals = append(g.vals, p.Value)
		}
		pts = nil
		for _, k := range gorder {
			g := groups[k]
			var v float64
			n := float64(len(g.vals))
			switch m.Agg {
			case "sum":
				for _, x := range g.vals {
					v += x
				}
			case "avg":
				for _, x := range g.vals {
					v += x
				}
				v /= n
			case "min":
				v = g.vals[0]
				for _, x := range g.vals {
					v = math.Min(v, x)
				}
			case "max":
				v = g.vals[0]
				for _, x := range g.vals {
					v = math.Max(v, x)
				}
			case "count":
				v = n
			case "stddev", "stdvar":
				mean := 0.0
				for _, x := range g.vals {
					mean += x
				}
				mean /= n
				for _, x := range g.vals {
					v += (x - mean) * (x - mean)
				}
				v /= n
				if m.Agg == "stddev" {
					v = math.Sqrt(v)
				}
			default:
				return nil, fmt.Errorf("unknown aggregation %q", m.Agg)
			}
			if cmpOK(m.AggCmp, v) {
				pts = append(pts, Point{Key: CanonLabels(g.labels), Labels: g.labels, Ts: g.ts, Value: v})
			}
		}
	}
	if m.TopK > 0 {
		byTs := map[int64][]Point{}
		var tss []int64
		for _, p := range pts {
			if _, ok := byTs[p.Ts]; !ok {
				tss = append(tss, p.Ts)
			}
			byTs[p.Ts] = append(byTs[p.Ts], p)
		}
		pts = nil
		for _, ts := range tss {
			ps := byTs[ts]
			sort.SliceStable(ps, func(i, j int) bool {
				if m.Bottom {
					return ps[i].Value < ps[j].Value
				}
				return ps[i].Value > ps[j].Value
			})
			if len(ps) > m.TopK {
				if ps[m.TopK-1].Value == ps[m.TopK].Value {
					return nil, &ErrProbe{"topk/bottomk tie at the cut"}
				}
				ps = ps[:m.TopK]
			}
			for _, q := range ps {
				if cmpOK(m.TopCmp, q.Value) {
					pts = append(pts, q)
				}
			}
		}
	}
	return pts, nil
}

// ---------- helpers for C09 stages ----------

func parseLogfmt(line string) (map[string]string, bool) {
	out := map[string]string{}
	i := 0
	for i < len(line) {
		for i < len(line) && line[i] == ' ' {
			i++
		}
		if i >= len(line) {
			break
		}
		j := i
		for j < len(line) && line[j] != '=' && line[j] != ' ' {
			j++
		}
		key := line[i:j]
		if key == "" {
			return nil, false
		}
		if j >= len(line) || line[j] != '=' {
			return nil, false // bare keys: not generated
		}
		j++
		var val string
		if j < len(line) && line[j] == '"' {
			k := j + 1
			var sb strings.Builder
			for k < len(line) && line[k] != '"' {
				if line[k] == '\\' && k+1 < len(line) {
					k++
				}
				sb.WriteByte(line[k])
				k++
			}
			if k >= len(line) {
				return nil, false
			}
			val = sb.String()
			j = k + 1
		} else {
			k := j
			for k < len(line) && line[k] != ' ' {
				k++
			}
			val = line[j:k]
			j = k
		}
		out[sanitizeKey.ReplaceAllString(key, "_")] = val
		i = j
	}
	return out, true
}

var tplRef = regexp.MustCompile(`\{\{\s*\.([a-zA-Z_][a-zA-Z0-9_]*)\s*\}\}`)

// execTemplate: the subset of line_format templates the generator produces: {{.label}} and
// {{._entry}} references between literal text.
func execTemplate(tpl string, e *Entry) (string, error) {
	if strings.Contains(tplRef.ReplaceAllString(tpl, ""), "{{") {
		return "", &ErrProbe{"template beyond plain label references"}
	}
	return tplRef.ReplaceAllStringFunc(tpl, func(m string) string {
		name := tplRef.FindStringSubmatch(m)[1]
		if name == "_entry" {
			return e.Line
		}
		return e.Labels[name]
	}), nil
}

var _ = time.Second

// extractedBefore: is label l produced by an extraction stage among stages?
func extractedBefore(stages []Stage, l string) bool {
	for _, e := range stages {
		switch e.Kind {
		case "json", "logfmt":
			return true
		case "jsonp":
			for _, p := range e.Params {
				if p.A == l {
					return true
				}
			}
		case "regexp":
			if strings.Contains(e.Val, "P<"+l+">") {
				return true
			}
		}
	}
	return false
}
