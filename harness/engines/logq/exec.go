package logq

import (
	"context"
	"database/sql/driver"
	"encoding/json"
	"errors"
	"fmt"
	"io"
	"strings"
	"sync"
	"sync/atomic"
	"time"

	clconfig "github.com/metrico/cloki-config"
	"github.com/metrico/cloki-config/config"
	rconfig "github.com/metrico/qryn/reader/config"
	"github.com/metrico/qryn/reader/logql/logql_transpiler_v2"
	"github.com/metrico/qryn/reader/logql/logql_transpiler_v2/shared"
	rmodel "github.com/metrico/qryn/reader/model"
	"github.com/metrico/qryn/reader/utils/dbVersion"
	rlogger "github.com/metrico/qryn/reader/utils/logger"
	sqlsel "github.com/metrico/qryn/reader/utils/sql_select"
	"github.com/metrico/qryn/reader/utils/tables"

	"verif/harness/engines/chsql"
	"verif/harness/engines/sqldrv"
)

func labelsJSON(m map[string]string) string {
	var sb strings.Builder
	enc := json.NewEncoder(&sb)
	enc.SetEscapeHTML(false)
	enc.Encode(m)
	return strings.TrimRight(sb.String(), "\n")
}

func dateOf(ns int64) chsql.Date { return chsql.Date((ns / 1e9) / 86400) }

// Load fills E-CHSQL tables the way the writer + ClickHouse materialized views would:
// time_series / time_series_gin rows on the UTC day of every sample of the series (and the
// day before, as a covering index would hold after earlier pushes), samples_v3 rows, and
// metrics_15s rows derived from samples_v3 as the migration's materialized view defines them.
func (d *DB) Load(cluster bool) *chsql.DB {
	db := chsql.QrynSchema(cluster)
	ts, gin, spl, m15 := db.Tables["time_series"], db.Tables["time_series_gin"], db.Tables["samples_v3"], db.Tables["metrics_15s"]
	days := map[uint64]map[chsql.Date]bool{}
	for _, s := range d.Samples {
		if days[s.FP] == nil {
			days[s.FP] = map[chsql.Date]bool{}
		}
		days[s.FP][dateOf(s.Ts)] = true
	}
	for _, s := range d.Series {
		for day := range days[s.FP] {
			ts.Rows = append(ts.Rows, []chsql.Value{day, s.FP, labelsJSON(s.Labels), "", s.Type})
			for k, v := range s.Labels {
				gin.Rows = append(gin.Rows, []chsql.Value{day, k, v, s.FP, s.Type})
			}
		}
	}
	type k15 struct {
		fp uint64
		ts int64
		tp uint8
	}
	type a15 struct {
		last      float64
		lastTs    int64
		max, min  float64
		count     uint64
		sum, byts float64
	}
	agg := map[k15]*a15{}
	var order []k15
	for _, s := range d.Samples {
		spl.Rows = append(spl.Rows, []chsql.Value{s.FP, s.Ts, s.Value, s.Line, s.Type})
		k := k15{s.FP, s.Ts / 15000000000 * 15000000000, s.Type}
		a := agg[k]
		if a == nil {
			a = &a15{last: s.Value, lastTs: s.Ts, max: s.Value, min: s.Value}
			agg[k] = a
			order = append(order, k)
		}
		if s.Ts >= a.lastTs {
			a.last, a.lastTs = s.Value, s.Ts
		}
		if s.Value > a.max {
			a.max = s.Value
		}
		if s.Value < a.min {
			a.min = s.Value
		}
		a.count++
		a.sum += s.Value
		a.byts += float64(len(s.Line))
	}
	for _, k := range order {
		a := agg[k]
		m15.Rows = append(m15.Rows, []chsql.Value{k.fp, k.ts, chsql.Tuple{a.last, a.lastTs}, a.max, a.min, a.count, a.sum, a.byts, k.tp})
	}
	for _, t := range []*chsql.Table{ts, gin, spl, m15} {
		if err := t.Check(); err != nil {
			panic(err)
		}
	}
	return db
}

// ToDriver converts an E-CHSQL value into what the reader's rows.Scan calls expect.
func ToDriver(v chsql.Value) driver.Value {
	switch x := v.(type) {
	case *chsql.Map:
		m := map[string]string{}
		for i, k := range x.Keys {
			ks, _ := k.(string)
			vs, _ := x.Vals[i].(string)
			m[ks] = vs
		}
		return m
	case chsql.Array:
		allStr := true
		for _, e := range x {
			if _, ok := e.(string); !ok {
				allStr = false
			}
		}
		if allStr {
			out := make([]string, len(x))
			for i, e := range x {
				out[i] = e.(string)
			}
			return out
		}
		out := make([]any, len(x))
		for i, e := range x {
			out[i] = ToDriver(e)
		}
		return out
	case chsql.Tuple:
		out := make([]any, len(x))
		for i, e := range x {
			out[i] = ToDriver(e)
		}
		return out
	case chsql.Null:
		return nil
	case chsql.Date:
		return time.Unix(int64(x)*86400, 0).UTC()
	case chsql.DateTime:
		return time.Unix(int64(x), 0).UTC()
	case uint8:
		return uint64(x)
	case uint16:
		return uint64(x)
	case uint32:
		return uint64(x)
	case int8:
		return int64(x)
	case int16:
		return int64(x)
	case int32:
		return int64(x)
	}
	return v
}

// Exec is one executed statement: SQL text, E-CHSQL result or error.
type Exec struct {
	SQL    string
	Result *chsql.Result
	Err    error
}

// Runner owns a scripted session whose handler executes every statement on the current DB.
type Runner struct {
	mu      sync.Mutex
	Sess    *sqldrv.Session
	Reg     *sqldrv.Registry
	cur     *chsql.DB
	Execs   []Exec
	Cluster bool
	Scans   []chsql.ScanEvent
	// Pace: pause of the consumer after every message it takes from the result channel (0 = none)
	Pace time.Duration
}

var runnerSeq int64

func NewRunner(cluster bool, metrics15s bool) *Runner {
	seq := atomic.AddInt64(&runnerSeq, 1)
	r := &Runner{Cluster: cluster}
	name := fmt.Sprintf("logq-%d-%v-%v", seq, cluster, metrics15s)
	r.Sess = sqldrv.NewSession(name, func(ctx context.Context, q string) (*sqldrv.Rows, error) {
		r.mu.Lock()
		db := r.cur
		r.mu.Unlock()
		res, err := db.Exec(q)
		r.mu.Lock()
		r.Execs = append(r.Execs, Exec{SQL: q, Result: res, Err: err})
		r.mu.Unlock()
		if err != nil {
			return nil, err
		}
		cols := make([]string, len(res.Cols))
		for i, c := range res.Cols {
			cols[i] = c.Name
		}
		data := make([][]driver.Value, len(res.Rows))
		for i, row := range res.Rows {
			data[i] = make([]driver.Value, len(row))
			for j, v := range row {
				data[i][j] = ToDriver(v)
			}
		}
		return sqldrv.NewRows(cols, data), nil
	})
	r.Sess.Tables = []string{"samples_v3", "time_series", "time_series_gin"}
	if metrics15s {
		r.Sess.Tables = append(r.Sess.Tables, "metrics_15s")
	}
	cl := ""
	if cluster {
		cl = "cl"
	}
	r.Reg = sqldrv.NewRegistry(r.Sess, cl)
	if rconfig.Cloki == nil {
		cfg := clconfig.New(clconfig.CLOKI_READER, nil, "", "")
		cfg.Setting.DATABASE_DATA = []config.ClokiBaseDataBase{{Node: "n1", Name: "db"}}
		rconfig.Cloki = cfg
		rlogger.InitLogger() // the pipeline goroutines log through it when they recover from a panic
	}
	return r
}

// Output of one run of qryn's planner chain.
type Output struct {
	Entries  []shared.LogEntry
	IsMatrix bool
	Err      error // planning / database / pipeline error
	Execs    []Exec
	TimedOut bool
}

// Run replicates QueryRangeService.prepareOutput (same calls, same context fields) and drains
// the output channel.
func (r *Runner) Run(db *chsql.DB, req *Request, timeout time.Duration) *Output {
	return r.run(db, req.QueryString(), req, timeout)
}

// RunText runs a literal query text (development aid / replay of raw queries).
func (r *Runner) RunText(db *chsql.DB, q string, start, end int64, step time.Duration, limit int64, timeout time.Duration) *Output {
	return r.run(db, q, &Request{StartNs: start, EndNs: end, Step: step, Limit: limit}, timeout)
}

func (r *Runner) run(db *chsql.DB, queryText string, req *Request, timeout time.Duration) *Output {
	r.mu.Lock()
	r.cur = db
	r.Execs = nil
	r.mu.Unlock()
	out := &Output{}
	ctx, cancelAll := context.WithTimeout(context.Background(), timeout)
	defer cancelAll()
	conn, _ := r.Reg.GetDB(ctx)
	var chain shared.RequestProcessorChain
	var err error
	func() {
		defer func() { // the HTTP handler recovers panics of the synchronous part the same way
			if p := recover(); p != nil {
				err = fmt.Errorf("panic while planning: %v", p)
			}
		}()
		chain, err = logql_transpiler_v2.Transpile(queryText)
	}()
	if err != nil {
		out.Err = err
		return out
	}
	versionInfo, err := dbVersion.GetVersionInfo(ctx, conn.Config.ClusterName != "", conn.Session)
	if err != nil {
		out.Err = err
		return out
	}
	_ctx, cancel := context.WithCancel(ctx)
	defer cancel()
	pctx := tables.PopulateTableNames(&shared.PlannerContext{
		IsCluster:  conn.Config.ClusterName != "",
		From:       time.Unix(req.StartNs/1000000000, 0),
		To:         time.Unix(req.EndNs/1000000000, 0),
		OrderASC:   req.Forward,
		Limit:      req.Limit,
		Ctx:        _ctx,
		CancelCtx:  cancel,
		CHDb:       conn.Session,
		CHFinalize: true,
		Step:       req.Step,
		CHSqlCtx: &sqlsel.Ctx{
			Params: map[string]sqlsel.SQLObject{},
			Result: map[string]sqlsel.SQLObject{},
		},
		VersionInfo: versionInfo,
	}, conn)
	out.IsMatrix = chain[0].IsMatrix()
	var ch chan []shared.LogEntry
	func() {
		defer func() {
			if p := recover(); p != nil {
				err = fmt.Errorf("panic while planning: %v", p)
			}
		}()
		ch, err = chain[0].Process(pctx, nil)
	}()
	if err != nil {
		out.Err = err
		r.mu.Lock()
		out.Execs = append([]Exec{}, r.Execs...)
		r.mu.Unlock()
		return out
	}
	done := make(chan struct{})
	go func() {
		defer close(done)
		for es := range ch {
			for _, e := range es {
				if e.Err == io.EOF {
					continue
				}
				if e.Err != nil {
					if out.Err == nil {
						out.Err = e.Err
					}
					continue
				}
				out.Entries = append(out.Entries, e)
			}
			if r.Pace > 0 {
				// a consumer that takes its time with every message (a response being written to a slow client):
				// the stages upstream block on their sends and hold what they were about to hand on
				time.Sleep(r.Pace)
			}
		}
	}()
	select {
	case <-done:
	case <-ctx.Done():
		out.TimedOut = true
	}
	r.mu.Lock()
	out.Execs = append([]Exec{}, r.Execs...)
	r.mu.Unlock()
	return out
}

// Unsupported reports whether err says the query is outside what qryn / the oracle supports
// (an error answer is "unsupported", counted, never a wrong value).
func Unsupported(err error) bool {
	if err == nil {
		return false
	}
	return errors.Is(err, chsql.ErrUnsupported)
}

var _ = rmodel.DataDatabasesMap{}

// RunProcessor drains a processor chain that needs no database (scripted upstream).
func RunProcessor(proc shared.RequestProcessor, req *Request, timeout time.Duration) *Output {
	out := &Output{}
	ctx, cancelAll := context.WithTimeout(context.Background(), timeout)
	defer cancelAll()
	_ctx, cancel := context.WithCancel(ctx)
	defer cancel()
	pctx := &shared.PlannerContext{
		From:       time.Unix(req.StartNs/1000000000, 0),
		To:         time.Unix(req.EndNs/1000000000, 0),
		OrderASC:   req.Forward,
		Limit:      req.Limit,
		Ctx:        _ctx,
		CancelCtx:  cancel,
		CHFinalize: true,
		Step:       req.Step,
		CHSqlCtx:   &sqlsel.Ctx{Params: map[string]sqlsel.SQLObject{}, Result: map[string]sqlsel.SQLObject{}},
	}
	out.IsMatrix = proc.IsMatrix()
	ch, err := proc.Process(pctx, nil)
	if err != nil {
		out.Err = err
		return out
	}
	done := make(chan struct{})
	go func() {
		defer close(done)
		for es := range ch {
			for _, e := range es {
				if e.Err == io.EOF {
					continue
				}
				if e.Err != nil {
					if out.Err == nil {
						out.Err = e.Err
					}
					continue
				}
				out.Entries = append(out.Entries, e)
			}
		}
	}()
	select {
	case <-done:
	case <-ctx.Done():
		out.TimedOut = true
	}
	return out
}

// PlanChain translates a query once (as Tail does) so that the plan object can be re-executed.
func (r *Runner) PlanChain(q string) (chain shared.RequestProcessorChain, err error) {
	defer func() {
		if p := recover(); p != nil {
			err = fmt.Errorf("panic while planning: %v", p)
		}
	}()
	return logql_transpiler_v2.Transpile(q)
}

// ExecChain runs an already prepared chain over db for the window of req (a fresh planner
// context per execution, exactly as QueryRangeService.Tail builds one every second).
func (r *Runner) ExecChain(chain shared.RequestProcessorChain, db *chsql.DB, req *Request, timeout time.Duration) *Output {
	r.mu.Lock()
	r.cur = db
	r.Execs = nil
	r.mu.Unlock()
	out := &Output{}
	ctx, cancelAll := context.WithTimeout(context.Background(), timeout)
	defer cancelAll()
	conn, _ := r.Reg.GetDB(ctx)
	versionInfo, err := dbVersion.GetVersionInfo(ctx, conn.Config.ClusterName != "", conn.Session)
	if err != nil {
		out.Err = err
		return out
	}
	_ctx, cancel := context.WithCancel(ctx)
	defer cancel()
	pctx := tables.PopulateTableNames(&shared.PlannerContext{
		IsCluster:   conn.Config.ClusterName != "",
		From:        time.Unix(req.StartNs/1000000000, 0),
		To:          time.Unix(req.EndNs/1000000000, 0),
		OrderASC:    req.Forward,
		Limit:       req.Limit,
		Ctx:         _ctx,
		CancelCtx:   cancel,
		CHDb:        conn.Session,
		CHFinalize:  true,
		Step:        req.Step,
		CHSqlCtx:    &sqlsel.Ctx{Params: map[string]sqlsel.SQLObject{}, Result: map[string]sqlsel.SQLObject{}},
		VersionInfo: versionInfo,
	}, conn)
	out.IsMatrix = chain[0].IsMatrix()
	var ch chan []shared.LogEntry
	func() {
		defer func() {
			if p := recover(); p != nil {
				err = fmt.Errorf("panic while planning: %v", p)
			}
		}()
		ch, err = chain[0].Process(pctx, nil)
	}()
	if err != nil {
		out.Err = err
		r.mu.Lock()
		out.Execs = append([]Exec{}, r.Execs...)
		r.mu.Unlock()
		return out
	}
	done := make(chan struct{})
	go func() {
		defer close(done)
		for es := range ch {
			for _, e := range es {
				if e.Err == io.EOF {
					continue
				}
				if e.Err != nil {
					if out.Err == nil {
						out.Err = e.Err
					}
					continue
				}
				out.Entries = append(out.Entries, e)
			}
		}
	}()
	select {
	case <-done:
	case <-ctx.Done():
		out.TimedOut = true
	}
	r.mu.Lock()
	out.Execs = append([]Exec{}, r.Execs...)
	r.mu.Unlock()
	return out
}
