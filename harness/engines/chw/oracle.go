package chw

import (
	"encoding/hex"
	"fmt"
	"sort"
	"strings"

	"verif/harness/engines/gen"
)

// Item is one pushed request together with what its body must turn into.
type Item struct {
	Kind    string // logs | spans | profile
	Req     gen.Request
	Spans   []gen.Span
	Prof    *gen.ProfCase
	Rec     *ReqRecord
	Phase   string
	Single  bool // body is parsed into a single chunk (one request per insert service)
	Hostile bool // not a well-formed body: no expectations
}

// Ident is a row identity: which request owns it and which submitted row it is.
type Occurrence struct {
	Blk *Block
	Idx int
}

type Analysis struct {
	Items  []*Item
	Blocks []*Block
	Ix     *Index
	// identity → occurrences in blocks
	Occ map[string][]Occurrence
	// owner of an identity (item index) ; -1 unknown
	Owner map[string]int
	// expected identities per item (known by construction)
	Expected map[int]map[string]int
	// Foreign rows: rows in data tables that are not a whole submitted row
	Foreign []string
	// Dup: identity appearing more often inside one block than submitted
	Dup []string
}

func spanKey(id any) string {
	s, _ := id.(string)
	return hex.EncodeToString([]byte(s))
}

// Analyze indexes all blocks by row identity and compares every row with the submitted rows.
func Analyze(items []*Item, blocks []*Block) *Analysis { return AnalyzeOpts(items, blocks, false) }

// AnalyzeOpts: with ignoreUnknown, rows that belong to no item with expectations (rows produced
// by hostile-but-accepted bodies) are not judged; rows claiming a known stream/span/profile are.
func AnalyzeOpts(items []*Item, blocks []*Block, ignoreUnknown bool) *Analysis {
	a := &Analysis{Items: items, Blocks: blocks, Ix: BuildIndex(blocks), Occ: map[string][]Occurrence{}, Owner: map[string]int{}, Expected: map[int]map[string]int{}}
	sidOwner := map[string]int{}
	sidOwners := map[string][]int{} // a stream pushed by several requests at once (twins): each owns the samples it submitted
	spanOwner := map[string]int{}
	spanByID := map[string]*gen.Span{}
	ridOwner := map[string]int{}
	for i, it := range items {
		a.Expected[i] = map[string]int{}
		if it.Hostile {
			continue
		}
		for _, e := range it.Req.Expect {
			sidOwner[e.SID] = i
			if os := sidOwners[e.SID]; len(os) == 0 || os[len(os)-1] != i {
				sidOwners[e.SID] = append(os, i)
			}
			k := "spl|" + ExpKey(e)
			a.Expected[i][k]++
			a.Owner[k] = i
		}
		for j := range it.Spans {
			sp := &it.Spans[j]
			id := hex.EncodeToString(sp.SpanID)
			spanOwner[id] = i
			spanByID[id] = sp
			k := "tr|" + id
			a.Expected[i][k]++
			a.Owner[k] = i
		}
		if it.Prof != nil {
			ridOwner[it.Prof.ID] = i
			k := "prof|" + it.Prof.ID
			a.Expected[i][k]++
			a.Owner[k] = i
		}
	}
	inBlock := map[string]int{}
	for _, b := range blocks {
		for k := range inBlock {
			delete(inBlock, k)
		}
		add := func(k string, owner int, idx int) {
			a.Occ[k] = append(a.Occ[k], Occurrence{Blk: b, Idx: idx})
			if _, ok := a.Owner[k]; !ok {
				a.Owner[k] = owner
			}
			inBlock[k]++
		}
		switch {
		case isTable(b, "samples_v3"):
			ti, fi, tsi, si, vi := colIdx(b, "type"), colIdx(b, "fingerprint"), colIdx(b, "timestamp_ns"), colIdx(b, "string"), colIdx(b, "value")
			for i, row := range b.Rows {
				var tp, fp uint64
				var ts int64
				var line string
				var val float64
				torn := false
				get := func(ci int) any {
					if ci < 0 || ci >= len(row) {
						return nil
					}
					if _, m := row[ci].(Missing); m {
						torn = true
					}
					return row[ci]
				}
				tp, _ = u64(get(ti))
				fp, _ = u64(get(fi))
				if x, ok := get(tsi).(int64); ok {
					ts = x
				}
				line, _ = get(si).(string)
				val, _ = get(vi).(float64)
				sid := a.Ix.SIDofFP[fp]
				k := "spl|" + RowKey(sid, ts, line, val, tp)
				owner, known := sidOwner[sid]
				if !known {
					owner = -1
				}
				for _, o := range sidOwners[sid] {
					if a.Expected[o][k] > 0 {
						owner = o // the request of this stream that submitted the row
					}
				}
				add(k, owner, i)
				if torn || !known || a.Expected[owner][k] == 0 {
					if !known && ignoreUnknown {
						continue
					}
					a.Foreign = append(a.Foreign, fmt.Sprintf("block %d (%s) row %d: {type %d fp %d ts %d line %q value %v} is not a submitted row (stream of fp: %q)", b.Seq, b.Table, i, tp, fp, ts, clipS(line, 60), val, sid))
				}
			}
		case isTable(b, "time_series"):
			for i, row := range b.Rows {
				_ = row
				sr := seriesRowAt(b, i)
				sid := sidIn(sr.Labels)
				k := fmt.Sprintf("ts|%s|%s|%d|%d", sid, sr.Date, sr.Type, sr.FP)
				owner, known := sidOwner[sid]
				if !known {
					owner = -1
				}
				add(k, owner, i)
			}
		case isTable(b, "tempo_traces"):
			ci := func(n string) int { return colIdx(b, n) }
			for i, row := range b.Rows {
				id := spanKey(cell(row, ci("span_id")))
				k := "tr|" + id
				owner, known := spanOwner[id]
				if !known {
					owner = -1
				}
				add(k, owner, i)
				sp := spanByID[id]
				if sp == nil {
					if !ignoreUnknown {
						a.Foreign = append(a.Foreign, fmt.Sprintf("block %d (%s) row %d: span id %s was never submitted", b.Seq, b.Table, i, id))
					}
					continue
				}
				var diffs []string
				if got := spanKey(cell(row, ci("trace_id"))); got != hex.EncodeToString(sp.TraceID) {
					diffs = append(diffs, "trace_id "+got)
				}
				if got, _ := cell(row, ci("name")).(string); got != sp.Name {
					diffs = append(diffs, fmt.Sprintf("name %q", got))
				}
				if got, _ := cell(row, ci("timestamp_ns")).(int64); got != sp.StartNs {
					diffs = append(diffs, fmt.Sprintf("timestamp_ns %d", got))
				}
				if got, _ := cell(row, ci("duration_ns")).(int64); got != sp.DurNs {
					diffs = append(diffs, fmt.Sprintf("duration_ns %d", got))
				}
				if got, _ := cell(row, ci("parent_id")).(string); got != string(sp.ParentID) {
					diffs = append(diffs, fmt.Sprintf("parent_id %x", got))
				}
				if got, _ := cell(row, ci("payload")).(string); !strings.Contains(got, safePrefix(sp.Name)) {
					diffs = append(diffs, "payload does not carry this span's name")
				}
				if len(diffs) > 0 {
					a.Foreign = append(a.Foreign, fmt.Sprintf("block %d (%s) row %d: span %s carries fields of another row: %s", b.Seq, b.Table, i, id, strings.Join(diffs, ", ")))
				}
			}
		case isTable(b, "tempo_traces_attrs_gin"):
			ci := func(n string) int { return colIdx(b, n) }
			for i, row := range b.Rows {
				id := spanKey(cell(row, ci("span_id")))
				key, _ := cell(row, ci("key")).(string)
				val, _ := cell(row, ci("val")).(string)
				k := "tag|" + id + "|" + key + "|" + val
				owner, known := spanOwner[id]
				if !known {
					owner = -1
				}
				add(k, owner, i)
				sp := spanByID[id]
				if sp == nil {
					if !ignoreUnknown {
						a.Foreign = append(a.Foreign, fmt.Sprintf("block %d (%s) row %d: tag row for span id %s that was never submitted", b.Seq, b.Table, i, id))
					}
					continue
				}
				var diffs []string
				if got := spanKey(cell(row, ci("trace_id"))); got != hex.EncodeToString(sp.TraceID) {
					diffs = append(diffs, "trace_id "+got)
				}
				if got, _ := cell(row, ci("timestamp_ns")).(int64); got != sp.StartNs {
					diffs = append(diffs, fmt.Sprintf("timestamp_ns %d", got))
				}
				dn := ci("duration")
				if dn < 0 {
					dn = ci("duration_ns")
				}
				if got, _ := cell(row, dn).(int64); got != sp.DurNs {
					diffs = append(diffs, fmt.Sprintf("duration %d", got))
				}
				// the (key,val) pair must belong to this span: a pushed attribute, or one the
				// writer derives (name, service names)
				exp := sp.ExpectedTags()
				if v, ok := exp[key]; ok {
					if v != val && !looseFloatEq(v, val) {
						diffs = append(diffs, fmt.Sprintf("value of %q is %q, the span has %q", key, val, v))
					}
				} else if !derivedTagKey(key) {
					diffs = append(diffs, fmt.Sprintf("key %q is not an attribute of this span", key))
				} else if key == "name" && val != sp.Name {
					diffs = append(diffs, fmt.Sprintf("name tag %q of another span", val))
				}
				if len(diffs) > 0 {
					a.Foreign = append(a.Foreign, fmt.Sprintf("block %d (%s) row %d: tag of span %s carries fields of another row: %s", b.Seq, b.Table, i, id, strings.Join(diffs, ", ")))
				}
			}
		case strings.HasPrefix(b.Table, "profiles"):
			ci := func(n string) int { return colIdx(b, n) }
			for i, row := range b.Rows {
				rid := ""
				if tags, ok := cell(row, ci("tags")).([]any); ok {
					for _, t := range tags {
						if tt, ok := t.([]any); ok && len(tt) == 2 && tt[0] == "rid" {
							rid, _ = tt[1].(string)
						}
					}
				}
				k := "prof|" + rid
				owner, known := ridOwner[rid]
				if !known {
					owner = -1
				}
				add(k, owner, i)
				if !known {
					if !ignoreUnknown {
						a.Foreign = append(a.Foreign, fmt.Sprintf("block %d (%s) row %d: profile row with unknown rid %q", b.Seq, b.Table, i, rid))
					}
					continue
				}
				pc := items[owner].Prof
				var diffs []string
				if got, _ := cell(row, ci("timestamp_ns")).(uint64); got != uint64(pc.FromSec)*1e9 {
					diffs = append(diffs, fmt.Sprintf("timestamp_ns %d", got))
				}
				if got, _ := cell(row, ci("service_name")).(string); got != pc.Service {
					diffs = append(diffs, fmt.Sprintf("service_name %q", got))
				}
				if got, _ := cell(row, ci("duration_ns")).(uint64); got != uint64(pc.UntilSec-pc.FromSec)*1e9 {
					diffs = append(diffs, fmt.Sprintf("duration_ns %d", got))
				}
				sums := pc.Sums()
				if va, ok := cell(row, ci("values_agg")).([]any); ok {
					if len(va) != len(pc.SampleTypes) {
						diffs = append(diffs, fmt.Sprintf("values_agg has %d entries for %d sample types", len(va), len(pc.SampleTypes)))
					} else {
						for j, e := range va {
							t, _ := e.([]any)
							if len(t) != 3 || t[0] != pc.SampleTypes[j][0]+":"+pc.SampleTypes[j][1] || t[1] != sums[j] {
								diffs = append(diffs, fmt.Sprintf("values_agg[%d]=%v, expected %s sum %d", j, e, pc.SampleTypes[j][0], sums[j]))
							}
						}
					}
				} else {
					diffs = append(diffs, "values_agg missing")
				}
				if fs, ok := cell(row, ci("functions")).([]any); ok {
					for _, f := range fs {
						ft, _ := f.([]any)
						if len(ft) == 2 {
							if n, _ := ft[1].(string); n != "n/a" && !strings.HasSuffix(n, "_"+pc.ID) {
								diffs = append(diffs, fmt.Sprintf("function %q belongs to another profile", n))
								break
							}
						}
					}
				}
				if len(diffs) > 0 {
					a.Foreign = append(a.Foreign, fmt.Sprintf("block %d (%s) row %d: profile %s carries fields of another row: %s", b.Seq, b.Table, i, rid, strings.Join(diffs, "; ")))
				}
			}
		}
		for k, n := range inBlock {
			if strings.HasPrefix(k, "ts|") || strings.HasPrefix(k, "tag|") {
				continue // series rows / equal tag pairs may legitimately repeat
			}
			owner := a.Owner[k]
			exp := 1
			if owner >= 0 {
				if e := a.Expected[owner][k]; e > 0 {
					exp = e
				}
			}
			if n > exp {
				a.Dup = append(a.Dup, fmt.Sprintf("block %d (%s): row %s occurs %d times (submitted %d)", b.Seq, b.Table, clipS(k, 120), n, exp))
			}
		}
	}
	sort.Strings(a.Foreign)
	sort.Strings(a.Dup)
	return a
}

func derivedTagKey(k string) bool {
	switch k {
	case "name", "service.name", "remoteService.name", "local_endpoint_service_name", "remote_endpoint_service_name":
		return true
	}
	return false
}

func looseFloatEq(a, b string) bool {
	var x, y float64
	if _, err := fmt.Sscanf(a, "%g", &x); err != nil {
		return false
	}
	if _, err := fmt.Sscanf(b, "%g", &y); err != nil {
		return false
	}
	d := x - y
	if d < 0 {
		d = -d
	}
	return d <= 1e-6
}

func safePrefix(s string) string {
	for i := 0; i < len(s); i++ {
		c := s[i]
		if !(c == '-' || c >= '0' && c <= '9' || c >= 'a' && c <= 'z' || c >= 'A' && c <= 'Z') {
			return s[:i]
		}
	}
	return s
}

func jsonEsc(s string) string {
	b := &strings.Builder{}
	for _, r := range s {
		switch r {
		case '"':
			b.WriteString(`\"`)
		case '\\':
			b.WriteString(`\\`)
		default:
			b.WriteRune(r)
		}
	}
	return b.String()
}

func cell(row []any, i int) any {
	if i < 0 || i >= len(row) {
		return nil
	}
	return row[i]
}

func seriesRowAt(b *Block, i int) SeriesRow {
	ti, di, fi, li := colIdx(b, "type"), colIdx(b, "date"), colIdx(b, "fingerprint"), colIdx(b, "labels")
	row := b.Rows[i]
	sr := SeriesRow{Blk: b, Idx: i}
	sr.Type, _ = u64(cell(row, ti))
	sr.Date, _ = cell(row, di).(string)
	sr.FP, _ = u64(cell(row, fi))
	sr.Labels, _ = cell(row, li).(string)
	return sr
}

func clipS(s string, n int) string {
	if len(s) > n {
		return s[:n] + "…"
	}
	return s
}

// OwnedIdentities returns every identity owned by item i that was seen in any block or is
// expected by construction.
func (a *Analysis) OwnedIdentities(i int) []string {
	set := map[string]bool{}
	for k := range a.Expected[i] {
		set[k] = true
	}
	for k, o := range a.Owner {
		if o == i {
			set[k] = true
		}
	}
	out := make([]string, 0, len(set))
	for k := range set {
		out = append(out, k)
	}
	sort.Strings(out)
	return out
}

// AckedOK: is identity k contained in a successful block that returned before logical time t?
func (a *Analysis) AckedOK(k string, t int64) bool {
	for _, oc := range a.Occ[k] {
		if oc.Blk.Succeeded() && oc.Blk.RetT != 0 && oc.Blk.RetT < t {
			return true
		}
	}
	return false
}

// InAnyOK: is identity k contained in any successful block at all?
func (a *Analysis) InAnyOK(k string) bool {
	for _, oc := range a.Occ[k] {
		if oc.Blk.Succeeded() {
			return true
		}
	}
	return false
}
