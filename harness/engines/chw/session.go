package chw

import (
	"bufio"
	"bytes"
	"encoding/json"
	"fmt"
	"io"
	"net"
	"net/http"
	"sort"
	"strings"
	"sync"
	"time"

	"verif/harness/engines/gen"
)

// ReqRecord is one client-side observation: call event before sending, return event after
// the reply (both on the ledger's logical clock).
type ReqRecord struct {
	ID      int
	Client  int
	Req     *gen.Request
	Status  int // 0 = no answer (transport error / timeout)
	Body    string
	Err     string
	SendT   int64
	AnsT    int64
	Wall    time.Duration
	Answers int
}

type Session struct {
	W       *Writer
	mu      sync.Mutex
	Hist    []*ReqRecord
	HTTP    *http.Client
	Timeout time.Duration
}

func NewSession(w *Writer) *Session {
	tr := &http.Transport{MaxIdleConnsPerHost: 64, DialContext: (&net.Dialer{Timeout: 5 * time.Second}).DialContext}
	return &Session{W: w, HTTP: &http.Client{Transport: tr}, Timeout: 120 * time.Second}
}

// Send performs the request over a real connection to the in-process server.
func (s *Session) Send(client int, rq *gen.Request) *ReqRecord {
	rec := &ReqRecord{Client: client, Req: rq}
	s.mu.Lock()
	rec.ID = len(s.Hist)
	s.Hist = append(s.Hist, rec)
	s.mu.Unlock()
	method := rq.Method
	if method == "" {
		method = "POST"
	}
	var body io.Reader = bytes.NewReader(rq.Body)
	if rq.SlowUploadMs > 0 {
		body = &slowReader{b: rq.Body, pause: time.Duration(rq.SlowUploadMs) * time.Millisecond}
	}
	hr, err := http.NewRequest(method, s.W.Server.URL+rq.Path, body)
	if err != nil {
		rec.Err = "build: " + err.Error()
		rec.SendT, rec.AnsT = Tick(), Tick()
		return rec
	}
	if rq.ContentType != "" {
		hr.Header.Set("Content-Type", rq.ContentType)
	}
	for k, v := range rq.Headers {
		hr.Header.Set(k, v)
	}
	start := time.Now()
	rec.SendT = Tick()
	cl := *s.HTTP
	cl.Timeout = s.Timeout
	var resp *http.Response
	if rq.HalfClose && rq.SlowUploadMs == 0 {
		resp, err = halfCloseDo(hr, s.Timeout)
	} else {
		resp, err = cl.Do(hr)
	}
	if err != nil {
		rec.Err = err.Error()
		rec.AnsT = Tick()
		rec.Wall = time.Since(start)
		return rec
	}
	b, _ := io.ReadAll(io.LimitReader(resp.Body, 1<<16))
	resp.Body.Close()
	rec.AnsT = Tick()
	rec.Status = resp.StatusCode
	rec.Body = string(b)
	rec.Answers = 1
	rec.Wall = time.Since(start)
	return rec
}

// halfCloseDo sends the request over a connection of its own, shuts the sending side and then reads the answer.
func halfCloseDo(hr *http.Request, timeout time.Duration) (*http.Response, error) {
	conn, err := net.DialTimeout("tcp", hr.URL.Host, 10*time.Second)
	if err != nil {
		return nil, err
	}
	if timeout <= 0 {
		timeout = 45 * time.Second
	}
	conn.SetDeadline(time.Now().Add(timeout))
	hr.Close = true
	if err := hr.Write(conn); err != nil {
		conn.Close()
		return nil, err
	}
	if tc, ok := conn.(*net.TCPConn); ok {
		tc.CloseWrite()
	}
	resp, err := http.ReadResponse(bufio.NewReader(conn), hr)
	if err != nil {
		conn.Close()
		return nil, err
	}
	resp.Body = &connBody{resp.Body, conn}
	return resp, nil
}

type connBody struct {
	io.ReadCloser
	c net.Conn
}

func (b *connBody) Close() error { b.ReadCloser.Close(); return b.c.Close() }

// slowReader hands the body out in 512 KiB pieces with a pause after each.
type slowReader struct {
	b     []byte
	off   int
	sent  int
	pause time.Duration
}

func (r *slowReader) Read(p []byte) (int, error) {
	if r.off >= len(r.b) {
		return 0, io.EOF
	}
	if r.sent >= 512<<10 {
		time.Sleep(r.pause)
		r.sent = 0
	}
	n := copy(p, r.b[r.off:min(len(r.b), r.off+min(len(p), 512<<10-r.sent))])
	r.off += n
	r.sent += n
	return n, nil
}

// ---- analysis of a ledger ----

// SampleRow is a decoded row of samples_v3 (logs insert: 5 columns; metrics insert: 4).
type SampleRow struct {
	Blk   *Block
	Idx   int
	Type  uint64
	FP    uint64
	TsNs  int64
	Line  string
	Value float64
	Torn  bool
}

type SeriesRow struct {
	Blk    *Block
	Idx    int
	Type   uint64
	Date   string
	FP     uint64
	Labels string
}

type Index struct {
	Samples []SampleRow
	Series  []SeriesRow
	// FPLabels: fingerprint → set of label documents seen for it
	FPLabels map[uint64]map[string]bool
	// SIDofFP: fingerprint → stream id found in its label document ("" if none)
	SIDofFP map[uint64]string
}

func colIdx(b *Block, name string) int {
	for i, n := range b.ColNames {
		if n == name {
			return i
		}
	}
	return -1
}

func isTable(b *Block, base string) bool {
	return b.Table == base || b.Table == base+"_dist"
}

// sidIn finds a value starting with "sid-" in a label document (any key).
func SidIn(doc string) string { return sidIn(doc) }

func sidIn(doc string) string {
	var m map[string]string
	if json.Unmarshal([]byte(doc), &m) == nil {
		keys := make([]string, 0, len(m))
		for k := range m {
			keys = append(keys, k)
		}
		sort.Strings(keys)
		for _, k := range keys {
			if strings.HasPrefix(m[k], "sid-") {
				return m[k]
			}
			if strings.HasPrefix(m[k], "m_sid_") { // influx measurement name
				return strings.ReplaceAll(strings.TrimPrefix(m[k], "m_"), "_", "-")
			}
		}
		return ""
	}
	// label document that is not valid JSON: fall back to a textual search
	if i := strings.Index(doc, "sid-"); i >= 0 {
		j := i
		for j < len(doc) && (doc[j] == '-' || doc[j] == '_' || doc[j] >= '0' && doc[j] <= '9' || doc[j] >= 'a' && doc[j] <= 'z' || doc[j] >= 'A' && doc[j] <= 'Z') {
			j++
		}
		return doc[i:j]
	}
	return ""
}

func u64(v any) (uint64, bool) {
	switch x := v.(type) {
	case uint64:
		return x, true
	case int64:
		return uint64(x), true
	}
	return 0, false
}

func BuildIndex(blocks []*Block) *Index {
	ix := &Index{FPLabels: map[uint64]map[string]bool{}, SIDofFP: map[uint64]string{}}
	for _, b := range blocks {
		switch {
		case isTable(b, "time_series"):
			ti, di, fi, li := colIdx(b, "type"), colIdx(b, "date"), colIdx(b, "fingerprint"), colIdx(b, "labels")
			for i, row := range b.Rows {
				sr := SeriesRow{Blk: b, Idx: i}
				if ti >= 0 {
					sr.Type, _ = u64(row[ti])
				}
				if di >= 0 {
					sr.Date, _ = row[di].(string)
				}
				if fi >= 0 {
					sr.FP, _ = u64(row[fi])
				}
				if li >= 0 {
					sr.Labels, _ = row[li].(string)
				}
				ix.Series = append(ix.Series, sr)
				if ix.FPLabels[sr.FP] == nil {
					ix.FPLabels[sr.FP] = map[string]bool{}
				}
				ix.FPLabels[sr.FP][sr.Labels] = true
				if sid := sidIn(sr.Labels); sid != "" {
					ix.SIDofFP[sr.FP] = sid
				}
			}
		case isTable(b, "samples_v3"):
			ti, fi, tsi, si, vi := colIdx(b, "type"), colIdx(b, "fingerprint"), colIdx(b, "timestamp_ns"), colIdx(b, "string"), colIdx(b, "value")
			for i, row := range b.Rows {
				sr := SampleRow{Blk: b, Idx: i}
				for _, c := range row {
					if _, miss := c.(Missing); miss {
						sr.Torn = true
					}
				}
				if ti >= 0 {
					sr.Type, _ = u64(row[ti])
				}
				if fi >= 0 {
					sr.FP, _ = u64(row[fi])
				}
				if tsi >= 0 {
					if x, ok := row[tsi].(int64); ok {
						sr.TsNs = x
					}
				}
				if si >= 0 {
					sr.Line, _ = row[si].(string)
				}
				if vi >= 0 {
					sr.Value, _ = row[vi].(float64)
				}
				ix.Samples = append(ix.Samples, sr)
			}
		}
	}
	return ix
}

// RowKey identifies an expected/observed sample row (all fields).
func RowKey(sid string, ts int64, line string, value float64, typ uint64) string {
	return fmt.Sprintf("%s|%d|%q|%v|%d", sid, ts, line, value, typ)
}

func ExpKey(e gen.ExpRow) string {
	return RowKey(e.SID, e.TsNs, e.Line, e.Value, uint64(e.Type))
}
