package chw

import (
	"net/http/httptest"
	"time"
	"unsafe"

	"github.com/gorilla/mux"
	clconfig "github.com/metrico/cloki-config"
	"github.com/metrico/cloki-config/config"
	"github.com/metrico/qryn/writer/ch_wrapper"
	wconfig "github.com/metrico/qryn/writer/config"
	controllerv1 "github.com/metrico/qryn/writer/controller"
	"github.com/metrico/qryn/writer/model"
	"github.com/metrico/qryn/writer/plugin"
	"github.com/metrico/qryn/writer/service"
	"github.com/metrico/qryn/writer/utils/numbercache"
)

// WriterCfg is one batching / mode configuration = one child process (the writer keeps its
// services in package-level maps).
type WriterCfg struct {
	DBTimer            float64 `json:"db_timer"` // seconds
	DBBulk             int     `json:"db_bulk"`  // bytes, 0 = no size trigger
	ChannelsSample     int     `json:"ch_sample"`
	ChannelsTimeSeries int     `json:"ch_ts"`
	RetryAttempts      int     `json:"retry"`
	ClusterName        string  `json:"cluster"`
	Bernstein          bool    `json:"bernstein"`    // optional 32-bit fingerprint type (default: CityHash)
	CacheTTLms         int     `json:"cache_ttl_ms"` // 0 = the writer's own 30 min cache
}

type Writer struct {
	Cfg    WriterCfg
	Ledger *Ledger
	Router *mux.Router
	Server *httptest.Server
	Cloki  *clconfig.ClokiConfig
	spy    *spyLog
}

// SvcCalls returns what the service-boundary observer recorded so far.
func (w *Writer) SvcCalls() []SvcCall { return w.spy.snapshot() }

// Shutdown closes the test server without ever hanging the caller: httptest.Server.Close waits for
// outstanding handlers, and a handler that never returns is exactly what some checks look for.
func (w *Writer) Shutdown() {
	done := make(chan struct{})
	go func() { w.Server.Close(); close(done) }()
	select {
	case <-done:
	case <-time.After(2 * time.Second):
		w.Server.CloseClientConnections()
	}
}

// StartWriter assembles the real writer exactly as writer.Init does, except that
// Initialize (dial + health check) is replaced by handing the fake client factory in.
func StartWriter(cfg WriterCfg, l *Ledger) *Writer {
	c := clconfig.New(clconfig.CLOKI_WRITER, nil, "", "")
	c.Setting.DATABASE_DATA = []config.ClokiBaseDataBase{{Node: "n1", Name: "db", WriteTimeout: 3600, ClusterName: cfg.ClusterName}}
	c.Setting.SYSTEM_SETTINGS.DBTimer = cfg.DBTimer
	c.Setting.SYSTEM_SETTINGS.DBBulk = int64(cfg.DBBulk)
	if cfg.ChannelsSample > 0 {
		c.Setting.SYSTEM_SETTINGS.ChannelsSample = cfg.ChannelsSample
	}
	if cfg.ChannelsTimeSeries > 0 {
		c.Setting.SYSTEM_SETTINGS.ChannelsTimeSeries = cfg.ChannelsTimeSeries
	}
	c.Setting.SYSTEM_SETTINGS.RetryAttempts = cfg.RetryAttempts
	c.Setting.SYSTEM_SETTINGS.RetryTimeoutS = 0
	c.Setting.FingerPrintType = 1 // writer.FINGERPRINT_CityHash (the default)
	if cfg.Bernstein {
		c.Setting.FingerPrintType = 0 // writer.FINGERPRINT_Bernstein
	}
	wconfig.Cloki = c
	p := &plugin.QrynWriterPlugin{}
	p.ServicesObject.DatabaseNodeMap = []model.DataDatabasesMap{{ClokiBaseDataBase: c.Setting.DATABASE_DATA[0]}}
	p.ServicesObject.Dbv3Map = []ch_wrapper.IChClientFactory{l.Factory()}
	service.CreateColPools(100)
	spy := &spyLog{}
	p.CreateStaticServiceRegistry(*c.Setting, &spyFactory{log: spy})
	controllerv1.Registry = plugin.ServiceRegistry
	controllerv1.FPCache = plugin.GoCache
	if cfg.CacheTTLms > 0 {
		nodes := map[string]*model.DataDatabasesMap{"n1": &p.ServicesObject.DatabaseNodeMap[0]}
		controllerv1.FPCache = numbercache.NewCache[uint64](time.Duration(cfg.CacheTTLms)*time.Millisecond, func(val uint64) []byte {
			return unsafe.Slice((*byte)(unsafe.Pointer(&val)), 8)
		}, nodes)
	}
	r := mux.NewRouter()
	mc := controllerv1.NewMiddlewareConfig(controllerv1.WithExtraMiddlewareDefault...)
	mt := controllerv1.NewMiddlewareConfig(controllerv1.WithExtraMiddlewareTempo...)
	p.RegisterRoutes(*c.Setting, mc, mt, r)
	return &Writer{Cfg: cfg, Ledger: l, Router: r, Server: httptest.NewServer(r), Cloki: c, spy: spy}
}
