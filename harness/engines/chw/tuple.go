package chw

import (
	"github.com/ClickHouse/ch-go/proto"
	"github.com/metrico/qryn/writer/service"
)

// tupleOf unwraps qryn's tuple adapters (they embed a ch-go ColTuple whose element columns
// are plain ch-go columns); the adapters' own Row/Append methods are never used by the oracle.
func tupleOf(d any) (proto.ColTuple, bool) {
	switch a := d.(type) {
	case service.ColTupleStrStrAdapter:
		return a.ColTuple, true
	case service.ColTupleStrInt64Int32Adapter:
		return a.ColTuple, true
	case service.ColTupleFunctionAdapter:
		return a.ColTuple, true
	case service.ColTupleTreeAdapter:
		return a.ColTuple, true
	case service.ColTupleTreeValueAdapter:
		return a.ColTuple, true
	case *service.ColTupleStrStrAdapter:
		return a.ColTuple, true
	case *service.ColTupleStrInt64Int32Adapter:
		return a.ColTuple, true
	case *service.ColTupleFunctionAdapter:
		return a.ColTuple, true
	case *service.ColTupleTreeAdapter:
		return a.ColTuple, true
	case *service.ColTupleTreeValueAdapter:
		return a.ColTuple, true
	}
	return nil, false
}
