package chw

import (
	"fmt"
	"hash/fnv"
	"math/rand"
	"os"
	"runtime"
	"strings"
	"sync"
	"sync/atomic"
	"time"

	"verif/harness/engines/gen"
)

type WorkCfg struct {
	Writer    WriterCfg `json:"writer"`
	Stream    string    `json:"stream"` // PRNG stream name
	Clients   int       `json:"clients"`
	Calm      int       `json:"calm"`   // items in the fault-free concurrent phase
	Faulty    int       `json:"faulty"` // items in the random-fault concurrent phase
	FaultP    float64   `json:"fault_p"`
	SlowP     float64   `json:"slow_p"`
	Targeted  bool      `json:"targeted"`
	Refuse    bool      `json:"refuse"`
	BigEvery  int       `json:"big_every"` // every n-th item crosses the chunk thresholds (0 = never)
	ShapeMix  bool      `json:"shape_mix"` // C02 shape stress: empty arrays, one row, > 10 000 rows
	NoSpans   bool      `json:"no_spans"`
	NoProfile bool      `json:"no_profile"`
	TimeoutS  int       `json:"timeout_s"`
}

type History struct {
	Items   []*Item
	Blocks  []*Block
	Stalled []*Item // no answer within the watchdog
	// StallIdle: at watchdog expiry no Do was in flight and the last Do had returned > 5 s earlier
	StallIdle bool
	Refused   int
	// Calls: every IInsertServiceV2.Request the writer made, with the tick at which its promise was fulfilled
	Calls []SvcCall
}

var itemSeq int64

// MakeItem builds one well-formed push of a PRNG-chosen kind.
func MakeItem(r *rand.Rand, tag string, cfg *WorkCfg, phase string) *Item {
	n := atomic.AddInt64(&itemSeq, 1)
	id := fmt.Sprintf("%s%d", tag, n)
	kinds := 10
	k := r.Intn(kinds)
	if cfg.NoSpans && (k == 6 || k == 7 || k == 8) {
		k = r.Intn(6)
	}
	if cfg.NoProfile && k == 9 {
		k = r.Intn(6)
	}
	base := int64(1700000000)*1e9 + int64(r.Intn(3*86400))*1e9
	big := cfg.BigEvery > 0 && n%int64(cfg.BigEvery) == 0
	it := &Item{Phase: phase}
	switch {
	case k <= 5:
		proto := gen.LogProtos[r.Intn(len(gen.LogProtos))]
		o := gen.LogOpts{ID: id, Proto: proto, Streams: 1 + r.Intn(3), MaxEntries: 1 + r.Intn(12), Hostile: r.Intn(3) == 0, BaseNs: base, Big: big}
		if cfg.ShapeMix {
			switch r.Intn(5) {
			case 0:
				o.Streams, o.MaxEntries = 1, 1
			case 1:
				o.Streams, o.MaxEntries = 40, 300 // > 10 000 rows possible
			case 2:
				o.Streams, o.FarStream = 2+r.Intn(3), true // one stream far outside the range of a ClickHouse Date
			}
		}
		lc := gen.NewLogCase(r, o)
		it.Kind = "logs"
		it.Req = gen.Render(r, proto, lc)
		it.Single = !it.Req.MultiChunk && len(it.Req.Body) < 200<<10 && len(it.Req.Expect) < 1000
	case k <= 8:
		zip := k != 8
		o := gen.SpanOpts{ID: id, N: 1 + r.Intn(6), Groups: 1 + r.Intn(2), Hostile: r.Intn(3) == 0, BaseNs: base, Zipkin: zip, Nested: !zip && r.Intn(2) == 0}
		if cfg.ShapeMix && r.Intn(4) == 0 {
			o.N = 200 + r.Intn(300)
		}
		if big {
			o.N = 60
			o.BigAttrs = !zip
		}
		sc := gen.NewSpanCase(r, o)
		it.Kind = "spans"
		it.Spans = sc.Spans
		if zip {
			it.Req = gen.RenderZipkin(r, sc, k == 7)
		} else {
			it.Req = gen.RenderOTLP(r, sc)
		}
		it.Single = len(it.Req.Body) < 200<<10
	default:
		pc := gen.NewProfCase(r, gen.ProfOpts{ID: id, MaxTypes: 3, MaxStacks: 12, MaxDepth: 8, Funcs: 6, BaseSec: base / 1e9})
		it.Kind = "profile"
		it.Prof = &pc
		it.Req = gen.RenderProfile(r, pc, r.Intn(2) == 0, false)
		it.Single = true
	}
	// one client in six shuts its sending side as soon as the request is out and then waits for the answer
	it.Req.HalfClose = n%6 == 3
	return it
}

func h64(s string) uint64 {
	h := fnv.New64a()
	h.Write([]byte(s))
	return h.Sum64()
}

// tableOf: the data table an item's main rows go to.
func (it *Item) mainTable() string {
	switch it.Kind {
	case "logs":
		return "samples_v3"
	case "spans":
		return "tempo_traces"
	}
	return "profiles_input"
}

// RunWorkload drives the phases described in DESIGN §3 C01 against a freshly started writer.
func RunWorkload(seed int64, cfg WorkCfg, onPhase func(string)) *History {
	if cfg.Clients <= 0 {
		cfg.Clients = 8
	}
	var sent int64
	led := NewLedger(nil)
	var mode atomic.Value // string
	mode.Store("ok")
	var failTable atomic.Value
	failTable.Store("")
	var failLeft int32
	var slowLeft int32
	var poison atomic.Value // string: line prefix of the poisoned row
	poison.Store("")
	led.SetScript(func(table string, nth int, blk *Block) Outcome {
		switch mode.Load().(string) {
		case "random":
			x := float64(h64(fmt.Sprintf("%d/%s/%s/%d", seed, cfg.Stream, table, nth))%100000) / 100000
			switch {
			case x < cfg.FaultP*0.8:
				return Err
			case x < cfg.FaultP:
				return SlowErr
			case x < cfg.FaultP+cfg.SlowP:
				return Slow
			}
			return OK
		case "fail-table":
			if table == failTable.Load().(string) || table == failTable.Load().(string)+"_dist" {
				return Err
			}
		case "fail-n":
			if (table == failTable.Load().(string) || table == failTable.Load().(string)+"_dist") && atomic.AddInt32(&failLeft, -1) >= 0 {
				return Err
			}
		case "fail-poison":
			// every INSERT that carries the poisoned row fails, however often it is retried; all others succeed
			if pz, _ := poison.Load().(string); pz != "" && strings.HasPrefix(table, "samples") {
				for _, row := range blk.Rows {
					for _, cell := range row {
						if sv, ok := cell.(string); ok && strings.HasPrefix(sv, pz) {
							return Err
						}
					}
				}
			}
		case "slow-n":
			if (table == failTable.Load().(string) || table == failTable.Load().(string)+"_dist") && atomic.AddInt32(&slowLeft, -1) >= 0 {
				return Slow
			}
		}
		return OK
	})
	// a slow call is held until 3 further requests were sent (logical), capped by wall-clock
	var giantHold, giantRelease atomic.Bool
	led.Hold = func(blk *Block) {
		if giantHold.Load() {
			dl := time.Now().Add(60 * time.Second)
			for !giantRelease.Load() && time.Now().Before(dl) {
				time.Sleep(time.Millisecond)
			}
			return
		}
		start := atomic.LoadInt64(&sent)
		dl := time.Now().Add(400 * time.Millisecond)
		for atomic.LoadInt64(&sent) < start+3 && time.Now().Before(dl) && !led.AllOK.Load() {
			time.Sleep(time.Millisecond)
		}
	}
	w := StartWriter(cfg.Writer, led)
	sess := NewSession(w)
	if cfg.TimeoutS > 0 {
		sess.Timeout = time.Duration(cfg.TimeoutS) * time.Second
	} else {
		sess.Timeout = 45 * time.Second
	}
	h := &History{}
	var hmu sync.Mutex
	send := func(client int, it *Item) {
		hmu.Lock()
		h.Items = append(h.Items, it)
		hmu.Unlock()
		atomic.AddInt64(&sent, 1)
		it.Rec = sess.Send(client, &it.Req)
	}
	concurrent := func(phase string, n int) {
		if onPhase != nil {
			onPhase(phase)
		}
		var wg sync.WaitGroup
		ch := make(chan *Item)
		for g := 0; g < cfg.Clients; g++ {
			wg.Add(1)
			go func(g int) {
				defer wg.Done()
				for it := range ch {
					send(g, it)
				}
			}(g)
		}
		r := rand.New(rand.NewSource(int64(h64(fmt.Sprintf("%d/%s/%s", seed, cfg.Stream, phase)) >> 1)))
		for i := 0; i < n; i++ {
			ch <- MakeItem(r, "w", &cfg, phase)
		}
		close(ch)
		wg.Wait()
	}
	concurrent("calm", cfg.Calm)
	mode.Store("random")
	concurrent("faulty", cfg.Faulty)
	mode.Store("ok")
	if cfg.Targeted {
		r := rand.New(rand.NewSource(int64(h64(fmt.Sprintf("%d/%s/targeted", seed, cfg.Stream)) >> 1)))
		// one item of each kind
		mk := func(kind string, phase string) *Item {
			for {
				it := MakeItem(r, "t", &cfg, phase)
				if it.Kind == kind && it.Single {
					return it
				}
			}
		}
		kinds := []string{"logs"}
		if !cfg.NoSpans {
			kinds = append(kinds, "spans")
		}
		if !cfg.NoProfile {
			kinds = append(kinds, "profile")
		}
		for _, kind := range kinds {
			tables := []string{"samples_v3", "time_series"}
			if kind == "spans" {
				tables = []string{"tempo_traces", "tempo_traces_attrs_gin"}
			} else if kind == "profile" {
				tables = []string{"profiles_input"}
			}
			for _, tb := range tables {
				// every insert into tb fails until the request is answered: retries must be exhausted
				if onPhase != nil {
					onPhase("exhaust:" + tb)
				}
				failTable.Store(tb)
				mode.Store("fail-table")
				send(0, mk(kind, "exhaust:"+tb))
				mode.Store("ok")
				if cfg.Writer.RetryAttempts >= 2 {
					if onPhase != nil {
						onPhase("retry-once:" + tb)
					}
					atomic.StoreInt32(&failLeft, 1)
					mode.Store("fail-n")
					send(0, mk(kind, "retry-once:"+tb))
					mode.Store("ok")
					// the same with company: while the request is handed in again, twelve further requests of its kind are
					// parsed and handed in one after the other by two more clients
					if onPhase != nil {
						onPhase("retry-in-company:" + tb)
					}
					itA := mk(kind, "retry-in-company:"+tb)
					comp := make([]*Item, 12)
					for j := range comp {
						comp[j] = mk(kind, "retry-in-company:"+tb)
					}
					atomic.StoreInt32(&failLeft, int32(cfg.Writer.RetryAttempts-1))
					mode.Store("fail-n")
					// on two cores: whatever the requests share per core (pools, caches) is shared by all of them
					prevProcs := runtime.GOMAXPROCS(2)
					var cw sync.WaitGroup
					cw.Add(3)
					go func() { defer cw.Done(); send(0, itA) }()
					for k := 0; k < 2; k++ {
						go func(k int) {
							defer cw.Done()
							for _, it := range comp[k*6 : k*6+6] {
								send(1+k, it)
							}
						}(k)
					}
					cw.Wait()
					runtime.GOMAXPROCS(prevProcs)
					mode.Store("ok")
				}
			}
			// slow insert while further requests arrive
			if onPhase != nil {
				onPhase("slow:" + kind)
			}
			it0 := mk(kind, "slow:"+kind)
			failTable.Store(it0.mainTable())
			atomic.StoreInt32(&slowLeft, 1)
			mode.Store("slow-n")
			var wg sync.WaitGroup
			wg.Add(1)
			go func() { defer wg.Done(); send(0, it0) }()
			// wait (logically) until the slow Do is in flight, then send three more
			dl := time.Now().Add(5 * time.Second)
			for led.InFlight() == 0 && time.Now().Before(dl) {
				time.Sleep(time.Millisecond)
			}
			for j := 0; j < 3; j++ {
				wg.Add(1)
				it := mk(kind, "during-slow:"+kind)
				go func(j int) { defer wg.Done(); send(1+j, it) }(j)
			}
			wg.Wait()
			mode.Store("ok")
		}
	}
	if cfg.Targeted && cfg.ShapeMix && cfg.Writer.ChannelsSample == 1 && cfg.Writer.RetryAttempts == 1 && cfg.Writer.DBBulk == 0 {
		// one INSERT block of more than 50 MiB: the samples service is kept busy by a held INSERT while seven clients
		// push eight lines of 1 MiB each; everything that arrived in the meantime goes out as the next block.
		if onPhase != nil {
			onPhase("giant-block")
		}
		r := rand.New(rand.NewSource(int64(h64(fmt.Sprintf("%d/%s/giant", seed, cfg.Stream)) >> 1)))
		mkG := func(tag string, entries, pad int) *Item {
			id := fmt.Sprintf("g%s%d", tag, atomic.AddInt64(&itemSeq, 1))
			lc := gen.NewLogCase(r, gen.LogOpts{ID: id, Proto: "loki-json-values", Streams: 1, MaxEntries: 1, BaseNs: int64(1700000000) * 1e9, Pad: pad})
			st := &lc.Streams[0]
			for len(st.Entries) < entries {
				e := st.Entries[0]
				e.TsNs += int64(len(st.Entries)) * 1000
				e.Line = fmt.Sprintf("L[%s-0-%d]", id, len(st.Entries)) + strings.Repeat("g", pad)
				st.Entries = append(st.Entries, e)
			}
			return &Item{Phase: "giant-block", Kind: "logs", Req: gen.Render(r, "loki-json-values", lc), Single: entries == 1}
		}
		before := 0
		for _, sc := range w.SvcCalls() {
			if sc.Kind == "samples" {
				before += sc.Rows
			}
		}
		it0 := mkG("f", 1, 0)
		failTable.Store("samples_v3")
		giantRelease.Store(false)
		giantHold.Store(true)
		atomic.StoreInt32(&slowLeft, 1)
		mode.Store("slow-n")
		var wg sync.WaitGroup
		wg.Add(1)
		go func() { defer wg.Done(); send(0, it0) }()
		dl := time.Now().Add(5 * time.Second)
		for led.InFlight() == 0 && time.Now().Before(dl) {
			time.Sleep(time.Millisecond)
		}
		const clients, lines = 7, 8
		for j := 0; j < clients; j++ {
			wg.Add(1)
			it := mkG("b", lines, 1<<20)
			go func(j int) { defer wg.Done(); send(1+j, it) }(j)
		}
		dl = time.Now().Add(40 * time.Second)
		for time.Now().Before(dl) {
			got := 0
			for _, sc := range w.SvcCalls() {
				if sc.Kind == "samples" {
					got += sc.Rows
				}
			}
			if got >= before+1+clients*lines {
				break
			}
			time.Sleep(5 * time.Millisecond)
		}
		giantRelease.Store(true)
		wg.Wait()
		giantHold.Store(false)
		mode.Store("ok")
		if !cfg.NoProfile {
			// the same for the profile service: its INSERT is held while 360 uploads whose stored payload is 95 kB each
			// (a pprof comment; the upload itself is gzip'd and small) are handed in, then two small ones one after the other; the block that goes out next holds more than 32 MiB of payloads and every row must still be its own.
			if onPhase != nil {
				onPhase("giant-profile-block")
			}
			mkP := func(pad int) *Item {
				id := fmt.Sprintf("gp%d", atomic.AddInt64(&itemSeq, 1))
				pc := gen.NewProfCase(r, gen.ProfOpts{ID: id, MaxTypes: 1, MaxStacks: 6, MaxDepth: 5, Funcs: 4, BaseSec: 1700000000, PadComment: pad})
				it := &Item{Phase: "giant-profile-block", Kind: "profile", Prof: &pc, Single: true}
				it.Req = gen.RenderProfile(r, pc, true, false)
				return it
			}
			profCalls := func() int {
				n := 0
				for _, sc := range w.SvcCalls() {
					if sc.Kind == "profiles" {
						n++
					}
				}
				return n
			}
			p0 := mkP(0)
			failTable.Store("profiles_input")
			giantRelease.Store(false)
			giantHold.Store(true)
			atomic.StoreInt32(&slowLeft, 1)
			mode.Store("slow-n")
			var pw sync.WaitGroup
			pw.Add(1)
			go func() { defer pw.Done(); send(0, p0) }()
			dl := time.Now().Add(5 * time.Second)
			for led.InFlight() == 0 && time.Now().Before(dl) {
				time.Sleep(time.Millisecond)
			}
			// an upload may not exceed 100 000 bytes uncompressed, so the 32 MiB take 360 of them
			const bigs, smalls = 360, 2
			seen := profCalls()
			var answered atomic.Int32
			for j := 0; j < bigs; j++ {
				it := mkP(95000)
				pw.Add(1)
				go func(j int) { defer pw.Done(); send(1+j%7, it); answered.Add(1) }(j)
			}
			dl = time.Now().Add(60 * time.Second)
			for profCalls()-seen+int(answered.Load()) < bigs && time.Now().Before(dl) {
				time.Sleep(2 * time.Millisecond)
			}
			for j := 0; j < smalls; j++ {
				it := mkP(0)
				seen := profCalls()
				var done atomic.Bool
				pw.Add(1)
				go func(j int) { defer pw.Done(); send(1+j%7, it); done.Store(true) }(j)
				// the next one is sent once this one was handed to the service (or answered before it got there)
				dl := time.Now().Add(10 * time.Second)
				for profCalls() == seen && !done.Load() && time.Now().Before(dl) {
					time.Sleep(time.Millisecond)
				}
			}
			giantRelease.Store(true)
			pw.Wait()
			giantHold.Store(false)
			mode.Store("ok")
		}
	}
	if cfg.Targeted {
		// a body of several MiB (one parser portion per stream, four or five of them): the INSERTs carrying a line of
		// its first stream fail for good, those of the later portions succeed. Part of the body's rows is then in no successful INSERT.
		if onPhase != nil {
			onPhase("poisoned-first-portion")
		}
		r := rand.New(rand.NewSource(int64(h64(fmt.Sprintf("%d/%s/poison", seed, cfg.Stream)) >> 1)))
		id := fmt.Sprintf("z%d", atomic.AddInt64(&itemSeq, 1))
		proto := []string{"loki-json-values", "loki-json-entries"}[r.Intn(2)] // decoded while the body is still arriving
		lc := gen.NewLogCase(r, gen.LogOpts{ID: id, Proto: proto, Streams: 4 + r.Intn(2), MaxEntries: 3, BaseNs: int64(1700000000) * 1e9, Huge: true})
		it := &Item{Phase: "poisoned-first-portion", Kind: "logs", Req: gen.Render(r, proto, lc)}
		// a slow uplink: the portions reach the insert services several flush intervals apart, so the later ones
		// are in INSERTs of their own
		it.Req.SlowUploadMs = int(cfg.Writer.DBTimer*1000*4) + 40
		poison.Store("L[" + id + "-0-") // any line of the first stream
		mode.Store("fail-poison")
		nb := len(led.Snapshot())
		send(0, it)
		mode.Store("ok")
		poison.Store("")
		if dbg := os.Getenv("CHW_DEBUG"); dbg != "" {
			f, _ := os.OpenFile(dbg, os.O_APPEND|os.O_CREATE|os.O_WRONLY, 0644)
			fmt.Fprintf(f, "poison phase cfg=%+v proto=%s body=%d status=%d err=%q\n", cfg.Writer, it.Req.Proto, len(it.Req.Body), it.Rec.Status, it.Rec.Err)
			for _, b := range led.Snapshot()[nb:] {
				fmt.Fprintf(f, "  blk %s rows=%d outcome=%s call=%d ret=%d\n", b.Table, len(b.Rows), b.Outcome, b.CallT, b.RetT)
			}
			f.Close()
		}
	}
	if cfg.Targeted {
		// twins: two or three clients push, at the same moment, different entries of one stream nobody has pushed
		// before (a deployment starting several replicas of an agent). Which of them derives the stream's series row
		// depends on who reaches the series cache first, so the series row is judged at the service boundary only
		// (History.Calls), not per request. Healthy database, every series INSERT failing, the first one failing.
		r := rand.New(rand.NewSource(int64(h64(fmt.Sprintf("%d/%s/twins", seed, cfg.Stream)) >> 1)))
		for round, dbMode := range []string{"ok", "fail-table", "fail-n", "fail-table", "ok"} {
			if onPhase != nil {
				onPhase("twins:" + dbMode)
			}
			id := fmt.Sprintf("tw%d", atomic.AddInt64(&itemSeq, 1))
			proto := []string{"loki-json-values", "loki-proto", "loki-json-entries"}[r.Intn(3)]
			base := gen.NewLogCase(r, gen.LogOpts{ID: id, Proto: proto, Streams: 1, MaxEntries: 4, BaseNs: int64(1700000000)*1e9 + int64(round)*86400e9})
			n := 2 + r.Intn(3)
			its := make([]*Item, n)
			for k := range its {
				lc := gen.LogCase{Streams: []gen.Stream{{SID: base.Streams[0].SID, Labels: base.Streams[0].Labels}}}
				for _, e := range base.Streams[0].Entries {
					e.TsNs += int64(k+1) * 1000000
					if e.HasLine {
						e.Line += fmt.Sprintf("~%d", k)
					}
					lc.Streams[0].Entries = append(lc.Streams[0].Entries, e)
				}
				its[k] = &Item{Phase: "twins:" + dbMode, Kind: "logs", Req: gen.Render(r, proto, lc), Single: true}
			}
			failTable.Store("time_series")
			atomic.StoreInt32(&failLeft, 1)
			mode.Store(dbMode)
			var wg sync.WaitGroup
			for k := range its {
				wg.Add(1)
				go func(k int) { defer wg.Done(); send(k, its[k]) }(k)
			}
			wg.Wait()
			mode.Store("ok")
		}
	}
	if cfg.Refuse {
		if onPhase != nil {
			onPhase("refuse")
		}
		r := rand.New(rand.NewSource(int64(h64(fmt.Sprintf("%d/%s/refuse", seed, cfg.Stream)) >> 1)))
		// an error drops the connection; the next reconnect is refused once (the service sleeps 1 s)
		failTable.Store("samples_v3")
		atomic.StoreInt32(&failLeft, 1)
		mode.Store("fail-n")
		led.RefuseNext(1)
		var it *Item
		for {
			it = MakeItem(r, "r", &cfg, "refuse")
			if it.Kind == "logs" && it.Single {
				break
			}
		}
		send(0, it)
		mode.Store("ok")
		// the same for the other insert services (they differ in what else can trigger a flush), each followed by a
		// push of the same kind once the database is back: that one must be answered too
		for _, tk := range [][2]string{{"time_series", "logs"}, {"tempo_traces", "spans"}, {"profiles_input", "profile"}, {"samples_v3", "logs"}} {
			if tk[1] == "spans" && cfg.NoSpans || tk[1] == "profile" && cfg.NoProfile {
				continue
			}
			mk := func() *Item {
				for {
					it := MakeItem(r, "r", &cfg, "refuse:"+tk[0])
					if it.Kind == tk[1] && it.Single {
						return it
					}
				}
			}
			if onPhase != nil {
				onPhase("refuse:" + tk[0])
			}
			failTable.Store(tk[0])
			atomic.StoreInt32(&failLeft, 1)
			mode.Store("fail-n")
			led.RefuseNext(1)
			send(0, mk())
			mode.Store("ok")
			send(1, mk())
		}
	}
	led.AllOK.Store(true)
	h.Blocks = led.Snapshot()
	h.Calls = w.SvcCalls()
	h.Refused = led.Refused
	for _, it := range h.Items {
		if it.Rec == nil || it.Rec.Status == 0 {
			h.Stalled = append(h.Stalled, it)
		}
	}
	if len(h.Stalled) > 0 {
		last := led.LastDoRet.Load()
		h.StallIdle = led.InFlight() == 0 && (last == 0 || time.Since(time.Unix(0, last)) > 5*time.Second)
	}
	// Close waits for outstanding handlers; a request that never gets an answer (the very thing C01 looks for)
	// must not turn into a hung child, so only wait when every request was answered
	w.Shutdown()
	return h
}
