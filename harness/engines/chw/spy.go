package chw

import (
	"sync"

	"github.com/metrico/qryn/writer/model"
	"github.com/metrico/qryn/writer/service"
	"github.com/metrico/qryn/writer/service/impl"
	"github.com/metrico/qryn/writer/utils/helpers"
	"github.com/metrico/qryn/writer/utils/promise"
)

// The service-boundary observer. E-CHW watches two boundaries of the writer: the HTTP answers the clients get and
// the blocks the insert client receives. Between them sit the insert services: a request object goes in
// (IInsertServiceV2.Request) and a promise comes out that the controller waits for. The observer wraps every
// service the production factory builds and records, on the ledger's logical clock, when a request with how many
// rows was handed in and when its promise was fulfilled with what. With that a monitor can say: a promise of a
// request that carried rows was fulfilled without error although no INSERT into that service's table completed
// between the hand-over and the fulfilment.

// SvcCall is one call of IInsertServiceV2.Request.
type SvcCall struct {
	Kind  string // time_series | samples | metrics | tempo_traces | tempo_tags | profiles
	Rows  int    // rows the request object carried when it was handed in
	CallT int64
	DoneT int64 // 0 = never fulfilled while observed
	Err   string
}

type spyLog struct {
	mu    sync.Mutex
	calls []*SvcCall
}

func (l *spyLog) snapshot() []SvcCall {
	l.mu.Lock()
	defer l.mu.Unlock()
	out := make([]SvcCall, len(l.calls))
	for i, c := range l.calls {
		out[i] = *c
	}
	return out
}

type spyFactory struct {
	inner impl.DevInsertServiceFactory
	log   *spyLog
}

func (f *spyFactory) wrap(kind string, s service.IInsertServiceV2) service.IInsertServiceV2 {
	return &spySvc{IInsertServiceV2: s, kind: kind, log: f.log}
}
func (f *spyFactory) NewTimeSeriesInsertService(o model.InsertServiceOpts) service.IInsertServiceV2 {
	return f.wrap("time_series", f.inner.NewTimeSeriesInsertService(o))
}
func (f *spyFactory) NewSamplesInsertService(o model.InsertServiceOpts) service.IInsertServiceV2 {
	return f.wrap("samples", f.inner.NewSamplesInsertService(o))
}
func (f *spyFactory) NewMetricsInsertService(o model.InsertServiceOpts) service.IInsertServiceV2 {
	return f.wrap("metrics", f.inner.NewMetricsInsertService(o))
}
func (f *spyFactory) NewTempoSamplesInsertService(o model.InsertServiceOpts) service.IInsertServiceV2 {
	return f.wrap("tempo_traces", f.inner.NewTempoSamplesInsertService(o))
}
func (f *spyFactory) NewTempoTagInsertService(o model.InsertServiceOpts) service.IInsertServiceV2 {
	return f.wrap("tempo_tags", f.inner.NewTempoTagInsertService(o))
}
func (f *spyFactory) NewProfileSamplesInsertService(o model.InsertServiceOpts) service.IInsertServiceV2 {
	return f.wrap("profiles", f.inner.NewProfileSamplesInsertService(o))
}

type spySvc struct {
	service.IInsertServiceV2
	kind string
	log  *spyLog
}

// rowsOf counts the rows of a request object (0 for kinds the observer does not know).
func rowsOf(req helpers.SizeGetter) int {
	switch r := req.(type) {
	case *model.TimeSeriesData:
		return len(r.MFingerprint)
	case *model.TimeSamplesData:
		return len(r.MTimestampNS)
	case *model.TempoSamples:
		return len(r.MSpanId)
	case *model.TempoTag:
		return len(r.MKey)
	case *model.ProfileData:
		return len(r.TimestampNs)
	}
	return 0
}

func (s *spySvc) Request(req helpers.SizeGetter, insertMode int) *promise.Promise[uint32] {
	c := &SvcCall{Kind: s.kind, Rows: rowsOf(req), CallT: Tick()}
	s.log.mu.Lock()
	s.log.calls = append(s.log.calls, c)
	s.log.mu.Unlock()
	p := s.IInsertServiceV2.Request(req, insertMode)
	go func() {
		_, err := p.Get()
		t := Tick()
		s.log.mu.Lock()
		c.DoneT = t
		if err != nil {
			c.Err = err.Error()
		}
		s.log.mu.Unlock()
	}()
	return p
}

// TableOfKind: the table whose INSERTs carry the rows of a service kind.
func TableOfKind(kind string) string {
	switch kind {
	case "time_series":
		return "time_series"
	case "samples", "metrics":
		return "samples_v3"
	case "tempo_traces":
		return "tempo_traces"
	case "tempo_tags":
		return "tempo_traces_attrs_gin"
	case "profiles":
		return "profiles_input"
	}
	return ""
}

// FulfilledWithoutInsert returns the calls whose promise was fulfilled without error although the request
// carried rows and no successful INSERT into the kind's table was called after the hand-over and returned
// before the fulfilment.
func FulfilledWithoutInsert(calls []SvcCall, blocks []*Block) []SvcCall {
	var out []SvcCall
	for _, c := range calls {
		if c.Rows == 0 || c.DoneT == 0 || c.Err != "" {
			continue
		}
		tb := TableOfKind(c.Kind)
		ok := false
		for _, b := range blocks {
			if (b.Table == tb || b.Table == tb+"_dist") && b.Succeeded() && b.CallT > c.CallT && b.RetT != 0 && b.RetT < c.DoneT {
				ok = true
				break
			}
		}
		if !ok {
			out = append(out, c)
		}
	}
	return out
}
