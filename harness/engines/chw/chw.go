// Package chw is E-CHW: a fake ClickHouse insert client (ch_wrapper.IChClient) that records
// every INSERT block the real insert services hand to it, decodes the ch-go columns, plays a
// scripted fault sequence and keeps a ledger ordered by one logical clock (DESIGN §2.2).
package chw

import (
	"context"
	"fmt"
	"io"
	"net"
	"os"
	"regexp"
	"strings"
	"sync"
	"sync/atomic"
	"syscall"
	"time"

	"github.com/ClickHouse/ch-go"
	"github.com/ClickHouse/ch-go/proto"
	"github.com/ClickHouse/clickhouse-go/v2/lib/driver"
	"github.com/metrico/qryn/writer/ch_wrapper"
	"github.com/metrico/qryn/writer/model"
)

// Clock is the single logical clock of a child process: every observed event takes a tick.
var clock int64

func Tick() int64 { return atomic.AddInt64(&clock, 1) }
func Now() int64  { return atomic.LoadInt64(&clock) }

type Outcome string

const (
	OK      Outcome = "ok"
	Err     Outcome = "err"
	Slow    Outcome = "slow"    // ok after holding the call (lets requests arrive meanwhile)
	SlowErr Outcome = "slowerr" // error after holding the call
	Cancel  Outcome = "cancel"  // context-cancelled style error
)

// Block is one recorded client.Do call.
type Block struct {
	Seq       int
	Client    int
	Table     string
	Body      string
	ColNames  []string
	ColRows   []int
	Rect      bool
	EncodeErr string // what ch-go's own block encoder says about this input ("" = fine)
	ErrText   string // error text the scripted failure returned
	Rows      [][]any
	Outcome   Outcome
	CallT     int64
	RetT      int64
	CallWall  time.Time
	InFlight  int // number of other Do calls in flight when this one was called
}

func (b *Block) Succeeded() bool { return b.Outcome == OK || b.Outcome == Slow }

// Script decides the outcome of the n-th (0-based) INSERT into `table`; it must be
// deterministic. Hold, if non-nil, is called for slow outcomes and blocks as long as the
// scenario wants (it must return eventually).
type Script func(table string, nth int, blk *Block) Outcome

type Ledger struct {
	mu        sync.Mutex
	Blocks    []*Block
	perTable  map[string]int
	script    Script
	Hold      func(blk *Block)
	inFlight  int32
	clients   int
	refuse    int32 // factory refuses this many times
	Refused   int
	Pings     int
	AllOK     atomic.Bool  // once set, every outcome is ok and holds are skipped (faults stopped)
	LastDoRet atomic.Int64 // wall-clock unix nano of the last Do return
}

func NewLedger(script Script) *Ledger {
	return &Ledger{perTable: map[string]int{}, script: script}
}

func (l *Ledger) SetScript(s Script) { l.mu.Lock(); l.script = s; l.mu.Unlock() }
func (l *Ledger) RefuseNext(n int)   { atomic.StoreInt32(&l.refuse, int32(n)) }
func (l *Ledger) InFlight() int      { return int(atomic.LoadInt32(&l.inFlight)) }

func (l *Ledger) Snapshot() []*Block {
	l.mu.Lock()
	defer l.mu.Unlock()
	return append([]*Block{}, l.Blocks...)
}

// Factory is the ch_wrapper.IChClientFactory handed to the real services.
func (l *Ledger) Factory() ch_wrapper.IChClientFactory {
	return func() (ch_wrapper.IChClient, error) {
		for {
			n := atomic.LoadInt32(&l.refuse)
			if n <= 0 {
				break
			}
			if atomic.CompareAndSwapInt32(&l.refuse, n, n-1) {
				l.mu.Lock()
				l.Refused++
				l.mu.Unlock()
				Tick()
				return nil, fmt.Errorf("dial tcp 127.0.0.1:9000: connect: connection refused")
			}
		}
		l.mu.Lock()
		l.clients++
		id := l.clients
		l.mu.Unlock()
		return &Client{l: l, id: id}, nil
	}
}

type Client struct {
	l      *Ledger
	id     int
	closed bool
}

var tableRe = regexp.MustCompile(`(?i)INSERT\s+INTO\s+([A-Za-z0-9_.` + "`" + `]+)`)

func (c *Client) Do(ctx context.Context, q ch.Query) error {
	l := c.l
	blk := &Block{Client: c.id, Body: q.Body, CallWall: time.Now()}
	if m := tableRe.FindStringSubmatch(q.Body); m != nil {
		blk.Table = strings.Trim(m[1], "`")
	}
	// decode before anything else: the columns belong to the caller until Do returns
	blk.Rect = true
	for _, col := range q.Input {
		blk.ColNames = append(blk.ColNames, col.Name)
		blk.ColRows = append(blk.ColRows, col.Data.Rows())
	}
	for _, n := range blk.ColRows {
		if n != blk.ColRows[0] {
			blk.Rect = false
		}
	}
	func() {
		defer func() {
			if r := recover(); r != nil {
				blk.EncodeErr = fmt.Sprintf("panic while encoding block: %v", r)
			}
		}()
		rows := 0
		if len(blk.ColRows) > 0 {
			rows = blk.ColRows[0]
		}
		var buf proto.Buffer
		if err := (proto.Block{Columns: len(q.Input), Rows: rows}).EncodeRawBlock(&buf, 54451, q.Input); err != nil {
			blk.EncodeErr = err.Error()
		}
	}()
	func() {
		defer func() {
			if r := recover(); r != nil {
				blk.EncodeErr += fmt.Sprintf(" panic while decoding columns: %v", r)
			}
		}()
		blk.Rows = decodeRows(q.Input, blk.ColRows)
	}()

	l.mu.Lock()
	blk.Seq = len(l.Blocks)
	nth := l.perTable[blk.Table]
	l.perTable[blk.Table] = nth + 1
	blk.InFlight = int(atomic.AddInt32(&l.inFlight, 1)) - 1
	blk.CallT = Tick()
	out := OK
	if l.script != nil && !l.AllOK.Load() {
		out = l.script(blk.Table, nth, blk)
	}
	if blk.EncodeErr != "" {
		// what the real client does: it refuses to send the block
		out = Err
	}
	blk.Outcome = out
	l.Blocks = append(l.Blocks, blk)
	hold := l.Hold
	l.mu.Unlock()

	if (out == Slow || out == SlowErr) && hold != nil && !l.AllOK.Load() {
		hold(blk)
	}
	var err error
	switch out {
	case Err, SlowErr:
		if blk.EncodeErr != "" {
			err = fmt.Errorf("encode block: %s", blk.EncodeErr)
		} else {
			err = scriptedErr(nth)
			blk.ErrText = err.Error()
		}
	case Cancel:
		err = context.Canceled
	}
	l.mu.Lock()
	blk.RetT = Tick()
	l.mu.Unlock()
	atomic.AddInt32(&l.inFlight, -1)
	l.LastDoRet.Store(time.Now().UnixNano())
	return err
}

// scriptedErr varies what a failed INSERT looks like: server exceptions, and the network errors a dying
// connection produces (as values that errors.Is/As can see through). The HTTP answer for a push whose
// rows were in failed INSERTs only must not depend on the text or type of the failure.
func scriptedErr(nth int) error {
	addr := &net.TCPAddr{IP: net.IPv4(127, 0, 0, 1), Port: 9000}
	src := &net.TCPAddr{IP: net.IPv4(127, 0, 0, 1), Port: 40000 + nth%1000}
	switch nth % 9 {
	case 0:
		return fmt.Errorf("code: 241, message: Memory limit (total) exceeded: would use 9.32 GiB (scripted)")
	case 1:
		return &net.OpError{Op: "read", Net: "tcp", Source: src, Addr: addr, Err: os.NewSyscallError("read", syscall.ECONNRESET)}
	case 2:
		return &net.OpError{Op: "write", Net: "tcp", Source: src, Addr: addr, Err: os.NewSyscallError("write", syscall.EPIPE)}
	case 3:
		return io.EOF
	case 4:
		return io.ErrUnexpectedEOF
	case 5:
		return fmt.Errorf("handle packet: %w", context.DeadlineExceeded)
	case 6:
		return syscall.ECONNRESET // "connection reset by peer", bare
	case 7:
		return fmt.Errorf("dial tcp: lookup clickhouse on 10.0.0.2:53: read udp 10.0.0.1:5353->10.0.0.2:53: i/o timeout")
	}
	return fmt.Errorf("code: 252, message: Too many parts (300). Merges are processing significantly slower than inserts (scripted)")
}

func (c *Client) Ping(ctx context.Context) error {
	c.l.mu.Lock()
	c.l.Pings++
	c.l.mu.Unlock()
	return nil
}
func (c *Client) Close() error                                              { c.closed = true; return nil }
func (c *Client) Exec(ctx context.Context, query string, args ...any) error { return nil }
func (c *Client) Scan(ctx context.Context, req string, args []any, dest ...interface{}) error {
	return nil
}
func (c *Client) DropIfEmpty(ctx context.Context, name string) error         { return nil }
func (c *Client) TableExists(ctx context.Context, name string) (bool, error) { return true, nil }
func (c *Client) GetDBExec(env map[string]string) func(ctx context.Context, query string, args ...[]interface{}) error {
	return func(ctx context.Context, query string, args ...[]interface{}) error { return nil }
}
func (c *Client) GetVersion(ctx context.Context, k uint64) (uint64, error) { return 0, nil }
func (c *Client) GetSetting(ctx context.Context, tp string, name string) (string, error) {
	return "", nil
}
func (c *Client) PutSetting(ctx context.Context, tp string, name string, value string) error {
	return nil
}
func (c *Client) GetFirst(req string, first ...interface{}) error { return nil }
func (c *Client) GetList(req string) ([]string, error)            { return nil, nil }
func (c *Client) Query(ctx context.Context, query string, args ...interface{}) (driver.Rows, error) {
	return nil, fmt.Errorf("fake client: Query not supported")
}
func (c *Client) QueryRow(ctx context.Context, query string, args ...interface{}) driver.Row {
	return nil
}

// ---- column decoding (ch-go column objects → plain values) ----

func decodeRows(in proto.Input, counts []int) [][]any {
	maxRows := 0
	for _, n := range counts {
		if n > maxRows {
			maxRows = n
		}
	}
	cols := make([][]any, len(in))
	for i, c := range in {
		cols[i] = decodeCol(c.Data)
	}
	rows := make([][]any, maxRows)
	for r := 0; r < maxRows; r++ {
		row := make([]any, len(in))
		for i := range in {
			if r < len(cols[i]) {
				row[i] = cols[i][r]
			} else {
				row[i] = Missing{}
			}
		}
		rows[r] = row
	}
	return rows
}

// Missing marks a cell of a non-rectangular block that has no value.
type Missing struct{}

func dateStr(d proto.Date) string {
	return time.Unix(int64(d)*86400, 0).UTC().Format("2006-01-02")
}

func decodeCol(d proto.ColInput) []any {
	var out []any
	switch c := d.(type) {
	case proto.ColUInt8:
		for _, v := range c {
			out = append(out, uint64(v))
		}
	case *proto.ColUInt8:
		return decodeCol(*c)
	case proto.ColUInt16:
		for _, v := range c {
			out = append(out, uint64(v))
		}
	case *proto.ColUInt16:
		return decodeCol(*c)
	case proto.ColUInt32:
		for _, v := range c {
			out = append(out, uint64(v))
		}
	case *proto.ColUInt32:
		return decodeCol(*c)
	case proto.ColUInt64:
		for _, v := range c {
			out = append(out, uint64(v))
		}
	case *proto.ColUInt64:
		return decodeCol(*c)
	case proto.ColInt8:
		for _, v := range c {
			out = append(out, int64(v))
		}
	case *proto.ColInt8:
		return decodeCol(*c)
	case proto.ColInt32:
		for _, v := range c {
			out = append(out, int64(v))
		}
	case *proto.ColInt32:
		return decodeCol(*c)
	case proto.ColInt64:
		for _, v := range c {
			out = append(out, int64(v))
		}
	case *proto.ColInt64:
		return decodeCol(*c)
	case proto.ColFloat64:
		for _, v := range c {
			out = append(out, float64(v))
		}
	case *proto.ColFloat64:
		return decodeCol(*c)
	case proto.ColBool:
		for _, v := range c {
			out = append(out, v)
		}
	case *proto.ColBool:
		return decodeCol(*c)
	case proto.ColDate:
		for _, v := range c {
			out = append(out, dateStr(v))
		}
	case *proto.ColDate:
		return decodeCol(*c)
	case *proto.ColStr:
		for i := 0; i < c.Rows(); i++ {
			out = append(out, c.Row(i))
		}
	case *proto.ColFixedStr:
		if c.Size > 0 {
			n := len(c.Buf) / c.Size
			for i := 0; i < n; i++ {
				out = append(out, string(c.Buf[i*c.Size:(i+1)*c.Size]))
			}
			if len(c.Buf)%c.Size != 0 {
				out = append(out, "TORN:"+string(c.Buf[n*c.Size:]))
			}
		}
	case *proto.ColArr[model.StrStr]:
		return decodeArr(c.Offsets, c.Data)
	case *proto.ColArr[model.ValuesAgg]:
		return decodeArr(c.Offsets, c.Data)
	case *proto.ColArr[model.Function]:
		return decodeArr(c.Offsets, c.Data)
	case *proto.ColArr[model.TreeRootStructure]:
		return decodeArr(c.Offsets, c.Data)
	case *proto.ColArr[model.ValuesArrTuple]:
		return decodeArr(c.Offsets, c.Data)
	case *proto.ColArr[uint64]:
		return decodeArr(c.Offsets, c.Data)
	case proto.ColTuple:
		sub := make([][]any, len(c))
		n := 0
		for i, e := range c {
			ci, ok := e.(proto.ColInput)
			if !ok {
				continue
			}
			sub[i] = decodeCol(ci)
			if len(sub[i]) > n {
				n = len(sub[i])
			}
		}
		for r := 0; r < n; r++ {
			t := make([]any, len(c))
			for i := range c {
				if r < len(sub[i]) {
					t[i] = sub[i][r]
				} else {
					t[i] = Missing{}
				}
			}
			out = append(out, t)
		}
	default:
		// adapters embedding proto.ColTuple
		if t, ok := tupleOf(d); ok {
			return decodeCol(t)
		}
		for i := 0; i < d.Rows(); i++ {
			out = append(out, fmt.Sprintf("<undecoded %T>", d))
		}
	}
	return out
}

func decodeArr(offs proto.ColUInt64, data any) []any {
	var elems []any
	if ci, ok := data.(proto.ColInput); ok {
		elems = decodeCol(ci)
	}
	out := make([]any, 0, len(offs))
	start := uint64(0)
	for _, end := range offs {
		if end < start || end > uint64(len(elems)) {
			out = append(out, []any{fmt.Sprintf("<bad offsets %d..%d of %d>", start, end, len(elems))})
			start = end
			continue
		}
		out = append(out, append([]any{}, elems[start:end]...))
		start = end
	}
	return out
}
