package sqldrv

import (
	"net/http/httptest"

	"github.com/gorilla/mux"
	clconfig "github.com/metrico/cloki-config"
	"github.com/metrico/cloki-config/config"
	rconfig "github.com/metrico/qryn/reader/config"
	apirouterv1 "github.com/metrico/qryn/reader/router"
)

type Reader struct {
	Router *mux.Router
	Server *httptest.Server
	Reg    *Registry
	Cloki  *clconfig.ClokiConfig
}

// StartReader registers the real reader routes exactly as reader.performV1APIRouting does,
// on top of the scripted registry (dbRegistry.Init and the watchdog, which need a real
// database, are the only parts left out).
func StartReader(reg *Registry, cluster string) *Reader {
	cfg := clconfig.New(clconfig.CLOKI_READER, nil, "", "")
	cfg.Setting.DATABASE_DATA = []config.ClokiBaseDataBase{{Node: "n1", Name: "db", ClusterName: cluster}}
	rconfig.Cloki = cfg
	app := mux.NewRouter()
	apirouterv1.RouteQueryRangeApis(app, reg)
	apirouterv1.RouteSelectLabels(app, reg)
	apirouterv1.RouteSelectPrometheusLabels(app, reg)
	apirouterv1.RoutePrometheusQueryRange(app, reg, cfg.Setting.SYSTEM_SETTINGS.QueryStats)
	apirouterv1.RouteTempo(app, reg)
	apirouterv1.RouteMiscApis(app)
	apirouterv1.RouteProf(app, reg)
	apirouterv1.PluggableRoutes(app, reg)
	return &Reader{Router: app, Server: httptest.NewServer(app), Reg: reg, Cloki: cfg}
}
