// Package sqldrv is E-SQLDRV: a scripted database/sql driver behind the reader's
// model.ISqlxDB / model.IDBRegistry seams. Every statement is logged; answers come from a
// per-session handler (scripted rows, injected faults, or the E-CHSQL interpreter).
package sqldrv

import (
	"context"
	"database/sql"
	"database/sql/driver"
	"fmt"
	"io"
	"net"
	"strings"
	"sync"
	"sync/atomic"
	"syscall"

	"github.com/jmoiron/sqlx"
	"github.com/metrico/cloki-config/config"
	"github.com/metrico/qryn/reader/dbRegistry"
	"github.com/metrico/qryn/reader/model"
	"github.com/metrico/qryn/reader/utils/dsn"
)

// Rows is a scripted result set.
type Rows struct {
	Cols  []string
	Data  [][]driver.Value
	ErrAt int   // deliver Err instead of row number ErrAt (-1 / beyond = never)
	Err   error // error delivered at ErrAt (default: a generic read error)
	// Block, if set, is called before every Next (lets a case hold the stream)
	Block  func(i int)
	i      int
	sess   *Session
	stmt   int
	closed bool
}

func (r *Rows) Columns() []string { return r.Cols }
func (r *Rows) Close() error {
	if !r.closed {
		r.closed = true
		if r.sess != nil {
			atomic.AddInt64(&r.sess.Closed, 1)
			r.sess.mu.Lock()
			delete(r.sess.open, r.stmt)
			r.sess.mu.Unlock()
		}
	}
	return nil
}
func (r *Rows) Next(dest []driver.Value) error {
	if r.Block != nil {
		r.Block(r.i)
	}
	if r.ErrAt >= 0 && r.i == r.ErrAt {
		r.i++
		if r.Err != nil {
			return r.Err
		}
		return fmt.Errorf("code: 241, message: scripted failure while reading row %d", r.ErrAt)
	}
	if r.i >= len(r.Data) {
		return io.EOF
	}
	copy(dest, r.Data[r.i])
	r.i++
	if r.sess != nil {
		atomic.AddInt64(&r.sess.RowsRead, 1)
	}
	return nil
}

// NewRows builds a result without a scripted error.
func NewRows(cols []string, data [][]driver.Value) *Rows {
	return &Rows{Cols: cols, Data: data, ErrAt: -1}
}

// Handler answers one statement.
type Handler func(ctx context.Context, q string) (*Rows, error)

// Stmt is one logged statement.
type Stmt struct {
	N     int
	SQL   string
	Err   string
	NRows int
}

// Session is one fake database (one name = one handler = one dbVersion cache entry).
type Session struct {
	Name     string
	mu       sync.Mutex
	handler  Handler
	Log      []Stmt
	open     map[int]string
	Opened   int64
	Closed   int64
	RowsRead int64
	db       *sql.DB
	wrapped  model.ISqlxDB
	// schema answers for the two statements dbVersion issues
	Tables   []string
	Versions map[string]string // e.g. {"tempo_v2": "0"}
	// SchemaFault, if set, is asked before each schema lookup ("settings" = the version rows, "show-tables"); a
	// non-nil error is what the database answers instead
	SchemaFault func(kind string) error
	// Down: the database cannot be reached (new connections are refused, pings and statements on open ones fail)
	Down atomic.Bool
}

var (
	regMu    sync.Mutex
	sessions = map[string]*Session{}
	once     sync.Once
)

type drv struct{}
type conn struct{ s *Session }

func (drv) Open(name string) (driver.Conn, error) {
	regMu.Lock()
	s := sessions[name]
	regMu.Unlock()
	if s == nil {
		return nil, fmt.Errorf("verifch: unknown session %q", name)
	}
	if s.Down.Load() {
		return nil, &net.OpError{Op: "dial", Net: "tcp", Err: syscall.ECONNREFUSED}
	}
	return &conn{s}, nil
}
func (*conn) Prepare(q string) (driver.Stmt, error) { return nil, fmt.Errorf("verifch: no prepare") }
func (*conn) Close() error                          { return nil }
func (*conn) Begin() (driver.Tx, error)             { return nil, fmt.Errorf("verifch: no tx") }
func (c *conn) Ping(ctx context.Context) error {
	if c.s.Down.Load() {
		return driver.ErrBadConn
	}
	return nil
}

func (c *conn) QueryContext(ctx context.Context, q string, args []driver.NamedValue) (driver.Rows, error) {
	s := c.s
	if s.Down.Load() {
		return nil, driver.ErrBadConn
	}
	if len(args) > 0 {
		// what the real driver would put on the wire (client-side binding)
		wire, berr := Bind(q, args)
		if berr != nil {
			return nil, berr // the driver refuses before anything is sent: nothing to log
		}
		q = wire
	}
	s.mu.Lock()
	n := len(s.Log)
	s.Log = append(s.Log, Stmt{N: n, SQL: q})
	h := s.handler
	s.mu.Unlock()
	var r *Rows
	var err error
	switch {
	case strings.Contains(q, "FROM settings") && strings.Contains(q, "type='update'"):
		if sf := s.SchemaFault; sf != nil {
			if err = sf("settings"); err != nil {
				break
			}
		}
		r = NewRows([]string{"_name", "_value"}, nil)
		for k, v := range s.Versions {
			r.Data = append(r.Data, []driver.Value{k, v})
		}
	case strings.HasPrefix(strings.TrimSpace(q), "SHOW TABLES"):
		if sf := s.SchemaFault; sf != nil {
			if err = sf("show-tables"); err != nil {
				break
			}
		}
		r = NewRows([]string{"name"}, nil)
		for _, t := range s.Tables {
			r.Data = append(r.Data, []driver.Value{t})
		}
	default:
		if err = ctx.Err(); err == nil {
			if h == nil {
				err = fmt.Errorf("verifch: no handler")
			} else {
				r, err = h(ctx, q)
			}
		}
	}
	s.mu.Lock()
	if err != nil {
		s.Log[n].Err = err.Error()
		s.mu.Unlock()
		return nil, err
	}
	s.Log[n].NRows = len(r.Data)
	s.open[n] = q
	s.mu.Unlock()
	r.sess, r.stmt = s, n
	atomic.AddInt64(&s.Opened, 1)
	return r, nil
}

// NewSession registers a fake database under a unique name.
func NewSession(name string, h Handler) *Session {
	once.Do(func() { sql.Register("verifch", drv{}) })
	s := &Session{Name: name, handler: h, open: map[int]string{}, Tables: []string{"samples_v3", "time_series", "metrics_15s"}, Versions: map[string]string{}}
	regMu.Lock()
	sessions[name] = s
	regMu.Unlock()
	db, err := sql.Open("verifch", name)
	if err != nil {
		panic(err)
	}
	db.SetMaxOpenConns(64)
	s.db = db
	return s
}

func (s *Session) SetHandler(h Handler) { s.mu.Lock(); s.handler = h; s.mu.Unlock() }

// Statements returns a copy of the log (optionally only from index `from`).
func (s *Session) Statements(from int) []Stmt {
	s.mu.Lock()
	defer s.mu.Unlock()
	if from > len(s.Log) {
		from = len(s.Log)
	}
	return append([]Stmt{}, s.Log[from:]...)
}

func (s *Session) LogLen() int { s.mu.Lock(); defer s.mu.Unlock(); return len(s.Log) }

// OpenRows lists statements whose Rows were opened and not yet closed.
func (s *Session) OpenRows() []string {
	s.mu.Lock()
	defer s.mu.Unlock()
	var out []string
	for _, q := range s.open {
		out = append(out, q)
	}
	return out
}

// ---- model.ISqlxDB / model.IDBRegistry ----

func (s *Session) GetName() string { return s.Name }
func (s *Session) QueryCtx(ctx context.Context, q string, args ...any) (*sql.Rows, error) {
	return s.db.QueryContext(ctx, q, args...)
}
func (s *Session) ExecCtx(ctx context.Context, q string, args ...any) error { return nil }
func (s *Session) Conn(ctx context.Context) (*sql.Conn, error)              { return s.db.Conn(ctx) }
func (s *Session) Begin() (*sql.Tx, error)                                  { return s.db.Begin() }
func (s *Session) Close()                                                   {}

// Registry lets a check switch the reader between sessions; node selection and health checks are those of the
// production registry (reader/dbRegistry: one static registry per session in use).
type Registry struct {
	mu   sync.Mutex
	d    *model.DataDatabasesMap
	real model.IDBRegistry
}

func (r *Registry) current() model.IDBRegistry {
	r.mu.Lock()
	defer r.mu.Unlock()
	return r.real
}

func (r *Registry) GetDB(ctx context.Context) (*model.DataDatabasesMap, error) {
	return r.current().GetDB(ctx)
}
func (r *Registry) Run()        {}
func (r *Registry) Stop()       {}
func (r *Registry) Ping() error { return r.current().Ping() }

// Use switches the registry to another session (e.g. another schema). The reader gets the session behind the
// wrapper it uses in production (reader/utils/dsn.StableSqlxDBWrapper: reconnects after a failed statement), not
// the bare session.
func (r *Registry) Use(s *Session, cluster string) {
	r.mu.Lock()
	defer r.mu.Unlock()
	r.d = &model.DataDatabasesMap{Config: &config.ClokiBaseDataBase{Node: s.Name, Name: "db", ClusterName: cluster}, Session: s.Wrapped()}
	r.real = dbRegistry.NewStaticDBRegistry(map[string]*model.DataDatabasesMap{s.Name: r.d})
}

// Wrapped returns the session behind the production connection wrapper (one wrapper per session).
func (s *Session) Wrapped() model.ISqlxDB {
	s.mu.Lock()
	defer s.mu.Unlock()
	if s.wrapped == nil {
		open := func() *sqlx.DB {
			db, err := sql.Open("verifch", s.Name)
			if err != nil {
				panic(err)
			}
			db.SetMaxOpenConns(64)
			return sqlx.NewDb(db, "verifch")
		}
		s.wrapped = &dsn.StableSqlxDBWrapper{DB: open(), GetDB: open, Name: s.Name}
	}
	return s.wrapped
}

func NewRegistry(s *Session, cluster string) *Registry {
	r := &Registry{}
	r.Use(s, cluster)
	return r
}
