package sqldrv

import (
	"database/sql/driver"
	"fmt"
	"regexp"
	"strings"
	"time"
)

// The reader talks to ClickHouse through clickhouse-go's database/sql driver, which binds query arguments on
// the client: it rewrites the statement text before it is sent. What ClickHouse receives is therefore not the
// text handed to database/sql but Bind(text, args). The scripted driver reproduces that step (clickhouse-go
// v2.34 bind.go: `$N` found by a regular expression over the WHOLE text - literals included -, else `?`
// positions unless preceded by a backslash; strings quoted with \ and ' escaped) so that the statement log holds
// the text on the wire. Without arguments the text is sent as it is.

var (
	bindNumericRe    = regexp.MustCompile(`\$[0-9]+`)
	bindPositionalRe = regexp.MustCompile(`[^\\][?]`)
	bindQuote        = strings.NewReplacer(`\`, `\\`, `'`, `\'`)
)

func bindFormat(v any) (string, error) {
	switch x := v.(type) {
	case nil:
		return "NULL", nil
	case string:
		return "'" + bindQuote.Replace(x) + "'", nil
	case []byte:
		return "'" + bindQuote.Replace(string(x)) + "'", nil
	case bool:
		if x {
			return "1", nil
		}
		return "0", nil
	case time.Time:
		if x.Unix() == 0 {
			return "toDateTime(0)", nil
		}
		return fmt.Sprintf("toDateTime('%d')", x.Unix()), nil
	case int64, float64, int, uint64:
		return fmt.Sprint(x), nil
	}
	return "", fmt.Errorf("verifch: argument type %T not modelled by the bind step", v)
}

// Bind returns the statement text clickhouse-go would send for (query, args).
func Bind(query string, args []driver.NamedValue) (string, error) {
	if len(args) == 0 {
		return query, nil
	}
	haveNumeric := bindNumericRe.MatchString(query)
	havePositional := bindPositionalRe.MatchString(query)
	if haveNumeric && havePositional {
		return "", fmt.Errorf("clickhouse [bind]: mixed named, numeric or positional parameters")
	}
	vals := make([]string, len(args))
	for i, a := range args {
		s, err := bindFormat(a.Value)
		if err != nil {
			return "", err
		}
		vals[i] = s
	}
	if haveNumeric {
		var missing string
		out := bindNumericRe.ReplaceAllStringFunc(query, func(n string) string {
			var k int
			fmt.Sscanf(n, "$%d", &k)
			if k < 1 || k > len(vals) {
				missing = n
				return ""
			}
			return vals[k-1]
		})
		if missing != "" {
			return "", fmt.Errorf("have no arg for %s param", missing)
		}
		return out, nil
	}
	var sb strings.Builder
	ai := 0
	for i := 0; i < len(query); i++ {
		if query[i] == '?' {
			if i > 0 && query[i-1] == '\\' {
				s := sb.String()
				sb.Reset()
				sb.WriteString(s[:len(s)-1])
				sb.WriteByte('?')
				continue
			}
			if ai >= len(vals) {
				return "", fmt.Errorf("have no arg for param ? at position %d", ai+1)
			}
			sb.WriteString(vals[ai])
			ai++
			continue
		}
		sb.WriteByte(query[i])
	}
	return sb.String(), nil
}
