package chsql

import (
	"regexp"
	"sync"
)

// likeToken is one element of a compiled LIKE pattern.
type likeToken struct {
	kind byte // 'c' literal byte, '_' one character, '%' any run
	c    byte
}

// compileLike parses a LIKE pattern — rule A2, following ClickHouse's likePatternToRegexp (23.x):
// '%' any run of bytes (including none), '_' exactly one character, '\\%' '\\_' '\\\\' the literal
// characters; a backslash before any other character is an unknown escape sequence "treated
// literally: as backslash + the following character"; a pattern ending in a lone backslash raises
// CANNOT_PARSE_ESCAPE_SEQUENCE. (Releases up to 22.8 treated a trailing backslash as a literal and
// passed unknown escapes on to re2; the harness targets the newer behaviour.)
func compileLike(p string) ([]likeToken, error) {
	var toks []likeToken
	for i := 0; i < len(p); i++ {
		c := p[i]
		switch c {
		case '%':
			if n := len(toks); n > 0 && toks[n-1].kind == '%' {
				continue
			}
			toks = append(toks, likeToken{kind: '%'})
		case '_':
			toks = append(toks, likeToken{kind: '_'})
		case '\\':
			if i+1 >= len(p) {
				return nil, raise("A2", "LIKE pattern %q ends with a lone backslash (CANNOT_PARSE_ESCAPE_SEQUENCE)", p)
			}
			n := p[i+1]
			if n == '%' || n == '_' || n == '\\' {
				toks = append(toks, likeToken{kind: 'c', c: n})
				i++
			} else {
				toks = append(toks, likeToken{kind: 'c', c: '\\'}) // the next character is handled on its own
			}
		default:
			toks = append(toks, likeToken{kind: 'c', c: c})
		}
	}
	return toks, nil
}

func utf8Len(b byte) int {
	switch {
	case b < 0x80:
		return 1
	case b>>5 == 0x6:
		return 2
	case b>>4 == 0xe:
		return 3
	case b>>3 == 0x1e:
		return 4
	}
	return 1
}

// likeMatch matches the whole string (rule A2: the pattern applies to the whole string).
// '_' consumes one UTF-8 character when the bytes form a valid sequence start, else one byte
// (ClickHouse compiles '_' to the regexp '.', which in RE2's UTF-8 mode matches one code point;
// invalid UTF-8 makes RE2 behave differently — such inputs give ErrUnsupported).
func likeMatch(toks []likeToken, s string, fold bool) (bool, error) {
	if fold {
		// rule A2 (case-insensitive variants): only ASCII letters are folded here. How ClickHouse folds letters outside
		// ASCII depends on which searcher the pattern is routed to; a pattern with such bytes is not decided.
		for _, t := range toks {
			if t.kind == 'c' && t.c >= 0x80 {
				return false, unsupported("ILIKE pattern with non-ASCII bytes (case folding outside ASCII is not modelled)")
			}
		}
		b := []byte(s)
		for i, ch := range b {
			if ch >= 'A' && ch <= 'Z' {
				b[i] = ch + 'a' - 'A'
			}
		}
		s = string(b)
	}
	var rec func(ti, si int) (bool, error)
	memo := map[[2]int]bool{}
	rec = func(ti, si int) (bool, error) {
		for ti < len(toks) {
			t := toks[ti]
			switch t.kind {
			case 'c':
				c := t.c
				if fold && c >= 'A' && c <= 'Z' {
					c += 'a' - 'A'
				}
				if si >= len(s) || s[si] != c {
					return false, nil
				}
				si++
				ti++
			case '_':
				if si >= len(s) {
					return false, nil
				}
				n := utf8Len(s[si])
				if si+n > len(s) {
					return false, unsupported("LIKE '_' over invalid UTF-8")
				}
				for k := 1; k < n; k++ {
					if s[si+k]&0xc0 != 0x80 {
						return false, unsupported("LIKE '_' over invalid UTF-8")
					}
				}
				if n == 1 && s[si] >= 0x80 {
					return false, unsupported("LIKE '_' over invalid UTF-8")
				}
				si += n
				ti++
			case '%':
				if ti+1 == len(toks) {
					return true, nil
				}
				k := [2]int{ti, si}
				if memo[k] {
					return false, nil
				}
				for j := si; j <= len(s); j++ {
					ok, err := rec(ti+1, j)
					if err != nil || ok {
						return ok, err
					}
				}
				memo[k] = true
				return false, nil
			}
		}
		return si == len(s), nil
	}
	return rec(0, 0)
}

var reCache sync.Map

// compileRE compiles an RE2 pattern — rule A3: Go's regexp package implements RE2 syntax; a
// pattern it rejects is one ClickHouse rejects (CANNOT_COMPILE_REGEXP). ClickHouse compiles with
// "dot matches newline" off? No: OptimizedRegularExpression is created with RE_DOT_NL for match()
// — in ClickHouse `.` matches '\n' (the documentation of match(): "the dot matches newline"), so
// the (?s) flag is set here.
func compileRE(p string) (*regexp.Regexp, error) {
	if r, ok := reCache.Load(p); ok {
		if re, ok := r.(*regexp.Regexp); ok {
			return re, nil
		}
		return nil, r.(error)
	}
	re, err := regexp.Compile("(?s:" + p + ")")
	if err != nil {
		e := raise("A3", "cannot compile regexp %q: %v", p, err)
		reCache.Store(p, e)
		return nil, e
	}
	reCache.Store(p, re)
	return re, nil
}
