package chsql

import (
	"strings"
	"testing"
)

func TestListFunctions(t *testing.T) {
	s, a := SupportedFunctions()
	t.Logf("scalars (%d): %s", len(s), strings.Join(s, " "))
	t.Logf("aggregates (%d): %s", len(a), strings.Join(a, " "))
}
