package chsql

import (
	"math"
	"sort"
	"strings"
)

var aggBases = map[string]bool{
	"count": true, "sum": true, "min": true, "max": true, "avg": true, "any": true, "anyLast": true,
	"argMin": true, "argMax": true, "groupArray": true, "groupUniqArray": true,
	"groupBitOr": true, "groupBitAnd": true, "groupBitXor": true,
	"uniq": true, "uniqExact": true, "varPop": true, "varSamp": true, "stddevPop": true, "stddevSamp": true,
	"quantile": true, "quantileExact": true, "median": true,
}

// SQL-standard aggregate names are case-insensitive in ClickHouse.
var aggCaseInsensitive = map[string]string{
	"count": "count", "sum": "sum", "min": "min", "max": "max", "avg": "avg", "any": "any",
	"var_pop": "varPop", "var_samp": "varSamp", "stddev_pop": "stddevPop", "stddev_samp": "stddevSamp", "median": "median",
}

var aggCombinators = []string{"MergeState", "SimpleState", "State", "Merge", "If", "Array", "Distinct", "OrNull", "OrDefault"}

type aggSpec struct {
	base  string
	combs []string // in name order (innermost first): sumArrayIf → [Array, If]
}

// parseAggName splits an aggregate function name into its base function and combinators.
func parseAggName(name string) (*aggSpec, bool) {
	if aggBases[name] {
		return &aggSpec{base: name}, true
	}
	if b, ok := aggCaseInsensitive[strings.ToLower(name)]; ok {
		return &aggSpec{base: b}, true
	}
	var combs []string
	rest := name
	for {
		stripped := false
		for _, c := range aggCombinators {
			if strings.HasSuffix(rest, c) && len(rest) > len(c) {
				cand := rest[:len(rest)-len(c)]
				// prefer the longest combinator ("MergeState" before "State"): list order guarantees it
				combs = append([]string{c}, combs...)
				rest = cand
				stripped = true
				break
			}
		}
		if !stripped {
			return nil, false
		}
		if aggBases[rest] {
			return &aggSpec{base: rest, combs: combs}, true
		}
	}
}

// aggStateType models AggregateFunction(fn, args…) columns (see doc.go).
func aggStateType(fn string, args []*Type) *Type {
	arg := func(i int) *Type {
		if i < len(args) {
			return args[i]
		}
		return nil
	}
	switch fn {
	case "count", "uniq", "uniqExact":
		if fn == "count" {
			return tUInt64
		}
		if arg(0) == nil {
			return nil
		}
		if len(args) == 1 {
			return tArray(arg(0))
		}
		return tArray(tTuple(args...))
	case "sum":
		return sumType(arg(0))
	case "min", "max", "any", "anyLast":
		return arg(0)
	case "argMin", "argMax":
		if arg(0) == nil || arg(1) == nil {
			return nil
		}
		return tTuple(arg(0), arg(1))
	case "avg":
		return tTuple(tFloat64, tUInt64)
	case "groupArray", "groupUniqArray":
		if arg(0) == nil {
			return nil
		}
		return tArray(arg(0))
	case "groupBitOr", "groupBitAnd", "groupBitXor":
		return arg(0)
	}
	return nil
}

func sumType(t *Type) *Type {
	if t == nil {
		return nil
	}
	if t.Name == "Nullable" {
		return tNullable(sumType(t.Args[0]))
	}
	if t.Name == "Float64" {
		return tFloat64
	}
	signed, _, ok := intTypeInfo(t.Name)
	if !ok {
		return nil
	}
	if signed {
		return tInt64
	}
	return tUInt64
}

// aggResultType is the static result type of base(args) (final value, not state).
func aggResultType(base string, args []*Type) *Type {
	arg := func(i int) *Type {
		if i < len(args) {
			return args[i]
		}
		return nil
	}
	anyNullable := false
	for _, a := range args {
		if a != nil && a.Name == "Nullable" {
			anyNullable = true
		}
	}
	strip := func(t *Type) *Type {
		if t != nil && t.Name == "Nullable" {
			return t.Args[0]
		}
		return t
	}
	wrap := func(t *Type) *Type {
		if t == nil {
			return nil
		}
		if anyNullable {
			switch t.Name {
			case "Array", "Map", "Tuple":
				return t
			}
			return tNullable(t)
		}
		return t
	}
	switch base {
	case "count", "uniq", "uniqExact":
		return tUInt64
	case "sum":
		return wrap(sumType(strip(arg(0))))
	case "min", "max", "any", "anyLast", "groupBitOr", "groupBitAnd", "groupBitXor", "argMin", "argMax", "quantileExact":
		return wrap(strip(arg(0)))
	case "avg", "varPop", "varSamp", "stddevPop", "stddevSamp", "quantile", "median":
		return wrap(tFloat64)
	case "groupArray", "groupUniqArray":
		if arg(0) == nil {
			return nil
		}
		return tArray(strip(arg(0)))
	}
	return nil
}

// evalAggregate evaluates an aggregate function call over the rows of the current group.
func (ev *env) evalAggregate(f *Func, spec *aggSpec) (Value, error) {
	sc := ev.sc
	// parameters are constants
	params := make([]Value, len(f.Params))
	for i, p := range f.Params {
		v, err := sc.newConstEnv().eval(p)
		if err != nil {
			return nil, err
		}
		params[i] = v
	}
	args := f.Args
	if len(args) == 1 {
		if _, ok := args[0].(*Star); ok && spec.base == "count" {
			args = nil // count(*) = count()
		}
	}
	// static argument types (needed for the result over zero rows — rule A10)
	tenv := ev.typeEnv()
	tenv.inAgg = true
	tenv.group = false
	argTypes := make([]*Type, len(args))
	for i, a := range args {
		t, err := sc.typeOf(a, tenv)
		if err != nil {
			return nil, err
		}
		argTypes[i] = t
	}
	rows := make([][]Value, 0, len(ev.group.rows))
	for _, r := range ev.group.rows {
		ne := *ev
		ne.row, ne.group, ne.inAgg = r, nil, true
		vals := make([]Value, len(args))
		for i, a := range args {
			v, err := ne.eval(a)
			if err != nil {
				return nil, err
			}
			vals[i] = v
		}
		rows = append(rows, vals)
	}
	return aggApply(sc.x.db, f, spec, params, rows, argTypes)
}

func aggApply(db *DB, f *Func, spec *aggSpec, params []Value, rows [][]Value, argTypes []*Type) (Value, error) {
	mode := "final"
	orNull, orDefault := false, false
	distinct := f.Distinct
	combs := spec.combs
	// combinators are processed from the outermost (rightmost) inwards
	for i := len(combs) - 1; i >= 0; i-- {
		switch combs[i] {
		case "State", "SimpleState":
			if mode != "final" {
				return nil, unsupported("combinator order in %s", f.Name)
			}
			if combs[i] == "State" {
				mode = "state"
			}
		case "Merge":
			if mode != "final" {
				return nil, unsupported("combinator order in %s", f.Name)
			}
			mode = "merge"
		case "MergeState":
			mode = "mergestate"
		case "OrNull":
			orNull = true
		case "OrDefault":
			orDefault = true
		case "Distinct":
			distinct = true
		case "If":
			if len(argTypes) == 0 {
				return nil, raise("NUMBER_OF_ARGUMENTS_DOESNT_MATCH", "incorrect number of arguments for aggregate function with -If suffix")
			}
			n := len(argTypes) - 1
			if ct := argTypes[n]; ct != nil && !logicalArgOK(ct) {
				return nil, raise("ILLEGAL_TYPE_OF_ARGUMENT", "illegal type %s of last argument for aggregate function with -If suffix", ct)
			}
			kept := rows[:0:0]
			for _, r := range rows {
				c := r[n]
				if isNull(c) {
					continue
				}
				if !isNumeric(c) {
					return nil, raise("ILLEGAL_TYPE_OF_ARGUMENT", "illegal type %s of last argument for aggregate function with -If suffix", typeOfValue(c))
				}
				if t, _ := filterTruth(c); t {
					kept = append(kept, r[:n])
				}
			}
			rows, argTypes = kept, argTypes[:n]
		case "Array":
			var exp [][]Value
			for _, r := range rows {
				n := -1
				for _, v := range r {
					a, ok := v.(Array)
					if !ok {
						return nil, raise("ILLEGAL_TYPE_OF_ARGUMENT", "illegal type %s of argument for aggregate function with -Array suffix", typeOfValue(v))
					}
					if n >= 0 && len(a) != n {
						return nil, raise("SIZES_OF_ARRAYS_DONT_MATCH", "arrays passed to %s have different sizes", f.Name)
					}
					n = len(a)
				}
				for k := 0; k < n; k++ {
					nr := make([]Value, len(r))
					for i, v := range r {
						nr[i] = v.(Array)[k]
					}
					exp = append(exp, nr)
				}
			}
			rows = exp
			nt := make([]*Type, len(argTypes))
			for i, t := range argTypes {
				if t != nil {
					if t.Name != "Array" {
						return nil, raise("ILLEGAL_TYPE_OF_ARGUMENT", "illegal type %s of argument for aggregate function with -Array suffix", t)
					}
					nt[i] = t.Args[0]
				}
			}
			argTypes = nt
		}
	}
	base := spec.base
	if base == "median" {
		base = "quantile"
	}

	if mode == "merge" || mode == "mergestate" {
		if len(argTypes) != 1 {
			return nil, raise("NUMBER_OF_ARGUMENTS_DOESNT_MATCH", "aggregate function %s takes one argument (a state)", f.Name)
		}
		var inner []*Type
		if st := argTypes[0]; st != nil {
			if st.Name != "AggregateFunction" {
				return nil, raise("ILLEGAL_TYPE_OF_ARGUMENT", "illegal type %s of argument for aggregate function with -Merge suffix, must be AggregateFunction(...)", st)
			}
			fb := st.Func
			if fb == "median" {
				fb = "quantile"
			}
			if fb != base {
				return nil, raise("ILLEGAL_TYPE_OF_ARGUMENT", "argument of %s is a state of %s, not of %s", f.Name, st.Func, spec.base)
			}
			inner = st.Args
		}
		states := make([]Value, 0, len(rows))
		for _, r := range rows {
			if !isNull(r[0]) {
				states = append(states, r[0])
			}
		}
		return aggMerge(db, f.Name, base, states, inner, mode == "mergestate")
	}

	// NULL skipping (the -Null adaptor): a row with a NULL in any argument is ignored
	nullable := false
	for _, t := range argTypes {
		if t != nil && t.Name == "Nullable" {
			nullable = true
		}
	}
	if len(argTypes) > 0 {
		kept := rows[:0:0]
		for _, r := range rows {
			skip := false
			for _, v := range r {
				if isNull(v) {
					skip, nullable = true, true
				}
			}
			if !skip {
				kept = append(kept, r)
			}
		}
		rows = kept
	}
	inner := make([]*Type, len(argTypes))
	for i, t := range argTypes {
		if t != nil && t.Name == "Nullable" {
			t = t.Args[0]
		}
		inner[i] = t
	}
	if distinct {
		if base == "count" {
			base = "uniqExact" // count_distinct_implementation = uniqExact
		} else {
			seen := map[string]bool{}
			kept := rows[:0:0]
			for _, r := range rows {
				k := keyOf(Tuple(r))
				if !seen[k] {
					seen[k] = true
					kept = append(kept, r)
				}
			}
			rows = kept
		}
	}
	if len(rows) == 0 {
		if orNull {
			return Null{}, nil
		}
		if nullable && mode == "final" {
			switch base {
			case "count", "uniq", "uniqExact", "groupArray", "groupUniqArray":
			default:
				return Null{}, nil
			}
		}
		_ = orDefault
	}
	return aggBase(db, f.Name, base, params, rows, inner, mode == "state")
}

func wantArgs(name string, got, min, max int) error {
	if got < min || got > max {
		return raise("NUMBER_OF_ARGUMENTS_DOESNT_MATCH", "incorrect number of arguments (%d) for aggregate function %s", got, name)
	}
	return nil
}

func numericArg(name string, t *Type, rows [][]Value, i int) error {
	if t != nil && !isNumType(t) {
		return raise("ILLEGAL_TYPE_OF_ARGUMENT", "illegal type %s of argument for aggregate function %s", t, name)
	}
	for _, r := range rows {
		if !isNumeric(r[i]) {
			return raise("ILLEGAL_TYPE_OF_ARGUMENT", "illegal type %s of argument for aggregate function %s", typeOfValue(r[i]), name)
		}
	}
	return nil
}

// aggBase computes base(rows). state=true returns the modelled partial state instead of the final value.
func aggBase(db *DB, name, base string, params []Value, rows [][]Value, types []*Type, state bool) (Value, error) {
	argT := func(i int) *Type {
		if i < len(types) {
			return types[i]
		}
		return nil
	}
	if len(params) > 0 {
		switch base {
		case "quantile", "quantileExact", "groupArray", "groupUniqArray":
		default:
			return nil, raise("AGGREGATE_FUNCTION_DOESNT_ALLOW_PARAMETERS", "aggregate function %s cannot have parameters", name)
		}
	}
	switch base {
	case "count":
		// rule A10: count over nothing is 0
		if err := wantArgs(name, len(types), 0, 1); err != nil {
			return nil, err
		}
		return uint64(len(rows)), nil
	case "uniq", "uniqExact":
		// uniq is an adaptive-sampling estimate that is exact far beyond the table sizes used here
		if len(types) == 0 {
			return nil, raise("NUMBER_OF_ARGUMENTS_DOESNT_MATCH", "aggregate function %s requires at least one argument", name)
		}
		seen := map[string]bool{}
		var distinct Array
		for _, r := range rows {
			k := keyOf(Tuple(r))
			if !seen[k] {
				seen[k] = true
				if len(r) == 1 {
					distinct = append(distinct, r[0])
				} else {
					distinct = append(distinct, Tuple(append([]Value{}, r...)))
				}
			}
		}
		if state {
			if distinct == nil {
				distinct = Array{}
			}
			return distinct, nil
		}
		return uint64(len(seen)), nil
	case "sum":
		if err := wantArgs(name, len(types), 1, 1); err != nil {
			return nil, err
		}
		if err := numericArg(name, argT(0), rows, 0); err != nil {
			return nil, err
		}
		return sumValues(rows, argT(0))
	case "avg":
		if err := wantArgs(name, len(types), 1, 1); err != nil {
			return nil, err
		}
		if err := numericArg(name, argT(0), rows, 0); err != nil {
			return nil, err
		}
		s, err := sumValues(rows, argT(0))
		if err != nil && len(rows) > 0 {
			return nil, err
		}
		fs := 0.0
		if len(rows) > 0 {
			fs, _ = toFloat(s)
		}
		if state {
			return Tuple{fs, uint64(len(rows))}, nil
		}
		return fs / float64(len(rows)), nil // 0/0 = nan over an empty group
	case "min", "max":
		if err := wantArgs(name, len(types), 1, 1); err != nil {
			return nil, err
		}
		if len(rows) == 0 {
			return DefaultOf(argT(0))
		}
		best := rows[0][0]
		for _, r := range rows[1:] {
			c, un, err := compareValues(r[0], best)
			if err != nil {
				return nil, err
			}
			if un {
				continue
			}
			if base == "min" && c < 0 || base == "max" && c > 0 {
				best = r[0]
			}
		}
		return best, nil
	case "any", "anyLast":
		if err := wantArgs(name, len(types), 1, 1); err != nil {
			return nil, err
		}
		if len(rows) == 0 {
			return DefaultOf(argT(0))
		}
		// rule A10: any() = some value of the group; the interpreter takes the first (anyLast: the last)
		// and records a note when the group's values differ, so the caller can treat the case as ambiguous.
		k0 := keyOf(rows[0][0])
		for _, r := range rows[1:] {
			if keyOf(r[0]) != k0 {
				db.note("any() over differing values: " + name)
				break
			}
		}
		if base == "anyLast" {
			return rows[len(rows)-1][0], nil
		}
		return rows[0][0], nil
	case "argMin", "argMax":
		// rule A11: the value at the minimal / maximal key; ties → the first row reaching the extreme
		// (ClickHouse leaves the choice unspecified; a note is recorded when tied values differ).
		if err := wantArgs(name, len(types), 2, 2); err != nil {
			return nil, err
		}
		if len(rows) == 0 {
			if state {
				return DefaultOf(tTupleOrNil(argT(0), argT(1)))
			}
			return DefaultOf(argT(0))
		}
		best := 0
		for i := 1; i < len(rows); i++ {
			c, un, err := compareValues(rows[i][1], rows[best][1])
			if err != nil {
				return nil, err
			}
			if un {
				continue
			}
			if base == "argMin" && c < 0 || base == "argMax" && c > 0 {
				best = i
			}
		}
		for i := range rows {
			if i != best {
				if eq, _ := valuesEqual(rows[i][1], rows[best][1]); eq && keyOf(rows[i][0]) != keyOf(rows[best][0]) {
					db.note("argMin/argMax tie with differing values: " + name)
					break
				}
			}
		}
		if state {
			return Tuple{rows[best][0], rows[best][1]}, nil
		}
		return rows[best][0], nil
	case "groupArray", "groupUniqArray":
		if err := wantArgs(name, len(types), 1, 1); err != nil {
			return nil, err
		}
		max := -1
		if len(params) > 0 {
			if len(params) != 1 || !isInteger(params[0]) {
				return nil, raise("BAD_ARGUMENTS", "parameter of %s must be a positive integer", name)
			}
			b, _ := bitsOf(params[0])
			if int64(b) <= 0 {
				return nil, raise("BAD_ARGUMENTS", "parameter of %s must be a positive integer", name)
			}
			max = int(b)
		}
		res := Array{}
		seen := map[string]bool{}
		for _, r := range rows {
			if max >= 0 && len(res) >= max {
				break
			}
			if base == "groupUniqArray" {
				// first-appearance order (ClickHouse's order is that of a hash table: unspecified)
				k := keyOf(r[0])
				if seen[k] {
					continue
				}
				seen[k] = true
			}
			res = append(res, r[0])
		}
		return res, nil
	case "groupBitOr", "groupBitAnd", "groupBitXor":
		// rule A4: groupBitOr returns its argument's type
		if err := wantArgs(name, len(types), 1, 1); err != nil {
			return nil, err
		}
		if t := argT(0); t != nil && !isIntType(t) {
			return nil, raise("ILLEGAL_TYPE_OF_ARGUMENT", "the type %s of argument for aggregate function %s is illegal, because it cannot be used in bitwise operations", t, name)
		}
		if len(rows) == 0 {
			d, err := DefaultOf(argT(0))
			if err != nil {
				return nil, err
			}
			if base == "groupBitAnd" {
				k, _, _, _, size := numInfo(d)
				return makeInt(k == 'i', size, ^uint64(0)), nil
			}
			return d, nil
		}
		var acc uint64
		if base == "groupBitAnd" {
			acc = ^uint64(0)
		}
		for _, r := range rows {
			b, ok := bitsOf(r[0])
			if !ok {
				return nil, raise("ILLEGAL_TYPE_OF_ARGUMENT", "the type %s of argument for aggregate function %s is illegal", typeOfValue(r[0]), name)
			}
			switch base {
			case "groupBitOr":
				acc |= b
			case "groupBitAnd":
				acc &= b
			default:
				acc ^= b
			}
		}
		k, _, _, _, size := numInfo(rows[0][0])
		return makeInt(k == 'i', size, acc), nil
	case "varPop", "varSamp", "stddevPop", "stddevSamp":
		if state {
			return nil, unsupported("%sState", base)
		}
		if err := wantArgs(name, len(types), 1, 1); err != nil {
			return nil, err
		}
		if err := numericArg(name, argT(0), rows, 0); err != nil {
			return nil, err
		}
		// ClickHouse's VarMoments: m0 = n, m1 = Σx, m2 = Σx²;
		// population: max(0, (m2 − m1²/m0) / m0); sample: max(0, (m2 − m1²/m0) / (m0 − 1)); n = 0 (or 1 for sample) → nan
		var m0, m1, m2 float64
		for _, r := range rows {
			x, _ := toFloat(r[0])
			m0++
			m1 += x
			m2 += x * x
		}
		var v float64
		switch {
		case base == "varPop" || base == "stddevPop":
			if m0 == 0 {
				v = math.NaN()
			} else if m0 == 1 {
				v = 0
			} else {
				v = math.Max(0, (m2-m1*m1/m0)/m0)
			}
		default:
			if m0 <= 1 {
				v = math.NaN()
			} else {
				v = math.Max(0, (m2-m1*m1/m0)/(m0-1))
			}
		}
		if strings.HasPrefix(base, "stddev") {
			v = math.Sqrt(v)
		}
		return v, nil
	case "quantile", "quantileExact":
		if state {
			return nil, unsupported("%sState", base)
		}
		if err := wantArgs(name, len(types), 1, 1); err != nil {
			return nil, err
		}
		if err := numericArg(name, argT(0), rows, 0); err != nil {
			return nil, err
		}
		level := 0.5
		if len(params) > 0 {
			l, ok := toFloat(params[0])
			if !ok || len(params) != 1 {
				return nil, raise("BAD_ARGUMENTS", "quantile level must be a number")
			}
			level = l
		}
		if level < 0 || level > 1 || math.IsNaN(level) {
			return nil, raise("PARAMETER_OUT_OF_BOUND", "quantile level is out of range [0..1]")
		}
		vals := make([]Value, len(rows))
		for i, r := range rows {
			vals[i] = r[0]
		}
		var serr error
		sort.SliceStable(vals, func(a, b int) bool {
			c, err := sortCompare(vals[a], vals[b])
			if err != nil {
				serr = err
			}
			return c < 0
		})
		if serr != nil {
			return nil, serr
		}
		if base == "quantileExact" {
			if len(vals) == 0 {
				return DefaultOf(argT(0))
			}
			n := int(level * float64(len(vals)))
			if n >= len(vals) {
				n = len(vals) - 1
			}
			return vals[n], nil
		}
		// rule A20: ReservoirSampler::quantileInterpolated — linear interpolation between the closest
		// ranks of the sorted sample (exact below 8192 values); empty → nan.
		if len(vals) == 0 {
			return math.NaN(), nil
		}
		n := float64(len(vals))
		index := math.Max(0, math.Min(n-1, level*(n-1)))
		li := int(index)
		ri := li + 1
		lv, _ := toFloat(vals[li])
		if ri == len(vals) {
			return lv, nil
		}
		rv, _ := toFloat(vals[ri])
		return lv*(float64(ri)-index) + rv*(index-float64(li)), nil
	}
	return nil, unsupported("aggregate function %s", name)
}

func tTupleOrNil(a, b *Type) *Type {
	if a == nil || b == nil {
		return nil
	}
	return tTuple(a, b)
}

// sumValues: UInt* → UInt64, Int* → Int64 (both wrapping, rule A12), Float64 → Float64.
func sumValues(rows [][]Value, t *Type) (Value, error) {
	if len(rows) == 0 {
		return DefaultOf(sumType(t))
	}
	k, _, _, _, _ := numInfo(rows[0][0])
	switch k {
	case 'u':
		var s uint64
		for _, r := range rows {
			b, _ := bitsOf(r[0])
			s += b
		}
		return s, nil
	case 'i':
		var s int64
		for _, r := range rows {
			b, _ := bitsOf(r[0])
			s += int64(b)
		}
		return s, nil
	}
	var s float64
	for _, r := range rows {
		f, _ := toFloat(r[0])
		s += f
	}
	return s, nil
}

// aggMerge combines modelled partial states (see doc.go) — rule A21 for countMerge.
func aggMerge(db *DB, name, base string, states []Value, inner []*Type, asState bool) (Value, error) {
	innerT := func(i int) *Type {
		if i < len(inner) {
			return inner[i]
		}
		return nil
	}
	one := func(vs []Value) [][]Value {
		rows := make([][]Value, len(vs))
		for i, v := range vs {
			rows[i] = []Value{v}
		}
		return rows
	}
	switch base {
	case "count":
		var s uint64
		for _, st := range states {
			u, ok := st.(uint64)
			if !ok {
				return nil, raise("ILLEGAL_TYPE_OF_ARGUMENT", "%s: not a count state: %s", name, Format(st))
			}
			s += u
		}
		return s, nil
	case "sum":
		return aggBase(db, name, "sum", nil, one(states), []*Type{sumType(innerT(0))}, false)
	case "min", "max", "any", "anyLast", "groupBitOr", "groupBitAnd", "groupBitXor":
		return aggBase(db, name, base, nil, one(states), []*Type{innerT(0)}, false)
	case "argMin", "argMax":
		rows := make([][]Value, len(states))
		for i, st := range states {
			t, ok := st.(Tuple)
			if !ok || len(t) != 2 {
				return nil, raise("ILLEGAL_TYPE_OF_ARGUMENT", "%s: not an %s state: %s", name, base, Format(st))
			}
			rows[i] = []Value{t[0], t[1]}
		}
		return aggBase(db, name, base, nil, rows, []*Type{innerT(0), innerT(1)}, asState)
	case "avg":
		var s float64
		var n uint64
		for _, st := range states {
			t, ok := st.(Tuple)
			if !ok || len(t) != 2 {
				return nil, raise("ILLEGAL_TYPE_OF_ARGUMENT", "%s: not an avg state: %s", name, Format(st))
			}
			f, _ := toFloat(t[0])
			c, _ := bitsOf(t[1])
			s += f
			n += c
		}
		if asState {
			return Tuple{s, n}, nil
		}
		return s / float64(n), nil
	case "uniq", "uniqExact", "groupUniqArray", "groupArray":
		seen := map[string]bool{}
		res := Array{}
		for _, st := range states {
			a, ok := st.(Array)
			if !ok {
				return nil, raise("ILLEGAL_TYPE_OF_ARGUMENT", "%s: not a %s state: %s", name, base, Format(st))
			}
			for _, v := range a {
				if base != "groupArray" {
					k := keyOf(v)
					if seen[k] {
						continue
					}
					seen[k] = true
				}
				res = append(res, v)
			}
		}
		if asState || base == "groupUniqArray" || base == "groupArray" {
			return res, nil
		}
		return uint64(len(res)), nil
	}
	return nil, unsupported("%s (merge of %s states)", name, base)
}
