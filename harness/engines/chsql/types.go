package chsql

import (
	"fmt"
	"strings"
)

// Type is a parsed ClickHouse type name. A nil *Type means "unknown".
type Type struct {
	Name string  // "UInt8", "String", "Array", "Tuple", "Map", "Nullable", "FixedString", "Date", "DateTime", "Nothing", "AggregateFunction", …
	Args []*Type // element types for Array/Tuple/Map/Nullable; argument types for AggregateFunction
	N    int     // FixedString(N)
	Func string  // AggregateFunction(func, …) / SimpleAggregateFunction(func, …)
}

func (t *Type) String() string {
	if t == nil {
		return ""
	}
	switch t.Name {
	case "FixedString":
		return fmt.Sprintf("FixedString(%d)", t.N)
	case "AggregateFunction":
		parts := []string{t.Func}
		for _, a := range t.Args {
			parts = append(parts, a.String())
		}
		return "AggregateFunction(" + strings.Join(parts, ", ") + ")"
	}
	if len(t.Args) == 0 {
		return t.Name
	}
	parts := make([]string, len(t.Args))
	for i, a := range t.Args {
		parts[i] = a.String()
	}
	return t.Name + "(" + strings.Join(parts, ", ") + ")"
}

func tSimple(n string) *Type   { return &Type{Name: n} }
func tArray(e *Type) *Type     { return &Type{Name: "Array", Args: []*Type{e}} }
func tTuple(es ...*Type) *Type { return &Type{Name: "Tuple", Args: es} }
func tMap(k, v *Type) *Type    { return &Type{Name: "Map", Args: []*Type{k, v}} }
func tNullable(e *Type) *Type {
	if e == nil {
		return nil
	}
	if e.Name == "Nullable" {
		return e
	}
	return &Type{Name: "Nullable", Args: []*Type{e}}
}

var (
	tUInt8    = tSimple("UInt8")
	tUInt16   = tSimple("UInt16")
	tUInt32   = tSimple("UInt32")
	tUInt64   = tSimple("UInt64")
	tInt8     = tSimple("Int8")
	tInt16    = tSimple("Int16")
	tInt32    = tSimple("Int32")
	tInt64    = tSimple("Int64")
	tFloat64  = tSimple("Float64")
	tString   = tSimple("String")
	tDate     = tSimple("Date")
	tDateTime = tSimple("DateTime")
	tNothing  = tSimple("Nothing")
)

// ParseType parses a ClickHouse type name. LowCardinality(T) is transparent (returns T);
// Float32 is modelled as Float64; DateTime64(p[,tz]) and DateTime(tz) as DateTime; Bool as UInt8;
// Enum8/16 as String.
func ParseType(s string) (*Type, error) {
	p := &typeParser{s: s}
	t, err := p.parse()
	if err != nil {
		return nil, err
	}
	p.ws()
	if p.i != len(p.s) {
		return nil, fmt.Errorf("chsql: trailing characters in type %q", s)
	}
	return t, nil
}

func mustType(s string) *Type {
	t, err := ParseType(s)
	if err != nil {
		panic(err)
	}
	return t
}

type typeParser struct {
	s string
	i int
}

func (p *typeParser) ws() {
	for p.i < len(p.s) && (p.s[p.i] == ' ' || p.s[p.i] == '\t' || p.s[p.i] == '\n') {
		p.i++
	}
}

func (p *typeParser) ident() string {
	p.ws()
	st := p.i
	for p.i < len(p.s) {
		c := p.s[p.i]
		if c == '_' || c >= 'a' && c <= 'z' || c >= 'A' && c <= 'Z' || c >= '0' && c <= '9' {
			p.i++
		} else {
			break
		}
	}
	return p.s[st:p.i]
}

// skipArgs consumes a balanced "( … )" and returns its inner text.
func (p *typeParser) skipArgs() (string, error) {
	p.ws()
	if p.i >= len(p.s) || p.s[p.i] != '(' {
		return "", nil
	}
	depth := 0
	st := p.i
	inq := false
	for p.i < len(p.s) {
		c := p.s[p.i]
		if inq {
			if c == '\\' {
				p.i++
			} else if c == '\'' {
				inq = false
			}
		} else if c == '\'' {
			inq = true
		} else if c == '(' {
			depth++
		} else if c == ')' {
			depth--
			if depth == 0 {
				p.i++
				return p.s[st+1 : p.i-1], nil
			}
		}
		p.i++
	}
	return "", fmt.Errorf("chsql: unbalanced parentheses in type %q", p.s)
}

func (p *typeParser) list() ([]*Type, error) {
	p.ws()
	if p.i >= len(p.s) || p.s[p.i] != '(' {
		return nil, fmt.Errorf("chsql: expected '(' in type %q", p.s)
	}
	p.i++
	var res []*Type
	for {
		// Tuple elements may be named: "Tuple(a String, b UInt8)"; accept and drop the name.
		save := p.i
		name := p.ident()
		p.ws()
		if name != "" && p.i < len(p.s) && p.s[p.i] != '(' && p.s[p.i] != ',' && p.s[p.i] != ')' {
			// it was an element name
		} else {
			p.i = save
		}
		t, err := p.parse()
		if err != nil {
			return nil, err
		}
		res = append(res, t)
		p.ws()
		if p.i < len(p.s) && p.s[p.i] == ',' {
			p.i++
			continue
		}
		if p.i < len(p.s) && p.s[p.i] == ')' {
			p.i++
			return res, nil
		}
		return nil, fmt.Errorf("chsql: bad type list in %q", p.s)
	}
}

func (p *typeParser) parse() (*Type, error) {
	name := p.ident()
	if name == "" {
		return nil, fmt.Errorf("chsql: bad type %q", p.s)
	}
	switch name {
	case "UInt8", "UInt16", "UInt32", "UInt64", "Int8", "Int16", "Int32", "Int64", "Float64", "String", "Date", "Nothing":
		return tSimple(name), nil
	case "Bool":
		return tUInt8, nil
	case "Float32":
		return tFloat64, nil
	case "Date32":
		return tDate, nil
	case "DateTime", "DateTime64":
		if _, err := p.skipArgs(); err != nil {
			return nil, err
		}
		return tDateTime, nil
	case "Enum8", "Enum16", "Enum":
		if _, err := p.skipArgs(); err != nil {
			return nil, err
		}
		return tString, nil
	case "UUID", "IPv4", "IPv6", "Decimal", "Decimal32", "Decimal64", "Decimal128", "UInt128", "UInt256", "Int128", "Int256":
		return nil, fmt.Errorf("%w: type %s", ErrUnsupported, name)
	case "FixedString":
		in, err := p.skipArgs()
		if err != nil {
			return nil, err
		}
		n := 0
		if _, err := fmt.Sscanf(strings.TrimSpace(in), "%d", &n); err != nil || n <= 0 {
			return nil, fmt.Errorf("chsql: bad FixedString length in %q", p.s)
		}
		return &Type{Name: "FixedString", N: n}, nil
	case "LowCardinality":
		l, err := p.list()
		if err != nil {
			return nil, err
		}
		if len(l) != 1 {
			return nil, fmt.Errorf("chsql: LowCardinality takes one type")
		}
		return l[0], nil
	case "Nullable":
		l, err := p.list()
		if err != nil {
			return nil, err
		}
		if len(l) != 1 {
			return nil, fmt.Errorf("chsql: Nullable takes one type")
		}
		return tNullable(l[0]), nil
	case "Array":
		l, err := p.list()
		if err != nil {
			return nil, err
		}
		if len(l) != 1 {
			return nil, fmt.Errorf("chsql: Array takes one type")
		}
		return tArray(l[0]), nil
	case "Tuple":
		l, err := p.list()
		if err != nil {
			return nil, err
		}
		return tTuple(l...), nil
	case "Map":
		l, err := p.list()
		if err != nil {
			return nil, err
		}
		if len(l) != 2 {
			return nil, fmt.Errorf("chsql: Map takes two types")
		}
		return tMap(l[0], l[1]), nil
	case "SimpleAggregateFunction":
		// SimpleAggregateFunction(f, T) stores a plain T.
		p.ws()
		if p.i >= len(p.s) || p.s[p.i] != '(' {
			return nil, fmt.Errorf("chsql: bad SimpleAggregateFunction")
		}
		p.i++
		_ = p.ident()
		p.ws()
		if p.i >= len(p.s) || p.s[p.i] != ',' {
			return nil, fmt.Errorf("chsql: bad SimpleAggregateFunction")
		}
		p.i++
		t, err := p.parse()
		if err != nil {
			return nil, err
		}
		p.ws()
		if p.i >= len(p.s) || p.s[p.i] != ')' {
			return nil, fmt.Errorf("chsql: bad SimpleAggregateFunction")
		}
		p.i++
		return t, nil
	case "AggregateFunction":
		p.ws()
		if p.i >= len(p.s) || p.s[p.i] != '(' {
			return nil, fmt.Errorf("chsql: bad AggregateFunction")
		}
		p.i++
		fn := p.ident()
		// parametric function: f(params)
		if _, err := p.skipArgs(); err != nil {
			return nil, err
		}
		res := &Type{Name: "AggregateFunction", Func: fn}
		for {
			p.ws()
			if p.i < len(p.s) && p.s[p.i] == ')' {
				p.i++
				return res, nil
			}
			if p.i < len(p.s) && p.s[p.i] == ',' {
				p.i++
				t, err := p.parse()
				if err != nil {
					return nil, err
				}
				res.Args = append(res.Args, t)
				continue
			}
			return nil, fmt.Errorf("chsql: bad AggregateFunction type %q", p.s)
		}
	}
	return nil, fmt.Errorf("%w: type %s", ErrUnsupported, name)
}

// stateValueType returns the Go-level modelled type of an AggregateFunction column
// (see doc.go).
func stateValueType(t *Type) *Type {
	if t == nil || t.Name != "AggregateFunction" {
		return t
	}
	return aggStateType(t.Func, t.Args)
}

func isIntType(t *Type) bool {
	if t == nil {
		return false
	}
	switch t.Name {
	case "UInt8", "UInt16", "UInt32", "UInt64", "Int8", "Int16", "Int32", "Int64":
		return true
	}
	return false
}

func isNumType(t *Type) bool { return isIntType(t) || (t != nil && t.Name == "Float64") }

func isStringType(t *Type) bool { return t != nil && (t.Name == "String" || t.Name == "FixedString") }

func typesEqual(a, b *Type) bool {
	if a == nil || b == nil {
		return a == b
	}
	return a.String() == b.String()
}

// intTypeInfo returns (signed, bytes) of an integer type name.
func intTypeInfo(name string) (signed bool, size int, ok bool) {
	switch name {
	case "UInt8":
		return false, 1, true
	case "UInt16":
		return false, 2, true
	case "UInt32":
		return false, 4, true
	case "UInt64":
		return false, 8, true
	case "Int8":
		return true, 1, true
	case "Int16":
		return true, 2, true
	case "Int32":
		return true, 4, true
	case "Int64":
		return true, 8, true
	}
	return false, 0, false
}

func intTypeName(signed bool, size int) string {
	if size > 8 {
		size = 8
	}
	bits := size * 8
	if signed {
		return fmt.Sprintf("Int%d", bits)
	}
	return fmt.Sprintf("UInt%d", bits)
}

// DefaultOf returns the default value of a type (join_use_nulls=0 fill, empty aggregate results…).
func DefaultOf(t *Type) (Value, error) {
	if t == nil {
		return nil, fmt.Errorf("%w: cannot determine the default value of an expression of unknown type", ErrUnsupported)
	}
	switch t.Name {
	case "UInt8":
		return uint8(0), nil
	case "UInt16":
		return uint16(0), nil
	case "UInt32":
		return uint32(0), nil
	case "UInt64":
		return uint64(0), nil
	case "Int8":
		return int8(0), nil
	case "Int16":
		return int16(0), nil
	case "Int32":
		return int32(0), nil
	case "Int64":
		return int64(0), nil
	case "Float64":
		return float64(0), nil
	case "String":
		return "", nil
	case "FixedString":
		return strings.Repeat("\x00", t.N), nil
	case "Date":
		return Date(0), nil
	case "DateTime":
		return DateTime(0), nil
	case "Nullable", "Nothing":
		return Null{}, nil
	case "Array":
		return Array{}, nil
	case "Map":
		return &Map{}, nil
	case "Tuple":
		res := make(Tuple, len(t.Args))
		for i, a := range t.Args {
			v, err := DefaultOf(a)
			if err != nil {
				return nil, err
			}
			res[i] = v
		}
		return res, nil
	case "AggregateFunction":
		return DefaultOf(stateValueType(t))
	}
	return nil, fmt.Errorf("%w: default of type %s", ErrUnsupported, t)
}

// Conforms reports whether v is a legal Go representation of type t.
func Conforms(v Value, t *Type) bool {
	if t == nil {
		return true
	}
	switch t.Name {
	case "UInt8":
		_, ok := v.(uint8)
		return ok
	case "UInt16":
		_, ok := v.(uint16)
		return ok
	case "UInt32":
		_, ok := v.(uint32)
		return ok
	case "UInt64":
		_, ok := v.(uint64)
		return ok
	case "Int8":
		_, ok := v.(int8)
		return ok
	case "Int16":
		_, ok := v.(int16)
		return ok
	case "Int32":
		_, ok := v.(int32)
		return ok
	case "Int64":
		_, ok := v.(int64)
		return ok
	case "Float64":
		_, ok := v.(float64)
		return ok
	case "String":
		_, ok := v.(string)
		return ok
	case "FixedString":
		s, ok := v.(string)
		return ok && len(s) == t.N
	case "Date":
		_, ok := v.(Date)
		return ok
	case "DateTime":
		_, ok := v.(DateTime)
		return ok
	case "Nothing":
		_, ok := v.(Null)
		return ok
	case "Nullable":
		if _, ok := v.(Null); ok {
			return true
		}
		return Conforms(v, t.Args[0])
	case "Array":
		a, ok := v.(Array)
		if !ok {
			return false
		}
		for _, e := range a {
			if !Conforms(e, t.Args[0]) {
				return false
			}
		}
		return true
	case "Tuple":
		a, ok := v.(Tuple)
		if !ok || len(a) != len(t.Args) {
			return false
		}
		for i, e := range a {
			if !Conforms(e, t.Args[i]) {
				return false
			}
		}
		return true
	case "Map":
		m, ok := v.(*Map)
		if !ok || m == nil || len(m.Keys) != len(m.Vals) {
			return false
		}
		for i := range m.Keys {
			if !Conforms(m.Keys[i], t.Args[0]) || !Conforms(m.Vals[i], t.Args[1]) {
				return false
			}
		}
		return true
	case "AggregateFunction":
		return Conforms(v, stateValueType(t))
	}
	return false
}

// typeOfValue derives a type from a dynamic value (element types of empty containers are Nothing).
func typeOfValue(v Value) *Type {
	switch x := v.(type) {
	case uint8:
		return tUInt8
	case uint16:
		return tUInt16
	case uint32:
		return tUInt32
	case uint64:
		return tUInt64
	case int8:
		return tInt8
	case int16:
		return tInt16
	case int32:
		return tInt32
	case int64:
		return tInt64
	case float64:
		return tFloat64
	case string:
		return tString
	case Date:
		return tDate
	case DateTime:
		return tDateTime
	case Null:
		return tNullable(tNothing)
	case Array:
		var et *Type = tNothing
		for i, e := range x {
			t := typeOfValue(e)
			if i == 0 {
				et = t
			} else if s := superType(et, t); s != nil {
				et = s
			}
		}
		return tArray(et)
	case Tuple:
		ts := make([]*Type, len(x))
		for i, e := range x {
			ts[i] = typeOfValue(e)
		}
		return tTuple(ts...)
	case *Map:
		var kt, vt *Type = tNothing, tNothing
		if len(x.Keys) > 0 {
			kt, vt = typeOfValue(x.Keys[0]), typeOfValue(x.Vals[0])
		}
		return tMap(kt, vt)
	}
	return nil
}

// superType is ClickHouse's getLeastSupertype for the types the subset uses; nil = none.
func superType(a, b *Type) *Type {
	if a == nil || b == nil {
		return nil
	}
	if typesEqual(a, b) {
		return a
	}
	if a.Name == "Nothing" {
		return b
	}
	if b.Name == "Nothing" {
		return a
	}
	if a.Name == "Nullable" || b.Name == "Nullable" {
		ia, ib := a, b
		if a.Name == "Nullable" {
			ia = a.Args[0]
		}
		if b.Name == "Nullable" {
			ib = b.Args[0]
		}
		s := superType(ia, ib)
		if s == nil {
			return nil
		}
		return tNullable(s)
	}
	if isStringType(a) && isStringType(b) {
		return tString // FixedString(N) vs String / different N → String
	}
	if isNumType(a) && isNumType(b) {
		if a.Name == "Float64" || b.Name == "Float64" {
			// Float64 can hold ints up to 32 bits exactly; ClickHouse refuses Int64/UInt64 + Float64
			// supertype only for 64-bit ints ("no supertype") — in newer versions it returns Float64.
			return tFloat64
		}
		sa, za, _ := intTypeInfo(a.Name)
		sb, zb, _ := intTypeInfo(b.Name)
		if sa == sb {
			if za >= zb {
				return a
			}
			return b
		}
		// mixed signedness: signed type strictly bigger than the unsigned one
		uz, sz := za, zb
		if sa {
			uz, sz = zb, za
		}
		need := sz
		if uz >= sz {
			need = uz * 2
		}
		if need > 8 {
			return nil // Int64 vs UInt64: no supertype
		}
		return tSimple(intTypeName(true, need))
	}
	if a.Name == "Date" && b.Name == "DateTime" || a.Name == "DateTime" && b.Name == "Date" {
		return tDateTime
	}
	if a.Name != b.Name {
		return nil
	}
	switch a.Name {
	case "Array", "Map", "Tuple":
		if len(a.Args) != len(b.Args) {
			return nil
		}
		args := make([]*Type, len(a.Args))
		for i := range a.Args {
			args[i] = superType(a.Args[i], b.Args[i])
			if args[i] == nil {
				return nil
			}
		}
		return &Type{Name: a.Name, Args: args}
	}
	return nil
}
