package chsql

import (
	"bufio"
	"errors"
	"os"
	"strings"
	"testing"
)

func corpusStatements(t testing.TB, file string) []string {
	f, err := os.Open(file)
	if err != nil {
		t.Fatalf("open corpus: %v", err)
	}
	defer f.Close()
	var res []string
	sc := bufio.NewScanner(f)
	sc.Buffer(make([]byte, 1<<20), 1<<26)
	for sc.Scan() {
		line := sc.Text()
		if strings.HasPrefix(line, "###") || strings.TrimSpace(line) == "" {
			continue
		}
		res = append(res, line)
	}
	if err := sc.Err(); err != nil {
		t.Fatal(err)
	}
	return res
}

var corpusFiles = []string{"/verif/design/sql_corpus_single.txt", "/verif/design/sql_corpus_cluster.txt"}

func TestCorpusParses(t *testing.T) {
	total, failed := 0, 0
	for _, file := range corpusFiles {
		for _, sql := range corpusStatements(t, file) {
			total++
			if _, err := Parse(sql); err != nil {
				failed++
				if failed <= 10 {
					t.Errorf("parse failed: %v\n  %s", err, sql)
				}
			}
		}
	}
	t.Logf("corpus: %d statements, %d parse failures", total, failed)
	if total < 150 {
		t.Fatalf("corpus too small: %d", total)
	}
}

// Every corpus statement executes against the empty qryn schema without ErrUnsupported
// (a RaiseError is a legitimate outcome: ClickHouse itself rejects some of the captured statements).
func TestCorpusExecutes(t *testing.T) {
	total, unsupportedN, raised, ok := 0, 0, 0, 0
	raises := map[string]int{}
	for fi, file := range corpusFiles {
		db := QrynSchema(fi == 1)
		db.StrictTypes = true
		for _, sql := range corpusStatements(t, file) {
			total++
			_, err := db.Exec(sql)
			var re *RaiseError
			switch {
			case err == nil:
				ok++
			case errors.As(err, &re):
				raised++
				raises[re.Rule+": "+re.Msg]++
			default:
				unsupportedN++
				if unsupportedN <= 10 {
					t.Errorf("not executed: %v\n  %s", err, sql)
				}
			}
		}
		if c := db.HashCollisions(); len(c) > 0 {
			t.Errorf("hash collisions: %v", c)
		}
	}
	for k, n := range raises {
		t.Logf("raise ×%d: %s", n, k)
	}
	t.Logf("corpus: %d statements, %d executed, %d raise (ClickHouse would reject), %d unsupported", total, ok, raised, unsupportedN)
	if unsupportedN != 0 {
		t.Fatalf("%d corpus statements could not be executed", unsupportedN)
	}
}
