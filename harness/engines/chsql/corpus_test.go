package chsql

import (
	"bufio"
	"os"
	"strings"
	"testing"
)

func corpusStatements(t testing.TB, file string) []string {
	f, err := os.Open(file)
	if err != nil {
		t.Fatalf("open corpus: %v", err)
	}
	defer f.Close()
	var res []string
	sc := bufio.NewScanner(f)
	sc.Buffer(make([]byte, 1<<20), 1<<26)
	for sc.Scan() {
		line := sc.Text()
		if strings.HasPrefix(line, "###") || strings.TrimSpace(line) == "" {
			continue
		}
		res = append(res, line)
	}
	if err := sc.Err(); err != nil {
		t.Fatal(err)
	}
	return res
}

var corpusFiles = []string{"/verif/design/sql_corpus_single.txt", "/verif/design/sql_corpus_cluster.txt"}

func TestCorpusParses(t *testing.T) {
	total, failed := 0, 0
	for _, file := range corpusFiles {
		for _, sql := range corpusStatements(t, file) {
			total++
			if _, err := Parse(sql); err != nil {
				failed++
				if failed <= 10 {
					t.Errorf("parse failed: %v\n  %s", err, sql)
				}
			}
		}
	}
	t.Logf("corpus: %d statements, %d parse failures", total, failed)
	if total < 150 {
		t.Fatalf("corpus too small: %d", total)
	}
}
