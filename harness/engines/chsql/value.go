package chsql

import (
	"errors"
	"fmt"
	"math"
	"math/big"
	"strconv"
	"strings"
	"time"
)

// Value is a dynamically typed ClickHouse value; see doc.go for the permitted Go types.
type Value = any

// Array is Array(T).
type Array []Value

// Tuple is Tuple(T1, …).
type Tuple []Value

// Map is Map(K, V) with insertion order preserved (ClickHouse maps are arrays of pairs).
type Map struct {
	Keys []Value
	Vals []Value
}

// Null is SQL NULL.
type Null struct{}

// Date is days since 1970-01-01.
type Date int32

// DateTime is unix seconds (UTC).
type DateTime int64

// ErrUnsupported marks statements outside the implemented subset.
var ErrUnsupported = errors.New("chsql: unsupported")

// RaiseError is a statement ClickHouse itself would reject (at analysis or at run time).
type RaiseError struct {
	Rule string // Appendix-A rule number ("A12", "A16", …) or a ClickHouse error-code name
	Msg  string
}

func (e *RaiseError) Error() string { return "chsql: statement raises [" + e.Rule + "]: " + e.Msg }

func raise(rule, format string, args ...any) error {
	return &RaiseError{Rule: rule, Msg: fmt.Sprintf(format, args...)}
}

func unsupported(format string, args ...any) error {
	return fmt.Errorf("%w: %s", ErrUnsupported, fmt.Sprintf(format, args...))
}

// MapOf builds a Map(String,String) from alternating keys and values.
func MapOf(kv ...string) *Map {
	if len(kv)%2 != 0 {
		panic("chsql.MapOf: odd number of arguments")
	}
	m := &Map{}
	for i := 0; i < len(kv); i += 2 {
		m.Keys = append(m.Keys, kv[i])
		m.Vals = append(m.Vals, kv[i+1])
	}
	return m
}

// Get looks up a string key; like ClickHouse's m[k] it returns the first matching entry.
func (m *Map) Get(k string) (string, bool) {
	if m == nil {
		return "", false
	}
	for i, key := range m.Keys {
		if s, ok := key.(string); ok && s == k {
			if v, ok := m.Vals[i].(string); ok {
				return v, true
			}
			return "", false
		}
	}
	return "", false
}

func (m *Map) clone() *Map {
	return &Map{Keys: append([]Value(nil), m.Keys...), Vals: append([]Value(nil), m.Vals...)}
}

func isNull(v Value) bool { _, ok := v.(Null); return ok }

// ---- numeric helpers ------------------------------------------------------------------

// numInfo classifies a numeric value: kind 'u' (unsigned), 'i' (signed), 'f' (float), 0 otherwise.
func numInfo(v Value) (kind byte, u uint64, i int64, f float64, size int) {
	switch x := v.(type) {
	case uint8:
		return 'u', uint64(x), 0, 0, 1
	case uint16:
		return 'u', uint64(x), 0, 0, 2
	case uint32:
		return 'u', uint64(x), 0, 0, 4
	case uint64:
		return 'u', x, 0, 0, 8
	case int8:
		return 'i', 0, int64(x), 0, 1
	case int16:
		return 'i', 0, int64(x), 0, 2
	case int32:
		return 'i', 0, int64(x), 0, 4
	case int64:
		return 'i', 0, x, 0, 8
	case float64:
		return 'f', 0, 0, x, 8
	}
	return 0, 0, 0, 0, 0
}

func isNumeric(v Value) bool { k, _, _, _, _ := numInfo(v); return k != 0 }
func isInteger(v Value) bool { k, _, _, _, _ := numInfo(v); return k == 'u' || k == 'i' }

// toFloat converts any numeric to float64.
func toFloat(v Value) (float64, bool) {
	k, u, i, f, _ := numInfo(v)
	switch k {
	case 'u':
		return float64(u), true
	case 'i':
		return float64(i), true
	case 'f':
		return f, true
	}
	return 0, false
}

// bitsOf returns the two's-complement 64-bit pattern of an integer value (sign-extended).
func bitsOf(v Value) (uint64, bool) {
	k, u, i, _, _ := numInfo(v)
	switch k {
	case 'u':
		return u, true
	case 'i':
		return uint64(i), true
	}
	return 0, false
}

// makeInt builds an integer value of the given signedness/size from a 64-bit pattern (wrapping).
func makeInt(signed bool, size int, bits uint64) Value {
	if signed {
		switch size {
		case 1:
			return int8(bits)
		case 2:
			return int16(bits)
		case 4:
			return int32(bits)
		default:
			return int64(bits)
		}
	}
	switch size {
	case 1:
		return uint8(bits)
	case 2:
		return uint16(bits)
	case 4:
		return uint32(bits)
	default:
		return bits
	}
}

// compareNum compares two numeric values accurately (no precision loss between
// Int64/UInt64/Float64, as ClickHouse's accurate::lessOp/equalsOp do). nan=true if either is NaN.
func compareNum(a, b Value) (cmp int, nan bool) {
	ka, ua, ia, fa, _ := numInfo(a)
	kb, ub, ib, fb, _ := numInfo(b)
	if ka == 'f' && math.IsNaN(fa) || kb == 'f' && math.IsNaN(fb) {
		return 0, true
	}
	switch {
	case ka == 'u' && kb == 'u':
		return cmpU(ua, ub), false
	case ka == 'i' && kb == 'i':
		return cmpI(ia, ib), false
	case ka == 'u' && kb == 'i':
		if ib < 0 {
			return 1, false
		}
		return cmpU(ua, uint64(ib)), false
	case ka == 'i' && kb == 'u':
		if ia < 0 {
			return -1, false
		}
		return cmpU(uint64(ia), ub), false
	case ka == 'f' && kb == 'f':
		switch {
		case fa < fb:
			return -1, false
		case fa > fb:
			return 1, false
		}
		return 0, false
	case ka == 'f':
		return -cmpIntFloat(kb, ub, ib, fa), false
	default:
		return cmpIntFloat(ka, ua, ia, fb), false
	}
}

func cmpU(a, b uint64) int {
	if a < b {
		return -1
	}
	if a > b {
		return 1
	}
	return 0
}

func cmpI(a, b int64) int {
	if a < b {
		return -1
	}
	if a > b {
		return 1
	}
	return 0
}

// cmpIntFloat compares an integer with a (non-NaN) float exactly.
func cmpIntFloat(k byte, u uint64, i int64, f float64) int {
	if math.IsInf(f, 1) {
		return -1
	}
	if math.IsInf(f, -1) {
		return 1
	}
	bi := new(big.Float).SetPrec(128)
	if k == 'u' {
		bi.SetUint64(u)
	} else {
		bi.SetInt64(i)
	}
	return bi.Cmp(new(big.Float).SetPrec(128).SetFloat64(f))
}

// ---- generic comparison ------------------------------------------------------------------

// valueClass groups dynamic types that can be compared with each other.
func valueClass(v Value) string {
	switch v.(type) {
	case uint8, uint16, uint32, uint64, int8, int16, int32, int64, float64:
		return "num"
	case string:
		return "str"
	case Date:
		return "date"
	case DateTime:
		return "datetime"
	case Array:
		return "array"
	case Tuple:
		return "tuple"
	case *Map:
		return "map"
	case Null:
		return "null"
	}
	return "?"
}

// compareValues orders two non-NULL values of comparable classes. unordered is true when a NaN is
// involved (all of < <= > >= == are then false). It raises on incomparable types (ClickHouse:
// NO_COMMON_TYPE / ILLEGAL_TYPE_OF_ARGUMENT).
func compareValues(a, b Value) (cmp int, unordered bool, err error) {
	ca, cb := valueClass(a), valueClass(b)
	if ca != cb {
		// Date vs DateTime: the date is midnight UTC.
		if ca == "date" && cb == "datetime" {
			return cmpI(int64(a.(Date))*86400, int64(b.(DateTime))), false, nil
		}
		if ca == "datetime" && cb == "date" {
			return cmpI(int64(a.(DateTime)), int64(b.(Date))*86400), false, nil
		}
		return 0, false, raise("ILLEGAL_TYPE_OF_ARGUMENT", "cannot compare %s with %s", typeOfValue(a), typeOfValue(b))
	}
	switch ca {
	case "num":
		c, nan := compareNum(a, b)
		return c, nan, nil
	case "str":
		return strings.Compare(a.(string), b.(string)), false, nil
	case "date":
		return cmpI(int64(a.(Date)), int64(b.(Date))), false, nil
	case "datetime":
		return cmpI(int64(a.(DateTime)), int64(b.(DateTime))), false, nil
	case "array":
		x, y := a.(Array), b.(Array)
		for i := 0; i < len(x) && i < len(y); i++ {
			if isNull(x[i]) || isNull(y[i]) {
				if isNull(x[i]) && isNull(y[i]) {
					continue
				}
				if isNull(x[i]) {
					return 1, false, nil
				}
				return -1, false, nil
			}
			c, un, err := compareValues(x[i], y[i])
			if err != nil {
				return 0, false, err
			}
			if un {
				return 0, true, nil
			}
			if c != 0 {
				return c, false, nil
			}
		}
		return cmpI(int64(len(x)), int64(len(y))), false, nil
	case "tuple":
		x, y := a.(Tuple), b.(Tuple)
		if len(x) != len(y) {
			return 0, false, raise("ILLEGAL_TYPE_OF_ARGUMENT", "cannot compare tuples of different sizes (%d and %d)", len(x), len(y))
		}
		for i := range x {
			if isNull(x[i]) || isNull(y[i]) {
				if isNull(x[i]) && isNull(y[i]) {
					continue
				}
				if isNull(x[i]) {
					return 1, false, nil
				}
				return -1, false, nil
			}
			c, un, err := compareValues(x[i], y[i])
			if err != nil {
				return 0, false, err
			}
			if un {
				return 0, true, nil
			}
			if c != 0 {
				return c, false, nil
			}
		}
		return 0, false, nil
	case "map":
		// ClickHouse supports only equality on maps; ordering compares the underlying arrays of pairs.
		x, y := a.(*Map), b.(*Map)
		return compareValues(mapAsArray(x), mapAsArray(y))
	}
	return 0, false, raise("ILLEGAL_TYPE_OF_ARGUMENT", "cannot compare values of type %s", typeOfValue(a))
}

func mapAsArray(m *Map) Array {
	res := make(Array, len(m.Keys))
	for i := range m.Keys {
		res[i] = Tuple{m.Keys[i], m.Vals[i]}
	}
	return res
}

// valuesEqual is equality as the `=` operator sees it (NaN ≠ NaN), for non-NULL operands.
func valuesEqual(a, b Value) (bool, error) {
	c, un, err := compareValues(a, b)
	if err != nil {
		return false, err
	}
	return !un && c == 0, nil
}

// sortCompare is the total order used by ORDER BY / arraySort / min / max:
// NaN greater than every number (ClickHouse default nan_direction_hint for ASC puts NaN last),
// NULL greater than everything (NULLS LAST).
func sortCompare(a, b Value) (int, error) {
	na, nb := isNull(a), isNull(b)
	if na || nb {
		switch {
		case na && nb:
			return 0, nil
		case na:
			return 1, nil
		}
		return -1, nil
	}
	if fa, ok := a.(float64); ok && math.IsNaN(fa) {
		if fb, ok := b.(float64); ok && math.IsNaN(fb) {
			return 0, nil
		}
		return 1, nil
	}
	if fb, ok := b.(float64); ok && math.IsNaN(fb) {
		return -1, nil
	}
	switch x := a.(type) {
	case Array:
		y, ok := b.(Array)
		if !ok {
			break
		}
		for i := 0; i < len(x) && i < len(y); i++ {
			c, err := sortCompare(x[i], y[i])
			if err != nil || c != 0 {
				return c, err
			}
		}
		return cmpI(int64(len(x)), int64(len(y))), nil
	case Tuple:
		y, ok := b.(Tuple)
		if !ok || len(x) != len(y) {
			break
		}
		for i := range x {
			c, err := sortCompare(x[i], y[i])
			if err != nil || c != 0 {
				return c, err
			}
		}
		return 0, nil
	}
	c, _, err := compareValues(a, b)
	return c, err
}

// ---- keys (grouping, DISTINCT, sets, join hash) ---------------------------------------------

// keyOf serialises a value so that two values have the same key iff GROUP BY / DISTINCT / IN / JOIN
// treat them as the same: integers of any width and integral floats share a key when numerically
// equal; NaNs share a key (GROUP BY semantics; the callers that need `=` semantics reject NaN first).
func keyOf(v Value) string {
	var sb strings.Builder
	writeKey(&sb, v)
	return sb.String()
}

func writeKey(sb *strings.Builder, v Value) {
	switch x := v.(type) {
	case Null:
		sb.WriteString("N;")
	case string:
		sb.WriteString("s")
		sb.WriteString(strconv.Itoa(len(x)))
		sb.WriteByte(':')
		sb.WriteString(x)
	case Date:
		sb.WriteString("d")
		sb.WriteString(strconv.FormatInt(int64(x), 10))
		sb.WriteByte(';')
	case DateTime:
		sb.WriteString("t")
		sb.WriteString(strconv.FormatInt(int64(x), 10))
		sb.WriteByte(';')
	case Array:
		sb.WriteString("[")
		sb.WriteString(strconv.Itoa(len(x)))
		sb.WriteByte(':')
		for _, e := range x {
			writeKey(sb, e)
		}
		sb.WriteString("]")
	case Tuple:
		sb.WriteString("(")
		sb.WriteString(strconv.Itoa(len(x)))
		sb.WriteByte(':')
		for _, e := range x {
			writeKey(sb, e)
		}
		sb.WriteString(")")
	case *Map:
		sb.WriteString("{")
		sb.WriteString(strconv.Itoa(len(x.Keys)))
		sb.WriteByte(':')
		for i := range x.Keys {
			writeKey(sb, x.Keys[i])
			writeKey(sb, x.Vals[i])
		}
		sb.WriteString("}")
	default:
		k, u, i, f, _ := numInfo(v)
		switch k {
		case 'u':
			sb.WriteString("i")
			sb.WriteString(strconv.FormatUint(u, 10))
		case 'i':
			sb.WriteString("i")
			sb.WriteString(strconv.FormatInt(i, 10))
		case 'f':
			switch {
			case math.IsNaN(f):
				sb.WriteString("fNaN")
			case f == 0:
				sb.WriteString("i0") // −0.0 = 0.0 = 0
			case f == math.Trunc(f) && math.Abs(f) < 1.8446744073709552e19:
				// integral: share the key with the numerically equal integer
				sb.WriteString("i")
				sb.WriteString(new(big.Float).SetFloat64(f).Text('f', 0))
			default:
				sb.WriteString("f")
				sb.WriteString(strconv.FormatUint(math.Float64bits(f), 16))
			}
		default:
			sb.WriteString(fmt.Sprintf("?%T", v))
		}
		sb.WriteByte(';')
	}
}

// containsNaN reports whether a value contains a NaN anywhere (such values never satisfy `=`).
func containsNaN(v Value) bool {
	switch x := v.(type) {
	case float64:
		return math.IsNaN(x)
	case Array:
		for _, e := range x {
			if containsNaN(e) {
				return true
			}
		}
	case Tuple:
		for _, e := range x {
			if containsNaN(e) {
				return true
			}
		}
	case *Map:
		for i := range x.Keys {
			if containsNaN(x.Keys[i]) || containsNaN(x.Vals[i]) {
				return true
			}
		}
	}
	return false
}

func containsNull(v Value) bool {
	switch x := v.(type) {
	case Null:
		return true
	case Tuple:
		for _, e := range x {
			if containsNull(e) {
				return true
			}
		}
	}
	return false
}

// ---- formatting ----------------------------------------------------------------------------

// Format renders a value in ClickHouse's text style (top level unquoted, nested strings quoted).
func Format(v Value) string { return formatValue(v, false) }

func formatFloat(f float64) string {
	switch {
	case math.IsNaN(f):
		return "nan"
	case math.IsInf(f, 1):
		return "inf"
	case math.IsInf(f, -1):
		return "-inf"
	}
	// ClickHouse prints the shortest round-trip representation; exponent form for very large/small.
	s := strconv.FormatFloat(f, 'g', -1, 64)
	if strings.ContainsAny(s, "e") {
		a := math.Abs(f)
		if a >= 1e-6 && a < 1e21 {
			s = strconv.FormatFloat(f, 'f', -1, 64)
		} else {
			// Go: 1e+21 → ClickHouse: 1e21 ; 1e-07 → 1e-7
			mant, exp, _ := strings.Cut(s, "e")
			sign := ""
			if strings.HasPrefix(exp, "-") {
				sign = "-"
			}
			exp = strings.TrimLeft(exp, "+-0")
			s = mant + "e" + sign + exp
		}
	}
	return s
}

func quoteString(s string) string {
	var sb strings.Builder
	sb.WriteByte('\'')
	for i := 0; i < len(s); i++ {
		c := s[i]
		switch c {
		case '\\':
			sb.WriteString(`\\`)
		case '\'':
			sb.WriteString(`\'`)
		case '\n':
			sb.WriteString(`\n`)
		case '\t':
			sb.WriteString(`\t`)
		case '\r':
			sb.WriteString(`\r`)
		case 0:
			sb.WriteString(`\0`)
		case '\b':
			sb.WriteString(`\b`)
		case '\f':
			sb.WriteString(`\f`)
		default:
			sb.WriteByte(c)
		}
	}
	sb.WriteByte('\'')
	return sb.String()
}

func formatValue(v Value, nested bool) string {
	switch x := v.(type) {
	case nil:
		return "<nil>"
	case Null:
		if nested {
			return "NULL"
		}
		return "\\N"
	case string:
		if nested {
			return quoteString(x)
		}
		return x
	case float64:
		return formatFloat(x)
	case Date:
		s := time.Unix(int64(x)*86400, 0).UTC().Format("2006-01-02")
		if nested {
			return "'" + s + "'"
		}
		return s
	case DateTime:
		s := time.Unix(int64(x), 0).UTC().Format("2006-01-02 15:04:05")
		if nested {
			return "'" + s + "'"
		}
		return s
	case Array:
		parts := make([]string, len(x))
		for i, e := range x {
			parts[i] = formatValue(e, true)
		}
		return "[" + strings.Join(parts, ",") + "]"
	case Tuple:
		parts := make([]string, len(x))
		for i, e := range x {
			parts[i] = formatValue(e, true)
		}
		return "(" + strings.Join(parts, ",") + ")"
	case *Map:
		parts := make([]string, len(x.Keys))
		for i := range x.Keys {
			parts[i] = formatValue(x.Keys[i], true) + ":" + formatValue(x.Vals[i], true)
		}
		return "{" + strings.Join(parts, ",") + "}"
	}
	k, u, i, _, _ := numInfo(v)
	switch k {
	case 'u':
		return strconv.FormatUint(u, 10)
	case 'i':
		return strconv.FormatInt(i, 10)
	}
	return fmt.Sprintf("<%T %v>", v, v)
}

// ---- casting -------------------------------------------------------------------------------

// floatToIntBits converts a float to a 64-bit pattern the way a C++ static_cast to a 64-bit
// integer followed by narrowing does for in-range values. Out-of-range / NaN conversions are
// undefined behaviour in ClickHouse; we refuse them so no verdict depends on them.
func floatToIntBits(f float64, signed bool) (uint64, error) {
	if math.IsNaN(f) || math.IsInf(f, 0) {
		return 0, unsupported("conversion of %v to an integer is undefined in ClickHouse", f)
	}
	t := math.Trunc(f)
	if signed {
		if t < -9.223372036854775808e18 || t >= 9.223372036854775808e18 {
			return 0, unsupported("conversion of out-of-range float %v to a signed integer is undefined in ClickHouse", f)
		}
		return uint64(int64(t)), nil
	}
	if t >= 1.8446744073709552e19 || t <= -9.223372036854775808e18 {
		return 0, unsupported("conversion of out-of-range float %v to an unsigned integer is undefined in ClickHouse", f)
	}
	if t < 0 {
		return uint64(int64(t)), nil
	}
	return uint64(t), nil
}

// castValue converts v to type t with CAST semantics (integers wrap, strings are parsed strictly).
func castValue(v Value, t *Type) (Value, error) {
	if t == nil {
		return v, nil
	}
	if Conforms(v, t) && t.Name != "Nullable" && t.Name != "Array" && t.Name != "Tuple" && t.Name != "Map" {
		return v, nil
	}
	if isNull(v) {
		if t.Name == "Nullable" || t.Name == "Nothing" {
			return v, nil
		}
		return nil, raise("CANNOT_INSERT_NULL_IN_ORDINARY_COLUMN", "cannot convert NULL to %s", t)
	}
	switch t.Name {
	case "Nullable":
		return castValue(v, t.Args[0])
	case "UInt8", "UInt16", "UInt32", "UInt64", "Int8", "Int16", "Int32", "Int64":
		signed, size, _ := intTypeInfo(t.Name)
		switch x := v.(type) {
		case string:
			return parseIntStrict(x, signed, size, t.Name)
		case Date:
			return makeInt(signed, size, uint64(int64(x))), nil
		case DateTime:
			return makeInt(signed, size, uint64(int64(x))), nil
		case float64:
			bits, err := floatToIntBits(x, signed)
			if err != nil {
				return nil, err
			}
			return makeInt(signed, size, bits), nil
		}
		if bits, ok := bitsOf(v); ok {
			return makeInt(signed, size, bits), nil
		}
	case "Float64":
		if f, ok := toFloat(v); ok {
			return f, nil
		}
		if s, ok := v.(string); ok {
			f, ok := parseFloatText(s)
			if !ok {
				return nil, raise("CANNOT_PARSE_TEXT", "cannot parse %q as Float64", s)
			}
			return f, nil
		}
		if d, ok := v.(Date); ok {
			return float64(d), nil
		}
		if d, ok := v.(DateTime); ok {
			return float64(d), nil
		}
	case "String":
		switch x := v.(type) {
		case string:
			return x, nil
		default:
			return formatValue(v, false), nil
		}
	case "FixedString":
		if s, ok := v.(string); ok {
			if len(s) > t.N {
				return nil, raise("TOO_LARGE_STRING_SIZE", "string too long for FixedString(%d)", t.N)
			}
			return s + strings.Repeat("\x00", t.N-len(s)), nil
		}
	case "Date":
		switch x := v.(type) {
		case string:
			d, ok := parseDate(x)
			if !ok {
				return nil, raise("CANNOT_PARSE_DATE", "cannot parse %q as Date", x)
			}
			return d, nil
		case DateTime:
			return Date(floorDiv(int64(x), 86400)), nil
		case Date:
			return x, nil
		}
		if f, ok := toFloat(v); ok {
			// toDate(number): small numbers (< 65536) are day numbers, larger are unix timestamps.
			if f >= 0 && f <= 65535 {
				return Date(int32(f)), nil
			}
			return Date(floorDiv(int64(f), 86400)), nil
		}
	case "DateTime":
		switch x := v.(type) {
		case string:
			d, ok := parseDateTime(x)
			if !ok {
				return nil, raise("CANNOT_PARSE_DATETIME", "cannot parse %q as DateTime", x)
			}
			return d, nil
		case Date:
			return DateTime(int64(x) * 86400), nil
		case DateTime:
			return x, nil
		}
		if f, ok := toFloat(v); ok {
			return DateTime(int64(f)), nil
		}
	case "Array":
		if a, ok := v.(Array); ok {
			res := make(Array, len(a))
			for i, e := range a {
				c, err := castValue(e, t.Args[0])
				if err != nil {
					return nil, err
				}
				res[i] = c
			}
			return res, nil
		}
	case "Tuple":
		if a, ok := v.(Tuple); ok && len(a) == len(t.Args) {
			res := make(Tuple, len(a))
			for i, e := range a {
				c, err := castValue(e, t.Args[i])
				if err != nil {
					return nil, err
				}
				res[i] = c
			}
			return res, nil
		}
	case "Map":
		switch x := v.(type) {
		case *Map:
			res := &Map{}
			for i := range x.Keys {
				k, err := castValue(x.Keys[i], t.Args[0])
				if err != nil {
					return nil, err
				}
				val, err := castValue(x.Vals[i], t.Args[1])
				if err != nil {
					return nil, err
				}
				res.Keys, res.Vals = append(res.Keys, k), append(res.Vals, val)
			}
			return res, nil
		case Tuple:
			// ([k…],[v…])::Map(K,V) — rule A16: arrays must have equal sizes.
			if len(x) == 2 {
				ks, ok1 := x[0].(Array)
				vs, ok2 := x[1].(Array)
				if ok1 && ok2 {
					if len(ks) != len(vs) {
						return nil, raise("A16", "CAST to Map: key and value arrays have different sizes (%d and %d)", len(ks), len(vs))
					}
					res := &Map{}
					for i := range ks {
						k, err := castValue(ks[i], t.Args[0])
						if err != nil {
							return nil, err
						}
						val, err := castValue(vs[i], t.Args[1])
						if err != nil {
							return nil, err
						}
						res.Keys, res.Vals = append(res.Keys, k), append(res.Vals, val)
					}
					return res, nil
				}
			}
		case Array:
			// Array(Tuple(K,V)) → Map(K,V)
			res := &Map{}
			for _, e := range x {
				tp, ok := e.(Tuple)
				if !ok || len(tp) != 2 {
					return nil, raise("TYPE_MISMATCH", "cannot cast %s to %s", typeOfValue(v), t)
				}
				k, err := castValue(tp[0], t.Args[0])
				if err != nil {
					return nil, err
				}
				val, err := castValue(tp[1], t.Args[1])
				if err != nil {
					return nil, err
				}
				res.Keys, res.Vals = append(res.Keys, k), append(res.Vals, val)
			}
			return res, nil
		}
	}
	return nil, raise("CANNOT_CONVERT_TYPE", "cannot convert %s (%s) to %s", typeOfValue(v), Format(v), t)
}

func parseIntStrict(s string, signed bool, size int, name string) (Value, error) {
	// ClickHouse's toInt*/CAST from String: optional sign, digits, nothing else; overflow is an error
	// only in the "checked" readers — CAST uses readIntTextUnsafe-like parsing that wraps. We accept
	// only values that fit so no verdict depends on overflow behaviour.
	if s == "" {
		return nil, raise("CANNOT_PARSE_NUMBER", "cannot parse empty string as %s", name)
	}
	bi, ok := new(big.Int).SetString(strings.TrimPrefix(s, "+"), 10)
	if !ok || strings.ContainsAny(s, " _") || strings.HasPrefix(s, "+-") || strings.HasPrefix(s, "++") {
		return nil, raise("CANNOT_PARSE_TEXT", "cannot parse %q as %s", s, name)
	}
	bitsN := uint(size * 8)
	lo, hi := new(big.Int), new(big.Int)
	if signed {
		lo.Neg(new(big.Int).Lsh(big.NewInt(1), bitsN-1))
		hi.Sub(new(big.Int).Lsh(big.NewInt(1), bitsN-1), big.NewInt(1))
	} else {
		hi.Sub(new(big.Int).Lsh(big.NewInt(1), bitsN), big.NewInt(1))
		if bi.Sign() < 0 {
			return nil, raise("CANNOT_PARSE_NUMBER", "cannot parse negative %q as %s", s, name)
		}
	}
	if bi.Cmp(lo) < 0 || bi.Cmp(hi) > 0 {
		return nil, unsupported("integer text %q overflows %s", s, name)
	}
	if signed {
		return makeInt(true, size, uint64(bi.Int64())), nil
	}
	return makeInt(false, size, bi.Uint64()), nil
}

func floorDiv(a, b int64) int64 {
	q := a / b
	if (a%b != 0) && ((a < 0) != (b < 0)) {
		q--
	}
	return q
}

// parseDate parses 'YYYY-MM-DD' (rule A17). ClickHouse also accepts single-digit month/day
// ('2023-1-5'); other shapes are rejected.
func parseDate(s string) (Date, bool) {
	parts := strings.Split(s, "-")
	if len(parts) != 3 || len(parts[0]) != 4 || len(parts[1]) < 1 || len(parts[1]) > 2 || len(parts[2]) < 1 || len(parts[2]) > 2 {
		return 0, false
	}
	var n [3]int
	for i, p := range parts {
		for _, c := range p {
			if c < '0' || c > '9' {
				return 0, false
			}
		}
		n[i], _ = strconv.Atoi(p)
	}
	if n[1] < 1 || n[1] > 12 || n[2] < 1 || n[2] > 31 {
		return 0, false
	}
	t := time.Date(n[0], time.Month(n[1]), n[2], 0, 0, 0, 0, time.UTC)
	if t.Day() != n[2] {
		return 0, false
	}
	days := t.Unix() / 86400
	if days < 0 || days > 65535 {
		return 0, false // outside the Date range (1970-01-01 … 2149-06-06)
	}
	return Date(days), true
}

func parseDateTime(s string) (DateTime, bool) {
	if t, err := time.ParseInLocation("2006-01-02 15:04:05", s, time.UTC); err == nil {
		return DateTime(t.Unix()), true
	}
	if d, ok := parseDate(s); ok {
		return DateTime(int64(d) * 86400), true
	}
	// a string of digits is a unix timestamp
	if n, err := strconv.ParseInt(s, 10, 64); err == nil && n >= 0 && len(s) <= 10 {
		return DateTime(n), true
	}
	return 0, false
}

// parseFloatText implements ClickHouse's float text grammar for toFloat64OrNull/OrZero — rule A13:
// [+-] digits [. digits] [e|E [+-] digits] | [+-] inf | infinity | nan (case-insensitive);
// no surrounding blanks, no hex, the whole string must be consumed, empty string fails.
// A leading '.' ("." digits) and trailing '.' ("1.") are accepted as ClickHouse's readFloatText does.
func parseFloatText(s string) (float64, bool) {
	if s == "" {
		return 0, false
	}
	i := 0
	neg := false
	if s[i] == '-' {
		neg = true
		i++
	} else if s[i] == '+' {
		i++
	}
	rest := s[i:]
	low := strings.ToLower(rest)
	switch low {
	case "inf", "infinity":
		if neg {
			return math.Inf(-1), true
		}
		return math.Inf(1), true
	case "nan":
		return math.NaN(), true
	}
	j := 0
	digits := 0
	for j < len(rest) && rest[j] >= '0' && rest[j] <= '9' {
		j++
		digits++
	}
	if j < len(rest) && rest[j] == '.' {
		j++
		for j < len(rest) && rest[j] >= '0' && rest[j] <= '9' {
			j++
			digits++
		}
	}
	if digits == 0 {
		return 0, false
	}
	if j < len(rest) && (rest[j] == 'e' || rest[j] == 'E') {
		j++
		if j < len(rest) && (rest[j] == '+' || rest[j] == '-') {
			j++
		}
		ed := 0
		for j < len(rest) && rest[j] >= '0' && rest[j] <= '9' {
			j++
			ed++
		}
		if ed == 0 {
			return 0, false
		}
	}
	if j != len(rest) {
		return 0, false
	}
	txt := rest
	if strings.HasPrefix(txt, ".") {
		txt = "0" + txt
	}
	f, err := strconv.ParseFloat(txt, 64)
	if err != nil {
		// range errors: ParseFloat returns ±Inf / 0 with err; ClickHouse yields inf / 0 as well
		if ne, ok := err.(*strconv.NumError); !ok || ne.Err != strconv.ErrRange {
			return 0, false
		}
	}
	if neg {
		f = -f
	}
	return f, true
}
