package chsql

import "testing"

// Hand-computed statement / table / expected-result triples. Each case names the Appendix-A rule
// or clause it pins down. Expected values were derived from the ClickHouse documentation, not from
// running this interpreter.

var tNums = mkTable("nums", "a UInt8, b Int64, c Float64, s String",
	R(1, -5, 1.5, "x"),
	R(2, 10, 2.5, "y"),
	R(3, 0, -0.5, "x"),
	R(200, 7, 0.0, "z"),
)

func TestSemLiteralsAndTyping(t *testing.T) {
	runCases(t, []semCase{
		// ---- A1: string literal escapes
		{name: "A1/basic-escapes", sql: `SELECT 'a\tb', 'a\nb', 'a\\b', 'a\'b', 'a''b'`, want: []string{"a\tb|a\nb|a\\b|a'b|a'b"}},
		{name: "A1/nul-bell-vt", sql: `SELECT length('\0'), length('\a\v\b\f\r')`, want: []string{"1|5"}},
		{name: "A1/hex", sql: `SELECT '\x41\x7a'`, want: []string{"Az"}},
		{name: "A1/unknown-escape-kept", sql: `SELECT '\%', length('\%'), '\_', '\w', length('\w')`, want: []string{`\%|2|\_|\w|2`}},
		{name: "A1/double-backslash-percent", sql: `SELECT length('\\%')`, want: []string{"2"}},
		{name: "A1/unterminated", sql: `SELECT 'abc`, raise: "SYNTAX_ERROR"},
		{name: "A1/lone-bang", sql: `SELECT !(1)`, raise: "SYNTAX_ERROR"},

		// ---- A4: literal types
		{name: "A4/literal-types", sql: `SELECT toTypeName(0), toTypeName(255), toTypeName(256), toTypeName(65535), toTypeName(65536), toTypeName(4294967295), toTypeName(4294967296)`,
			want: []string{"UInt8|UInt8|UInt16|UInt16|UInt32|UInt32|UInt64"}},
		{name: "A4/negative-literal-types", sql: `SELECT toTypeName(-1), toTypeName(-128), toTypeName(-129), toTypeName(-32769), toTypeName(-2147483649)`,
			want: []string{"Int8|Int8|Int16|Int32|Int64"}},
		{name: "A4/float-literal", sql: `SELECT toTypeName(1.0), toTypeName(5.000000), toTypeName(1e3), 1e3`, want: []string{"Float64|Float64|Float64|1000"}},
		{name: "A4/huge-literal-is-float", sql: `SELECT toTypeName(18446744073709551616)`, want: []string{"Float64"}},
		{name: "A4/uint64-max-literal", sql: `SELECT 18446744073709551615, toTypeName(18446744073709551615)`, want: []string{"18446744073709551615|UInt64"}},
		// comparison and logical operators yield UInt8
		{name: "A4/comparison-is-uint8", sql: `SELECT toTypeName(1 = 1), toTypeName('a' < 'b'), toTypeName(1 = 1 AND 2 = 2), toTypeName(NOT 1), toTypeName(1 OR 0)`,
			want: []string{"UInt8|UInt8|UInt8|UInt8|UInt8"}},
		{name: "A4/comparison-values", sql: `SELECT 1 = 1, 1 != 1, 2 > 1, 2 <= 1, 'a' == 'a', 1 <> 2`, want: []string{"1|0|1|0|1|1"}},
		// plus widens
		{name: "A4/plus-widens", sql: `SELECT toTypeName(toUInt8(1) + toUInt8(1)), toTypeName(toUInt16(1) + toUInt8(1)), toTypeName(toUInt32(1) + toUInt32(1)), toTypeName(toUInt64(1) + toUInt64(1))`,
			want: []string{"UInt16|UInt32|UInt64|UInt64"}},
		{name: "A4/plus-no-overflow-uint8", sql: `SELECT toUInt8(255) + toUInt8(255)`, want: []string{"510"}, types: "UInt16"},
		{name: "A4/uint64-wraps", sql: `SELECT toUInt64(18446744073709551615) + toUInt64(1), 18446744073709551615 + 1`, want: []string{"0|0"}, types: "UInt64|UInt64"},
		{name: "A4/minus-is-signed", sql: `SELECT toUInt8(1) - toUInt8(2), toTypeName(toUInt8(1) - toUInt8(2)), toTypeName(toUInt64(1) - toUInt64(2)), toUInt64(1) - toUInt64(2)`,
			want: []string{"-1|Int16|Int64|-1"}},
		{name: "A4/multiply-widens", sql: `SELECT toUInt8(16) * toUInt8(16), toTypeName(toUInt8(16) * toUInt8(16)), toTypeName(toInt8(1) * toUInt8(1)), toTypeName(toInt64(1) * 10)`,
			want: []string{"256|UInt16|Int16|Int64"}},
		{name: "A4/int64-multiply-wraps", sql: `SELECT toInt64(9223372036854775807) * 2`, want: []string{"-2"}},
		{name: "A4/divide-is-float", sql: `SELECT 1 / 2, toTypeName(1 / 2), 6 / 3, 1 / 0, -1 / 0, toTypeName(toUInt64(4) / toUInt64(2))`, want: []string{"0.5|Float64|2|inf|-inf|Float64"}},
		{name: "A4/zero-div-zero-nan", sql: `SELECT 0 / 0`, want: []string{"nan"}},
		{name: "A4/mixed-float", sql: `SELECT 1 + 0.5, toTypeName(1 + 0.5), toTypeName(toInt64(1) * 1.0), toTypeName(toUInt64(1) - 0.5)`, want: []string{"1.5|Float64|Float64|Float64"}},
		{name: "A4/signed-unsigned-mix", sql: `SELECT toTypeName(toInt8(1) + toUInt8(1)), toTypeName(toInt8(1) + toUInt32(1)), toTypeName(toInt32(1) + toUInt64(1)), toInt8(-1) + toUInt8(255)`,
			want: []string{"Int16|Int64|Int64|254"}},
		{name: "A4/negate", sql: `SELECT -toUInt8(200), toTypeName(-toUInt8(200)), toTypeName(-toInt8(1)), toTypeName(-toUInt64(1)), -(1.5)`, want: []string{"-200|Int16|Int8|Int64|-1.5"}},
		// bitShiftLeft has the type of its first argument (for small shift counts) and truncates
		{name: "A4/shift-type", sql: `SELECT toTypeName(bitShiftLeft(toUInt8(1), 3)), toTypeName(bitShiftLeft(1 = 1, 3)), toTypeName(bitShiftLeft(toUInt64(1), 3)), toTypeName(bitShiftLeft(toUInt16(1), 3))`,
			want: []string{"UInt8|UInt8|UInt64|UInt16"}},
		{name: "A4/shift-uint8-by-7", sql: `SELECT bitShiftLeft(1 = 1, 7)`, want: []string{"128"}, types: "UInt8"},
		{name: "A4/shift-uint8-by-8-is-zero", sql: `SELECT bitShiftLeft(1 = 1, 8), bitShiftLeft(toUInt8(1), 9), bitShiftLeft(toUInt8(255), 4)`, want: []string{"0|0|240"}, types: "UInt8|UInt8|UInt8"},
		{name: "A4/shift-widened", sql: `SELECT bitShiftLeft(toUInt64(1 = 1), 8), bitShiftLeft(toUInt64(1), 63), bitShiftLeft(toUInt64(1), 64)`, want: []string{"256|9223372036854775808|0"}},
		{name: "A4/shift-right", sql: `SELECT bitShiftRight(toUInt8(255), 4), bitShiftRight(toUInt64(256), 8), bitShiftRight(toUInt8(1), 8)`, want: []string{"15|1|0"}},
		{name: "A4/bitand-types", sql: `SELECT bitAnd(toUInt64(6), 3), toTypeName(bitAnd(toUInt64(6), 3)), toTypeName(bitAnd(toUInt8(6), 3)), bitOr(1, 4), bitXor(7, 2)`, want: []string{"2|UInt64|UInt8|5|5"}},
		{name: "A4/toUInt64-widens", sql: `SELECT toTypeName(toUInt64(1 = 1)), toUInt64(1 = 1)`, want: []string{"UInt64|1"}},
		{name: "A4/equality-across-widths", sql: `SELECT toUInt8(1) = toUInt64(1), toInt8(-1) = toInt64(-1), toUInt64(255) = toUInt8(255), toInt8(-1) = toUInt64(18446744073709551615), 1 = 1.0, toUInt64(9007199254740993) = 9007199254740992.0`,
			want: []string{"1|1|1|0|1|0"}},
		{name: "A4/signed-vs-unsigned-order", sql: `SELECT toInt8(-1) < toUInt8(0), toInt64(-1) < toUInt64(0), toUInt64(18446744073709551615) > toInt64(9223372036854775807)`, want: []string{"1|1|1"}},
		{name: "A4/sum-of-bool-shifts-9-terms",
			// 9 UInt8 terms bitShiftLeft(cond, i), i = 0..8, added: each + widens (UInt8+UInt8=UInt16, …) but the
			// term for i = 8 is already 0 because the shift happens in UInt8.
			sql:  `SELECT bitShiftLeft(1=1,0)+bitShiftLeft(1=1,1)+bitShiftLeft(1=1,2)+bitShiftLeft(1=1,3)+bitShiftLeft(1=1,4)+bitShiftLeft(1=1,5)+bitShiftLeft(1=1,6)+bitShiftLeft(1=1,7)+bitShiftLeft(1=1,8) AS m, toTypeName(m)`,
			want: []string{"255|UInt64"}},
		{name: "A4/sum-of-widened-shifts-9-terms",
			sql:  `SELECT bitShiftLeft(toUInt64(1=1),0)+bitShiftLeft(toUInt64(1=1),1)+bitShiftLeft(toUInt64(1=1),2)+bitShiftLeft(toUInt64(1=1),3)+bitShiftLeft(toUInt64(1=1),4)+bitShiftLeft(toUInt64(1=1),5)+bitShiftLeft(toUInt64(1=1),6)+bitShiftLeft(toUInt64(1=1),7)+bitShiftLeft(toUInt64(1=1),8)`,
			want: []string{"511"}},
		{name: "A4/plus-chain-types", sql: `SELECT toTypeName(toUInt8(1)+toUInt8(1)+toUInt8(1)), toTypeName(toUInt8(1)+toUInt8(1)+toUInt8(1)+toUInt8(1))`, want: []string{"UInt32|UInt64"}},

		// ---- A12: intDiv, modulo, wrap-around
		{name: "A12/intDiv-truncates", sql: `SELECT intDiv(7, 2), intDiv(-7, 2), intDiv(toInt64(-7), 2), intDiv(7, -2), toTypeName(intDiv(toInt64(7), 2)), toTypeName(intDiv(toUInt8(7), toUInt64(2)))`,
			want: []string{"3|-3|-3|-3|Int64|UInt8"}},
		{name: "A12/intDiv-bucket", tables: []*Table{tNums}, sql: `SELECT intDiv(b, 3) * 3 FROM nums`, want: []string{"-3", "9", "0", "6"}, types: "Int64"},
		{name: "A12/intDiv-by-zero", sql: `SELECT intDiv(1, 0)`, raise: "A12"},
		{name: "A12/intDiv-by-zero-column", tables: []*Table{tNums}, sql: `SELECT intDiv(10, b) FROM nums`, raise: "A12"},
		{name: "A12/modulo", sql: `SELECT 7 % 3, -7 % 3, toInt64(-7) % 3, 7 % -3, toTypeName(toInt64(7) % 60000000000), toTypeName(toUInt64(7) % 10), toUInt64(18446744073709551615) % 10`,
			want: []string{"1|-1|-1|1|Int64|UInt8|5"}},
		{name: "A12/modulo-by-zero", sql: `SELECT 1 % 0`, raise: "A12"},
		{name: "A12/float-modulo", sql: `SELECT 7.5 % 2`, want: []string{"1.5"}},
		{name: "A12/int64-plus-wraps", sql: `SELECT toInt64(9223372036854775807) + toInt64(1)`, want: []string{"-9223372036854775808"}},
		{name: "A12/timestamp-bucket", sql: `SELECT intDiv(1700000012345678901, 10000000000) * 10000000000`, want: []string{"1700000010000000000"}, types: "UInt64"},
		{name: "A12/timestamp-bucket-int64", tables: []*Table{mkTable("s", "timestamp_ns Int64", R(1700000012345678901))}, sql: `SELECT intDiv(timestamp_ns, 10000000000) * 10000000000 FROM s`, want: []string{"1700000010000000000"}, types: "Int64"},
		{name: "A12/intDivOrZero", sql: `SELECT intDivOrZero(5, 0), intDivOrZero(5, 2)`, want: []string{"0|2"}},

		// conversions
		{name: "conv/toUInt8-wraps", sql: `SELECT toUInt8(256), toUInt8(-1), toInt8(200), toUInt16(65537), toInt64(1.9), toInt64(-1.9), toUInt64('42')`, want: []string{"0|255|-56|1|1|-1|42"}},
		{name: "conv/toString", sql: `SELECT toString(1), toString(-5), toString(1.5), toString(1.0), toString('x'), toString(toDate('2023-11-14'))`, want: []string{"1|-5|1.5|1|x|2023-11-14"}},
		{name: "conv/toFloat64", sql: `SELECT toFloat64(0), toFloat64('1.5'), toFloat64(3), toTypeName(toFloat64(0))`, want: []string{"0|1.5|3|Float64"}},
		{name: "conv/toFloat64-bad-string", sql: `SELECT toFloat64('abc')`, raise: "CANNOT_PARSE_TEXT"},
		{name: "conv/cast-operator", sql: `SELECT 1::Int8, toTypeName(1::Int8), '5'::UInt64 + 1, CAST(3 AS String), CAST('7', 'Int32'), cast(2.9 as UInt8)`, want: []string{"1|Int8|6|3|7|2"}},
		{name: "conv/cast-map", sql: `SELECT (['a','b'],['1','2'])::Map(String, String) AS m, m['b'], toTypeName(m)`, want: []string{"{'a':'1','b':'2'}|2|Map(String, String)"}},
		{name: "conv/cast-map-mismatch", sql: `SELECT (['a','b'],['1'])::Map(String, String)`, raise: "A16"},
		{name: "conv/unknown-function", sql: `SELECT noSuchFunction(1)`, raise: "UNKNOWN_FUNCTION"},
		{name: "conv/wrong-arg-count", sql: `SELECT length('a', 'b')`, raise: "NUMBER_OF_ARGUMENTS_DOESNT_MATCH"},
		{name: "conv/unknown-identifier", tables: []*Table{tNums}, sql: `SELECT nope FROM nums`, raise: "UNKNOWN_IDENTIFIER"},
		{name: "conv/unknown-identifier-empty-table", tables: []*Table{mkTable("e", "a UInt8")}, sql: `SELECT a FROM e WHERE zz = 1`, raise: "UNKNOWN_IDENTIFIER"},
		{name: "conv/unknown-table", sql: `SELECT 1 FROM nowhere`, raise: "UNKNOWN_TABLE"},
		{name: "conv/string-vs-number-compare", tables: []*Table{tNums}, sql: `SELECT s = a FROM nums`, raise: "ILLEGAL_TYPE_OF_ARGUMENT"},
		{name: "conv/const-string-vs-number", tables: []*Table{tNums}, sql: `SELECT a = '2', a < '3' FROM nums ORDER BY a`, want: []string{"0|1", "1|1", "0|0", "0|0"}},
		{name: "conv/table-function-unsupported", sql: `SELECT * FROM numbers(3)`, unsup: true},
		{name: "conv/format-float", sql: `SELECT 0.1 + 0.2, 1e21, 1e-7, 100000000000000000000., 0.000001, -0.0`, want: []string{"0.30000000000000004|1e21|1e-7|100000000000000000000|0.000001|-0"}},
	})
}

func TestSemStringsLikeMatch(t *testing.T) {
	lines := mkTable("l", "s String",
		R("error: disk 100% full"), R("warn_a"), R("warnXa"), R(`back\slash`), R("multi\nline"), R("ERROR upper"), R(""))
	runCases(t, []semCase{
		// ---- A2
		{name: "A2/percent-any-run", tables: []*Table{lines}, sql: `SELECT s FROM l WHERE like(s, '%disk%')`, want: []string{"error: disk 100% full"}},
		{name: "A2/whole-string", tables: []*Table{lines}, sql: `SELECT count() FROM l WHERE s LIKE 'warn'`, want: []string{"0"}},
		{name: "A2/underscore-one-char", tables: []*Table{lines}, sql: `SELECT s FROM l WHERE s LIKE 'warn_a' ORDER BY s`, want: []string{"warnXa", "warn_a"}},
		{name: "A2/escaped-underscore", tables: []*Table{lines}, sql: `SELECT s FROM l WHERE s LIKE 'warn\_a'`, want: []string{"warn_a"}},
		{name: "A2/escaped-percent", tables: []*Table{lines}, sql: `SELECT s FROM l WHERE s LIKE '%100\%%'`, want: []string{"error: disk 100% full"}},
		{name: "A2/escaped-percent-no-match", tables: []*Table{lines}, sql: `SELECT count() FROM l WHERE s LIKE '%disk\%%'`, want: []string{"0"}},
		{name: "A2/escaped-backslash", tables: []*Table{lines}, sql: `SELECT s FROM l WHERE s LIKE '%k\\\\s%'`, want: []string{`back\slash`}},
		{name: "A2/lone-trailing-backslash-raises", tables: []*Table{lines}, sql: `SELECT s FROM l WHERE s LIKE '%a\\'`, raise: "A2"},
		{name: "A2/percent-matches-newline", tables: []*Table{lines}, sql: `SELECT count() FROM l WHERE s LIKE 'multi%line'`, want: []string{"1"}},
		{name: "A2/empty-pattern", tables: []*Table{lines}, sql: `SELECT count() FROM l WHERE s LIKE ''`, want: []string{"1"}},
		{name: "A2/percent-only", tables: []*Table{lines}, sql: `SELECT count() FROM l WHERE s LIKE '%'`, want: []string{"7"}},
		{name: "A2/notLike", tables: []*Table{lines}, sql: `SELECT count() FROM l WHERE notLike(s, '%warn%') == 1`, want: []string{"5"}},
		{name: "A2/ilike", tables: []*Table{lines}, sql: `SELECT s FROM l WHERE ilike(s, '%ERROR%') ORDER BY s`, want: []string{"ERROR upper", "error: disk 100% full"}},
		{name: "A2/like-case-sensitive", tables: []*Table{lines}, sql: `SELECT s FROM l WHERE s LIKE '%ERROR%'`, want: []string{"ERROR upper"}},
		{name: "A2/notILike", tables: []*Table{lines}, sql: `SELECT count() FROM l WHERE s NOT ILIKE '%error%'`, want: []string{"5"}},
		{name: "A2/like-regex-chars-literal", sql: `SELECT 'a.c' LIKE 'a.c', 'abc' LIKE 'a.c', 'a(b' LIKE 'a(b', 'a+' LIKE 'a+'`, want: []string{"1|0|1|1"}},
		{name: "A2/like-non-string", sql: `SELECT 1 LIKE '1'`, raise: "ILLEGAL_TYPE_OF_ARGUMENT"},
		{name: "A2/like-utf8-underscore", sql: `SELECT 'é' LIKE '_', 'é' LIKE '__', length('é')`, want: []string{"1|0|2"}},
		// ---- A3
		{name: "A3/unanchored", tables: []*Table{lines}, sql: `SELECT s FROM l WHERE match(s, 'isk')`, want: []string{"error: disk 100% full"}},
		{name: "A3/anchors-explicit", tables: []*Table{lines}, sql: `SELECT count() FROM l WHERE match(s, '^warn.a$')`, want: []string{"2"}},
		{name: "A3/eq-one-eq-zero", tables: []*Table{lines}, sql: `SELECT countIf(match(s, 'warn') == 1), countIf(match(s, 'warn') == 0) FROM l`, want: []string{"2|5"}},
		{name: "A3/case-insensitive-flag", tables: []*Table{lines}, sql: `SELECT count() FROM l WHERE match(s, '(?i)error')`, want: []string{"2"}},
		{name: "A3/dot-matches-newline", tables: []*Table{lines}, sql: `SELECT count() FROM l WHERE match(s, 'multi.line')`, want: []string{"1"}},
		{name: "A3/dot-no-newline-with-flag", tables: []*Table{lines}, sql: `SELECT count() FROM l WHERE match(s, '(?-s)multi.line')`, want: []string{"0"}},
		{name: "A3/empty-pattern-matches-all", tables: []*Table{lines}, sql: `SELECT count() FROM l WHERE match(s, '')`, want: []string{"7"}},
		{name: "A3/invalid-regexp", tables: []*Table{lines}, sql: `SELECT count() FROM l WHERE match(s, 'a(')`, raise: "A3"},
		{name: "A3/no-backreference", sql: `SELECT match('aa', '(a)\\1')`, raise: "A3"},
		{name: "A3/escaped-w", sql: `SELECT match('ab 12', '\\w+ \\d+'), match('x', '\\d')`, want: []string{"1|0"}},
		{name: "A3/alternation", sql: `SELECT match('xbz', 'a|b'), match('xyz', 'a|b')`, want: []string{"1|0"}},
		// ---- A15
		{name: "A15/horizontal", sql: `SELECT extractAllGroupsHorizontal('1 a, 2 b', '([0-9]+) (\\w+)')`, want: []string{"[['1','2'],['a','b']]"}},
		{name: "A15/no-match", sql: `SELECT extractAllGroupsHorizontal('zzz', '([0-9]+) (\\w+)') AS g, toTypeName(g)`, want: []string{"[[],[]]|Array(Array(String))"}},
		{name: "A15/last-of-empty-is-empty-string", sql: `SELECT arrayMap(x -> x[length(x)], extractAllGroupsHorizontal('zzz', '([0-9]+) (\\w+)'))`, want: []string{"['','']"}},
		{name: "A15/last-match-wins", sql: `SELECT arrayMap(x -> x[length(x)], extractAllGroupsHorizontal('1 a, 2 b', '([0-9]+) (\\w+)'))`, want: []string{"['2','b']"}},
		{name: "A15/no-groups-raises", sql: `SELECT extractAllGroupsHorizontal('abc', 'b')`, raise: "A15"},
		{name: "A15/named-groups", sql: `SELECT extractAllGroupsHorizontal('k=v', '(?P<k>\\w+)=(?P<v>\\w+)')`, want: []string{"[['k'],['v']]"}},
		{name: "A15/array-index-out-of-range-default", sql: `SELECT [1,2,3][5], ['a'][2], [1,2,3][-1], [1,2,3][-4]`, want: []string{"0||3|0"}},
		{name: "A15/array-index-zero", sql: `SELECT [1,2,3][0]`, raise: "ZERO_ARRAY_OR_TUPLE_INDEX"},
		// string functions
		{name: "str/lower-upper-length", sql: `SELECT lower('AbC'), upper('AbC'), length('héllo'), lengthUTF8('héllo'), length('')`, want: []string{"abc|ABC|6|5|0"}},
		{name: "str/format", sql: `SELECT format('{}:{}', 'a', 'b'), format('{1}-{0}', 'x', 'y'), format('{{}}{}', 'z')`, want: []string{"a:b|y-x|{}z"}},
		{name: "str/format-too-few", sql: `SELECT format('{} {}', 'a')`, raise: "BAD_ARGUMENTS"},
		{name: "str/splitByChar", sql: `SELECT splitByChar(':', 'a:b:c'), splitByChar(':', 'abc')[1], splitByChar(':', 'a:b')[3], splitByChar(':', '')`, want: []string{"['a','b','c']|abc||['']"}},
		{name: "str/hex-unhex", sql: `SELECT hex('AB'), lower(hex('\x00\xff')), unhex('4142'), hex(255), hex(256), hex(toUInt8(0)), length(unhex('0123456789abcdef0123456789abcdef'))`, want: []string{"4142|00ff|AB|FF|0100|00|16"}},
		{name: "str/concat-substring", sql: `SELECT concat('a', 'b', 'c'), 'a' || 'b', substring('hello', 2, 3), substring('hello', 4), substring('hello', -3, 2)`, want: []string{"abc|ab|ell|lo|ll"}},
		{name: "str/position-starts-ends", sql: `SELECT position('hello', 'l'), position('hello', 'z'), startsWith('hello', 'he'), endsWith('hello', 'lo'), empty(''), notEmpty('')`, want: []string{"3|0|1|1|1|0"}},
		{name: "str/replace", sql: `SELECT replaceOne('aaa', 'a', 'b'), replaceAll('aaa', 'a', 'b'), replaceRegexpAll('a1b22', '[0-9]+', '#'), replaceRegexpOne('a1b22', '([0-9]+)', '<\\1>'), trimBoth('  x '), trimLeft('  x '), trimRight('  x ')`, want: []string{"baa|bbb|a#b#|a<1>b22|x|x |  x"}},
	})
}
