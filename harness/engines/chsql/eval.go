package chsql

import (
	"fmt"
	"strings"
)

// ---- environments --------------------------------------------------------------------------

type lambdaFrame struct {
	parent *lambdaFrame
	name   string
	val    Value
	typ    *Type // static type of the parameter when known
}

func (l *lambdaFrame) lookup(name string) (Value, bool) {
	for f := l; f != nil; f = f.parent {
		if f.name == name {
			return f.val, true
		}
	}
	return nil, false
}

type groupCtx struct {
	rows     [][]Value
	keyCanon map[string]int
	keyVals  []Value
}

type env struct {
	sc           *selectCtx
	row          []Value // nil in group mode / constant mode
	lambda       *lambdaFrame
	group        *groupCtx
	aliasStack   []string
	inAgg        bool
	constOnly    bool
	arrayJoinVal Value
	hasArrayJoin bool
}

func (sc *selectCtx) newEnv(row []Value) *env { return &env{sc: sc, row: row} }

func (sc *selectCtx) newConstEnv() *env { return &env{sc: sc, constOnly: true} }

// closure is the runtime value of a lambda expression.
type closure struct {
	lam    *Lambda
	ev     *env
	ptypes []*Type
}

func (c *closure) call(args ...Value) (Value, error) {
	if len(args) != len(c.lam.Params) {
		return nil, raise("NUMBER_OF_ARGUMENTS_DOESNT_MATCH", "lambda takes %d arguments, %d arrays given", len(c.lam.Params), len(args))
	}
	ne := *c.ev
	for i, p := range c.lam.Params {
		var pt *Type
		if i < len(c.ptypes) {
			pt = c.ptypes[i]
		}
		ne.lambda = &lambdaFrame{parent: ne.lambda, name: p, val: args[i], typ: pt}
	}
	return ne.eval(c.lam.Body)
}

// ---- alias collection (rule A5) --------------------------------------------------------------

// collectAliases gathers every `expr AS name` of this SELECT — select list, PREWHERE, WHERE,
// GROUP BY, HAVING, ORDER BY, LIMIT BY, ARRAY JOIN expressions, function argument lists, lambda
// bodies — but not those of nested sub-selects. rule A5: they are visible in every clause of the
// same select.
func (sc *selectCtx) collectAliases() error {
	sc.aliases = map[string]Expr{}
	q := sc.q
	var walk func(e Expr) error
	walk = func(e Expr) error {
		switch x := e.(type) {
		case *Aliased:
			if prev, ok := sc.aliases[x.Alias]; ok && prev != x.X {
				if exprText(prev) != exprText(x.X) {
					return raise("MULTIPLE_EXPRESSIONS_FOR_ALIAS", "different expressions with the same alias %s: %s and %s", x.Alias, exprText(prev), exprText(x.X))
				}
			} else {
				sc.aliases[x.Alias] = x.X
			}
			return walk(x.X)
		case *Func:
			for _, a := range x.Params {
				if err := walk(a); err != nil {
					return err
				}
			}
			for _, a := range x.Args {
				if err := walk(a); err != nil {
					return err
				}
			}
		case *Lambda:
			return walk(x.Body)
		case *Interval:
			return walk(x.X)
		}
		return nil
	}
	var all []Expr
	all = append(all, q.Items...)
	for _, j := range q.Joins {
		if j.Array {
			// `ARRAY JOIN e AS x`: x names the new column; aliases nested inside e are ordinary
			for _, e := range j.ArrayExprs {
				if a, ok := e.(*Aliased); ok {
					all = append(all, a.X)
				} else {
					all = append(all, e)
				}
			}
		} else if j.On != nil {
			all = append(all, j.On)
		}
	}
	all = append(all, q.Prewhere, q.Where)
	all = append(all, q.GroupBy...)
	all = append(all, q.Having)
	for _, o := range q.OrderBy {
		all = append(all, o.X)
	}
	all = append(all, q.LimitBy...)
	for _, e := range all {
		if e == nil {
			continue
		}
		if err := walk(e); err != nil {
			return err
		}
	}
	// scalar WITH items of this select and of enclosing selects (enable_global_with_statement = 1);
	// nearer definitions win, select-list aliases win over WITH aliases of the same name.
	for c := sc.scope; c != nil; c = c.parent {
		if c.scalar != nil {
			if _, ok := sc.aliases[c.name]; !ok {
				sc.aliases[c.name] = c.scalar
			}
		}
	}
	return nil
}

// ---- identifier resolution ---------------------------------------------------------------------

type identKind int

const (
	idLambda identKind = iota
	idAlias
	idColumn
)

type identRes struct {
	kind  identKind
	val   Value // idLambda
	alias string
	expr  Expr // idAlias
	col   int  // idColumn
}

// resolveIdent implements ClickHouse's (old analyzer) name resolution inside one SELECT:
//
//   - a lambda parameter shadows everything;
//   - rule A5: an unqualified name that is an alias of this select refers to the aliased expression
//     (prefer_column_name_to_alias = 0) — except inside that alias' own definition, where it is the
//     source column (`intDiv(timestamp_ns, 1000) * 1000 AS timestamp_ns`); reaching an alias that is
//     being expanded further out is CYCLIC_ALIASES;
//   - a qualified name (t.c) always refers to the column of t, never to an alias
//     (test 00818_alias_bug_4110 of the ClickHouse repository);
//   - otherwise the first source column of that name (left table first).
func (sc *selectCtx) resolveIdent(id *Ident, lambda func(string) (Value, bool), aliasStack []string) (identRes, error) {
	switch len(id.Parts) {
	case 1:
		name := id.Parts[0]
		if lambda != nil {
			if v, ok := lambda(name); ok {
				return identRes{kind: idLambda, val: v}, nil
			}
		}
		if ax, ok := sc.aliases[name]; ok {
			self := len(aliasStack) > 0 && aliasStack[len(aliasStack)-1] == name
			if !self {
				for _, a := range aliasStack {
					if a == name {
						return identRes{}, raise("CYCLIC_ALIASES", "cyclic aliases: %s", name)
					}
				}
				return identRes{kind: idAlias, alias: name, expr: ax}, nil
			}
		}
		if i := sc.frame.findUnqualified(name); i >= 0 {
			return identRes{kind: idColumn, col: i}, nil
		}
		return identRes{}, raise("UNKNOWN_IDENTIFIER", "missing columns: '%s'", name)
	case 2, 3:
		qual := id.Parts[0]
		if len(id.Parts) == 3 {
			qual = id.Parts[0] + "." + id.Parts[1]
		}
		name := id.Parts[len(id.Parts)-1]
		if i := sc.frame.findQualified(qual, name); i >= 0 {
			return identRes{kind: idColumn, col: i}, nil
		}
		if sc.quals[qual] {
			return identRes{}, raise("UNKNOWN_IDENTIFIER", "there is no column '%s' in table '%s'", name, qual)
		}
		// a.b where a is not a table: named tuple element / nested column — outside the subset,
		// unless a is unknown altogether.
		if len(id.Parts) == 2 {
			known := false
			if lambda != nil {
				_, known = lambda(qual)
			}
			if _, ok := sc.aliases[qual]; ok {
				known = true
			}
			if sc.frame.findUnqualified(qual) >= 0 {
				known = true
			}
			if known {
				return identRes{}, unsupported("named tuple element / nested access %s", strings.Join(id.Parts, "."))
			}
		}
		return identRes{}, raise("UNKNOWN_IDENTIFIER", "missing columns: '%s'", strings.Join(id.Parts, "."))
	}
	return identRes{}, unsupported("identifier %s", strings.Join(id.Parts, "."))
}

// resolveColumn resolves an identifier that must be a source column (ARRAY JOIN col).
func (sc *selectCtx) resolveColumn(id *Ident) (int, error) {
	saved := sc.aliases
	sc.aliases = map[string]Expr{}
	defer func() { sc.aliases = saved }()
	r, err := sc.resolveIdent(id, nil, nil)
	if err != nil {
		return 0, err
	}
	return r.col, nil
}

// ---- canonical form (GROUP BY key matching) -----------------------------------------------------

type canonKey struct {
	e     Expr
	alias string
}

// canonOf renders an expression with aliases expanded and columns resolved, so that two
// syntactically different spellings of the same GROUP BY key compare equal.
func (sc *selectCtx) canonOf(e Expr, lambdaNames []string, aliasStack []string) (string, error) {
	top := ""
	if len(aliasStack) > 0 {
		top = aliasStack[len(aliasStack)-1]
	}
	ck := canonKey{e, top}
	if len(lambdaNames) == 0 {
		if s, ok := sc.canon[ck]; ok {
			return s, nil
		}
	}
	s, err := sc.canonOf1(e, lambdaNames, aliasStack)
	if err != nil {
		return "", err
	}
	if len(lambdaNames) == 0 {
		sc.canon[ck] = s
	}
	return s, nil
}

func (sc *selectCtx) canonOf1(e Expr, lambdaNames []string, aliasStack []string) (string, error) {
	switch x := e.(type) {
	case *Literal:
		return typeOfValue(x.Val).String() + ":" + formatValue(x.Val, true), nil
	case *colRef:
		return "#" + itoa(x.idx), nil
	case *Aliased:
		return sc.canonOf(x.X, lambdaNames, append(aliasStack, x.Alias))
	case *Ident:
		lam := func(n string) (Value, bool) {
			for _, l := range lambdaNames {
				if l == n {
					return nil, true
				}
			}
			return nil, false
		}
		r, err := sc.resolveIdent(x, lam, aliasStack)
		if err != nil {
			return "", err
		}
		switch r.kind {
		case idLambda:
			return "λ" + x.Parts[0], nil
		case idAlias:
			return sc.canonOf(r.expr, lambdaNames, append(aliasStack, r.alias))
		}
		return "#" + itoa(r.col), nil
	case *Func:
		var sb strings.Builder
		sb.WriteString(x.Name)
		if x.HasParams {
			sb.WriteByte('<')
			for _, p := range x.Params {
				s, err := sc.canonOf(p, lambdaNames, aliasStack)
				if err != nil {
					return "", err
				}
				sb.WriteString(s)
				sb.WriteByte(',')
			}
			sb.WriteByte('>')
		}
		sb.WriteByte('(')
		if x.Distinct {
			sb.WriteString("DISTINCT ")
		}
		for _, a := range x.Args {
			s, err := sc.canonOf(a, lambdaNames, aliasStack)
			if err != nil {
				return "", err
			}
			sb.WriteString(s)
			sb.WriteByte(',')
		}
		sb.WriteByte(')')
		return sb.String(), nil
	case *Lambda:
		s, err := sc.canonOf(x.Body, append(append([]string{}, lambdaNames...), x.Params...), aliasStack)
		if err != nil {
			return "", err
		}
		return "λ(" + strings.Join(x.Params, ",") + ")->" + s, nil
	case *Subquery:
		return "subquery@" + exprPtr(x), nil
	case *Interval:
		s, err := sc.canonOf(x.X, lambdaNames, aliasStack)
		if err != nil {
			return "", err
		}
		return "interval_" + x.Unit + "(" + s + ")", nil
	case *Star:
		return "", raise("ILLEGAL_TYPE_OF_ARGUMENT", "asterisk is not allowed here")
	}
	return "", unsupported("expression node %T", e)
}

func exprPtr(s *Subquery) string { return fmt.Sprintf("%p", s) }

// ---- aggregate detection -------------------------------------------------------------------------

// hasAgg reports whether an expression (with aliases expanded) contains an aggregate function.
func (sc *selectCtx) hasAgg(e Expr, aliasStack []string) (bool, error) {
	switch x := e.(type) {
	case *Aliased:
		return sc.hasAgg(x.X, append(aliasStack, x.Alias))
	case *Ident:
		if len(x.Parts) != 1 {
			return false, nil
		}
		ax, ok := sc.aliases[x.Parts[0]]
		if !ok {
			return false, nil
		}
		for _, a := range aliasStack {
			if a == x.Parts[0] {
				return false, nil // self reference → column; outer cycles are reported at evaluation
			}
		}
		return sc.hasAgg(ax, append(aliasStack, x.Parts[0]))
	case *Func:
		if _, ok := parseAggName(x.Name); ok {
			return true, nil
		}
		for _, a := range x.Args {
			h, err := sc.hasAgg(a, aliasStack)
			if err != nil || h {
				return h, err
			}
		}
	case *Lambda:
		// lambda parameters shadow aliases; an aggregate inside a lambda body is possible only on constants
		return sc.hasAggLambda(x, aliasStack)
	case *Interval:
		return sc.hasAgg(x.X, aliasStack)
	}
	return false, nil
}

func (sc *selectCtx) hasAggLambda(l *Lambda, aliasStack []string) (bool, error) {
	saved := map[string]Expr{}
	for _, p := range l.Params {
		if ax, ok := sc.aliases[p]; ok {
			saved[p] = ax
			delete(sc.aliases, p)
		}
	}
	h, err := sc.hasAgg(l.Body, aliasStack)
	for k, v := range saved {
		sc.aliases[k] = v
	}
	return h, err
}

// ---- arrayJoin() function ---------------------------------------------------------------------

func (sc *selectCtx) findArrayJoin() error {
	var first *Func
	var err error
	var walk func(e Expr, stack []string)
	walk = func(e Expr, stack []string) {
		if err != nil {
			return
		}
		switch x := e.(type) {
		case *Aliased:
			walk(x.X, append(stack, x.Alias))
		case *Ident:
			if len(x.Parts) == 1 {
				if ax, ok := sc.aliases[x.Parts[0]]; ok {
					for _, a := range stack {
						if a == x.Parts[0] {
							return
						}
					}
					walk(ax, append(stack, x.Parts[0]))
				}
			}
		case *Func:
			if x.Name == "arrayJoin" {
				if len(x.Args) != 1 {
					err = raise("NUMBER_OF_ARGUMENTS_DOESNT_MATCH", "arrayJoin takes one argument")
					return
				}
				c, cerr := sc.canonOf(x.Args[0], nil, stack)
				if cerr != nil {
					err = cerr
					return
				}
				if first == nil {
					first = x
					sc.arrayJoinKey = c
					sc.arrayJoinX = x.Args[0]
				} else if c != sc.arrayJoinKey {
					err = unsupported("several different arrayJoin() expressions in one select")
				}
				return
			}
			for _, a := range x.Args {
				walk(a, stack)
			}
		case *Lambda:
			walk(x.Body, stack)
		}
	}
	for _, it := range sc.q.Items {
		walk(it, nil)
	}
	for _, o := range sc.q.OrderBy {
		walk(o.X, nil)
	}
	if sc.q.Where != nil || sc.q.Prewhere != nil {
		save := first
		first = nil
		k, ax := sc.arrayJoinKey, sc.arrayJoinX
		if sc.q.Where != nil {
			walk(sc.q.Where, nil)
		}
		if sc.q.Prewhere != nil {
			walk(sc.q.Prewhere, nil)
		}
		if first != nil && err == nil {
			err = unsupported("arrayJoin() in WHERE")
		}
		first, sc.arrayJoinKey, sc.arrayJoinX = save, k, ax
	}
	return err
}

func (sc *selectCtx) arrayJoinArg() Expr { return sc.arrayJoinX }

// ---- evaluation ------------------------------------------------------------------------------------

func (ev *env) lambdaLookup(name string) (Value, bool) {
	return ev.lambda.lookup(name)
}

func (ev *env) eval(e Expr) (Value, error) {
	sc := ev.sc
	// group mode: an expression that is a GROUP BY key yields the key value
	if ev.group != nil && !ev.inAgg {
		switch e.(type) {
		case *Literal, *Lambda:
		default:
			c, err := sc.canonOf(e, ev.lambdaNames(), ev.aliasStack)
			if err != nil {
				return nil, err
			}
			if i, ok := ev.group.keyCanon[c]; ok {
				return ev.group.keyVals[i], nil
			}
		}
	}
	switch x := e.(type) {
	case *Literal:
		return x.Val, nil
	case *colRef:
		if ev.row == nil {
			return nil, raise("NOT_AN_AGGREGATE", "column %s is not under aggregate function and not in GROUP BY", sc.frame.cols[x.idx].name)
		}
		return ev.row[x.idx], nil
	case *Aliased:
		ne := *ev
		ne.aliasStack = append(append([]string{}, ev.aliasStack...), x.Alias)
		return ne.eval(x.X)
	case *Ident:
		r, err := sc.resolveIdent(x, ev.lambdaLookup, ev.aliasStack)
		if err != nil {
			return nil, err
		}
		switch r.kind {
		case idLambda:
			return r.val, nil
		case idAlias:
			ne := *ev
			ne.aliasStack = append(append([]string{}, ev.aliasStack...), r.alias)
			return ne.eval(r.expr)
		}
		if ev.row == nil {
			if ev.constOnly {
				return nil, raise("BAD_ARGUMENTS", "expression must be constant but references column %s", sc.frame.cols[r.col].name)
			}
			return nil, raise("NOT_AN_AGGREGATE", "column %s is not under aggregate function and not in GROUP BY", sc.frame.cols[r.col].name)
		}
		return ev.row[r.col], nil
	case *Lambda:
		return &closure{lam: x, ev: ev}, nil
	case *Subquery:
		return sc.x.scalarSubquery(x, sc)
	case *Interval:
		n, err := ev.eval(x.X)
		if err != nil {
			return nil, err
		}
		bits, ok := bitsOf(n)
		if !ok {
			return nil, raise("ILLEGAL_TYPE_OF_ARGUMENT", "INTERVAL needs an integer")
		}
		return intervalVal{n: int64(bits), unit: x.Unit}, nil
	case *Star:
		return nil, raise("ILLEGAL_TYPE_OF_ARGUMENT", "asterisk is not allowed here")
	case *Func:
		return ev.evalFunc(x)
	}
	return nil, unsupported("expression node %T", e)
}

func (ev *env) lambdaNames() []string {
	var res []string
	for f := ev.lambda; f != nil; f = f.parent {
		res = append(res, f.name)
	}
	return res
}

// intervalVal is the runtime value of an INTERVAL expression (only usable in date arithmetic).
type intervalVal struct {
	n    int64
	unit string
}

func (ev *env) evalFunc(f *Func) (Value, error) {
	sc := ev.sc
	// aggregates
	if spec, ok := parseAggName(f.Name); ok {
		if ev.inAgg {
			return nil, raise("ILLEGAL_AGGREGATION", "aggregate function %s is found inside another aggregate function", f.Name)
		}
		if ev.group == nil {
			return nil, raise("ILLEGAL_AGGREGATION", "aggregate function %s is not allowed here", f.Name)
		}
		return ev.evalAggregate(f, spec)
	}
	switch f.Name {
	case "arrayJoin":
		if !ev.hasArrayJoin {
			return nil, unsupported("arrayJoin() in this position")
		}
		return ev.arrayJoinVal, nil
	case "in", "notIn", "globalIn", "globalNotIn":
		return ev.evalIn(f)
	case "and", "or":
		return ev.evalAndOr(f)
	case "if":
		return ev.evalIf(f)
	case "multiIf":
		return ev.evalMultiIf(f)
	case "CAST":
		return ev.evalCast(f)
	}
	def, ok := funcs[f.Name]
	if !ok {
		return nil, unknownFunction(f.Name)
	}
	if f.HasParams {
		return nil, raise("FUNCTION_CANNOT_HAVE_PARAMETERS", "function %s is not parametric", f.Name)
	}
	if len(f.Args) < def.min || def.max >= 0 && len(f.Args) > def.max {
		return nil, raise("NUMBER_OF_ARGUMENTS_DOESNT_MATCH", "number of arguments for function %s doesn't match: passed %d", f.Name, len(f.Args))
	}
	args := make([]Value, len(f.Args))
	for i, a := range f.Args {
		v, err := ev.eval(a)
		if err != nil {
			return nil, err
		}
		args[i] = v
	}
	if len(args) > 0 {
		if cl, ok := args[0].(*closure); ok {
			// give the closure the static element types of the arrays it will be applied to
			ats := make([]*Type, len(f.Args))
			te := ev.typeEnv()
			for i := 1; i < len(f.Args); i++ {
				t, err := sc.typeOf(f.Args[i], te)
				if err != nil {
					return nil, err
				}
				ats[i] = t
			}
			pts, err := lambdaParamTypes(f, cl.lam, ats)
			if err != nil {
				return nil, err
			}
			args[0] = &closure{lam: cl.lam, ev: cl.ev, ptypes: pts}
		}
	}
	// comparison with a constant string: the string is parsed as the other side's type (rule A17)
	if def.cmp {
		var err error
		if args, err = coerceCompareArgs(f, args); err != nil {
			return nil, err
		}
	}
	if !def.nulls {
		for _, a := range args {
			if isNull(a) {
				return Null{}, nil
			}
		}
	}
	c := &callCtx{ev: ev, f: f, db: sc.x.db}
	return def.eval(c, args)
}

type callCtx struct {
	ev *env
	f  *Func
	db *DB
}

// isConstString reports whether an argument expression is a string literal.
func isConstString(e Expr) bool {
	l, ok := stripAlias(e).(*Literal)
	if !ok {
		return false
	}
	_, ok = l.Val.(string)
	return ok
}

// coerceCompareArgs: ClickHouse compares a constant string with a number / Date / DateTime by
// parsing the string as that type (FunctionComparison::executeWithConstString). rule A17.
func coerceCompareArgs(f *Func, args []Value) ([]Value, error) {
	if len(args) != 2 {
		return args, nil
	}
	for i := 0; i < 2; i++ {
		s, ok := args[i].(string)
		if !ok || !isConstString(f.Args[i]) {
			continue
		}
		other := args[1-i]
		var t *Type
		switch other.(type) {
		case Date:
			t = tDate
		case DateTime:
			t = tDateTime
		case string, Null, Array, Tuple, *Map:
			continue
		default:
			if !isNumeric(other) {
				continue
			}
			t = typeOfValue(other)
		}
		v, err := castValue(s, t)
		if err != nil {
			if t == tDate {
				// rule A17: a Date compared with a string that is not a date is an exception
				return nil, raise("A17", "cannot parse %q as Date for comparison", s)
			}
			return nil, err
		}
		res := append([]Value{}, args...)
		res[i] = v
		return res, nil
	}
	return args, nil
}

// rule A4 (logical half): and/or yield UInt8 (Nullable with three-valued logic when NULLs occur).
// Evaluation is lazy (short_circuit_function_evaluation = 'enable').
func (ev *env) evalAndOr(f *Func) (Value, error) {
	if len(f.Args) < 2 {
		return nil, raise("NUMBER_OF_ARGUMENTS_DOESNT_MATCH", "function %s needs at least two arguments", f.Name)
	}
	isAnd := f.Name == "and"
	sawNull := false
	for _, a := range f.Args {
		v, err := ev.eval(a)
		if err != nil {
			return nil, err
		}
		if isNull(v) {
			sawNull = true
			continue
		}
		if !isNumeric(v) {
			return nil, raise("ILLEGAL_TYPE_OF_ARGUMENT", "illegal type %s of argument of function %s", typeOfValue(v), f.Name)
		}
		t, _ := filterTruth(v)
		if isAnd && !t {
			// the remaining arguments still have to be type-correct; check statically
			if err := ev.checkLogicalRest(f); err != nil {
				return nil, err
			}
			return uint8(0), nil
		}
		if !isAnd && t {
			if err := ev.checkLogicalRest(f); err != nil {
				return nil, err
			}
			return uint8(1), nil
		}
	}
	if sawNull {
		return Null{}, nil
	}
	if isAnd {
		return uint8(1), nil
	}
	return uint8(0), nil
}

// checkLogicalRest: when and/or short-circuits, ClickHouse has still type-checked every argument.
func (ev *env) checkLogicalRest(f *Func) error {
	for _, a := range f.Args {
		t, err := ev.sc.typeOf(a, ev.typeEnv())
		if err != nil {
			return err
		}
		if t != nil && !logicalArgOK(t) {
			return raise("ILLEGAL_TYPE_OF_ARGUMENT", "illegal type %s of argument of function %s", t, f.Name)
		}
	}
	return nil
}

func logicalArgOK(t *Type) bool {
	if t.Name == "Nullable" {
		t = t.Args[0]
	}
	return isNumType(t) || t.Name == "Nothing"
}

func (ev *env) evalIf(f *Func) (Value, error) {
	if len(f.Args) != 3 {
		return nil, raise("NUMBER_OF_ARGUMENTS_DOESNT_MATCH", "function if takes three arguments")
	}
	c, err := ev.eval(f.Args[0])
	if err != nil {
		return nil, err
	}
	t := false
	if !isNull(c) { // a NULL condition selects the else branch
		if !isNumeric(c) {
			return nil, raise("ILLEGAL_TYPE_OF_ARGUMENT", "illegal type %s of first argument (condition) of function if", typeOfValue(c))
		}
		t, _ = filterTruth(c)
	}
	idx := 2
	if t {
		idx = 1
	}
	v, err := ev.eval(f.Args[idx])
	if err != nil {
		return nil, err
	}
	return ev.toBranchSupertype(v, f.Args[1:], "if")
}

func (ev *env) evalMultiIf(f *Func) (Value, error) {
	if len(f.Args) < 3 || len(f.Args)%2 == 0 {
		return nil, raise("NUMBER_OF_ARGUMENTS_DOESNT_MATCH", "invalid number of arguments for function multiIf")
	}
	var branches []Expr
	for i := 1; i < len(f.Args); i += 2 {
		branches = append(branches, f.Args[i])
	}
	branches = append(branches, f.Args[len(f.Args)-1])
	for i := 0; i+1 < len(f.Args); i += 2 {
		c, err := ev.eval(f.Args[i])
		if err != nil {
			return nil, err
		}
		if isNull(c) {
			continue
		}
		t, err := filterTruth(c)
		if err != nil {
			return nil, err
		}
		if t {
			v, err := ev.eval(f.Args[i+1])
			if err != nil {
				return nil, err
			}
			return ev.toBranchSupertype(v, branches, "multiIf")
		}
	}
	v, err := ev.eval(f.Args[len(f.Args)-1])
	if err != nil {
		return nil, err
	}
	return ev.toBranchSupertype(v, branches, "multiIf")
}

// toBranchSupertype converts the chosen branch value to the least supertype of all branches.
func (ev *env) toBranchSupertype(v Value, branches []Expr, fn string) (Value, error) {
	var st *Type
	for i, b := range branches {
		t, err := ev.sc.typeOf(b, ev.typeEnv())
		if err != nil {
			return nil, err
		}
		if t == nil {
			return v, nil // unknown: leave the value as is
		}
		if i == 0 {
			st = t
			continue
		}
		n := superType(st, t)
		if n == nil {
			return nil, raise("NO_COMMON_TYPE", "there is no supertype for types %s, %s of the branches of %s", st, t, fn)
		}
		st = n
	}
	if st == nil || Conforms(v, st) {
		return v, nil
	}
	return castValue(v, st)
}

func (ev *env) evalCast(f *Func) (Value, error) {
	if len(f.Args) != 2 {
		return nil, raise("NUMBER_OF_ARGUMENTS_DOESNT_MATCH", "CAST takes two arguments")
	}
	tl, ok := stripAlias(f.Args[1]).(*Literal)
	if !ok {
		return nil, raise("ILLEGAL_COLUMN", "second argument of CAST must be a constant string")
	}
	ts, ok := tl.Val.(string)
	if !ok {
		return nil, raise("ILLEGAL_COLUMN", "second argument of CAST must be a constant string")
	}
	t, err := ParseType(ts)
	if err != nil {
		return nil, err
	}
	v, err := ev.eval(f.Args[0])
	if err != nil {
		return nil, err
	}
	if isNull(v) && t.Name != "Nullable" {
		// cast_keep_nullable = 0: CAST(NULL AS T) raises for non-Nullable T
		return nil, raise("CANNOT_INSERT_NULL_IN_ORDINARY_COLUMN", "cannot convert NULL to %s", t)
	}
	return castValue(v, t)
}

// ---- scalar subqueries -----------------------------------------------------------------------------

func (x *execCtx) scalarSubquery(s *Subquery, sc *selectCtx) (Value, error) {
	if r, ok := x.scalars[s]; ok {
		return r.v, r.err
	}
	v, err := x.scalarSubquery1(s, sc)
	x.scalars[s] = scalarRes{v, err}
	return v, err
}

func (x *execCtx) scalarSubquery1(s *Subquery, sc *selectCtx) (Value, error) {
	rel, err := x.evalSelectNode(s.Sel, sc.scope)
	if err != nil {
		return nil, err
	}
	if len(rel.rows) > 1 {
		return nil, raise("INCORRECT_RESULT_OF_SCALAR_SUBQUERY", "scalar subquery returned more than one row")
	}
	if len(rel.rows) == 0 {
		// empty scalar subquery → NULL, provided the type can be Nullable
		for _, c := range rel.cols {
			if c.typ != nil {
				switch c.typ.Name {
				case "Array", "Map", "Tuple":
					return nil, raise("INCORRECT_RESULT_OF_SCALAR_SUBQUERY", "scalar subquery returned empty result of type %s which cannot be Nullable", c.typ)
				}
			}
		}
		if len(rel.cols) != 1 {
			return nil, raise("INCORRECT_RESULT_OF_SCALAR_SUBQUERY", "scalar subquery returned empty result of a tuple type which cannot be Nullable")
		}
		return Null{}, nil
	}
	if len(rel.cols) == 1 {
		if x.scalarTypes == nil {
			x.scalarTypes = map[*Subquery]*Type{}
		}
		x.scalarTypes[s] = rel.cols[0].typ
		return rel.rows[0][0], nil
	}
	return Tuple(append([]Value{}, rel.rows[0]...)), nil
}
