package chsql

import (
	"strings"
)

// valueSet is the right-hand side of IN.
type valueSet struct {
	arity   int // number of columns (1 for scalars)
	rows    [][]Value
	keys    map[string]bool
	classes []string // value class per column ("" if the set is empty or the column is all NULL)
	fromSub bool
}

// rule A9: IN (subquery | CTE | table) compares with the single column, or the tuple of columns, of
// the relation; IN (list) with the literals; an empty set → IN is false, NOT IN is true.
func (ev *env) evalIn(f *Func) (Value, error) {
	if len(f.Args) != 2 {
		return nil, raise("NUMBER_OF_ARGUMENTS_DOESNT_MATCH", "function %s takes two arguments", f.Name)
	}
	neg := f.Name == "notIn" || f.Name == "globalNotIn"
	left, err := ev.eval(f.Args[0])
	if err != nil {
		return nil, err
	}
	lt, isTuple := left.(Tuple)
	leftArity := 1
	if isTuple {
		leftArity = len(lt)
	}
	set, err := ev.buildSet(f, f.Args[1], leftArity, left)
	if err != nil {
		return nil, err
	}
	if set.arity != leftArity {
		return nil, raise("NUMBER_OF_COLUMNS_DOESNT_MATCH", "number of columns in section IN doesn't match: %d at left, %d at right", leftArity, set.arity)
	}
	// transform_null_in = 0: NULL IN (…) is NULL
	if isNull(left) {
		return Null{}, nil
	}
	lvals := []Value{left}
	if isTuple {
		lvals = lt
	}
	// type compatibility (ClickHouse: "Types of column N in section IN don't match")
	for i, lv := range lvals {
		if isNull(lv) || set.classes[i] == "" {
			continue
		}
		lc := valueClass(lv)
		if lc != set.classes[i] && !(lc == "date" && set.classes[i] == "datetime") && !(lc == "datetime" && set.classes[i] == "date") {
			return nil, raise("TYPE_MISMATCH", "types of column %d in section IN don't match: %s on the left, %s on the right", i+1, typeOfValue(lv), set.classes[i])
		}
	}
	found := false
	if !containsNull(left) && !containsNaN(left) {
		var sb strings.Builder
		for _, lv := range lvals {
			writeKey(&sb, lv)
		}
		found = set.keys[sb.String()]
	}
	if found != neg {
		return uint8(1), nil
	}
	return uint8(0), nil
}

func (ev *env) buildSet(f *Func, rhs Expr, leftArity int, leftSample Value) (*valueSet, error) {
	x := ev.sc.x
	rhs = stripAlias(rhs)
	cacheable := true
	if s, ok := x.sets[rhs]; ok {
		return s, nil
	}
	var set *valueSet
	switch r := rhs.(type) {
	case *Subquery:
		rel, err := x.evalSelectNode(r.Sel, ev.sc.scope)
		if err != nil {
			return nil, err
		}
		set = setFromRelation(rel)
	case *Ident:
		// `x IN name` / `x IN (name)`: the identifier names a CTE or a table
		var rel *relation
		if len(r.Parts) == 1 {
			if c := ev.sc.scope.lookup(r.Parts[0]); c != nil {
				var err error
				if rel, err = x.evalCTE(c); err != nil {
					return nil, err
				}
			}
		}
		if rel == nil && len(r.Parts) <= 2 {
			dbn, tn := "", r.Parts[0]
			if len(r.Parts) == 2 {
				dbn, tn = r.Parts[0], r.Parts[1]
			}
			if t := x.db.lookupTable(dbn, tn); t != nil {
				ts, err := t.ColTypes()
				if err != nil {
					return nil, err
				}
				rel = &relation{rows: t.Rows}
				for i, c := range t.Cols {
					rel.cols = append(rel.cols, relCol{name: c.Name, typ: ts[i]})
				}
				if x.db.OnScan != nil {
					adm := make([]int, len(t.Rows))
					for i := range adm {
						adm[i] = i
					}
					x.db.OnScan(ScanEvent{Table: t.Name, Offered: len(t.Rows), Admitted: adm})
				}
			}
		}
		if rel == nil {
			// an alias of a sub-select written earlier in the same select: (… ) AS name … IN (name)
			if len(r.Parts) == 1 {
				if ax, ok := ev.sc.aliases[r.Parts[0]]; ok {
					if sq, ok := stripAlias(ax).(*Subquery); ok {
						return ev.buildSet(f, sq, leftArity, leftSample)
					}
				}
			}
			return nil, raise("UNKNOWN_TABLE", "table %s (right side of IN) does not exist", strings.Join(r.Parts, "."))
		}
		set = setFromRelation(rel)
	default:
		var elems []Expr
		if fn, ok := rhs.(*Func); ok && (fn.Name == "tuple" || fn.Name == "array") {
			elems = fn.Args
			// (a, b) IN (1, 2): a single tuple unless its elements are themselves tuples
			if fn.Name == "tuple" && leftArity > 1 {
				allTuples := len(elems) > 0
				for _, e := range elems {
					if ef, ok := stripAlias(e).(*Func); !ok || ef.Name != "tuple" {
						allTuples = false
					}
				}
				if !allTuples {
					elems = []Expr{rhs}
				}
			}
		} else {
			elems = []Expr{rhs}
		}
		set = &valueSet{arity: leftArity, keys: map[string]bool{}}
		cev := ev.sc.newConstEnv()
		lvals := []Value{leftSample}
		if lt, ok := leftSample.(Tuple); ok {
			lvals = lt
		}
		for _, e := range elems {
			v, err := cev.eval(e)
			if err != nil {
				return nil, err
			}
			row := []Value{v}
			if leftArity > 1 {
				t, ok := v.(Tuple)
				if !ok || len(t) != leftArity {
					return nil, raise("INCORRECT_ELEMENT_OF_SET", "invalid type in set: expected tuple of %d elements, got %s", leftArity, Format(v))
				}
				row = append([]Value{}, t...)
			}
			// literals are converted to the left-hand type (a constant string is parsed as the
			// number / Date of the left side — rule A17); the conversion depends on the left value's
			// type only, which is fixed per column, so caching the converted set is sound.
			for i := range row {
				if s, ok := row[i].(string); ok && i < len(lvals) && !isNull(lvals[i]) {
					var t *Type
					switch lv := lvals[i].(type) {
					case Date:
						t = tDate
					case DateTime:
						t = tDateTime
					default:
						if isNumeric(lv) {
							t = typeOfValue(lv)
						}
					}
					if t != nil {
						c, err := castValue(s, t)
						if err != nil {
							return nil, err
						}
						row[i] = c
					}
				}
			}
			set.rows = append(set.rows, row)
		}
		for _, lv := range lvals {
			if isNull(lv) {
				cacheable = false // could not fix the conversion type yet
			}
		}
		set.finish()
	}
	if cacheable {
		x.sets[rhs] = set
	}
	return set, nil
}

func setFromRelation(rel *relation) *valueSet {
	s := &valueSet{arity: len(rel.cols), rows: rel.rows, keys: map[string]bool{}, fromSub: true}
	s.finish()
	return s
}

func (s *valueSet) finish() {
	s.classes = make([]string, s.arity)
	for _, row := range s.rows {
		skip := false
		var sb strings.Builder
		for i, v := range row {
			if i < s.arity && s.classes[i] == "" && !isNull(v) {
				s.classes[i] = valueClass(v)
			}
			if containsNull(v) || containsNaN(v) {
				skip = true
			}
			writeKey(&sb, v)
		}
		if !skip && len(row) == s.arity {
			s.keys[sb.String()] = true
		}
	}
}

// prepareSet evaluates the relation behind `IN (subquery | cte | table)` during analysis and checks
// the column count against the left-hand side; constant lists are evaluated for their errors only.
func (sc *selectCtx) prepareSet(rhs Expr, lt *Type) error {
	rhs = stripAlias(rhs)
	ev := sc.newConstEnv()
	leftArity := 1
	if lt != nil && lt.Name == "Tuple" {
		leftArity = len(lt.Args)
	}
	switch r := rhs.(type) {
	case *Subquery, *Ident:
		if id, ok := r.(*Ident); ok && len(id.Parts) == 1 {
			if ax, isAlias := sc.aliases[id.Parts[0]]; isAlias && sc.scope.lookup(id.Parts[0]) == nil && sc.x.db.lookupTable("", id.Parts[0]) == nil {
				return sc.prepareSet(ax, lt)
			}
		}
		set, err := ev.buildSet(nil, rhs, leftArity, Null{})
		if err != nil {
			return err
		}
		if lt != nil && set.arity != leftArity {
			return raise("NUMBER_OF_COLUMNS_DOESNT_MATCH", "number of columns in section IN doesn't match: %d at left, %d at right", leftArity, set.arity)
		}
	default:
		var elems []Expr
		if fn, ok := rhs.(*Func); ok && (fn.Name == "tuple" || fn.Name == "array") {
			elems = fn.Args
		} else {
			elems = []Expr{rhs}
		}
		for _, e := range elems {
			if _, err := ev.eval(e); err != nil {
				return err
			}
		}
	}
	return nil
}
