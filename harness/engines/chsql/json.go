package chsql

import (
	"math"
	"strconv"
	"strings"
	"unicode/utf16"
	"unicode/utf8"
)

// A small strict JSON reader modelling simdjson as used by ClickHouse's JSON* functions — rule A14.

type jsonKind int

const (
	jNull jsonKind = iota
	jBool
	jInt64
	jUInt64
	jDouble
	jString
	jArray
	jObject
)

type jsonNode struct {
	kind jsonKind
	b    bool
	i    int64
	u    uint64
	f    float64
	s    string
	arr  []*jsonNode
	keys []string
	vals []*jsonNode
}

type jsonParser struct {
	s     string
	i     int
	depth int
}

// parseJSON parses a whole document; ok=false for anything simdjson rejects (the JSON* functions then
// return their default: ”, empty array, 'Null').
func parseJSON(s string) (*jsonNode, bool) {
	if !utf8.ValidString(s) {
		return nil, false
	}
	p := &jsonParser{s: s}
	p.ws()
	n, ok := p.value()
	if !ok {
		return nil, false
	}
	p.ws()
	if p.i != len(p.s) {
		return nil, false
	}
	return n, true
}

func (p *jsonParser) ws() {
	for p.i < len(p.s) {
		switch p.s[p.i] {
		case ' ', '\t', '\n', '\r':
			p.i++
		default:
			return
		}
	}
}

func (p *jsonParser) value() (*jsonNode, bool) {
	if p.i >= len(p.s) {
		return nil, false
	}
	p.depth++
	defer func() { p.depth-- }()
	if p.depth > 1024 {
		return nil, false
	}
	c := p.s[p.i]
	switch {
	case c == '{':
		p.i++
		n := &jsonNode{kind: jObject}
		p.ws()
		if p.i < len(p.s) && p.s[p.i] == '}' {
			p.i++
			return n, true
		}
		for {
			p.ws()
			if p.i >= len(p.s) || p.s[p.i] != '"' {
				return nil, false
			}
			k, ok := p.str()
			if !ok {
				return nil, false
			}
			p.ws()
			if p.i >= len(p.s) || p.s[p.i] != ':' {
				return nil, false
			}
			p.i++
			p.ws()
			v, ok := p.value()
			if !ok {
				return nil, false
			}
			n.keys = append(n.keys, k)
			n.vals = append(n.vals, v)
			p.ws()
			if p.i < len(p.s) && p.s[p.i] == ',' {
				p.i++
				continue
			}
			if p.i < len(p.s) && p.s[p.i] == '}' {
				p.i++
				return n, true
			}
			return nil, false
		}
	case c == '[':
		p.i++
		n := &jsonNode{kind: jArray}
		p.ws()
		if p.i < len(p.s) && p.s[p.i] == ']' {
			p.i++
			return n, true
		}
		for {
			p.ws()
			v, ok := p.value()
			if !ok {
				return nil, false
			}
			n.arr = append(n.arr, v)
			p.ws()
			if p.i < len(p.s) && p.s[p.i] == ',' {
				p.i++
				continue
			}
			if p.i < len(p.s) && p.s[p.i] == ']' {
				p.i++
				return n, true
			}
			return nil, false
		}
	case c == '"':
		s, ok := p.str()
		if !ok {
			return nil, false
		}
		return &jsonNode{kind: jString, s: s}, true
	case c == 't':
		if strings.HasPrefix(p.s[p.i:], "true") {
			p.i += 4
			return &jsonNode{kind: jBool, b: true}, true
		}
	case c == 'f':
		if strings.HasPrefix(p.s[p.i:], "false") {
			p.i += 5
			return &jsonNode{kind: jBool}, true
		}
	case c == 'n':
		if strings.HasPrefix(p.s[p.i:], "null") {
			p.i += 4
			return &jsonNode{kind: jNull}, true
		}
	case c == '-' || c >= '0' && c <= '9':
		return p.number()
	}
	return nil, false
}

func (p *jsonParser) number() (*jsonNode, bool) {
	st := p.i
	if p.s[p.i] == '-' {
		p.i++
	}
	if p.i >= len(p.s) {
		return nil, false
	}
	if p.s[p.i] == '0' {
		p.i++
	} else if p.s[p.i] >= '1' && p.s[p.i] <= '9' {
		for p.i < len(p.s) && isDigit(p.s[p.i]) {
			p.i++
		}
	} else {
		return nil, false
	}
	isFloat := false
	if p.i < len(p.s) && p.s[p.i] == '.' {
		isFloat = true
		p.i++
		if p.i >= len(p.s) || !isDigit(p.s[p.i]) {
			return nil, false
		}
		for p.i < len(p.s) && isDigit(p.s[p.i]) {
			p.i++
		}
	}
	if p.i < len(p.s) && (p.s[p.i] == 'e' || p.s[p.i] == 'E') {
		isFloat = true
		p.i++
		if p.i < len(p.s) && (p.s[p.i] == '+' || p.s[p.i] == '-') {
			p.i++
		}
		if p.i >= len(p.s) || !isDigit(p.s[p.i]) {
			return nil, false
		}
		for p.i < len(p.s) && isDigit(p.s[p.i]) {
			p.i++
		}
	}
	// a number must be followed by a structural character or white space
	if p.i < len(p.s) {
		switch p.s[p.i] {
		case ',', ']', '}', ' ', '\t', '\n', '\r':
		default:
			return nil, false
		}
	}
	txt := p.s[st:p.i]
	if !isFloat {
		if i, err := strconv.ParseInt(txt, 10, 64); err == nil {
			return &jsonNode{kind: jInt64, i: i}, true
		}
		if u, err := strconv.ParseUint(txt, 10, 64); err == nil {
			return &jsonNode{kind: jUInt64, u: u}, true
		}
		// simdjson reports BIGINT_ERROR for integers beyond 64 bits: the document is invalid
		return nil, false
	}
	f, err := strconv.ParseFloat(txt, 64)
	if err != nil || math.IsInf(f, 0) {
		return nil, false // simdjson: NUMBER_ERROR for out-of-range doubles
	}
	return &jsonNode{kind: jDouble, f: f}, true
}

func (p *jsonParser) str() (string, bool) {
	p.i++ // opening quote
	var sb strings.Builder
	for p.i < len(p.s) {
		c := p.s[p.i]
		switch {
		case c == '"':
			p.i++
			return sb.String(), true
		case c < 0x20:
			return "", false
		case c == '\\':
			p.i++
			if p.i >= len(p.s) {
				return "", false
			}
			e := p.s[p.i]
			p.i++
			switch e {
			case '"', '\\', '/':
				sb.WriteByte(e)
			case 'b':
				sb.WriteByte('\b')
			case 'f':
				sb.WriteByte('\f')
			case 'n':
				sb.WriteByte('\n')
			case 'r':
				sb.WriteByte('\r')
			case 't':
				sb.WriteByte('\t')
			case 'u':
				r, ok := p.hex4()
				if !ok {
					return "", false
				}
				if utf16.IsSurrogate(rune(r)) {
					if r >= 0xdc00 {
						return "", false // lone low surrogate
					}
					if !strings.HasPrefix(p.s[p.i:], "\\u") {
						return "", false
					}
					p.i += 2
					r2, ok := p.hex4()
					if !ok || r2 < 0xdc00 || r2 > 0xdfff {
						return "", false
					}
					sb.WriteRune(utf16.DecodeRune(rune(r), rune(r2)))
				} else {
					sb.WriteRune(rune(r))
				}
			default:
				return "", false
			}
		default:
			sb.WriteByte(c)
			p.i++
		}
	}
	return "", false
}

func (p *jsonParser) hex4() (uint32, bool) {
	if p.i+4 > len(p.s) {
		return 0, false
	}
	var r uint32
	for k := 0; k < 4; k++ {
		c := p.s[p.i+k]
		if !isHexDigit(c) {
			return 0, false
		}
		r = r<<4 | uint32(hexVal(c))
	}
	p.i += 4
	return r, true
}

// raw serialises a node the way JSONExtractRaw does: minified, strings re-escaped with
// escape_forward_slashes = false, doubles in shortest round-trip form.
func (n *jsonNode) raw(sb *strings.Builder) {
	switch n.kind {
	case jNull:
		sb.WriteString("null")
	case jBool:
		if n.b {
			sb.WriteString("true")
		} else {
			sb.WriteString("false")
		}
	case jInt64:
		sb.WriteString(strconv.FormatInt(n.i, 10))
	case jUInt64:
		sb.WriteString(strconv.FormatUint(n.u, 10))
	case jDouble:
		sb.WriteString(formatFloat(n.f))
	case jString:
		writeJSONString(sb, n.s)
	case jArray:
		sb.WriteByte('[')
		for i, e := range n.arr {
			if i > 0 {
				sb.WriteByte(',')
			}
			e.raw(sb)
		}
		sb.WriteByte(']')
	case jObject:
		sb.WriteByte('{')
		for i := range n.keys {
			if i > 0 {
				sb.WriteByte(',')
			}
			writeJSONString(sb, n.keys[i])
			sb.WriteByte(':')
			n.vals[i].raw(sb)
		}
		sb.WriteByte('}')
	}
}

func (n *jsonNode) rawString() string {
	var sb strings.Builder
	n.raw(&sb)
	return sb.String()
}

func writeJSONString(sb *strings.Builder, s string) {
	sb.WriteByte('"')
	for _, r := range s {
		switch r {
		case '"':
			sb.WriteString(`\"`)
		case '\\':
			sb.WriteString(`\\`)
		case '\b':
			sb.WriteString(`\b`)
		case '\f':
			sb.WriteString(`\f`)
		case '\n':
			sb.WriteString(`\n`)
		case '\r':
			sb.WriteString(`\r`)
		case '\t':
			sb.WriteString(`\t`)
		case 0x2028:
			sb.WriteString("\\u2028")
		case 0x2029:
			sb.WriteString("\\u2029")
		default:
			if r < 0x20 {
				sb.WriteString(`\u00`)
				sb.WriteByte("0123456789ABCDEF"[r>>4])
				sb.WriteByte("0123456789ABCDEF"[r&15])
			} else {
				sb.WriteRune(r)
			}
		}
	}
	sb.WriteByte('"')
}

// jsonPath walks path components — rule A14: strings are object keys, integers are 1-based indexes
// (negative: from the end) into arrays and into the members of objects; 0 selects nothing.
func jsonPath(n *jsonNode, path []Value) (*jsonNode, bool, error) {
	for _, pc := range path {
		switch k := pc.(type) {
		case string:
			if n.kind != jObject {
				return nil, false, nil
			}
			found := false
			for i, key := range n.keys {
				if key == k {
					n = n.vals[i]
					found = true
					break
				}
			}
			if !found {
				return nil, false, nil
			}
		default:
			b, ok := bitsOf(pc)
			if !ok {
				return nil, false, raise("ILLEGAL_TYPE_OF_ARGUMENT", "JSON path arguments must be strings or integers, got %s", typeOfValue(pc))
			}
			idx := int64(b)
			var elems []*jsonNode
			switch n.kind {
			case jArray:
				elems = n.arr
			case jObject:
				elems = n.vals
			default:
				return nil, false, nil
			}
			if idx < 0 {
				idx = int64(len(elems)) + idx + 1
			}
			if idx < 1 || idx > int64(len(elems)) {
				return nil, false, nil
			}
			n = elems[idx-1]
		}
	}
	return n, true, nil
}

func jsonLookup(c *callCtx, args []Value, nPath int) (*jsonNode, bool, error) {
	s, err := strArg(c, args, 0)
	if err != nil {
		return nil, false, err
	}
	doc, ok := parseJSON(s)
	if !ok {
		return nil, false, nil
	}
	return jsonPath(doc, args[1:1+nPath])
}

func jsonTyp(res *Type) func(t *typeCall) (*Type, error) {
	return func(t *typeCall) (*Type, error) {
		if a := t.args[0]; a != nil && !isStringType(a) {
			return nil, raise("ILLEGAL_TYPE_OF_ARGUMENT", "the first argument of function %s should be a string containing JSON, illegal type: %s", t.f.Name, a)
		}
		for i, a := range t.args[1:] {
			if a != nil && !isStringType(a) && !isIntType(a) {
				return nil, raise("ILLEGAL_TYPE_OF_ARGUMENT", "illegal type %s of JSON path argument %d of function %s", a, i+2, t.f.Name)
			}
		}
		return res, nil
	}
}

func init() {
	// rule A14
	reg("JSONExtractString", &fnDef{min: 1, max: -1, eval: func(c *callCtx, args []Value) (Value, error) {
		n, ok, err := jsonLookup(c, args, len(args)-1)
		if err != nil {
			return nil, err
		}
		if !ok || n.kind != jString {
			return "", nil
		}
		return n.s, nil
	}, typ: jsonTyp(tString)})
	reg("JSONExtractRaw", &fnDef{min: 1, max: -1, eval: func(c *callCtx, args []Value) (Value, error) {
		n, ok, err := jsonLookup(c, args, len(args)-1)
		if err != nil {
			return nil, err
		}
		if !ok {
			return "", nil
		}
		return n.rawString(), nil
	}, typ: jsonTyp(tString)})
	reg("JSONHas", &fnDef{min: 1, max: -1, eval: func(c *callCtx, args []Value) (Value, error) {
		_, ok, err := jsonLookup(c, args, len(args)-1)
		if err != nil {
			return nil, err
		}
		return boolVal(ok), nil
	}, typ: jsonTyp(tUInt8)})
	reg("isValidJSON", &fnDef{min: 1, max: 1, eval: func(c *callCtx, args []Value) (Value, error) {
		s, err := strArg(c, args, 0)
		if err != nil {
			return nil, err
		}
		_, ok := parseJSON(s)
		return boolVal(ok), nil
	}, typ: jsonTyp(tUInt8)})
	reg("JSONLength", &fnDef{min: 1, max: -1, eval: func(c *callCtx, args []Value) (Value, error) {
		n, ok, err := jsonLookup(c, args, len(args)-1)
		if err != nil {
			return nil, err
		}
		if !ok {
			return uint64(0), nil
		}
		switch n.kind {
		case jArray:
			return uint64(len(n.arr)), nil
		case jObject:
			return uint64(len(n.keys)), nil
		}
		return uint64(0), nil
	}, typ: jsonTyp(tUInt64)})
	// JSONType returns an Enum8 rendered as its name; it compares equal to these strings.
	reg("JSONType", &fnDef{min: 1, max: -1, eval: func(c *callCtx, args []Value) (Value, error) {
		n, ok, err := jsonLookup(c, args, len(args)-1)
		if err != nil {
			return nil, err
		}
		if !ok {
			return "Null", nil
		}
		switch n.kind {
		case jObject:
			return "Object", nil
		case jArray:
			return "Array", nil
		case jString:
			return "String", nil
		case jInt64:
			return "Int64", nil
		case jUInt64:
			return "UInt64", nil
		case jDouble:
			return "Double", nil
		case jBool:
			return "Bool", nil
		}
		return "Null", nil
	}, typ: jsonTyp(tString)})
	num := func(name string, t *Type) {
		reg(name, &fnDef{min: 1, max: -1, eval: func(c *callCtx, args []Value) (Value, error) {
			n, ok, err := jsonLookup(c, args, len(args)-1)
			if err != nil {
				return nil, err
			}
			var v Value = uint8(0)
			if ok {
				switch n.kind {
				case jInt64:
					v = n.i
				case jUInt64:
					v = n.u
				case jDouble:
					v = n.f
				case jBool:
					if name == "JSONExtractBool" {
						v = boolVal(n.b)
					}
				case jString:
					// numbers inside strings are parsed by JSONExtractInt/Float ("123")
					if f, okf := parseFloatText(n.s); okf && name != "JSONExtractBool" {
						v = f
					}
				}
			}
			if f, isF := v.(float64); isF && t.Name != "Float64" {
				if f != math.Trunc(f) || math.Abs(f) > 9e18 {
					return DefaultOf(t) // not convertible without loss → default
				}
			}
			if name == "JSONExtractBool" {
				if _, isB := v.(uint8); !isB {
					return uint8(0), nil
				}
			}
			return castValue(v, t)
		}, typ: jsonTyp(t)})
	}
	num("JSONExtractInt", tInt64)
	num("JSONExtractUInt", tUInt64)
	num("JSONExtractFloat", tFloat64)
	num("JSONExtractBool", tUInt8)

	// JSONExtractKeysAndValues(json[, path…], 'String') → Array(Tuple(String, String)):
	// string values unescaped, other non-null values as their raw JSON text, null values skipped
	// (StringNode::insertResultToColumn returns false for null). Invalid JSON or a non-object → [].
	reg("JSONExtractKeysAndValues", &fnDef{min: 2, max: -1, eval: func(c *callCtx, args []Value) (Value, error) {
		tl, ok := stripAlias(c.f.Args[len(args)-1]).(*Literal)
		tn, _ := args[len(args)-1].(string)
		if !ok || tn == "" {
			return nil, raise("ILLEGAL_COLUMN", "the last argument of function JSONExtractKeysAndValues must be a constant string naming a type")
		}
		_ = tl
		vt, err := ParseType(tn)
		if err != nil {
			return nil, err
		}
		if vt.Name != "String" {
			return nil, unsupported("JSONExtractKeysAndValues with value type %s", vt)
		}
		n, found, err := jsonLookup(c, args, len(args)-2)
		if err != nil {
			return nil, err
		}
		res := Array{}
		if !found || n.kind != jObject {
			return res, nil
		}
		for i, k := range n.keys {
			v := n.vals[i]
			switch v.kind {
			case jNull:
				continue
			case jString:
				res = append(res, Tuple{k, v.s})
			default:
				res = append(res, Tuple{k, v.rawString()})
			}
		}
		return res, nil
	}, typ: func(t *typeCall) (*Type, error) {
		if _, err := jsonTyp(nil)(&typeCall{args: t.args[:len(t.args)-1], f: t.f}); err != nil {
			return nil, err
		}
		l, ok := stripAlias(t.f.Args[len(t.f.Args)-1]).(*Literal)
		if !ok {
			return nil, raise("ILLEGAL_COLUMN", "the last argument of function JSONExtractKeysAndValues must be a constant string naming a type")
		}
		tn, ok := l.Val.(string)
		if !ok {
			return nil, raise("ILLEGAL_COLUMN", "the last argument of function JSONExtractKeysAndValues must be a constant string naming a type")
		}
		vt, err := ParseType(tn)
		if err != nil {
			return nil, err
		}
		return tArray(tTuple(tString, vt)), nil
	}})
	reg("JSONExtractKeys", &fnDef{min: 1, max: -1, eval: func(c *callCtx, args []Value) (Value, error) {
		n, found, err := jsonLookup(c, args, len(args)-1)
		if err != nil {
			return nil, err
		}
		res := Array{}
		if found && n.kind == jObject {
			for _, k := range n.keys {
				res = append(res, k)
			}
		}
		return res, nil
	}, typ: jsonTyp(tArray(tString))})
}
