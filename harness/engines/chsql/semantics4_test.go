package chsql

import (
	"strings"
	"testing"
)

func TestSemJSONMapsDatesFloats(t *testing.T) {
	tb := []*Table{tSamples, tSeries, tGin}
	runCases(t, []semCase{
		// ---- A13
		{name: "A13/plain", sql: `SELECT toFloat64OrNull('1.5'), toFloat64OrNull('-2'), toFloat64OrNull('1e3'), toFloat64OrNull('+4'), toFloat64OrNull('.5'), toFloat64OrNull('5.')`, want: []string{"1.5|-2|1000|4|0.5|5"}},
		{name: "A13/rejects", sql: `SELECT toFloat64OrNull(''), toFloat64OrNull(' 1'), toFloat64OrNull('1 '), toFloat64OrNull('0x10'), toFloat64OrNull('1,5'), toFloat64OrNull('abc'), toFloat64OrNull('1e'), toFloat64OrNull('--1'), toFloat64OrNull('.')`,
			want: []string{`\N|\N|\N|\N|\N|\N|\N|\N|\N`}},
		{name: "A13/inf-nan", sql: `SELECT toFloat64OrNull('inf'), toFloat64OrNull('-inf'), toFloat64OrNull('nan'), toFloat64OrNull('Infinity'), toFloat64OrNull('NaN')`, want: []string{"inf|-inf|nan|inf|nan"}},
		{name: "A13/or-zero", sql: `SELECT toFloat64OrZero('7.25'), toFloat64OrZero('x'), toFloat64OrZero(''), toTypeName(toFloat64OrZero('x')), toTypeName(toFloat64OrNull('x'))`, want: []string{"7.25|0|0|Float64|Nullable(Float64)"}},
		{name: "A13/is-not-null-filter", tables: tb,
			sql:  `SELECT fingerprint FROM time_series WHERE ((toFloat64OrNull(JSONExtractString(labels, 'n')) IS NOT NULL) and ((toFloat64OrNull(JSONExtractString(labels, 'n'))) > (5.000000)))`,
			want: []string{"3"}},
		{name: "A13/isNotNull-function-eq-one", tables: []*Table{tGin}, sql: `SELECT count() FROM time_series_gin WHERE ((key) == ('n')) and ((isNotNull(toFloat64OrNull(val))) == (1)) and ((toFloat64OrZero(val)) > (5.000000))`, want: []string{"1"}},
		{name: "A13/non-string-argument", sql: `SELECT toFloat64OrNull(1)`, raise: "ILLEGAL_TYPE_OF_ARGUMENT"},
		{name: "A13/null-comparisons", sql: `SELECT toFloat64OrNull('x') > 1, isNull(toFloat64OrNull('x') > 1), (toFloat64OrNull('x') IS NOT NULL) and (toFloat64OrNull('x') > 1), toFloat64OrNull('x') IS NULL`, want: []string{`\N|1|0|1`}},

		// ---- A14
		{name: "A14/keys-and-values", sql: `SELECT JSONExtractKeysAndValues('{"a":"x","b":1,"c":true,"d":{"e":[1,2]},"f":null,"g":1.50,"h":"q\\"uo\\\\te"}', 'String')`,
			want: []string{`[('a','x'),('b','1'),('c','true'),('d','{"e":[1,2]}'),('g','1.5'),('h','q"uo\\te')]`}},
		{name: "A14/keys-and-values-type", sql: `SELECT toTypeName(JSONExtractKeysAndValues('{}', 'String')), JSONExtractKeysAndValues('{}', 'String'), JSONExtractKeysAndValues('[1]', 'String'), JSONExtractKeysAndValues('{"a":', 'String'), JSONExtractKeysAndValues('', 'String')`,
			want: []string{"Array(Tuple(String, String))|[]|[]|[]|[]"}},
		{name: "A14/labels-to-map", tables: tb,
			sql:  `SELECT fingerprint, mapFromArrays(arrayMap(x -> x.1, JSONExtractKeysAndValues(time_series.labels, 'String') as rawlbls), arrayMap(x -> x.2, rawlbls)) as labels FROM time_series ORDER BY fingerprint`,
			want: []string{`1|{'app':'x','lvl':'err'}`, `2|{'app':'y'}`, `3|{'app':'z','n':'7'}`}, types: "UInt64|Map(String, String)"},
		{name: "A14/extract-string", sql: `SELECT JSONExtractString('{"a":"x","b":1}', 'a'), JSONExtractString('{"a":"x","b":1}', 'b'), JSONExtractString('{"a":"x"}', 'zz'), JSONExtractString('not json', 'a'), JSONExtractString('{"a":{"b":"deep"}}', 'a', 'b'), JSONExtractString('"top"')`,
			want: []string{"x||||deep|top"}},
		{name: "A14/extract-string-unescapes", sql: `SELECT JSONExtractString('{"a":"l1\\nl2\\u0041\\u00e9"}', 'a')`, want: []string{"l1\nl2Aé"}},
		{name: "A14/extract-raw", sql: `SELECT JSONExtractRaw('{"a": [1, 2.0, "x"], "b":{"c" : null}}', 'a'), JSONExtractRaw('{"a": [1, 2.0, "x"], "b":{"c" : null}}', 'b'), JSONExtractRaw('{"a":"s"}', 'a'), JSONExtractRaw('{"a":1}', 'zz'), JSONExtractRaw('bad', 'a')`,
			want: []string{`[1,2,"x"]|{"c":null}|"s"||`}},
		{name: "A14/json-type", sql: `SELECT JSONType('{"a":1}'), JSONType('[1]'), JSONType('"s"'), JSONType('1'), JSONType('-1'), JSONType('18446744073709551615'), JSONType('1.5'), JSONType('true'), JSONType('null'), JSONType('oops'), JSONType('{"a":1}', 'b')`,
			want: []string{"Object|Array|String|Int64|Int64|UInt64|Double|Bool|Null|Null|Null"}},
		{name: "A14/json-type-compares-to-string", sql: `SELECT JSONType('{"a":"x"}', 'a') == 'String', JSONType('{"a":1}', 'a') == 'String', if(JSONType('{"a":1}', 'a') == 'String', 'S', 'R')`, want: []string{"1|0|R"}},
		{name: "A14/path-indexes", sql: `SELECT JSONExtractRaw('{"a":[10,20,30]}', 'a', 1), JSONExtractRaw('{"a":[10,20,30]}', 'a', -1), JSONExtractRaw('{"a":[10,20,30]}', 'a', 4), JSONExtractRaw('{"a":[10,20,30]}', 'a', 0), JSONExtractRaw('{"x":5,"y":6}', 2), JSONExtractString('{"a":{"b":[{"c":"v"}]}}', 'a', 'b', 1, 'c')`,
			want: []string{"10|30|||6|v"}},
		{name: "A14/path-string-one-is-a-key", sql: `SELECT JSONExtractRaw('{"a":[7,8]}', 'a', '1'), JSONExtractRaw('{"a":{"1":9}}', 'a', '1')`, want: []string{"|9"}},
		{name: "A14/json-parser-planner-shape", sql: `SELECT if(JSONType(s, 'a','b','1','c' as jp_1) == 'String', JSONExtractString(s, jp_1), JSONExtractRaw(s, jp_1)) FROM (SELECT '{"c":"direct","a":{"b":{"1":{"c":"nested"}}}}' AS s)`,
			// jp_1 is 'c' alone: the extraction reads the top-level key c, while the type test walks a.b.'1'.c
			want: []string{"direct"}},
		{name: "A14/json-has-length", sql: `SELECT JSONHas('{"a":null}', 'a'), JSONHas('{"a":null}', 'b'), JSONHas('bad', 'a'), JSONLength('[1,2,3]'), JSONLength('{"a":1}')`, want: []string{"1|0|0|3|1"}},
		{name: "A14/strictness", sql: `SELECT JSONType('{"a":1,}'), JSONType('{a:1}'), JSONType('[1 2]'), JSONType('{"a":1} x'), JSONType(' {"a":1} '), JSONType('01'), JSONType('1.'), JSONType('"\x01"'), JSONType("{'a':1}")`,
			raise: "UNKNOWN_IDENTIFIER"},
		{name: "A14/strictness-2", sql: `SELECT JSONType('{"a":1,}'), JSONType('{a:1}'), JSONType('[1 2]'), JSONType('{"a":1} x'), JSONType(' {"a":1} '), JSONType('01'), JSONType('1.'), JSONType('"\x01"'), JSONType('{"a":1}{"b":2}')`,
			want: []string{"Null|Null|Null|Null|Object|Null|Null|Null|Null"}},
		{name: "A14/duplicate-keys", sql: `SELECT JSONExtractString('{"a":"1","a":"2"}', 'a'), JSONExtractKeysAndValues('{"a":"1","a":"2"}', 'String')`, want: []string{"1|[('a','1'),('a','2')]"}},
		{name: "A14/non-string-json-arg", sql: `SELECT JSONExtractString(1, 'a')`, raise: "ILLEGAL_TYPE_OF_ARGUMENT"},
		{name: "A14/extract-numbers", sql: `SELECT JSONExtractInt('{"a":-5}', 'a'), JSONExtractUInt('{"a":5}', 'a'), JSONExtractFloat('{"a":1.5}', 'a'), JSONExtractBool('{"a":true}', 'a'), JSONExtractInt('{"a":"x"}', 'a')`, want: []string{"-5|5|1.5|1|0"}},

		// ---- A16
		{name: "A16/missing-key-empty", sql: `SELECT map('a', '1')['a'], map('a', '1')['zz'], length(map('a', '1')['zz']), map('a', 5)['zz']`, want: []string{"1||0|0"}},
		{name: "A16/mapUpdate-b-wins", sql: `SELECT mapUpdate(map('a', '1', 'b', '2'), map('b', 'X', 'c', '3'))`, want: []string{"{'a':'1','b':'X','c':'3'}"}},
		{name: "A16/mapUpdate-empty", sql: `SELECT mapUpdate(map('a', '1'), mapFromArrays(arrayFilter(x -> x != 'k', ['k']), arrayFilter(x -> x != 'v', ['v'])))`, want: []string{"{'a':'1'}"}},
		{name: "A16/mapFilter", sql: `SELECT mapFilter((k,v) -> k!='y' and (k, v)!=('z', 'q'), map('x', '1', 'y', '2', 'z', 'q', 'w', 'q')), mapFilter((k,v) -> k IN ('a'), map('a', '1', 'b', '2'))`, want: []string{"{'x':'1','w':'q'}|{'a':'1'}"}},
		{name: "A16/mapFromArrays-length-mismatch", sql: `SELECT mapFromArrays(['a', 'b'], ['1'])`, raise: "A16"},
		{name: "A16/mapFromArrays-mismatch-per-row", tables: tb, sql: `SELECT mapFromArrays(['a', 'b'], splitByChar(' ', string)) FROM samples_v3`, want: []string{"{'a':'a','b':'one'}", "{'a':'b','b':'two'}", "{'a':'c','b':'three'}", "{'a':'d','b':'four'}", "{'a':'e','b':'five'}"}},
		{name: "A16/mapFromArrays-mismatch-raises-mid-table", tables: []*Table{mkTable("m", "s String", R("a b"), R("a"))}, sql: `SELECT mapFromArrays(['x', 'y'], splitByChar(' ', s)) FROM m`, raise: "A16"},
		{name: "A16/regexp-parser-shape",
			sql:  `SELECT mapFromArrays(arrayFilter( (x,y) -> x != '' AND y != '',  ['n','m'] as re_lbls_1,  arrayMap(x -> x[length(x)], extractAllGroupsHorizontal(s, '([0-9]+) (\\w+)')) as re_vals_1),arrayFilter((x,y) -> x != '' AND y != '', re_vals_1, re_lbls_1)) FROM (SELECT arrayJoin(['12 ab', 'nothing']) AS s)`,
			want: []string{"{'n':'12','m':'ab'}", "{}"}},
		{name: "A16/mapKeys-values-zip-sort", sql: `SELECT arraySort(arrayZip(mapKeys(m), mapValues(m))), mapKeys(m), mapValues(m) FROM (SELECT map('b', '2', 'a', '1') AS m)`, want: []string{"[('a','1'),('b','2')]|['b','a']|['2','1']"}},
		{name: "A16/map-subscript-key-type", sql: `SELECT map('a', '1')[1]`, raise: "ILLEGAL_TYPE_OF_ARGUMENT"},
		{name: "A16/map-equality-order-sensitive", sql: `SELECT map('a','1','b','2') = map('a','1','b','2'), map('a','1','b','2') = map('b','2','a','1')`, want: []string{"1|0"}},
		{name: "A16/label-filter-on-map", sql: `SELECT m['x'] == '1', toFloat64OrNull(m['n']) IS NOT NULL, toFloat64OrZero(m['v']) FROM (SELECT map('x', '1', 'v', '2.5') AS m)`, want: []string{"1|0|2.5"}},

		// ---- A17
		{name: "A17/date-vs-string", tables: tb, sql: `SELECT fingerprint FROM time_series WHERE ((date) >= ('2023-11-14')) ORDER BY fingerprint`, want: []string{"1", "2"}},
		{name: "A17/date-range", tables: tb, sql: `SELECT count() FROM time_series WHERE ((date) >= ('2023-11-13')) and ((date) <= ('2023-11-13'))`, want: []string{"1"}},
		{name: "A17/date-vs-toDate", tables: tb, sql: `SELECT count() FROM time_series WHERE ((date) >= (toDate('2023-11-14'))) and ((date) <= (toDate('2023-11-14')))`, want: []string{"2"}},
		{name: "A17/compares-as-dates-not-strings", sql: `SELECT toDate('2023-11-14') > '2023-2-1', toDate('2023-11-14') = '2023-11-14', toDate('2000-01-01') < '1999-12-31'`, want: []string{"1|1|0"}},
		{name: "A17/bad-date-literal-raises", tables: tb, sql: `SELECT count() FROM time_series WHERE date >= 'yesterday'`, raise: "A17"},
		{name: "A17/toDate-forms", sql: `SELECT toDate('2023-11-14'), toDate(19675), toDate(1700000000), toDate(toDateTime(1700000000)), toTypeName(toDate('2023-11-14'))`, want: []string{"2023-11-14|2023-11-14|2023-11-14|2023-11-14|Date"}},
		{name: "A17/toUnixTimestamp", sql: `SELECT toUnixTimestamp(toDate('2023-11-14')), toUnixTimestamp(toDate('2023-11-14') + INTERVAL '1 day'), toUnixTimestamp(toDateTime(1700000000)), toUnixTimestamp(toDate('2023-11-14')) * 1000000000`, want: []string{"1699920000|1700006400|1700000000|1699920000000000000"}},
		{name: "A17/min-max-date", tables: tb, sql: `SELECT any(min_date), any(max_date), any(min_date + INTERVAL '1 day') FROM (SELECT min(date) AS min_date, max(date) AS max_date FROM time_series)`, want: []string{"2023-11-13|2023-11-14|2023-11-14"}, types: "Date|Date|Date"},
		{name: "A17/aggregate-alias-inside-aggregate", tables: tb, sql: `SELECT min(date) AS min_date, any(min_date + INTERVAL '1 day') FROM time_series`, raise: "ILLEGAL_AGGREGATION"},
		{name: "A17/date-in-group-by", tables: tb, sql: `SELECT date, count() FROM time_series GROUP BY date ORDER BY date`, want: []string{"2023-11-13|1", "2023-11-14|2"}},
		{name: "A17/toStartOfDay", sql: `SELECT toStartOfDay(toDateTime(1700000000)), toUnixTimestamp(toStartOfDay(toDateTime(1700000000)))`, want: []string{"2023-11-14 00:00:00|1699920000"}},

		// ---- A18
		{name: "A18/order-desc-limit", tables: tb, sql: `SELECT timestamp_ns FROM samples_v3 ORDER BY timestamp_ns desc LIMIT 2`, want: []string{"3999", "2500"}},
		{name: "A18/order-multi-key", tables: tb, sql: `SELECT fingerprint, timestamp_ns FROM samples_v3 ORDER BY fingerprint desc, timestamp_ns asc`, want: []string{"3|2000", "2|1500", "2|3999", "1|1000", "1|2500"}},
		{name: "A18/limit-offset-forms", tables: tb, sql: `SELECT a, b, c FROM (SELECT groupArray(timestamp_ns) AS a FROM (SELECT timestamp_ns FROM samples_v3 ORDER BY timestamp_ns LIMIT 2 OFFSET 1)) AS x, (SELECT 1 AS b) AS y, (SELECT 2 AS c) AS z`, unsup: true},
		{name: "A18/limit-offset", tables: tb, sql: `SELECT timestamp_ns FROM samples_v3 ORDER BY timestamp_ns LIMIT 2 OFFSET 1`, want: []string{"1500", "2000"}},
		{name: "A18/limit-comma", tables: tb, sql: `SELECT timestamp_ns FROM samples_v3 ORDER BY timestamp_ns LIMIT 1, 2`, want: []string{"1500", "2000"}},
		{name: "A18/limit-zero-and-large", tables: tb, sql: `SELECT count() FROM (SELECT 1 FROM samples_v3 LIMIT 0) UNION ALL SELECT count() FROM (SELECT 1 FROM samples_v3 LIMIT 2000000)`, want: []string{"0", "5"}},
		{name: "A18/limit-by", tables: tb, sql: `SELECT fingerprint, timestamp_ns FROM samples_v3 ORDER BY timestamp_ns DESC LIMIT 1 BY fingerprint`, want: []string{"2|3999", "1|2500", "3|2000"}},
		{name: "A18/stable-ties", tables: tb, sql: `SELECT string FROM samples_v3 ORDER BY type`, want: []string{"a one", "b two", "c three", "d four", "e five"}},
		{name: "A18/nan-and-null-last", sql: `SELECT x FROM (SELECT arrayJoin([3, NULL, nan, 1]) AS x) ORDER BY x`, want: []string{"1", "3", "nan", `\N`}},
		{name: "A18/nan-and-null-last-desc", sql: `SELECT x FROM (SELECT arrayJoin([3, NULL, nan, 1]) AS x) ORDER BY x DESC`, want: []string{"3", "1", "nan", `\N`}},
		{name: "A18/nulls-first", sql: `SELECT x FROM (SELECT arrayJoin([3, NULL, 1]) AS x) ORDER BY x NULLS FIRST`, want: []string{`\N`, "1", "3"}},
		{name: "A18/order-by-tuple-element", sql: `SELECT t FROM (SELECT arrayJoin([(2, 'b'), (1, 'a')]) AS t) ORDER BY t.1`, want: []string{"(1,'a')", "(2,'b')"}},
		{name: "A18/order-by-positional", tables: tb, sql: `SELECT fingerprint, value FROM samples_v3 ORDER BY 2 DESC LIMIT 1`, want: []string{"2|20"}},
		{name: "A18/order-by-fixedstring-bytes", tables: []*Table{mkTable("f", "id FixedString(2)", R("b\x00"), R("ab"), R("a\xff"))}, sql: `SELECT hex(id) FROM f ORDER BY id`, want: []string{"6162", "61FF", "6200"}},
		{name: "A18/sub-select-order-then-outer-limit", tables: tb, sql: `SELECT timestamp_ns FROM (SELECT timestamp_ns FROM samples_v3 ORDER BY timestamp_ns DESC) LIMIT 1`, want: []string{"3999"}},

		// ---- A19
		{name: "A19/hash-deterministic-and-type", sql: `SELECT cityHash64('a') = cityHash64('a'), cityHash64('a') != cityHash64('b'), toTypeName(cityHash64('a')), cityHash64('a', 'b') != cityHash64('ab'), cityHash64(1) != cityHash64('1')`, want: []string{"1|1|UInt64|1|1"}},
		{name: "A19/hash-of-map-equals-hash-of-pairs", sql: `SELECT cityHash64(m) = cityHash64(arrayZip(mapKeys(m), mapValues(m))), cityHash64(m) = cityHash64(arraySort(arrayZip(mapKeys(m), mapValues(m)))) FROM (SELECT map('b', '2', 'a', '1') AS m)`, want: []string{"1|0"}},
		{name: "A19/modulo-partitions", sql: `SELECT count() FROM (SELECT arrayJoin(['a', 'b', 'c', 'd', 'e', 'f']) AS s) WHERE cityHash64(s) % 2 IN (0, 1)`, want: []string{"6"}},
		{name: "A19/group-by-hash", sql: `SELECT count() FROM (SELECT cityHash64(s) AS h FROM (SELECT arrayJoin(['a', 'b', 'a']) AS s) GROUP BY h)`, want: []string{"2"}},
	})
}

func TestSemArraysTuplesNulls(t *testing.T) {
	runCases(t, []semCase{
		{name: "arr/literal-supertype", sql: `SELECT [1, 256] AS a, toTypeName(a), [1, -1] AS b, toTypeName(b), [1, 1.5] AS c, toTypeName(c), ['a', 'b'], toTypeName([]), toTypeName([1, NULL])`,
			want: []string{"[1,256]|Array(UInt16)|[1,-1]|Array(Int16)|[1,1.5]|Array(Float64)|['a','b']|Array(Nothing)|Array(Nullable(UInt8))"}},
		{name: "arr/literal-no-supertype", sql: `SELECT [1, 'a']`, raise: "NO_COMMON_TYPE"},
		{name: "arr/map-filter-multi", sql: `SELECT arrayMap((x, y) -> x + y, [1, 2], [10, 20]), arrayFilter((x, y) -> y > 10, ['a', 'b'], [10, 20]), arrayMap(x -> x * 2, arrayFilter(x -> x % 2 = 1, [1, 2, 3]))`, want: []string{"[11,22]|['b']|[2,6]"}},
		{name: "arr/size-mismatch", sql: `SELECT arrayMap((x, y) -> x + y, [1, 2], [10])`, raise: "SIZES_OF_ARRAYS_DONT_MATCH"},
		{name: "arr/lambda-arity", sql: `SELECT arrayMap(x -> x, [1], [2])`, raise: "NUMBER_OF_ARGUMENTS_DOESNT_MATCH"},
		{name: "arr/zip", sql: `SELECT arrayZip(['a', 'b'], [1, 2]), toTypeName(arrayZip(['a'], [1]))`, want: []string{"[('a',1),('b',2)]|Array(Tuple(String, UInt8))"}},
		{name: "arr/zip-mismatch", sql: `SELECT arrayZip(['a', 'b'], [1])`, raise: "SIZES_OF_ARRAYS_DONT_MATCH"},
		{name: "arr/sort", sql: `SELECT arraySort([3, 1, 2]), arraySort(x -> -x, [3, 1, 2]), arrayReverseSort([3, 1, 2]), arraySort(['b', 'a', 'B']), arraySort([(2, 'a'), (1, 'z'), (1, 'b')]), arraySort((x, y) -> y, ['a', 'b', 'c'], [3, 1, 2])`,
			want: []string{"[1,2,3]|[3,2,1]|[3,2,1]|['B','a','b']|[(1,'b'),(1,'z'),(2,'a')]|['b','c','a']"}},
		{name: "arr/sort-nan-null-last", sql: `SELECT arraySort([2, nan, 1]), arrayReverseSort([2, nan, 1]), arraySort([2, NULL, 1])`, want: []string{"[1,2,nan]|[2,1,nan]|[1,2,NULL]"}},
		{name: "arr/slice", sql: `SELECT arraySlice([1, 2, 3, 4, 5], 2, 3), arraySlice([1, 2, 3, 4, 5], 1, 2), arraySlice([1, 2, 3], 1, 10), arraySlice([1, 2, 3, 4, 5], 4), arraySlice([1, 2, 3, 4, 5], -2), arraySlice([1, 2, 3, 4, 5], 2, -1), arraySlice([1, 2, 3], 5, 1), arraySlice([1, 2, 3], 1, 0)`,
			want: []string{"[2,3,4]|[1,2]|[1,2,3]|[4,5]|[4,5]|[2,3,4]|[]|[]"}},
		{name: "arr/first-exists", sql: `SELECT arrayFirst(x -> x > 1, [1, 2, 3]), arrayFirst(x -> x > 5, [1, 2, 3]), arrayFirst(x -> x.1 = 'k', [('a', 1)]), arrayExists(x -> x = 2, [1, 2]), arrayExists(x -> x = 5, [1, 2]), arrayAll(x -> x > 0, [1, 2]), arrayCount(x -> x > 1, [1, 2, 3])`,
			want: []string{"2|0|('',0)|1|0|1|2"}},
		{name: "arr/first-default-from-column-type-2", tables: []*Table{mkTable("p", "values_agg Array(Tuple(String, Int64, Int32))", R(R(R("cpu:nanoseconds", 7, 1), R("x:y", 9, 2))), R(R()))},
			sql: `SELECT arrayFirst(x -> (x.1) == ('cpu:nanoseconds'), p.values_agg).2 AS v, toTypeName(v) FROM p`, want: []string{"7|Int64", "0|Int64"}},
		{name: "arr/misc", sql: `SELECT arrayConcat([1], [2, 3]), arrayReverse([1, 2, 3]), arrayDistinct([1, 2, 1, 3, 2]), arraySum([1, 2, 3]), arraySum([1.5, 2]), has([1, 2], 2), has(['a'], 'b'), indexOf(['a', 'b'], 'b'), range(3), range(1, 4), length([1, 2, 3]), empty([]), notEmpty([1]), arrayEnumerate(['a', 'b'])`,
			want: []string{"[1,2,3]|[3,2,1]|[1,2,3]|6|3.5|1|0|2|[0,1,2]|[1,2,3]|3|1|1|[1,2]"}},
		{name: "arr/reduce", sql: `SELECT arrayReduce('max', [1, 5, 3]), arrayReduce('sum', [1, 2]), arrayReduce('uniqExact', ['a', 'a', 'b'])`, want: []string{"5|3|2"}},
		{name: "arr/tuple-element", sql: `SELECT (1, 'a').1, (1, 'a').2, tupleElement((1, 'a'), 2), ((1, 2), 3).1.2, [(1, 'x'), (2, 'y')].2`, want: []string{"1|a|a|2|['x','y']"}},
		{name: "arr/tuple-element-out-of-range", sql: `SELECT (1, 'a').3`, raise: "ARGUMENT_OUT_OF_BOUND"},
		{name: "arr/tuple-compare", sql: `SELECT (1, 'a') = (1, 'a'), (1, 'a') != (1, 'b'), (1, 2) < (1, 3), (2, 0) > (1, 9), ('z', 'q') != ('z', 'q')`, want: []string{"1|1|1|1|0"}},
		{name: "arr/tuple-compare-size-mismatch", sql: `SELECT (1, 2) = (1, 2, 3)`, raise: "ILLEGAL_TYPE_OF_ARGUMENT"},
		{name: "arr/empty-tuple-in-and", sql: `SELECT 1 AND ()`, raise: "ILLEGAL_TYPE_OF_ARGUMENT"},
		{name: "arr/empty-tuple-in-where-empty-table", tables: []*Table{mkTable("e", "a UInt8")}, sql: `SELECT a FROM e WHERE (a = 1) and ()`, raise: "ILLEGAL_TYPE_OF_ARGUMENT"},
		{name: "arr/profile-tree-shape",
			tables: []*Table{mkTable("profiles", "tree Array(Tuple(UInt64, UInt64, UInt64, Array(Tuple(String, Int64, Int64)))), functions Array(Tuple(UInt64, String))",
				R(R(R(1, 0, 10, R(R("cpu:nanoseconds", 5, 7), R("mem:bytes", 1, 1))), R(2, 1, 11, R(R("cpu:nanoseconds", 3, 3)))), R(R(10, "main"), R(11, "f"))),
				R(R(R(1, 0, 10, R(R("cpu:nanoseconds", 2, 4))), R(3, 1, 12, R(R("mem:bytes", 9, 9)))), R(R(10, "main"), R(12, "g"))))},
			sql:   `WITH raw as ( SELECT arrayMap(x -> (x.1, x.2, x.3, (arrayFirst(y -> y.1 == 'cpu:nanoseconds', x.4) as af).2, af.3), tree) as tree, functions FROM profiles),pre_joined as ( SELECT rtree FROM raw array JOIN raw.tree as rtree ),joined as ( SELECT (rtree.1, rtree.2, rtree.3, sum(rtree.4), sum(rtree.5)) as tree FROM pre_joined GROUP BY rtree.1, rtree.2, rtree.3 ORDER BY rtree.1 LIMIT 2000000) SELECT (select groupArray(tree) from joined) as _tree, (select groupUniqArrayArray(functions) from raw ) as _functions`,
			want:  []string{"[(1,0,10,7,11),(2,1,11,3,3),(3,1,12,0,0)]|[(10,'main'),(11,'f'),(12,'g')]"},
			types: "Array(Tuple(UInt64, UInt64, UInt64, Int64, Int64))|Array(Tuple(UInt64, String))"},

		// NULL semantics / logic
		{name: "null/three-valued-logic", sql: `SELECT NULL AND 0, NULL AND 1, NULL OR 1, NULL OR 0, NOT NULL, 1 AND 1 AND 0, 0 OR 0 OR 2`, want: []string{`0|\N|1|\N|\N|0|1`}},
		{name: "null/propagation", sql: `SELECT 1 + NULL, NULL = NULL, length(NULL), isNull(NULL), NULL IS NOT NULL, coalesce(NULL, 3), ifNull(NULL, 'd'), ifNull('v', 'd'), nullIf(1, 1), nullIf(1, 2), assumeNotNull(toFloat64OrNull('x'))`, want: []string{`\N|\N|\N|1|0|3|d|v|\N|1|0`}},
		{name: "null/where-null-is-false", sql: `SELECT count() FROM (SELECT arrayJoin([1, NULL, 3]) AS x) WHERE x > 1`, want: []string{"1"}},
		{name: "null/if", sql: `SELECT if(1, 'a', 'b'), if(0, 'a', 'b'), if(NULL, 'a', 'b'), if(1, 1, 2.5), toTypeName(if(1, 1, 2.5)), toTypeName(if(0, 1, 256)), 1 = 1 ? 'y' : 'n', multiIf(0, 'a', 1, 'b', 'c'), CASE WHEN 0 THEN 'x' WHEN 1 THEN 'y' ELSE 'z' END`,
			want: []string{"a|b|b|1|Float64|UInt16|y|b|y"}},
		{name: "null/if-lazy", tables: []*Table{tNums}, sql: `SELECT if(b = 0, 0, intDiv(100, b)), b != 0 AND intDiv(100, b) > 10, b = 0 OR intDiv(100, b) > 10 FROM nums ORDER BY a`, want: []string{"-20|0|0", "10|0|0", "0|0|1", "14|1|1"}},
		{name: "null/if-no-supertype", sql: `SELECT if(1, 'a', 2)`, raise: "NO_COMMON_TYPE"},
		{name: "null/and-non-numeric", sql: `SELECT 1 AND 'a'`, raise: "ILLEGAL_TYPE_OF_ARGUMENT"},
		{name: "null/where-string-filter", tables: []*Table{tSamples}, sql: `SELECT 1 FROM samples_v3 WHERE string`, raise: "ILLEGAL_TYPE_OF_COLUMN_FOR_FILTER"},
		{name: "null/between-least-greatest-abs-round", sql: `SELECT 2 BETWEEN 1 AND 3, 5 NOT BETWEEN 1 AND 3, least(3, 2), greatest(3, 2), abs(-5), toTypeName(abs(-5)), round(2.5), round(3.5), round(1.25, 1), floor(1.9), ceil(1.1)`, want: []string{"1|1|2|3|5|UInt8|2|4|1.2|1|2"}},
		{name: "null/operator-precedence", sql: `SELECT 1 + 2 * 3, (1 + 2) * 3, 2 * 3 % 4, -2 * 3, 1 = 1 AND 2 = 3 OR 1 = 1, NOT 1 = 2, 1 < 2 = 1, 10 - 2 - 3, 'a' || 'b' = 'ab', 1 IN (1) AND 1`, want: []string{"7|9|2|-6|1|1|1|5|1|1"}},
	})
}

// End-to-end statements of the shapes the planners emit (taken from the acceptance corpus) over
// small tables, with hand-derived results.
func TestSemCorpusShapes(t *testing.T) {
	tb := []*Table{tSamples, tSeries, tGin}
	logSelect := `WITH fp_sel as ( SELECT fingerprint FROM time_series_gin WHERE ((date) >= ('2023-11-13')) and (type IN (1,0)) and ((((key) == ('app')) and ((match(val, 'x|y')) == (1)))) GROUP BY fingerprint HAVING ((groupBitOr(bitShiftLeft(((key) == ('app')) and ((match(val, 'x|y')) == (1)), 0))) == (1))),`
	traces := []*Table{
		mkTable("tempo_traces_attrs_gin", "oid String, date Date, key String, val String, trace_id FixedString(16), span_id FixedString(8), timestamp_ns Int64, duration Int64",
			R("0", "2023-11-14", "a", "b", "T1", "S1", 100, 5),
			R("0", "2023-11-14", "c", "d", "T1", "S1", 100, 5),
			R("0", "2023-11-14", "a", "b", "T1", "S2", 200, 50),
			R("0", "2023-11-14", "a", "zz", "T2", "S3", 300, 7),
			R("0", "2023-11-14", "a", "b", "T3", "S4", 400, 9)),
		mkTable("tempo_traces", "oid String, trace_id FixedString(16), span_id FixedString(8), parent_id String, name String, timestamp_ns Int64, duration_ns Int64, service_name String, payload_type Int8, payload String",
			R("0", "T1", "S1", "", "root1", 100, 500, "svcA", 1, "p1"),
			R("0", "T1", "S2", "S1", "child", 200, 50, "svcB", 1, "p2"),
			R("0", "T2", "S3", "", "root2", 300, 7, "svcC", 1, "p3"),
			R("0", "T3", "S4", "", "root3", 400, 9, "svcD", 1, "p4")),
	}
	pad := func(s string, n int) string { return s + strings.Repeat("\x00", n-len(s)) }
	hx := func(s string, n int) string {
		const d = "0123456789abcdef"
		var sb strings.Builder
		for _, c := range []byte(pad(s, n)) {
			sb.WriteByte(d[c>>4])
			sb.WriteByte(d[c&15])
		}
		return sb.String()
	}
	runCases(t, []semCase{
		{name: "shape/log-stream-select", tables: tb,
			sql:  logSelect + `main as ( SELECT samples.timestamp_ns as timestamp_ns, samples.fingerprint as fingerprint, samples.string as string, toFloat64(0) as value FROM samples_v3 as samples PREWHERE ((samples.timestamp_ns) >= (1000)) and ((samples.timestamp_ns) < (3000)) and (type IN (1,0)) WHERE (samples.fingerprint IN (fp_sel)) and ((like(samples.string, '%t%')) == (1)) ORDER BY timestamp_ns desc LIMIT 100),_time_series as ( SELECT time_series.fingerprint as fingerprint, mapFromArrays(arrayMap(x -> x.1, JSONExtractKeysAndValues(time_series.labels, 'String') as rawlbls), arrayMap(x -> x.2, rawlbls)) as labels FROM time_series as time_series PREWHERE ((time_series.date) >= ('2023-11-13')) and (type IN (1,0)) and (time_series.fingerprint IN (fp_sel))),prefinal as ( SELECT main.fingerprint as fingerprint, main.timestamp_ns as timestamp_ns, _time_series.labels as labels, main.string as string, main.value as value FROM main ANY LEFT  JOIN _time_series ON (main.fingerprint) == (_time_series.fingerprint)) SELECT prefinal.fingerprint as fingerprint, prefinal.labels as labels, prefinal.string as string, prefinal.timestamp_ns as timestamp_ns FROM prefinal ORDER BY fingerprint desc, timestamp_ns desc`,
			want: []string{`2|{'app':'y'}|c three|1500`, `1|{'app':'x','lvl':'err'}|b two|2500`}},
		{name: "shape/rate-10s-sum-by", tables: tb,
			sql: logSelect + `agg_a as ( SELECT samples.timestamp_ns as timestamp_ns, samples.fingerprint as fingerprint, samples.string as _string, toFloat64(0) as value FROM samples_v3 as samples PREWHERE ((samples.timestamp_ns) >= (0)) and ((samples.timestamp_ns) < (5000)) and (type IN (1,0)) WHERE (samples.fingerprint IN (fp_sel))),pre_without_2 as ( SELECT intDiv(time_series.timestamp_ns, 2000) * 2000 as timestamp_ns, fingerprint as fingerprint, '' as string, toFloat64(COUNT()) / 10.000000 as value FROM agg_a as time_series GROUP BY fingerprint, timestamp_ns),labels_1 as ( SELECT time_series.fingerprint as fingerprint, mapFilter((k,v) -> k NOT IN ('app'), mapFromArrays(arrayMap(x -> x.1, JSONExtractKeysAndValues(time_series.labels, 'String') as rawlbls), arrayMap(x -> x.2, rawlbls))) as labels, cityHash64(labels) as new_fingerprint FROM time_series as time_series PREWHERE ((time_series.date) >= ('2023-11-13')) and (type IN (1,0)) and (time_series.fingerprint IN (fp_sel))),lra_main as ( SELECT labels_1.new_fingerprint as fingerprint, pre_without_2.timestamp_ns as timestamp_ns, pre_without_2.value as value, '' as string, labels_1.labels as labels FROM pre_without_2 ANY LEFT  JOIN labels_1 ON (pre_without_2.fingerprint) == (labels_1.fingerprint)),prefinal as ( SELECT fingerprint as fingerprint, sum(lra_main.value) as value, lra_main.timestamp_ns as timestamp_ns, '' as string, any(lra_main.labels) as labels FROM lra_main GROUP BY fingerprint, timestamp_ns) SELECT prefinal.labels as labels, prefinal.value as value, prefinal.timestamp_ns as timestamp_ns FROM prefinal ORDER BY labels asc, timestamp_ns asc`,
			// series 1 → labels {lvl:err}; series 2 → {} ; buckets of 2000 ns: s1: 0→1, 2000→1; s2: 0→1, 2000→1
			want: []string{"{}|0.1|0", "{}|0.1|2000", "{'lvl':'err'}|0.1|0", "{'lvl':'err'}|0.1|2000"}},
		{name: "shape/topk", tables: tb,
			sql: `WITH par_a as ( SELECT intDiv(timestamp_ns, 2000) * 2000 as timestamp_ns, fingerprint as fingerprint, '' as string, toFloat64(sum(value)) as value FROM samples_v3 GROUP BY fingerprint, timestamp_ns),par_b as ( SELECT par_a.timestamp_ns as timestamp_ns, arraySlice(arraySort(x -> (-x.1, x.2),groupArray((par_a.value, par_a.fingerprint))), 1, 2) as slice FROM par_a GROUP BY timestamp_ns),main as ( SELECT arr_b.2 as fingerprint, par_b.timestamp_ns as timestamp_ns, arr_b.1 as value, '' as string FROM par_b array JOIN par_b.slice as arr_b ) SELECT fingerprint, timestamp_ns, value FROM main ORDER BY timestamp_ns, value DESC`,
			// bucket 0: s1 = 1, s2 = 10 → top2: (10, 2), (1, 1); bucket 2000: s1 = 2, s2 = 20, s3 = 5 → (20, 2), (5, 3)
			want: []string{"2|0|10", "1|0|1", "2|2000|20", "3|2000|5"}},
		{name: "shape/prom-step-align", tables: tb,
			sql: `WITH spls as ( SELECT samples.fingerprint as fingerprint, samples.value as value, intDiv(samples.timestamp_ns, 100) as timestamp_ms FROM samples_v3 as samples WHERE ((samples.timestamp_ns) > (0)) and (type IN (1,0)) ORDER BY fingerprint asc, samples.timestamp_ns asc) SELECT fingerprint, argMax(spls.value, spls.timestamp_ms) as value, intDiv(spls.timestamp_ms - 5 + 20 - 1, 20) * 20 + 5 as timestamp_ms FROM spls GROUP BY timestamp_ms, fingerprint ORDER BY fingerprint asc, timestamp_ms asc`,
			// timestamp_ms: 10, 25 (s1); 15, 39 (s2). aligned = intDiv(t - 5 + 19, 20) * 20 + 5: 10→25, 25→25, 15→25, 39→45
			want: []string{"1|2|25", "2|10|25", "2|20|45"}},
		{name: "shape/traceql-index-search", tables: traces,
			sql:  `SELECT trace_id as trace_id, span_id as span_id, any(duration) as duration, any(timestamp_ns) as timestamp_ns FROM tempo_traces_attrs_gin as traces_idx WHERE (((date) >= ('2023-11-14')) and ((date) <= ('2023-11-14')) and ((traces_idx.timestamp_ns) >= (0)) and ((traces_idx.timestamp_ns) < (1000))) and ((((key) == ('a')) and ((val) == ('b'))) or (((key) == ('c')) and ((val) != ('zz')))) GROUP BY trace_id, span_id HAVING (((bitAnd(groupBitOr(bitShiftLeft(toUInt64(((key) == ('a')) and ((val) == ('b'))),0)+bitShiftLeft(toUInt64(((key) == ('c')) and ((val) != ('zz'))),1)) as bsCond,1)) != (0)) and ((bitAnd(bsCond,2)) != (0))) ORDER BY timestamp_ns desc`,
			want: []string{pad("T1", 16) + "|" + pad("S1", 8) + "|5|100"}},
		{name: "shape/traceql-full", tables: traces,
			sql: `WITH index_search as ( SELECT trace_id as trace_id, span_id as span_id, any(duration) as duration, any(timestamp_ns) as timestamp_ns FROM tempo_traces_attrs_gin as traces_idx WHERE (((date) >= ('2023-11-14')) and ((date) <= ('2023-11-14')) and ((traces_idx.timestamp_ns) >= (0)) and ((traces_idx.timestamp_ns) < (1000))) and ((((key) == ('a')) and ((val) == ('b')))) GROUP BY trace_id, span_id HAVING ((bitAnd(groupBitOr(bitShiftLeft(toUInt64(((key) == ('a')) and ((val) == ('b'))),0)) as bsCond,1)) != (0)) ORDER BY timestamp_ns desc),index_grouped as ( SELECT trace_id as trace_id, groupArray(100)(span_id) as span_id FROM index_search GROUP BY trace_id ORDER BY max(index_search.timestamp_ns) desc LIMIT 20),trace_ids as ( SELECT trace_id FROM index_grouped),trace_span_ids as ( SELECT trace_id, span_id FROM index_grouped array JOIN span_id ),traces_info as ( SELECT traces.trace_id as trace_id, min(traces.timestamp_ns) as _start_time_unix_nano, toFloat64(max(traces.timestamp_ns + traces.duration_ns) - min(traces.timestamp_ns)) / 1000000 as _duration_ms, argMin(traces.service_name, traces.timestamp_ns) as _root_service_name, argMin(traces.name, traces.timestamp_ns) as _root_trace_name FROM tempo_traces as traces WHERE (traces.trace_id IN (trace_ids)) GROUP BY traces.trace_id) SELECT lower(hex(traces.trace_id)) as trace_id, arrayMap(x -> lower(hex(x)), groupArray(traces.span_id)) as span_id, groupArray(traces.duration_ns) as duration, groupArray(traces.timestamp_ns) as timestamp_ns, min(_start_time_unix_nano) as start_time_unix_nano, min(_duration_ms) as duration_ms, min(_root_service_name) as root_service_name, min(_root_trace_name) as root_trace_name FROM tempo_traces as traces any left JOIN traces_info ON (traces.trace_id) == (traces_info.trace_id) WHERE (traces.trace_id IN (trace_ids)) and ((traces.trace_id, traces.span_id) IN (trace_span_ids)) GROUP BY traces.trace_id ORDER BY start_time_unix_nano desc LIMIT 20`,
			want: []string{
				hx("T3", 16) + "|['" + hx("S4", 8) + "']|[9]|[400]|400|0.000009|svcD|root3",
				hx("T1", 16) + "|['" + hx("S1", 8) + "','" + hx("S2", 8) + "']|[500,50]|[100,200]|100|0.0005|svcA|root1"}},
		{name: "shape/traceql-and-of-two-selectors", tables: traces,
			sql: `SELECT trace_id as trace_id, groupUniqArray(100)(span_id) as span_id FROM (WITH _0_pre_ as ( SELECT trace_id, groupArray(100)(span_id) as span_id, max(timestamp_ns) as max_timestamp_ns FROM tempo_traces_attrs_gin WHERE key = 'a' and val = 'b' GROUP BY trace_id) SELECT trace_id as trace_id, _span_id as span_id, max_timestamp_ns as max_timestamp_ns FROM _0_pre_ array JOIN _0_pre_.span_id as _span_id  INTERSECT WITH _1_pre_ as ( SELECT trace_id, groupArray(100)(span_id) as span_id, max(timestamp_ns) as max_timestamp_ns FROM tempo_traces_attrs_gin WHERE key = 'c' and val = 'd' GROUP BY trace_id) SELECT trace_id as trace_id, _span_id as span_id, max_timestamp_ns as max_timestamp_ns FROM _1_pre_ array JOIN _1_pre_.span_id as _span_id ) as _1a GROUP BY trace_id ORDER BY max(max_timestamp_ns) desc LIMIT 20`,
			// selector a=b: T1 → [S1, S2] max 200, T3 → [S4]; selector c=d: T1 → [S1] max 100.
			// rows (T1,S1,200) vs (T1,S1,100) differ in max_timestamp_ns → the INTERSECT is empty.
			want: []string{}},
		{name: "shape/tempo-tags-search", tables: traces,
			sql:  "SELECT hex(trace_id), service_name as root_service_name, name as root_trace_name, timestamp_ns as start_time_unix_nano, intDiv(duration_ns, 1000000) as duration_ms FROM tempo_traces WHERE ((trace_id, span_id) IN ( SELECT subsel_0.trace_id, subsel_0.span_id FROM ( SELECT trace_id, span_id, timestamp_ns FROM `db`.tempo_traces_attrs_gin WHERE ((key) == ('a')) and ((val) == ('b')) and ((date) >= (toDate('2023-11-14')))) as subsel_0 INNER ANY JOIN ( SELECT trace_id, span_id, timestamp_ns FROM `db`.tempo_traces_attrs_gin WHERE ((key) == ('c')) and ((val) == ('d'))) as subsel_1 ON ((subsel_0.trace_id) == (subsel_1.trace_id)) and ((subsel_0.span_id) == (subsel_1.span_id)) ORDER BY subsel_0.timestamp_ns desc LIMIT 20)) and ((start_time_unix_nano) > (0)) and ((duration_ms) >= (0)) ORDER BY start_time_unix_nano DESC LIMIT 20",
			want: []string{strings.ToUpper(hx("T1", 16)) + "|svcA|root1|100|0"}, cols: "hex(trace_id)|root_service_name|root_trace_name|start_time_unix_nano|duration_ms"},
		{name: "shape/group-by-key-missing-from-group-by", tables: traces,
			// corpus tempo.v2.tags.q: SELECT key … GROUP BY trace_id, span_id — ClickHouse rejects it
			sql: `SELECT key as key FROM tempo_traces_attrs_gin as traces_idx WHERE ((date) >= ('2023-11-14')) GROUP BY trace_id, span_id ORDER BY key asc LIMIT 2000`, raise: "NOT_AN_AGGREGATE"},
		{name: "shape/pyro-series-distinct-array-join",
			tables: []*Table{mkTable("profiles_series", "date Date, type_id String, sample_types_units Array(Tuple(String, String)), service_name String, fingerprint UInt64, tags Array(Tuple(String, String))",
				R("2023-11-14", "process_cpu:cpu:nanoseconds", R(R("cpu", "nanoseconds"), R("samples", "count")), "x", 1, R(R("a", "1"), R("b", "2"))),
				R("2023-11-14", "process_cpu:cpu:nanoseconds", R(R("cpu", "nanoseconds"), R("samples", "count")), "x", 1, R(R("a", "1"), R("b", "2"))))},
			sql:  `WITH pre_label_filter as ( SELECT  DISTINCT tags as tags, type_id as type_id, _sample_types_units as __sample_types_units FROM profiles_series as p array JOIN sample_types_units as _sample_types_units  WHERE ((date) >= ('2023-11-14')) and ((splitByChar(':', type_id)[1]) == ('process_cpu')) and ((arrayExists(x -> (x.1) == ('cpu'), sample_types_units)) == (1))) SELECT arrayFilter(x -> x.1 IN ('a'), tags) as tags, type_id as type_id, __sample_types_units as __sample_types_units FROM pre_label_filter`,
			want: []string{"[('a','1')]|process_cpu:cpu:nanoseconds|('cpu','nanoseconds')", "[('a','1')]|process_cpu:cpu:nanoseconds|('samples','count')"}},
		{name: "shape/profile-stats",
			tables: []*Table{mkTable("profiles", "timestamp_ns UInt64", R(1699920000000000000), R(1700000000000000000)), mkTable("profiles_series", "date Date", R("2023-11-14"))},
			sql:    `WITH non_empty as ( SELECT any(1::Int8) as non_empty FROM profiles),min_date as ( SELECT min(date) as min_date, max(date) as max_date FROM profiles_series),min_time as ( SELECT intDiv(min(timestamp_ns), 1000000) as min_time, intDiv(max(timestamp_ns), 1000000) as max_time FROM profiles WHERE ((timestamp_ns) < (toUnixTimestamp(( SELECT any(min_date + INTERVAL '1 day') FROM min_date)) * 1000000000)) or ((timestamp_ns) >= (toUnixTimestamp(( SELECT any(max_date) FROM min_date)) * 1000000000))) SELECT ( SELECT any(non_empty) FROM non_empty) as non_empty, ( SELECT any(min_time) FROM min_time) as min_date, ( SELECT any(max_time) FROM min_time) as min_time`,
			want:   []string{"1|1699920000000|1700000000000"}},
	})
}

func TestSemMorePlannerShapes(t *testing.T) {
	tb := []*Table{tSamples, tSeries, tGin, tMetrics}
	lbl := `(SELECT fingerprint, timestamp_ns, value, string, mapFromArrays(arrayMap(x -> x.1, JSONExtractKeysAndValues(j.labels, 'String') as rawlbls), arrayMap(x -> x.2, rawlbls)) as labels FROM (SELECT s.fingerprint AS fingerprint, s.timestamp_ns AS timestamp_ns, s.value AS value, s.string AS string, t.labels AS labels FROM samples_v3 AS s ANY LEFT JOIN time_series AS t ON s.fingerprint = t.fingerprint) AS j)`
	runCases(t, []semCase{
		{name: "A2/unknown-escape-is-backslash-plus-char", sql: `SELECT 'a\\b' LIKE 'a\\b', 'ab' LIKE 'a\\b', 'a\\.c' LIKE 'a\\.c', 'a.c' LIKE 'a\\.c', 'a\\xc' LIKE 'a\\_c'`, want: []string{"1|0|1|0|0"}},
		{name: "A5/alias-cycle-through-nested-alias", tables: tb,
			// labels (unqualified) inside `… AS rawlbls` inside `… AS labels`: ClickHouse's QueryNormalizer reports a cycle
			sql: `SELECT mapFromArrays(arrayMap(x -> x.1, JSONExtractKeysAndValues(labels, 'String') as rawlbls), arrayMap(x -> x.2, rawlbls)) as labels FROM time_series`, raise: "CYCLIC_ALIASES"},
		{name: "shape/line-format", tables: tb,
			sql:  `SELECT format('{0}/{1}!', labels['app'], labels['lvl']) as string FROM ` + lbl + ` AS samples ORDER BY timestamp_ns LIMIT 2`,
			want: []string{"x/err!", "y/!"}},
		{name: "shape/label-format", tables: tb,
			sql:  `SELECT mapUpdate(labels, (['z','w'],[labels['app'],format('{0}-c', labels['lvl'])])::Map(String, String)) as labels FROM ` + lbl + ` AS samples WHERE fingerprint = 1 LIMIT 1`,
			want: []string{"{'app':'x','lvl':'err','z':'x','w':'err-c'}"}},
		{name: "shape/unwrap-quantile", tables: tb,
			sql:  `WITH quant_a AS (SELECT fingerprint, timestamp_ns, toFloat64OrZero(labels['n']) + value as value, labels FROM ` + lbl + `) SELECT quant_a.fingerprint as fingerprint, intDiv(quant_a.timestamp_ns, 10000) * 10000 as timestamp_ns, quantile(0.500000)(value) as value, any(quant_a.labels) as labels FROM quant_a GROUP BY timestamp_ns, fingerprint ORDER BY fingerprint`,
			want: []string{"1|0|1.5|{'app':'x','lvl':'err'}", "2|0|15|{'app':'y'}", "3|0|12|{'app':'z','n':'7'}"}},
		{name: "shape/unwrap-first-last-stddev", tables: tb,
			sql:  `WITH unwrap_1 AS (SELECT * FROM samples_v3) SELECT intDiv(timestamp_ns, 10000) * 10000 as timestamp_ns, fingerprint, '' as string, argMin(unwrap_1.value, unwrap_1.timestamp_ns) as value, argMax(unwrap_1.value, unwrap_1.timestamp_ns) AS l, stddevPop(unwrap_1.value) AS sd, sum(unwrap_1.value) / 10.000000 AS rate FROM unwrap_1 GROUP BY fingerprint, timestamp_ns ORDER BY fingerprint`,
			want: []string{"0|1||1|2|0.5|0.3", "0|2||10|20|5|3", "0|3||5|5|0|0.5"}},
		{name: "shape/comparison-having", tables: tb,
			sql:  `SELECT fingerprint as fingerprint, avg(s.value) as value FROM samples_v3 AS s GROUP BY fingerprint HAVING ((value) > (1.500000)) ORDER BY fingerprint`,
			want: []string{"2|15", "3|5"}},
		{name: "shape/prom-labels-hash", tables: tb,
			sql:  `SELECT cityHash64(toString(arraySort(spls.labels))) = cityHash64('[(\'app\',\'x\'),(\'lvl\',\'err\')]'), toString(arraySort(spls.labels)) FROM (SELECT JSONExtractKeysAndValues(labels, 'String') AS labels FROM time_series WHERE fingerprint = 1) AS spls`,
			want: []string{"1|[('app','x'),('lvl','err')]"}},
		{name: "shape/downsample-partial-union-finalize", tables: tb,
			sql:  `SELECT fingerprint as fingerprint, argMaxMerge(value) as value, timestamp_ms as timestamp_ms FROM ( SELECT samples.fingerprint as fingerprint, argMaxMergeState(samples.last) as value, intDiv(samples.timestamp_ns, 100) as timestamp_ms FROM metrics_15s as samples WHERE fingerprint = 1 GROUP BY timestamp_ms, fingerprint UNION ALL SELECT samples.fingerprint as fingerprint, argMaxMergeState(samples.last) as value, intDiv(samples.timestamp_ns, 100) as timestamp_ms FROM metrics_15s as samples WHERE fingerprint = 2 GROUP BY timestamp_ms, fingerprint) GROUP BY fingerprint, timestamp_ms ORDER BY fingerprint, timestamp_ms`,
			want: []string{"1|2|0", "2|7|0"}},
		{name: "shape/downsample-avg-tuple", tables: tb,
			sql:  `SELECT fingerprint, sum(value.1) / sum(value.2) AS value FROM (SELECT fingerprint, (sum(sum), countMerge(count)) AS value FROM metrics_15s GROUP BY fingerprint, timestamp_ns) GROUP BY fingerprint ORDER BY fingerprint`,
			want: []string{"1|3", "2|7"}},
		{name: "shape/profiles-size", tables: []*Table{mkTable("profiles", "fingerprint UInt64, payload String", R(1, "abc"), R(2, "de"), R(1, ""))},
			sql: `SELECT sum(length(payload)::Int64), uniqExact(fingerprint)::Int64, COUNT(1) FROM profiles`, want: []string{"5|2|3"}, types: "Int64|Int64|UInt64"},
		{name: "shape/series-union-of-selectors", tables: tb,
			sql:  `WITH fp_sel as ( SELECT fingerprint FROM time_series_gin WHERE ((((key) == ('app')) and ((val) == ('x')))) GROUP BY fingerprint HAVING ((groupBitOr(bitShiftLeft(((key) == ('app')) and ((val) == ('x')), 0))) == (1)) UNION ALL  SELECT fingerprint FROM time_series_gin WHERE ((((key) == ('n')) and ((match(val, '[0-9]')) == (1)))) GROUP BY fingerprint HAVING ((groupBitOr(bitShiftLeft(((key) == ('n')) and ((match(val, '[0-9]')) == (1)), 0))) == (1))) SELECT  DISTINCT labels as labels FROM time_series as time_series WHERE ((date) >= ('2023-11-13')) and (fingerprint IN (fp_sel)) and (type IN (1,2,0)) ORDER BY labels LIMIT 10000`,
			want: []string{`{"app":"x","lvl":"err"}`, `{"app":"z","n":"7"}`}},
		{name: "fn/unimplemented-real-function-is-unsupported", sql: `SELECT sipHash64('a')`, unsup: true},
		{name: "fn/unimplemented-real-aggregate-is-unsupported", sql: `SELECT topK(3)(x) FROM (SELECT 1 AS x)`, unsup: true},
	})
}
