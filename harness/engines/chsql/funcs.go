package chsql

import (
	"math"
	"sort"
	"strings"
)

// fnDef describes a scalar function.
type fnDef struct {
	min, max int  // argument count bounds (max < 0: variadic)
	cmp      bool // comparison: a constant string operand is parsed as the other operand's type
	nulls    bool // the function sees NULL arguments itself (otherwise any NULL argument → NULL)
	eval     func(c *callCtx, args []Value) (Value, error)
	// typ infers the static result type from argument types (Nullable already stripped unless
	// nulls is set); nil result = unknown.
	typ func(t *typeCall) (*Type, error)
}

var funcs = map[string]*fnDef{}

func reg(name string, d *fnDef) {
	if _, dup := funcs[name]; dup {
		panic("chsql: duplicate function " + name)
	}
	funcs[name] = d
}

func illegalArg(c *callCtx, i int, v Value) error {
	return raise("ILLEGAL_TYPE_OF_ARGUMENT", "illegal type %s of argument %d of function %s", typeOfValue(v), i+1, c.f.Name)
}

func constType(t *Type) func(*typeCall) (*Type, error) {
	return func(*typeCall) (*Type, error) { return t, nil }
}

// ---- arithmetic result types (ClickHouse NumberTraits) — rule A4 ---------------------------------

func nextSize(s int) int {
	if s >= 8 {
		return 8
	}
	return s * 2
}

func maxInt(a, b int) int {
	if a > b {
		return a
	}
	return b
}

// arithResultType returns the result type name of a binary arithmetic function on two numeric
// types ("" if illegal).
//
//	plus, multiply : ResultOfAdditionMultiplication — signed if either is; next size up of the larger operand
//	minus          : ResultOfSubtraction — always signed; next size up
//	divide         : Float64
//	intDiv         : ResultOfIntegerDivision — signed if either is; size of the dividend
//	modulo         : ResultOfModulo — signed if the dividend is; size of the divisor (next size up if signed)
//	bitAnd/Or/Xor, bitShiftLeft/Right : ResultOfBit — signed if either is; size of the larger operand
//
// Any Float64 operand makes plus/minus/multiply/modulo Float64 (intDiv and bit functions convert floats to Int64).
func arithResultType(op string, a, b *Type) *Type {
	if a == nil || b == nil {
		return nil
	}
	af, bf := a.Name == "Float64", b.Name == "Float64"
	sa, za, oka := intTypeInfo(a.Name)
	sb, zb, okb := intTypeInfo(b.Name)
	if !(oka || af) || !(okb || bf) {
		return nil
	}
	if af {
		sa, za = true, 8
	}
	if bf {
		sb, zb = true, 8
	}
	switch op {
	case "divide":
		return tFloat64
	case "plus", "multiply", "minus", "modulo":
		if af || bf {
			return tFloat64
		}
	}
	switch op {
	case "plus", "multiply":
		return tSimple(intTypeName(sa || sb, nextSize(maxInt(za, zb))))
	case "minus":
		return tSimple(intTypeName(true, nextSize(maxInt(za, zb))))
	case "intDiv", "intDivOrZero":
		return tSimple(intTypeName(sa || sb, za))
	case "modulo", "moduloOrZero":
		if sa {
			return tSimple(intTypeName(true, nextSize(zb)))
		}
		return tSimple(intTypeName(false, zb))
	case "bitAnd", "bitOr", "bitXor", "bitShiftLeft", "bitShiftRight":
		return tSimple(intTypeName(sa || sb, maxInt(za, zb)))
	}
	return nil
}

func arithTyp(op string) func(*typeCall) (*Type, error) {
	return func(t *typeCall) (*Type, error) {
		a, b := t.args[0], t.args[1]
		if a == nil || b == nil {
			return nil, nil
		}
		// date arithmetic
		if a.Name == "Date" || a.Name == "DateTime" {
			if b.Name == "Interval" {
				if op == "plus" || op == "minus" {
					return a, nil
				}
			} else if isNumType(b) && (op == "plus" || op == "minus") {
				return a, nil
			} else if b.Name == a.Name && op == "minus" {
				return tInt32, nil
			}
			return nil, raise("ILLEGAL_TYPE_OF_ARGUMENT", "illegal types %s and %s of arguments of function %s", a, b, op)
		}
		if (b.Name == "Date" || b.Name == "DateTime") && op == "plus" && (isNumType(a) || a.Name == "Interval") {
			return b, nil
		}
		r := arithResultType(op, a, b)
		if r == nil {
			return nil, raise("ILLEGAL_TYPE_OF_ARGUMENT", "illegal types %s and %s of arguments of function %s", a, b, op)
		}
		return r, nil
	}
}

// toInt64Bits converts any numeric to a 64-bit pattern for integer-only operations on floats.
func intOperand(v Value) (bits uint64, signed bool, size int, err error) {
	k, u, i, f, sz := numInfo(v)
	switch k {
	case 'u':
		return u, false, sz, nil
	case 'i':
		return uint64(i), true, sz, nil
	case 'f':
		b, err := floatToIntBits(f, true)
		return b, true, 8, err
	}
	return 0, false, 0, raise("ILLEGAL_TYPE_OF_ARGUMENT", "expected a number, got %s", typeOfValue(v))
}

func arithEval(op string) func(c *callCtx, args []Value) (Value, error) {
	return func(c *callCtx, args []Value) (Value, error) {
		a, b := args[0], args[1]
		// date arithmetic (only what the planners use): Date ± INTERVAL, Date ± n days, DateTime ± n seconds
		if v, ok, err := dateArith(op, a, b); ok || err != nil {
			return v, err
		}
		if !isNumeric(a) {
			return nil, illegalArg(c, 0, a)
		}
		if !isNumeric(b) {
			return nil, illegalArg(c, 1, b)
		}
		rt := arithResultType(op, typeOfValue(a), typeOfValue(b))
		if rt == nil {
			return nil, raise("ILLEGAL_TYPE_OF_ARGUMENT", "illegal types of arguments of function %s", op)
		}
		if rt.Name == "Float64" {
			x, _ := toFloat(a)
			y, _ := toFloat(b)
			switch op {
			case "plus":
				return x + y, nil
			case "minus":
				return x - y, nil
			case "multiply":
				return x * y, nil
			case "divide":
				return x / y, nil // division is always Float64; x/0 = ±inf, 0/0 = nan
			case "modulo":
				return math.Mod(x, y), nil
			}
		}
		signed, size, _ := intTypeInfo(rt.Name)
		x, xs, _, err := intOperand(a)
		if err != nil {
			return nil, err
		}
		y, ys, _, err := intOperand(b)
		if err != nil {
			return nil, err
		}
		switch op {
		case "plus":
			return makeInt(signed, size, x+y), nil // wraps (rule A12)
		case "minus":
			return makeInt(signed, size, x-y), nil
		case "multiply":
			return makeInt(signed, size, x*y), nil
		case "intDiv", "intDivOrZero", "modulo", "moduloOrZero":
			// rule A12: intDiv truncates toward zero; division by zero raises; Int64/UInt64 wrap
			orZero := op == "intDivOrZero" || op == "moduloOrZero"
			if y == 0 {
				if orZero {
					return makeInt(signed, size, 0), nil
				}
				return nil, raise("A12", "division by zero in %s(%s, %s)", op, Format(a), Format(b))
			}
			isDiv := op == "intDiv" || op == "intDivOrZero"
			switch {
			case !xs && !ys:
				if isDiv {
					return makeInt(signed, size, x/y), nil
				}
				return makeInt(signed, size, x%y), nil
			default:
				// at least one signed operand: ClickHouse computes in the signed/unsigned common
				// 64-bit domain (checkedDivision). Mixed Int64/UInt64 beyond the Int64 range is refused.
				xi, yi := int64(x), int64(y)
				if !xs && x > math.MaxInt64 || !ys && y > math.MaxInt64 {
					return nil, unsupported("%s on mixed signed/unsigned operands beyond the Int64 range", op)
				}
				if xi == math.MinInt64 && yi == -1 {
					if orZero {
						return makeInt(signed, size, 0), nil
					}
					return nil, raise("A12", "division of minimal signed number by minus one in %s", op)
				}
				if isDiv {
					return makeInt(signed, size, uint64(xi/yi)), nil
				}
				return makeInt(signed, size, uint64(xi%yi)), nil
			}
		case "bitAnd":
			return makeInt(signed, size, x&y), nil
		case "bitOr":
			return makeInt(signed, size, x|y), nil
		case "bitXor":
			return makeInt(signed, size, x^y), nil
		case "bitShiftLeft":
			// rule A4: the result has ResultOfBit's type — for a UInt8 shift count that is the type of
			// the first argument — and the shifted value is truncated to it: a UInt8 shifted by >= 8 is 0.
			if ys && int64(y) < 0 {
				return nil, raise("ARGUMENT_OUT_OF_BOUND", "the number of shift positions needs to be a non-negative value")
			}
			if y >= uint64(size*8) {
				return makeInt(signed, size, 0), nil
			}
			return makeInt(signed, size, x<<y), nil
		case "bitShiftRight":
			if ys && int64(y) < 0 {
				return nil, raise("ARGUMENT_OUT_OF_BOUND", "the number of shift positions needs to be a non-negative value")
			}
			if y >= uint64(size*8) {
				return makeInt(signed, size, 0), nil
			}
			// operate on the value converted to the result type
			cv := makeInt(signed, size, x)
			if signed {
				b, _ := bitsOf(cv)
				return makeInt(signed, size, uint64(int64(b)>>y)), nil
			}
			b, _ := bitsOf(cv)
			return makeInt(signed, size, b>>y), nil
		}
		return nil, unsupported("arithmetic %s", op)
	}
}

func dateArith(op string, a, b Value) (Value, bool, error) {
	addDate := func(d Date, iv intervalVal, sign int64) (Value, error) {
		n := iv.n * sign
		switch iv.unit {
		case "day":
			return Date(int64(d) + n), nil
		case "week":
			return Date(int64(d) + 7*n), nil
		case "second", "minute", "hour":
			mul := map[string]int64{"second": 1, "minute": 60, "hour": 3600}[iv.unit]
			return DateTime(int64(d)*86400 + n*mul), nil
		}
		return nil, unsupported("Date ± INTERVAL %s", iv.unit)
	}
	addDT := func(d DateTime, iv intervalVal, sign int64) (Value, error) {
		mul, ok := map[string]int64{"second": 1, "minute": 60, "hour": 3600, "day": 86400, "week": 604800}[iv.unit]
		if !ok {
			return nil, unsupported("DateTime ± INTERVAL %s", iv.unit)
		}
		return DateTime(int64(d) + sign*iv.n*mul), nil
	}
	sign := int64(1)
	if op == "minus" {
		sign = -1
	}
	if op != "plus" && op != "minus" {
		switch a.(type) {
		case Date, DateTime, intervalVal:
			return nil, true, raise("ILLEGAL_TYPE_OF_ARGUMENT", "illegal types of arguments of function %s", op)
		}
		switch b.(type) {
		case Date, DateTime, intervalVal:
			return nil, true, raise("ILLEGAL_TYPE_OF_ARGUMENT", "illegal types of arguments of function %s", op)
		}
		return nil, false, nil
	}
	switch x := a.(type) {
	case Date:
		switch y := b.(type) {
		case intervalVal:
			v, err := addDate(x, y, sign)
			return v, true, err
		case Date:
			if op == "minus" {
				return int32(x) - int32(y), true, nil
			}
		default:
			if isInteger(b) {
				n, _ := bitsOf(b)
				return Date(int64(x) + sign*int64(n)), true, nil
			}
		}
		return nil, true, raise("ILLEGAL_TYPE_OF_ARGUMENT", "illegal types Date and %s of arguments of function %s", typeOfValue(b), op)
	case DateTime:
		switch y := b.(type) {
		case intervalVal:
			v, err := addDT(x, y, sign)
			return v, true, err
		case DateTime:
			if op == "minus" {
				return int32(int64(x) - int64(y)), true, nil
			}
		default:
			if isInteger(b) {
				n, _ := bitsOf(b)
				return DateTime(int64(x) + sign*int64(n)), true, nil
			}
		}
		return nil, true, raise("ILLEGAL_TYPE_OF_ARGUMENT", "illegal types DateTime and %s of arguments of function %s", typeOfValue(b), op)
	case intervalVal:
		if op == "plus" {
			switch y := b.(type) {
			case Date:
				v, err := addDate(y, x, 1)
				return v, true, err
			case DateTime:
				v, err := addDT(y, x, 1)
				return v, true, err
			}
		}
		return nil, true, unsupported("arithmetic on INTERVAL values")
	}
	switch y := b.(type) {
	case Date:
		if op == "plus" && isInteger(a) {
			n, _ := bitsOf(a)
			return Date(int64(y) + int64(n)), true, nil
		}
		return nil, true, raise("ILLEGAL_TYPE_OF_ARGUMENT", "illegal types %s and Date of arguments of function %s", typeOfValue(a), op)
	case DateTime:
		if op == "plus" && isInteger(a) {
			n, _ := bitsOf(a)
			return DateTime(int64(y) + int64(n)), true, nil
		}
		return nil, true, raise("ILLEGAL_TYPE_OF_ARGUMENT", "illegal types %s and DateTime of arguments of function %s", typeOfValue(a), op)
	case intervalVal:
		return nil, true, raise("ILLEGAL_TYPE_OF_ARGUMENT", "illegal types %s and Interval of arguments of function %s", typeOfValue(a), op)
	}
	return nil, false, nil
}

// ---- comparison ------------------------------------------------------------------------------------

// rule A4: comparison operators yield UInt8.
func cmpEval(op string) func(c *callCtx, args []Value) (Value, error) {
	return func(c *callCtx, args []Value) (Value, error) {
		cmp, un, err := compareValues(args[0], args[1])
		if err != nil {
			return nil, err
		}
		// tuples containing NULL compare as NULL in ClickHouse; the subset never builds those
		if containsNull(args[0]) || containsNull(args[1]) {
			return Null{}, nil
		}
		var r bool
		switch op {
		case "equals":
			r = !un && cmp == 0
		case "notEquals":
			r = un || cmp != 0
		case "less":
			r = !un && cmp < 0
		case "lessOrEquals":
			r = !un && cmp <= 0
		case "greater":
			r = !un && cmp > 0
		case "greaterOrEquals":
			r = !un && cmp >= 0
		}
		if r {
			return uint8(1), nil
		}
		return uint8(0), nil
	}
}

func cmpTyp(t *typeCall) (*Type, error) {
	a, b := t.args[0], t.args[1]
	if a == nil || b == nil {
		return tUInt8, nil
	}
	if !comparableTypes(a, b, isConstString(t.f.Args[0]), isConstString(t.f.Args[1])) {
		return nil, raise("ILLEGAL_TYPE_OF_ARGUMENT", "illegal types of arguments (%s, %s) of function %s", a, b, t.f.Name)
	}
	return tUInt8, nil
}

func comparableTypes(a, b *Type, aConstStr, bConstStr bool) bool {
	a, b = stateValueType(a), stateValueType(b)
	if a == nil || b == nil {
		return true
	}
	if a.Name == "Nullable" {
		a = a.Args[0]
	}
	if b.Name == "Nullable" {
		b = b.Args[0]
	}
	if a.Name == "Nothing" || b.Name == "Nothing" {
		return true
	}
	class := func(t *Type) string {
		switch {
		case isNumType(t):
			return "num"
		case isStringType(t):
			return "str"
		case t.Name == "Date" || t.Name == "DateTime":
			return "time"
		}
		return t.Name
	}
	ca, cb := class(a), class(b)
	if ca == "str" && aConstStr && (cb == "num" || cb == "time") {
		return true
	}
	if cb == "str" && bConstStr && (ca == "num" || ca == "time") {
		return true
	}
	if ca != cb {
		return false
	}
	switch ca {
	case "Array":
		return comparableTypes(a.Args[0], b.Args[0], false, false)
	case "Tuple":
		if len(a.Args) != len(b.Args) {
			return false
		}
		for i := range a.Args {
			if !comparableTypes(a.Args[i], b.Args[i], false, false) {
				return false
			}
		}
	case "Map":
		return comparableTypes(a.Args[0], b.Args[0], false, false) && comparableTypes(a.Args[1], b.Args[1], false, false)
	}
	return true
}

func init() {
	for _, op := range []string{"plus", "minus", "multiply", "divide", "modulo", "intDiv", "intDivOrZero", "moduloOrZero", "bitAnd", "bitOr", "bitXor", "bitShiftLeft", "bitShiftRight"} {
		reg(op, &fnDef{min: 2, max: 2, eval: arithEval(op), typ: arithTyp(op)})
	}
	funcs["mod"] = funcs["modulo"]
	for _, op := range []string{"equals", "notEquals", "less", "lessOrEquals", "greater", "greaterOrEquals"} {
		reg(op, &fnDef{min: 2, max: 2, cmp: true, eval: cmpEval(op), typ: cmpTyp})
	}
	reg("not", &fnDef{min: 1, max: 1, eval: func(c *callCtx, args []Value) (Value, error) {
		if !isNumeric(args[0]) {
			return nil, illegalArg(c, 0, args[0])
		}
		t, _ := filterTruth(args[0])
		if t {
			return uint8(0), nil
		}
		return uint8(1), nil
	}, typ: func(t *typeCall) (*Type, error) {
		if a := t.args[0]; a != nil && !isNumType(a) && a.Name != "Nothing" {
			return nil, raise("ILLEGAL_TYPE_OF_ARGUMENT", "illegal type %s of argument of function not", a)
		}
		return tUInt8, nil
	}})
	reg("negate", &fnDef{min: 1, max: 1, eval: func(c *callCtx, args []Value) (Value, error) {
		k, u, i, f, size := numInfo(args[0])
		switch k {
		case 'f':
			return -f, nil
		case 'u':
			return makeInt(true, nextSize(size), -u), nil // ResultOfNegate: signed, next size up
		case 'i':
			return makeInt(true, size, uint64(-i)), nil
		}
		return nil, illegalArg(c, 0, args[0])
	}, typ: func(t *typeCall) (*Type, error) {
		a := t.args[0]
		if a == nil {
			return nil, nil
		}
		if a.Name == "Float64" {
			return a, nil
		}
		s, z, ok := intTypeInfo(a.Name)
		if !ok {
			return nil, raise("ILLEGAL_TYPE_OF_ARGUMENT", "illegal type %s of argument of function negate", a)
		}
		if s {
			return a, nil
		}
		return tSimple(intTypeName(true, nextSize(z))), nil
	}})
	reg("abs", &fnDef{min: 1, max: 1, eval: func(c *callCtx, args []Value) (Value, error) {
		k, _, i, f, size := numInfo(args[0])
		switch k {
		case 'f':
			return math.Abs(f), nil
		case 'u':
			return args[0], nil
		case 'i':
			if i < 0 {
				i = -i
			}
			return makeInt(false, size, uint64(i)), nil // abs(IntN) → UIntN
		}
		return nil, illegalArg(c, 0, args[0])
	}, typ: func(t *typeCall) (*Type, error) {
		a := t.args[0]
		if a == nil {
			return nil, nil
		}
		if a.Name == "Float64" {
			return a, nil
		}
		_, z, ok := intTypeInfo(a.Name)
		if !ok {
			return nil, raise("ILLEGAL_TYPE_OF_ARGUMENT", "illegal type %s of argument of function abs", a)
		}
		return tSimple(intTypeName(false, z)), nil
	}})
	reg("bitNot", &fnDef{min: 1, max: 1, eval: func(c *callCtx, args []Value) (Value, error) {
		k, _, _, _, size := numInfo(args[0])
		if k != 'u' && k != 'i' {
			return nil, illegalArg(c, 0, args[0])
		}
		b, _ := bitsOf(args[0])
		return makeInt(k == 'i', size, ^b), nil
	}, typ: func(t *typeCall) (*Type, error) { return t.args[0], nil }})
}

// realButUnimplemented lists ClickHouse functions that exist but are outside the subset: calling
// them is ErrUnsupported ("undecided"), not a statement ClickHouse would reject.
var realButUnimplemented = map[string]bool{}

func init() {
	for _, n := range strings.Fields(`
		sipHash64 sipHash128 xxHash32 xxHash64 javaHash javaHashUTF16LE hiveHash murmurHash2_32 murmurHash2_64 murmurHash3_32
		murmurHash3_64 murmurHash3_128 farmHash64 farmFingerprint64 metroHash64 cityHash128 intHash32 intHash64 halfMD5 MD5 SHA1 SHA224 SHA256 SHA512 URLHash
		toStartOfMinute toStartOfFiveMinutes toStartOfFiveMinute toStartOfTenMinutes toStartOfFifteenMinutes toStartOfHour toStartOfWeek toStartOfMonth
		toStartOfQuarter toStartOfYear toStartOfInterval toStartOfSecond toMonday toYear toQuarter toMonth toDayOfMonth toDayOfWeek toDayOfYear toHour toMinute toSecond
		toYYYYMM toYYYYMMDDhhmmss toDateTime64 toDate32 toTime toTimeZone toUnixTimestamp64Milli toUnixTimestamp64Micro toUnixTimestamp64Nano
		fromUnixTimestamp fromUnixTimestamp64Milli fromUnixTimestamp64Micro fromUnixTimestamp64Nano FROM_UNIXTIME formatDateTime parseDateTimeBestEffort
		parseDateTimeBestEffortOrNull parseDateTimeBestEffortOrZero dateDiff date_diff dateAdd date_add dateSub date_sub dateTrunc date_trunc addSeconds addMinutes addHours addDays addWeeks
		addMonths addYears subtractSeconds subtractMinutes subtractHours subtractDays subtractWeeks subtractMonths subtractYears timeSlot timeSlots yesterday now64 toIntervalSecond
		toIntervalMinute toIntervalHour toIntervalDay toIntervalWeek toIntervalMonth toIntervalYear toDecimal32 toDecimal64 toDecimal128 toUUID generateUUIDv4 toFixedString
		toInt128 toInt256 toUInt128 toUInt256 toBool accurateCast accurateCastOrNull reinterpretAsUInt64 reinterpretAsInt64 reinterpretAsString reinterpretAsFixedString reinterpret
		toStringCutToZero bin unbin bitmaskToList bitmaskToArray bitCount bitTest bitRotateLeft bitRotateRight bitHammingDistance char
		lowerUTF8 upperUTF8 reverseUTF8 substringUTF8 positionUTF8 positionCaseInsensitive positionCaseInsensitiveUTF8 multiSearchAny multiSearchFirstIndex multiSearchFirstPosition
		multiSearchAllPositions multiMatchAny multiMatchAnyIndex multiMatchAllIndices countSubstrings countMatches regexpQuoteMeta leftPad rightPad leftPadUTF8 rightPadUTF8 repeat space
		appendTrailingCharIfAbsent base64Encode base64Decode tryBase64Decode endsWithUTF8 startsWithUTF8 normalizeQuery normalizedQueryHash encodeXMLComponent decodeXMLComponent
		extractAll extractGroups alphaTokens splitByRegexp splitByWhitespace splitByNonAlpha tokens ngrams toValidUTF8 left right leftUTF8 rightUTF8 ascii soundex
		domain domainWithoutWWW topLevelDomain protocol path pathFull queryString fragment extractURLParameter extractURLParameters cutURLParameter decodeURLComponent encodeURLComponent
		emptyArrayUInt8 emptyArrayUInt16 emptyArrayUInt32 emptyArrayUInt64 emptyArrayInt8 emptyArrayInt16 emptyArrayInt32 emptyArrayInt64 emptyArrayFloat32 emptyArrayFloat64
		emptyArrayString emptyArrayDate emptyArrayDateTime emptyArrayToSingle arrayWithConstant arrayPushBack arrayPushFront arrayPopBack arrayPopFront arrayResize arrayUniq
		arrayCumSum arrayCumSumNonNegative arrayDifference arrayProduct arrayAvg arrayCompact arrayIntersect arrayFill arrayReverseFill arraySplit arrayReverseSplit arrayFirstIndex arrayLastIndex
		arrayFirstOrNull arrayLastOrNull arrayEnumerateUniq arrayEnumerateDense arrayReduceInRanges arrayFold arrayAUC arrayRotateLeft arrayRotateRight arrayShiftLeft arrayShiftRight
		arrayPartialSort arrayPartialReverseSort arrayShuffle hasAll hasAny hasSubstr countEqual arrayJaccardIndex
		mapAdd mapSubtract mapPopulateSeries mapContainsKeyLike mapExtractKeyLike mapSort mapReverseSort mapExists mapAll mapConcat mapPartialSort mapFromString extractKeyValuePairs
		untuple tupleHammingDistance tupleToNameValuePairs tuplePlus tupleMinus tupleConcat tupleNames
		JSONExtract JSONExtractArrayRaw JSONExtractKeysAndValuesRaw JSON_EXISTS JSON_QUERY JSON_VALUE toJSONString JSONArrayLength simpleJSONHas simpleJSONExtractUInt simpleJSONExtractInt
		simpleJSONExtractFloat simpleJSONExtractBool simpleJSONExtractRaw simpleJSONExtractString visitParamHas visitParamExtractUInt visitParamExtractInt visitParamExtractFloat
		visitParamExtractBool visitParamExtractRaw visitParamExtractString
		sign sin cos tan asin acos atan atan2 sinh cosh tanh cbrt erf erfc lgamma tgamma exp2 exp10 log1p hypot degrees radians pi e roundBankers roundToExp2 roundDuration roundAge roundDown gcd lcm
		max2 min2 intExp2 intExp10 isInfinite ifNotFinite isZeroOrNull xor positiveModulo pmod moduloLegacy divideDecimal multiplyDecimal
		rand rand32 rand64 randConstant randUniform randNormal randomString randomFixedString generateRandomStructure
		hostName hostname getMacro FQDN basename visibleWidth toColumnTypeName blockSize materialize ignore sleep sleepEachRow currentDatabase currentUser version uptime timezone timeZone
		serverTimezone serverTimeZone blockNumber rowNumberInBlock rowNumberInAllBlocks neighbor runningDifference runningDifferenceStartingWithFirstValue runningAccumulate
		isConstant isDecimalOverflow bar transform formatReadableSize formatReadableQuantity formatReadableTimeDelta formatReadableDecimalSize throwIf identity getSetting defaultValueOfArgumentType
		defaultValueOfTypeName indexHint replicate joinGet dictGet dictGetOrDefault dictHas initializeAggregation byteSize filesystemAvailable toLowCardinality lowCardinalityIndices
		lowCardinalityKeys tid logTrace isNullable toIPv4 toIPv6 IPv4NumToString IPv4StringToNum IPv6NumToString IPv6StringToNum isIPv4String isIPv6String
		geoDistance greatCircleDistance pointInPolygon pointInEllipses h3ToGeo geohashEncode geohashDecode
		multiIf caseWithExpression nullIn notNullIn globalNullIn
		lagInFrame leadInFrame row_number rank dense_rank nth_value first_value last_value ntile percent_rank
		sumMap minMap maxMap avgWeighted topK topKWeighted groupArrayInsertAt groupArrayMovingSum groupArrayMovingAvg groupArraySample groupArrayLast groupArraySorted sumWithOverflow sumKahan
		sumCount deltaSum deltaSumTimestamp uniqCombined uniqCombined64 uniqHLL12 uniqTheta quantiles quantileDeterministic quantileExactLow quantileExactHigh quantileExactWeighted
		quantileTiming quantileTimingWeighted quantileTDigest quantileTDigestWeighted quantileBFloat16 quantileBFloat16Weighted quantileGK quantileInterpolatedWeighted quantilesExact
		simpleLinearRegression stochasticLinearRegression corr covarPop covarSamp skewPop skewSamp kurtPop kurtSamp entropy histogram retention sequenceMatch sequenceCount windowFunnel
		anyHeavy first_value last_value singleValueOrNull boundingRatio categoricalInformationValue contingency cramersV exponentialMovingAverage intervalLengthSum maxIntersections
		rankCorr studentTTest welchTTest mannWhitneyUTest meanZTest sparkbar groupBitmap groupBitmapAnd groupBitmapOr groupBitmapXor
	`) {
		if _, implemented := funcs[n]; !implemented {
			realButUnimplemented[n] = true
		}
	}
}

// unknownFunction: a function of the list above is "unsupported"; any other unknown name is a
// statement ClickHouse rejects (UNKNOWN_FUNCTION). Aggregate combinators of listed aggregate
// functions count as real too.
func unknownFunction(name string) error {
	if realButUnimplemented[name] {
		return unsupported("function %s", name)
	}
	for _, c := range aggCombinators {
		if strings.HasSuffix(name, c) && realButUnimplemented[strings.TrimSuffix(name, c)] {
			return unsupported("function %s", name)
		}
	}
	return raise("UNKNOWN_FUNCTION", "unknown function %s", name)
}

// SupportedFunctions lists the implemented scalar functions and aggregate base functions
// (aggregates additionally accept the combinators -If -Array -Distinct -State -Merge -MergeState
// -SimpleState -OrNull -OrDefault).
func SupportedFunctions() (scalars, aggregates []string) {
	for n := range funcs {
		scalars = append(scalars, n)
	}
	scalars = append(scalars, "and", "or", "if", "multiIf", "CAST", "in", "notIn", "globalIn", "globalNotIn", "arrayJoin")
	for n := range aggBases {
		aggregates = append(aggregates, n)
	}
	sort.Strings(scalars)
	sort.Strings(aggregates)
	return
}
