package chsql

import (
	"fmt"
	"testing"
	"time"
)

// Informational: the corpus over a few thousand rows (the harness executes many such cases).
// No wall-clock assertion: the time is only logged.
func TestPerfSmoke(t *testing.T) {
	db := QrynSchema(false)
	for fp := 0; fp < 50; fp++ {
		db.Tables["time_series"].Rows = append(db.Tables["time_series"].Rows, []Value{Date(19675), uint64(fp), fmt.Sprintf(`{"a":"b","n":"%d"}`, fp), "", uint8(1)})
		db.Tables["time_series_gin"].Rows = append(db.Tables["time_series_gin"].Rows, []Value{Date(19675), "a", "b", uint64(fp), uint8(1)}, []Value{Date(19675), "n", fmt.Sprint(fp), uint64(fp), uint8(1)})
		for i := 0; i < 100; i++ {
			db.Tables["samples_v3"].Rows = append(db.Tables["samples_v3"].Rows, []Value{uint64(fp), int64(1700000000000000000 + int64(i)*1000000000), float64(i), fmt.Sprintf("line %d x", i), uint8(1)})
		}
	}
	for _, tb := range db.Tables {
		if err := tb.Check(); err != nil {
			t.Fatal(err)
		}
	}
	stmts := corpusStatements(t, corpusFiles[0])
	start := time.Now()
	n := 0
	for _, sql := range stmts {
		if _, err := db.Exec(sql); err == nil {
			n++
		}
	}
	el := time.Since(start)
	t.Logf("%d corpus statements over 5000 samples in %v", n, el)
}
