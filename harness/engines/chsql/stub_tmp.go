package chsql

func aggStateType(fn string, args []*Type) *Type { return nil }
