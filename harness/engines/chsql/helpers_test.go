package chsql

import (
	"errors"
	"fmt"
	"strings"
	"testing"
)

// coerce converts convenient Go literals (int, float64, string, []any, bool) to the Value
// representation of type t.
func coerce(v any, t *Type) Value {
	if t.Name == "AggregateFunction" {
		t = stateValueType(t)
	}
	switch x := v.(type) {
	case nil:
		return Null{}
	case int:
		c, err := castValue(int64(x), t)
		if err != nil {
			panic(err)
		}
		return c
	case uint64:
		c, err := castValue(x, t)
		if err != nil {
			panic(err)
		}
		return c
	case float64:
		c, err := castValue(x, t)
		if err != nil {
			panic(err)
		}
		return c
	case string:
		c, err := castValue(x, t)
		if err != nil {
			panic(err)
		}
		return c
	case []any:
		switch t.Name {
		case "Array":
			res := make(Array, len(x))
			for i, e := range x {
				res[i] = coerce(e, t.Args[0])
			}
			return res
		case "Tuple":
			res := make(Tuple, len(x))
			for i, e := range x {
				res[i] = coerce(e, t.Args[i])
			}
			return res
		case "Nullable":
			return coerce(v, t.Args[0])
		}
	case *Map, Null, Date, DateTime:
		return x
	}
	if t.Name == "Nullable" {
		return coerce(v, t.Args[0])
	}
	panic(fmt.Sprintf("coerce: cannot convert %T to %s", v, t))
}

// mkTable builds a table from "name Type, name Type" and rows of Go literals.
func mkTable(name, cols string, rows ...[]any) *Table {
	t := &Table{Name: name}
	depth := 0
	cur := ""
	var defs []string
	for _, ch := range cols {
		switch ch {
		case '(':
			depth++
		case ')':
			depth--
		case ',':
			if depth == 0 {
				defs = append(defs, cur)
				cur = ""
				continue
			}
		}
		cur += string(ch)
	}
	defs = append(defs, cur)
	for _, d := range defs {
		d = strings.TrimSpace(d)
		i := strings.IndexByte(d, ' ')
		t.Cols = append(t.Cols, Column{Name: d[:i], Type: strings.TrimSpace(d[i+1:])})
	}
	ts, err := t.ColTypes()
	if err != nil {
		panic(err)
	}
	for _, r := range rows {
		if len(r) != len(ts) {
			panic(fmt.Sprintf("table %s: row has %d values, want %d", name, len(r), len(ts)))
		}
		row := make([]Value, len(r))
		for i, v := range r {
			row[i] = coerce(v, ts[i])
		}
		t.Rows = append(t.Rows, row)
	}
	if err := t.Check(); err != nil {
		panic(err)
	}
	return t
}

func R(v ...any) []any { return v }

func fmtRows(res *Result) []string {
	out := make([]string, len(res.Rows))
	for i, r := range res.Rows {
		parts := make([]string, len(r))
		for k, v := range r {
			parts[k] = Format(v)
		}
		out[i] = strings.Join(parts, "|")
	}
	return out
}

type semCase struct {
	name   string
	tables []*Table
	sql    string
	want   []string // formatted rows, columns joined by '|'
	types  string   // optional: expected column types joined by '|'
	cols   string   // optional: expected column names joined by '|'
	raise  string   // expected RaiseError.Rule
	unsup  bool     // expected ErrUnsupported
	note   string   // expected substring of a DB note
}

func runCases(t *testing.T, cases []semCase) {
	t.Helper()
	seen := map[string]bool{}
	for _, c := range cases {
		c := c
		if seen[c.name] {
			t.Fatalf("duplicate case name %q", c.name)
		}
		seen[c.name] = true
		t.Run(c.name, func(t *testing.T) {
			db := NewDB()
			db.StrictTypes = true
			for _, tb := range c.tables {
				db.AddTable(tb.Clone())
			}
			res, err := db.Exec(c.sql)
			if c.raise != "" {
				var re *RaiseError
				if !errors.As(err, &re) {
					t.Fatalf("want raise %s, got result %v err %v\n  %s", c.raise, res, err, c.sql)
				}
				if re.Rule != c.raise {
					t.Fatalf("want raise %s, got %s: %s\n  %s", c.raise, re.Rule, re.Msg, c.sql)
				}
				return
			}
			if c.unsup {
				if !errors.Is(err, ErrUnsupported) {
					t.Fatalf("want ErrUnsupported, got %v / %v", res, err)
				}
				return
			}
			if err != nil {
				t.Fatalf("unexpected error: %v\n  %s", err, c.sql)
			}
			got := fmtRows(res)
			if strings.Join(got, "\n") != strings.Join(c.want, "\n") {
				t.Fatalf("rows differ\n  sql:  %s\n  got:  %q\n  want: %q", c.sql, got, c.want)
			}
			if c.types != "" {
				var ts []string
				for _, col := range res.Cols {
					ts = append(ts, col.Type)
				}
				if g := strings.Join(ts, "|"); g != c.types {
					t.Fatalf("types differ: got %s want %s\n  %s", g, c.types, c.sql)
				}
			}
			if c.cols != "" {
				var ns []string
				for _, col := range res.Cols {
					ns = append(ns, col.Name)
				}
				if g := strings.Join(ns, "|"); g != c.cols {
					t.Fatalf("column names differ: got %s want %s\n  %s", g, c.cols, c.sql)
				}
			}
			if c.note != "" {
				found := false
				for _, n := range db.Notes() {
					if strings.Contains(n, c.note) {
						found = true
					}
				}
				if !found {
					t.Fatalf("expected note containing %q, notes: %v", c.note, db.Notes())
				}
			}
			if colls := db.HashCollisions(); len(colls) > 0 {
				t.Fatalf("hash collisions: %v", colls)
			}
		})
	}
}
