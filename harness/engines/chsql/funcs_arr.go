package chsql

import (
	"sort"
)

func arrArg(c *callCtx, args []Value, i int) (Array, error) {
	switch a := args[i].(type) {
	case Array:
		return a, nil
	}
	return nil, illegalArg(c, i, args[i])
}

// elemDefault returns the default value for the element type of the array/map expression that is
// argument i of the current call (rule A15 / A16: a missing element reads as the type's default).
func (c *callCtx) elemDefault(i int, sample Value, mapValue bool) (Value, error) {
	t, err := c.ev.sc.typeOf(c.f.Args[i], c.ev.typeEnv())
	if err != nil {
		return nil, err
	}
	if t != nil {
		switch {
		case t.Name == "Array" && !mapValue:
			if t.Args[0].Name != "Nothing" {
				return DefaultOf(t.Args[0])
			}
		case t.Name == "Map" && mapValue:
			if t.Args[1].Name != "Nothing" {
				return DefaultOf(t.Args[1])
			}
		}
	}
	if sample != nil {
		return DefaultOf(typeOfValue(sample))
	}
	return nil, unsupported("default value of an element of unknown type in %s", c.f.Name)
}

// lambdaArrays splits (lambda, arr1, …, arrN) and checks that the arrays have equal sizes.
func lambdaArrays(c *callCtx, args []Value) (*closure, []Array, error) {
	cl, ok := args[0].(*closure)
	if !ok {
		return nil, nil, raise("ILLEGAL_TYPE_OF_ARGUMENT", "first argument of function %s must be a lambda", c.f.Name)
	}
	if len(args) < 2 {
		return nil, nil, raise("NUMBER_OF_ARGUMENTS_DOESNT_MATCH", "function %s needs at least one array argument", c.f.Name)
	}
	arrs := make([]Array, len(args)-1)
	for i := range arrs {
		a, err := arrArg(c, args, i+1)
		if err != nil {
			return nil, nil, err
		}
		if i > 0 && len(a) != len(arrs[0]) {
			return nil, nil, raise("SIZES_OF_ARRAYS_DONT_MATCH", "arrays passed to %s must have equal size", c.f.Name)
		}
		arrs[i] = a
	}
	if len(cl.lam.Params) != len(arrs) {
		return nil, nil, raise("NUMBER_OF_ARGUMENTS_DOESNT_MATCH", "lambda of %s takes %d arguments but %d arrays were passed", c.f.Name, len(cl.lam.Params), len(arrs))
	}
	return cl, arrs, nil
}

func callAt(cl *closure, arrs []Array, i int) (Value, error) {
	a := make([]Value, len(arrs))
	for k := range arrs {
		a[k] = arrs[k][i]
	}
	return cl.call(a...)
}

func lambdaTruth(c *callCtx, v Value) (bool, error) {
	if isNull(v) {
		return false, nil
	}
	if !isNumeric(v) {
		return false, raise("ILLEGAL_TYPE_OF_ARGUMENT", "lambda of function %s must return UInt8, got %s", c.f.Name, typeOfValue(v))
	}
	t, _ := filterTruth(v)
	return t, nil
}

// unifyArray converts elements to their least supertype (array literal / arrayMap result / arrayConcat).
func unifyArray(vals []Value, what string) (Array, error) {
	res := make(Array, len(vals))
	copy(res, vals)
	if len(vals) < 2 {
		return res, nil
	}
	st := typeOfValue(vals[0])
	same := true
	for _, v := range vals[1:] {
		t := typeOfValue(v)
		if !typesEqual(t, st) {
			same = false
			n := superType(st, t)
			if n == nil {
				return nil, raise("NO_COMMON_TYPE", "there is no supertype for types %s, %s in %s", st, t, what)
			}
			st = n
		}
	}
	if same {
		return res, nil
	}
	for i, v := range res {
		cv, err := castValue(v, st)
		if err != nil {
			return nil, err
		}
		res[i] = cv
	}
	return res, nil
}

func arrOfArg0(t *typeCall) (*Type, error) {
	if a := t.args[0]; a != nil && a.Name != "Array" {
		return nil, raise("ILLEGAL_TYPE_OF_ARGUMENT", "argument of function %s must be an array, got %s", t.f.Name, a)
	}
	return t.args[0], nil
}

// lambdaSrcType: for (lambda, arr, …) functions returns the type of the first array argument.
func lambdaSrcType(t *typeCall) *Type {
	if len(t.args) >= 2 && t.args[1] != nil && t.args[1].Name == "Array" {
		return t.args[1]
	}
	return nil
}

func init() {
	reg("array", &fnDef{min: 0, max: -1, nulls: true, eval: func(c *callCtx, args []Value) (Value, error) {
		return unifyArray(args, "array")
	}, typ: func(t *typeCall) (*Type, error) {
		var st *Type = tNothing
		for i, a := range t.args {
			if a == nil {
				return nil, nil
			}
			if i == 0 {
				st = a
			} else if st = superType(st, a); st == nil {
				return nil, raise("NO_COMMON_TYPE", "there is no supertype for the elements of the array")
			}
		}
		return tArray(st), nil
	}})
	reg("tuple", &fnDef{min: 0, max: -1, nulls: true, eval: func(c *callCtx, args []Value) (Value, error) {
		for _, a := range args {
			if _, ok := a.(*closure); ok {
				return nil, raise("ILLEGAL_TYPE_OF_ARGUMENT", "lambda in tuple")
			}
		}
		return Tuple(append([]Value{}, args...)), nil
	}, typ: func(t *typeCall) (*Type, error) {
		for _, a := range t.args {
			if a == nil {
				return nil, nil
			}
		}
		return tTuple(t.args...), nil
	}})
	reg("tupleElement", &fnDef{min: 2, max: 2, nulls: true, eval: func(c *callCtx, args []Value) (Value, error) {
		idx, ok := stripAlias(c.f.Args[1]).(*Literal)
		if !ok || !isInteger(idx.Val) {
			return nil, unsupported("tupleElement with a non-constant or named index")
		}
		n, _ := bitsOf(idx.Val)
		switch t := args[0].(type) {
		case Tuple:
			if n < 1 || int(n) > len(t) {
				return nil, raise("ARGUMENT_OUT_OF_BOUND", "tuple doesn't have element with index %d (it has %d elements)", n, len(t))
			}
			return t[n-1], nil
		case Array:
			// tupleElement over an array of tuples maps over the elements
			res := make(Array, len(t))
			for i, e := range t {
				tp, ok := e.(Tuple)
				if !ok || n < 1 || int(n) > len(tp) {
					return nil, raise("ILLEGAL_TYPE_OF_ARGUMENT", "first argument for function tupleElement must be tuple or array of tuple")
				}
				res[i] = tp[n-1]
			}
			return res, nil
		case Null:
			return Null{}, nil
		}
		return nil, raise("ILLEGAL_TYPE_OF_ARGUMENT", "first argument for function tupleElement must be tuple or array of tuple, got %s", typeOfValue(args[0]))
	}, typ: func(t *typeCall) (*Type, error) {
		a := t.args[0]
		if a == nil {
			return nil, nil
		}
		idx, ok := stripAlias(t.f.Args[1]).(*Literal)
		if !ok || !isInteger(idx.Val) {
			return nil, nil
		}
		n, _ := bitsOf(idx.Val)
		pick := func(tt *Type) (*Type, error) {
			if tt.Name != "Tuple" {
				return nil, raise("ILLEGAL_TYPE_OF_ARGUMENT", "first argument for function tupleElement must be tuple or array of tuple, got %s", a)
			}
			if n < 1 || int(n) > len(tt.Args) {
				return nil, raise("ARGUMENT_OUT_OF_BOUND", "tuple doesn't have element with index %d (it has %d elements)", n, len(tt.Args))
			}
			return tt.Args[n-1], nil
		}
		if a.Name == "Array" {
			if a.Args[0].Name == "Nothing" {
				return nil, nil
			}
			e, err := pick(a.Args[0])
			if err != nil {
				return nil, err
			}
			return tArray(e), nil
		}
		return pick(a)
	}})

	// arrayElement(arr, i): 1-based, negative from the end; out of range → default of the element
	// type (rule A15: x[length(x)] of an empty String array is ''); index 0 raises.
	// m['k'] on a map: rule A16 — a missing key reads as the value type's default ('').
	reg("arrayElement", &fnDef{min: 2, max: 2, eval: func(c *callCtx, args []Value) (Value, error) {
		switch a := args[0].(type) {
		case Array:
			if !isInteger(args[1]) {
				return nil, illegalArg(c, 1, args[1])
			}
			i, err := intArg(c, args, 1)
			if err != nil {
				return nil, err
			}
			if i == 0 {
				// a constant index 0 is rejected ("Array indices are 1-based"); a computed index that happens
				// to be 0 (x[length(x)] of an empty array — rule A15) reads as the default value.
				if _, isConst := stripAlias(c.f.Args[1]).(*Literal); isConst {
					return nil, raise("ZERO_ARRAY_OR_TUPLE_INDEX", "array indices are 1-based")
				}
			}
			if i < 0 {
				i = int64(len(a)) + i + 1
			}
			if i < 1 || i > int64(len(a)) || args[1] == nil {
				var sample Value
				if len(a) > 0 {
					sample = a[0]
				}
				return c.elemDefault(0, sample, false)
			}
			return a[i-1], nil
		case *Map:
			for k := range a.Keys {
				if isNull(a.Keys[k]) {
					continue
				}
				if valueClass(a.Keys[k]) != valueClass(args[1]) {
					return nil, raise("ILLEGAL_TYPE_OF_ARGUMENT", "illegal type %s of map key argument, map keys are %s", typeOfValue(args[1]), typeOfValue(a.Keys[k]))
				}
				eq, err := valuesEqual(a.Keys[k], args[1])
				if err != nil {
					return nil, err
				}
				if eq {
					return a.Vals[k], nil
				}
			}
			var sample Value
			if len(a.Vals) > 0 {
				sample = a.Vals[0]
			}
			return c.elemDefault(0, sample, true)
		}
		return nil, illegalArg(c, 0, args[0])
	}, typ: func(t *typeCall) (*Type, error) {
		a := t.args[0]
		if a == nil {
			return nil, nil
		}
		switch a.Name {
		case "Array":
			if b := t.args[1]; b != nil && !isIntType(b) {
				return nil, raise("ILLEGAL_TYPE_OF_ARGUMENT", "second argument for function arrayElement must be integer, got %s", b)
			}
			if a.Args[0].Name == "Nothing" {
				return nil, nil
			}
			return a.Args[0], nil
		case "Map":
			if b := t.args[1]; b != nil && !comparableTypes(a.Args[0], b, false, false) && a.Args[0].Name != "Nothing" {
				return nil, raise("ILLEGAL_TYPE_OF_ARGUMENT", "illegal type %s of map key argument for %s", b, a)
			}
			if a.Args[1].Name == "Nothing" {
				return nil, nil
			}
			return a.Args[1], nil
		}
		return nil, raise("ILLEGAL_TYPE_OF_ARGUMENT", "first argument for function arrayElement must be array or map, got %s", a)
	}})

	reg("arrayMap", &fnDef{min: 2, max: -1, nulls: true, eval: func(c *callCtx, args []Value) (Value, error) {
		cl, arrs, err := lambdaArrays(c, args)
		if err != nil {
			return nil, err
		}
		vals := make([]Value, len(arrs[0]))
		for i := range arrs[0] {
			if vals[i], err = callAt(cl, arrs, i); err != nil {
				return nil, err
			}
		}
		return unifyArray(vals, "arrayMap")
	}, typ: func(t *typeCall) (*Type, error) {
		if t.lambdaRet == nil {
			return nil, nil
		}
		return tArray(t.lambdaRet), nil
	}})
	reg("arrayFilter", &fnDef{min: 2, max: -1, nulls: true, eval: func(c *callCtx, args []Value) (Value, error) {
		cl, arrs, err := lambdaArrays(c, args)
		if err != nil {
			return nil, err
		}
		res := Array{}
		for i := range arrs[0] {
			v, err := callAt(cl, arrs, i)
			if err != nil {
				return nil, err
			}
			ok, err := lambdaTruth(c, v)
			if err != nil {
				return nil, err
			}
			if ok {
				res = append(res, arrs[0][i])
			}
		}
		return res, nil
	}, typ: func(t *typeCall) (*Type, error) { return lambdaSrcType(t), nil }})
	firstLast := func(last bool) *fnDef {
		return &fnDef{min: 2, max: -1, nulls: true, eval: func(c *callCtx, args []Value) (Value, error) {
			cl, arrs, err := lambdaArrays(c, args)
			if err != nil {
				return nil, err
			}
			n := len(arrs[0])
			for k := 0; k < n; k++ {
				i := k
				if last {
					i = n - 1 - k
				}
				v, err := callAt(cl, arrs, i)
				if err != nil {
					return nil, err
				}
				ok, err := lambdaTruth(c, v)
				if err != nil {
					return nil, err
				}
				if ok {
					return arrs[0][i], nil
				}
			}
			var sample Value
			if n > 0 {
				sample = arrs[0][0]
			}
			return c.elemDefault(1, sample, false)
		}, typ: func(t *typeCall) (*Type, error) {
			if s := lambdaSrcType(t); s != nil && s.Args[0].Name != "Nothing" {
				return s.Args[0], nil
			}
			return nil, nil
		}}
	}
	reg("arrayFirst", firstLast(false))
	reg("arrayLast", firstLast(true))
	existsAll := func(name string) *fnDef {
		return &fnDef{min: 1, max: -1, nulls: true, eval: func(c *callCtx, args []Value) (Value, error) {
			var cl *closure
			var arrs []Array
			var err error
			if _, isL := args[0].(*closure); isL {
				if cl, arrs, err = lambdaArrays(c, args); err != nil {
					return nil, err
				}
			} else {
				a, err := arrArg(c, args, 0)
				if err != nil {
					return nil, err
				}
				arrs = []Array{a}
			}
			cnt := 0
			for i := range arrs[0] {
				v := arrs[0][i]
				if cl != nil {
					if v, err = callAt(cl, arrs, i); err != nil {
						return nil, err
					}
				}
				ok, err := lambdaTruth(c, v)
				if err != nil {
					return nil, err
				}
				if ok {
					cnt++
				}
			}
			switch name {
			case "arrayExists":
				return boolVal(cnt > 0), nil
			case "arrayAll":
				return boolVal(cnt == len(arrs[0])), nil
			}
			return uint32(cnt), nil
		}, typ: func(t *typeCall) (*Type, error) {
			if name == "arrayCount" {
				return tUInt32, nil
			}
			return tUInt8, nil
		}}
	}
	reg("arrayExists", existsAll("arrayExists"))
	reg("arrayAll", existsAll("arrayAll"))
	reg("arrayCount", existsAll("arrayCount"))

	reg("arrayZip", &fnDef{min: 1, max: -1, eval: func(c *callCtx, args []Value) (Value, error) {
		arrs := make([]Array, len(args))
		for i := range args {
			a, err := arrArg(c, args, i)
			if err != nil {
				return nil, err
			}
			if i > 0 && len(a) != len(arrs[0]) {
				return nil, raise("SIZES_OF_ARRAYS_DONT_MATCH", "the argument arrays of arrayZip must have equal size")
			}
			arrs[i] = a
		}
		res := make(Array, len(arrs[0]))
		for i := range res {
			t := make(Tuple, len(arrs))
			for k := range arrs {
				t[k] = arrs[k][i]
			}
			res[i] = t
		}
		return res, nil
	}, typ: func(t *typeCall) (*Type, error) {
		es := make([]*Type, len(t.args))
		for i, a := range t.args {
			if a == nil {
				return nil, nil
			}
			if a.Name != "Array" {
				return nil, raise("ILLEGAL_TYPE_OF_ARGUMENT", "argument %d of function arrayZip must be array, got %s", i+1, a)
			}
			es[i] = a.Args[0]
		}
		return tArray(tTuple(es...)), nil
	}})

	// arraySort([lambda,] arr…): ascending by the element (or by the lambda's value); NaN then NULL
	// last. ClickHouse does not promise stability; equal keys keep their input order here.
	sortFn := func(desc bool) *fnDef {
		return &fnDef{min: 1, max: -1, nulls: true, eval: func(c *callCtx, args []Value) (Value, error) {
			var keys []Value
			var src Array
			if _, isL := args[0].(*closure); isL {
				cl, arrs, err := lambdaArrays(c, args)
				if err != nil {
					return nil, err
				}
				src = arrs[0]
				keys = make([]Value, len(src))
				for i := range src {
					if keys[i], err = callAt(cl, arrs, i); err != nil {
						return nil, err
					}
				}
			} else {
				if len(args) != 1 {
					return nil, raise("NUMBER_OF_ARGUMENTS_DOESNT_MATCH", "function %s without lambda takes one array", c.f.Name)
				}
				if isNull(args[0]) {
					return Null{}, nil
				}
				a, err := arrArg(c, args, 0)
				if err != nil {
					return nil, err
				}
				src, keys = a, a
			}
			idx := make([]int, len(src))
			for i := range idx {
				idx[i] = i
			}
			var serr error
			special := func(v Value) int {
				if isNull(v) {
					return 2
				}
				if f, ok := v.(float64); ok && f != f {
					return 1
				}
				return 0
			}
			sort.SliceStable(idx, func(a, b int) bool {
				ka, kb := keys[idx[a]], keys[idx[b]]
				sa, sb := special(ka), special(kb)
				if sa != 0 || sb != 0 {
					return sa < sb // NaN and NULL last in both directions
				}
				cmp, err := sortCompare(ka, kb)
				if err != nil {
					serr = err
					return false
				}
				if desc {
					return cmp > 0
				}
				return cmp < 0
			})
			if serr != nil {
				return nil, serr
			}
			res := make(Array, len(src))
			for i, k := range idx {
				res[i] = src[k]
			}
			return res, nil
		}, typ: func(t *typeCall) (*Type, error) {
			if t.hasLambda {
				return lambdaSrcType(t), nil
			}
			return arrOfArg0(t)
		}}
	}
	reg("arraySort", sortFn(false))
	reg("arrayReverseSort", sortFn(true))

	// arraySlice(arr, offset[, length]): offset 1-based (negative: from the end), length optional
	// (negative: stop that many elements before the end).
	reg("arraySlice", &fnDef{min: 2, max: 3, eval: func(c *callCtx, args []Value) (Value, error) {
		a, err := arrArg(c, args, 0)
		if err != nil {
			return nil, err
		}
		off, err := intArg(c, args, 1)
		if err != nil {
			return nil, err
		}
		n := int64(len(a))
		var start int64
		switch {
		case off > 0:
			start = off - 1
		case off < 0:
			start = n + off
			if start < 0 {
				// ClickHouse's sliceDynamicOffset… with an offset before the beginning the slice starts at 0
				// and a positive length is counted from the (virtual) negative position.
				if len(args) == 3 {
					l, err := intArg(c, args, 2)
					if err != nil {
						return nil, err
					}
					if l >= 0 {
						end := start + l
						if end <= 0 {
							return Array{}, nil
						}
						if end > n {
							end = n
						}
						return append(Array{}, a[:end]...), nil
					}
				}
				start = 0
			}
		default:
			// offset 0: ClickHouse treats it like "from the beginning" for constant arguments
			return nil, unsupported("arraySlice with offset 0")
		}
		if start >= n {
			return Array{}, nil
		}
		end := n
		if len(args) == 3 {
			l, err := intArg(c, args, 2)
			if err != nil {
				return nil, err
			}
			if l >= 0 {
				if start+l < end {
					end = start + l
				}
			} else {
				end = n + l
			}
		}
		if end <= start {
			return Array{}, nil
		}
		return append(Array{}, a[start:end]...), nil
	}, typ: arrOfArg0})

	reg("arrayConcat", &fnDef{min: 1, max: -1, eval: func(c *callCtx, args []Value) (Value, error) {
		var all []Value
		for i := range args {
			a, err := arrArg(c, args, i)
			if err != nil {
				return nil, err
			}
			all = append(all, a...)
		}
		return unifyArray(all, "arrayConcat")
	}, typ: func(t *typeCall) (*Type, error) {
		var st *Type
		for i, a := range t.args {
			if a == nil {
				return nil, nil
			}
			if a.Name != "Array" {
				return nil, raise("ILLEGAL_TYPE_OF_ARGUMENT", "argument %d of function arrayConcat must be array, got %s", i+1, a)
			}
			if i == 0 {
				st = a
			} else if st = superType(st, a); st == nil {
				return nil, raise("NO_COMMON_TYPE", "no common type for arguments of arrayConcat")
			}
		}
		return st, nil
	}})
	reg("arrayReverse", &fnDef{min: 1, max: 1, eval: func(c *callCtx, args []Value) (Value, error) {
		a, err := arrArg(c, args, 0)
		if err != nil {
			return nil, err
		}
		res := make(Array, len(a))
		for i, v := range a {
			res[len(a)-1-i] = v
		}
		return res, nil
	}, typ: arrOfArg0})
	reg("arrayDistinct", &fnDef{min: 1, max: 1, eval: func(c *callCtx, args []Value) (Value, error) {
		a, err := arrArg(c, args, 0)
		if err != nil {
			return nil, err
		}
		seen := map[string]bool{}
		res := Array{}
		for _, v := range a {
			if isNull(v) {
				continue // arrayDistinct drops NULLs
			}
			k := keyOf(v)
			if !seen[k] {
				seen[k] = true
				res = append(res, v)
			}
		}
		return res, nil
	}, typ: arrOfArg0})
	reg("arrayFlatten", &fnDef{min: 1, max: 1, eval: func(c *callCtx, args []Value) (Value, error) {
		a, err := arrArg(c, args, 0)
		if err != nil {
			return nil, err
		}
		res := Array{}
		for _, v := range a {
			in, ok := v.(Array)
			if !ok {
				return nil, illegalArg(c, 0, args[0])
			}
			res = append(res, in...)
		}
		return res, nil
	}, typ: func(t *typeCall) (*Type, error) {
		a := t.args[0]
		if a == nil || a.Name != "Array" || a.Args[0].Name != "Array" {
			return nil, nil
		}
		return a.Args[0], nil
	}})
	reg("arrayEnumerate", &fnDef{min: 1, max: 1, eval: func(c *callCtx, args []Value) (Value, error) {
		a, err := arrArg(c, args, 0)
		if err != nil {
			return nil, err
		}
		res := make(Array, len(a))
		for i := range a {
			res[i] = uint32(i + 1)
		}
		return res, nil
	}, typ: constType(tArray(tUInt32))})
	reg("arraySum", &fnDef{min: 1, max: 1, eval: func(c *callCtx, args []Value) (Value, error) {
		a, err := arrArg(c, args, 0)
		if err != nil {
			return nil, err
		}
		rows := make([][]Value, len(a))
		for i, v := range a {
			if !isNumeric(v) {
				return nil, illegalArg(c, 0, args[0])
			}
			rows[i] = []Value{v}
		}
		if len(rows) == 0 {
			t, err := c.ev.sc.typeOf(c.f.Args[0], c.ev.typeEnv())
			if err != nil {
				return nil, err
			}
			if t == nil || t.Name != "Array" {
				return nil, unsupported("arraySum of an empty array of unknown type")
			}
			return sumValues(nil, t.Args[0])
		}
		return sumValues(rows, nil)
	}, typ: func(t *typeCall) (*Type, error) {
		a := t.args[0]
		if a == nil || a.Name != "Array" {
			return nil, nil
		}
		return sumType(a.Args[0]), nil
	}})
	minMax := func(isMax bool) *fnDef {
		return &fnDef{min: 1, max: 1, eval: func(c *callCtx, args []Value) (Value, error) {
			a, err := arrArg(c, args, 0)
			if err != nil {
				return nil, err
			}
			if len(a) == 0 {
				return c.elemDefault(0, nil, false)
			}
			best := a[0]
			for _, v := range a[1:] {
				cmp, un, err := compareValues(v, best)
				if err != nil {
					return nil, err
				}
				if !un && (isMax && cmp > 0 || !isMax && cmp < 0) {
					best = v
				}
			}
			return best, nil
		}, typ: func(t *typeCall) (*Type, error) {
			a := t.args[0]
			if a == nil || a.Name != "Array" || a.Args[0].Name == "Nothing" {
				return nil, nil
			}
			return a.Args[0], nil
		}}
	}
	reg("arrayMin", minMax(false))
	reg("arrayMax", minMax(true))
	reg("arrayReduce", &fnDef{min: 2, max: -1, eval: func(c *callCtx, args []Value) (Value, error) {
		name, err := strArg(c, args, 0)
		if err != nil {
			return nil, err
		}
		spec, ok := parseAggName(name)
		if !ok {
			return nil, raise("UNKNOWN_AGGREGATE_FUNCTION", "unknown aggregate function %s in arrayReduce", name)
		}
		var rows [][]Value
		n := -1
		for i := 1; i < len(args); i++ {
			a, err := arrArg(c, args, i)
			if err != nil {
				return nil, err
			}
			if n >= 0 && len(a) != n {
				return nil, raise("SIZES_OF_ARRAYS_DONT_MATCH", "arrays passed to arrayReduce must have equal size")
			}
			n = len(a)
			if rows == nil {
				rows = make([][]Value, n)
			}
			for k, v := range a {
				rows[k] = append(rows[k], v)
			}
		}
		types := make([]*Type, len(args)-1)
		for i := 1; i < len(args); i++ {
			t, err := c.ev.sc.typeOf(c.f.Args[i], c.ev.typeEnv())
			if err != nil {
				return nil, err
			}
			if t != nil && t.Name == "Array" && t.Args[0].Name != "Nothing" {
				types[i-1] = t.Args[0]
			} else if n > 0 {
				types[i-1] = typeOfValue(rows[0][i-1])
			}
		}
		return aggApply(c.db, &Func{Name: name}, spec, nil, rows, types)
	}, typ: func(t *typeCall) (*Type, error) {
		l, ok := stripAlias(t.f.Args[0]).(*Literal)
		if !ok {
			return nil, nil
		}
		name, _ := l.Val.(string)
		spec, ok := parseAggName(name)
		if !ok || len(spec.combs) > 0 {
			return nil, nil
		}
		var ts []*Type
		for _, a := range t.args[1:] {
			if a == nil || a.Name != "Array" {
				return nil, nil
			}
			ts = append(ts, a.Args[0])
		}
		return aggResultType(normAggBase(spec.base), ts), nil
	}})
	reg("has", &fnDef{min: 2, max: 2, nulls: true, eval: func(c *callCtx, args []Value) (Value, error) {
		if isNull(args[0]) {
			return Null{}, nil
		}
		a, err := arrArg(c, args, 0)
		if err != nil {
			return nil, err
		}
		for _, v := range a {
			if isNull(v) || isNull(args[1]) {
				if isNull(v) && isNull(args[1]) {
					return uint8(1), nil
				}
				continue
			}
			eq, err := valuesEqual(v, args[1])
			if err != nil {
				return nil, err
			}
			if eq {
				return uint8(1), nil
			}
		}
		return uint8(0), nil
	}, typ: constType(tUInt8)})
	reg("indexOf", &fnDef{min: 2, max: 2, eval: func(c *callCtx, args []Value) (Value, error) {
		a, err := arrArg(c, args, 0)
		if err != nil {
			return nil, err
		}
		for i, v := range a {
			if isNull(v) {
				continue
			}
			eq, err := valuesEqual(v, args[1])
			if err != nil {
				return nil, err
			}
			if eq {
				return uint64(i + 1), nil
			}
		}
		return uint64(0), nil
	}, typ: constType(tUInt64)})
	reg("range", &fnDef{min: 1, max: 3, eval: func(c *callCtx, args []Value) (Value, error) {
		var start, end, step int64 = 0, 0, 1
		var err error
		for i := range args {
			if !isInteger(args[i]) {
				return nil, illegalArg(c, i, args[i])
			}
		}
		switch len(args) {
		case 1:
			end, err = intArg(c, args, 0)
		default:
			if start, err = intArg(c, args, 0); err == nil {
				end, err = intArg(c, args, 1)
			}
			if err == nil && len(args) == 3 {
				step, err = intArg(c, args, 2)
			}
		}
		if err != nil {
			return nil, err
		}
		if step <= 0 {
			return nil, raise("ARGUMENT_OUT_OF_BOUND", "a call to function range overflows, the 3rd argument step can't be less or equal to zero")
		}
		if end-start > 1000000 {
			return nil, unsupported("range() of more than 10^6 elements")
		}
		// element type: supertype of the argument types
		st := typeOfValue(args[0])
		for _, a := range args[1:] {
			if n := superType(st, typeOfValue(a)); n != nil {
				st = n
			}
		}
		res := Array{}
		for v := start; v < end; v += step {
			cv, err := castValue(v, st)
			if err != nil {
				return nil, err
			}
			res = append(res, cv)
		}
		return res, nil
	}, typ: func(t *typeCall) (*Type, error) {
		st := t.args[0]
		for _, a := range t.args[1:] {
			if st == nil || a == nil {
				return nil, nil
			}
			st = superType(st, a)
		}
		if st == nil {
			return nil, nil
		}
		return tArray(st), nil
	}})
}
