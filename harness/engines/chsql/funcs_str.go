package chsql

import (
	"encoding/hex"
	"strings"
	"unicode/utf8"
)

func strArg(c *callCtx, args []Value, i int) (string, error) {
	s, ok := args[i].(string)
	if !ok {
		return "", illegalArg(c, i, args[i])
	}
	return s, nil
}

func intArg(c *callCtx, args []Value, i int) (int64, error) {
	b, ok := bitsOf(args[i])
	if !ok {
		return 0, illegalArg(c, i, args[i])
	}
	if u, isU := args[i].(uint64); isU && u > 1<<62 {
		return 0, unsupported("integer argument too large")
	}
	return int64(b), nil
}

func boolVal(b bool) Value {
	if b {
		return uint8(1)
	}
	return uint8(0)
}

func strTyp(n int, res *Type) func(t *typeCall) (*Type, error) {
	return func(t *typeCall) (*Type, error) {
		for i := 0; i < n && i < len(t.args); i++ {
			if a := t.args[i]; a != nil && !isStringType(a) {
				return nil, raise("ILLEGAL_TYPE_OF_ARGUMENT", "illegal type %s of argument %d of function %s", a, i+1, t.f.Name)
			}
		}
		return res, nil
	}
}

func likeFn(neg, fold bool) *fnDef {
	return &fnDef{min: 2, max: 2, eval: func(c *callCtx, args []Value) (Value, error) {
		s, err := strArg(c, args, 0)
		if err != nil {
			return nil, err
		}
		p, err := strArg(c, args, 1)
		if err != nil {
			return nil, err
		}
		toks, err := compileLike(p) // rule A2
		if err != nil {
			return nil, err
		}
		m, err := likeMatch(toks, s, fold)
		if err != nil {
			return nil, err
		}
		return boolVal(m != neg), nil
	}, typ: strTyp(2, tUInt8)}
}

func init() {
	reg("like", likeFn(false, false))
	reg("notLike", likeFn(true, false))
	reg("ilike", likeFn(false, true))
	reg("notILike", likeFn(true, true))

	// rule A3: match(s, p) — RE2, unanchored (partial match)
	reg("match", &fnDef{min: 2, max: 2, eval: func(c *callCtx, args []Value) (Value, error) {
		s, err := strArg(c, args, 0)
		if err != nil {
			return nil, err
		}
		p, err := strArg(c, args, 1)
		if err != nil {
			return nil, err
		}
		re, err := compileRE(p)
		if err != nil {
			return nil, err
		}
		return boolVal(re.MatchString(s)), nil
	}, typ: strTyp(2, tUInt8)})

	reg("lower", &fnDef{min: 1, max: 1, eval: func(c *callCtx, args []Value) (Value, error) {
		s, err := strArg(c, args, 0)
		if err != nil {
			return nil, err
		}
		// ASCII only, like ClickHouse's lower()
		b := []byte(s)
		for i, ch := range b {
			if ch >= 'A' && ch <= 'Z' {
				b[i] = ch + 'a' - 'A'
			}
		}
		return string(b), nil
	}, typ: strTyp(1, tString)})
	reg("upper", &fnDef{min: 1, max: 1, eval: func(c *callCtx, args []Value) (Value, error) {
		s, err := strArg(c, args, 0)
		if err != nil {
			return nil, err
		}
		b := []byte(s)
		for i, ch := range b {
			if ch >= 'a' && ch <= 'z' {
				b[i] = ch - ('a' - 'A')
			}
		}
		return string(b), nil
	}, typ: strTyp(1, tString)})
	reg("length", &fnDef{min: 1, max: 1, eval: func(c *callCtx, args []Value) (Value, error) {
		switch x := args[0].(type) {
		case string:
			return uint64(len(x)), nil // bytes
		case Array:
			return uint64(len(x)), nil
		case *Map:
			return uint64(len(x.Keys)), nil
		}
		return nil, illegalArg(c, 0, args[0])
	}, typ: func(t *typeCall) (*Type, error) {
		if a := t.args[0]; a != nil && !isStringType(a) && a.Name != "Array" && a.Name != "Map" {
			return nil, raise("ILLEGAL_TYPE_OF_ARGUMENT", "illegal type %s of argument of function length", a)
		}
		return tUInt64, nil
	}})
	reg("lengthUTF8", &fnDef{min: 1, max: 1, eval: func(c *callCtx, args []Value) (Value, error) {
		s, err := strArg(c, args, 0)
		if err != nil {
			return nil, err
		}
		// ClickHouse counts bytes that are not continuation bytes
		n := uint64(0)
		for i := 0; i < len(s); i++ {
			if s[i]&0xc0 != 0x80 {
				n++
			}
		}
		return n, nil
	}, typ: strTyp(1, tUInt64)})
	emptyFn := func(neg bool) *fnDef {
		return &fnDef{min: 1, max: 1, eval: func(c *callCtx, args []Value) (Value, error) {
			var e bool
			switch x := args[0].(type) {
			case string:
				e = len(x) == 0
			case Array:
				e = len(x) == 0
			case *Map:
				e = len(x.Keys) == 0
			default:
				return nil, illegalArg(c, 0, args[0])
			}
			return boolVal(e != neg), nil
		}, typ: constType(tUInt8)}
	}
	reg("empty", emptyFn(false))
	reg("notEmpty", emptyFn(true))

	reg("concat", &fnDef{min: 1, max: -1, eval: func(c *callCtx, args []Value) (Value, error) {
		var sb strings.Builder
		for i := range args {
			s, err := strArg(c, args, i)
			if err != nil {
				return nil, err
			}
			sb.WriteString(s)
		}
		return sb.String(), nil
	}, typ: func(t *typeCall) (*Type, error) { return strTyp(len(t.args), tString)(t) }})

	// substring(s, offset[, length]): 1-based byte offset; negative offset counts from the end
	reg("substring", &fnDef{min: 2, max: 3, eval: func(c *callCtx, args []Value) (Value, error) {
		s, err := strArg(c, args, 0)
		if err != nil {
			return nil, err
		}
		off, err := intArg(c, args, 1)
		if err != nil {
			return nil, err
		}
		if off == 0 {
			return nil, unsupported("substring with offset 0 (version-dependent)")
		}
		start := int64(0)
		if off > 0 {
			start = off - 1
		} else {
			start = int64(len(s)) + off
			if start < 0 {
				start = 0
			}
		}
		if start >= int64(len(s)) {
			return "", nil
		}
		end := int64(len(s))
		if len(args) == 3 {
			l, err := intArg(c, args, 2)
			if err != nil {
				return nil, err
			}
			if l < 0 {
				end = int64(len(s)) + l
			} else if start+l < end {
				end = start + l
			}
		}
		if end <= start {
			return "", nil
		}
		return s[start:end], nil
	}, typ: strTyp(1, tString)})
	funcs["substr"] = funcs["substring"]
	funcs["mid"] = funcs["substring"]

	// format('{} {1}', args…) — all arguments must be strings... ClickHouse ≥ 23 accepts any type for
	// the arguments (converted like toString); the pattern must be constant.
	reg("format", &fnDef{min: 1, max: -1, eval: func(c *callCtx, args []Value) (Value, error) {
		pat, err := strArg(c, args, 0)
		if err != nil {
			return nil, err
		}
		strs := make([]string, len(args)-1)
		for i, a := range args[1:] {
			s, ok := a.(string)
			if !ok {
				switch a.(type) {
				case Array, Tuple, *Map:
					return nil, illegalArg(c, i+1, a)
				}
				s = formatValue(a, false)
			}
			strs[i] = s
		}
		var sb strings.Builder
		next := 0
		mode := 0 // 0 undecided, 1 automatic {}, 2 indexed {n}
		for i := 0; i < len(pat); i++ {
			ch := pat[i]
			switch ch {
			case '{':
				if i+1 < len(pat) && pat[i+1] == '{' {
					sb.WriteByte('{')
					i++
					continue
				}
				j := strings.IndexByte(pat[i:], '}')
				if j < 0 {
					return nil, raise("BAD_ARGUMENTS", "invalid format pattern %q: unbalanced braces", pat)
				}
				inner := pat[i+1 : i+j]
				idx := 0
				if inner == "" {
					if mode == 2 {
						return nil, raise("BAD_ARGUMENTS", "cannot switch from automatic field numbering to manual field specification")
					}
					mode = 1
					idx = next
					next++
				} else {
					if mode == 1 {
						return nil, raise("BAD_ARGUMENTS", "cannot switch from automatic field numbering to manual field specification")
					}
					mode = 2
					for _, d := range inner {
						if d < '0' || d > '9' {
							return nil, raise("BAD_ARGUMENTS", "invalid format pattern %q", pat)
						}
						idx = idx*10 + int(d-'0')
					}
				}
				if idx >= len(strs) {
					return nil, raise("BAD_ARGUMENTS", "argument is too big for formatting: index %d, arguments %d", idx, len(strs))
				}
				sb.WriteString(strs[idx])
				i += j
			case '}':
				if i+1 < len(pat) && pat[i+1] == '}' {
					sb.WriteByte('}')
					i++
					continue
				}
				return nil, raise("BAD_ARGUMENTS", "invalid format pattern %q: unbalanced braces", pat)
			default:
				sb.WriteByte(ch)
			}
		}
		return sb.String(), nil
	}, typ: constType(tString)})

	reg("position", &fnDef{min: 2, max: 2, eval: func(c *callCtx, args []Value) (Value, error) {
		s, err := strArg(c, args, 0)
		if err != nil {
			return nil, err
		}
		n, err := strArg(c, args, 1)
		if err != nil {
			return nil, err
		}
		return uint64(strings.Index(s, n) + 1), nil
	}, typ: strTyp(2, tUInt64)})
	reg("startsWith", &fnDef{min: 2, max: 2, eval: func(c *callCtx, args []Value) (Value, error) {
		s, err := strArg(c, args, 0)
		if err != nil {
			return nil, err
		}
		n, err := strArg(c, args, 1)
		if err != nil {
			return nil, err
		}
		return boolVal(strings.HasPrefix(s, n)), nil
	}, typ: strTyp(2, tUInt8)})
	reg("endsWith", &fnDef{min: 2, max: 2, eval: func(c *callCtx, args []Value) (Value, error) {
		s, err := strArg(c, args, 0)
		if err != nil {
			return nil, err
		}
		n, err := strArg(c, args, 1)
		if err != nil {
			return nil, err
		}
		return boolVal(strings.HasSuffix(s, n)), nil
	}, typ: strTyp(2, tUInt8)})
	repl := func(all bool) *fnDef {
		return &fnDef{min: 3, max: 3, eval: func(c *callCtx, args []Value) (Value, error) {
			s, err := strArg(c, args, 0)
			if err != nil {
				return nil, err
			}
			from, err := strArg(c, args, 1)
			if err != nil {
				return nil, err
			}
			to, err := strArg(c, args, 2)
			if err != nil {
				return nil, err
			}
			if from == "" {
				return s, nil
			}
			if all {
				return strings.ReplaceAll(s, from, to), nil
			}
			return strings.Replace(s, from, to, 1), nil
		}, typ: strTyp(3, tString)}
	}
	reg("replaceOne", repl(false))
	reg("replaceAll", repl(true))
	funcs["replace"] = funcs["replaceAll"]
	replRe := func(all bool) *fnDef {
		return &fnDef{min: 3, max: 3, eval: func(c *callCtx, args []Value) (Value, error) {
			s, err := strArg(c, args, 0)
			if err != nil {
				return nil, err
			}
			p, err := strArg(c, args, 1)
			if err != nil {
				return nil, err
			}
			to, err := strArg(c, args, 2)
			if err != nil {
				return nil, err
			}
			re, err := compileRE(p)
			if err != nil {
				return nil, err
			}
			// replacement syntax: \0 whole match, \1…\9 groups, \\ backslash
			expand := func(m []int) string {
				var sb strings.Builder
				for i := 0; i < len(to); i++ {
					if to[i] == '\\' && i+1 < len(to) {
						n := to[i+1]
						if n >= '0' && n <= '9' {
							g := int(n - '0')
							if 2*g+1 < len(m) && m[2*g] >= 0 {
								sb.WriteString(s[m[2*g]:m[2*g+1]])
							}
							i++
							continue
						}
						if n == '\\' {
							sb.WriteByte('\\')
							i++
							continue
						}
					}
					sb.WriteByte(to[i])
				}
				return sb.String()
			}
			var sb strings.Builder
			last := 0
			ms := re.FindAllStringSubmatchIndex(s, -1)
			if !all && len(ms) > 1 {
				ms = ms[:1]
			}
			for _, m := range ms {
				if m[0] == m[1] && all {
					return nil, unsupported("replaceRegexpAll with an empty match (version-dependent)")
				}
				sb.WriteString(s[last:m[0]])
				sb.WriteString(expand(m))
				last = m[1]
			}
			sb.WriteString(s[last:])
			return sb.String(), nil
		}, typ: strTyp(3, tString)}
	}
	reg("replaceRegexpOne", replRe(false))
	reg("replaceRegexpAll", replRe(true))
	trim := func(l, r bool) *fnDef {
		return &fnDef{min: 1, max: 1, eval: func(c *callCtx, args []Value) (Value, error) {
			s, err := strArg(c, args, 0)
			if err != nil {
				return nil, err
			}
			if l {
				s = strings.TrimLeft(s, " ")
			}
			if r {
				s = strings.TrimRight(s, " ")
			}
			return s, nil
		}, typ: strTyp(1, tString)}
	}
	reg("trimLeft", trim(true, false))
	reg("trimRight", trim(false, true))
	reg("trimBoth", trim(true, true))
	funcs["trim"] = funcs["trimBoth"]
	funcs["ltrim"] = funcs["trimLeft"]
	funcs["rtrim"] = funcs["trimRight"]
	reg("reverse", &fnDef{min: 1, max: 1, eval: func(c *callCtx, args []Value) (Value, error) {
		switch x := args[0].(type) {
		case string:
			b := []byte(x)
			for i, j := 0, len(b)-1; i < j; i, j = i+1, j-1 {
				b[i], b[j] = b[j], b[i]
			}
			return string(b), nil
		case Array:
			res := make(Array, len(x))
			for i, v := range x {
				res[len(x)-1-i] = v
			}
			return res, nil
		}
		return nil, illegalArg(c, 0, args[0])
	}, typ: func(t *typeCall) (*Type, error) { return t.args[0], nil }})

	// hex: strings → uppercase hex of the bytes; unsigned integers → uppercase hex without leading zeros
	reg("hex", &fnDef{min: 1, max: 1, eval: func(c *callCtx, args []Value) (Value, error) {
		switch x := args[0].(type) {
		case string:
			return strings.ToUpper(hex.EncodeToString([]byte(x))), nil
		}
		k, _, _, _, size := numInfo(args[0])
		if k == 'u' || k == 'i' {
			b, _ := bitsOf(args[0])
			if size < 8 {
				b &= (uint64(1) << (uint(size) * 8)) - 1
			}
			if b == 0 {
				return "00", nil
			}
			// whole bytes, most significant first, leading zero bytes dropped
			var sb strings.Builder
			started := false
			for i := 7; i >= 0; i-- {
				by := byte(b >> (uint(i) * 8))
				if by == 0 && !started {
					continue
				}
				started = true
				sb.WriteString(strings.ToUpper(hex.EncodeToString([]byte{by})))
			}
			return sb.String(), nil
		}
		return nil, unsupported("hex of %s", typeOfValue(args[0]))
	}, typ: constType(tString)})
	reg("unhex", &fnDef{min: 1, max: 1, eval: func(c *callCtx, args []Value) (Value, error) {
		s, err := strArg(c, args, 0)
		if err != nil {
			return nil, err
		}
		// ClickHouse: an odd number of digits is left-padded with 0; non-hex characters give
		// implementation-specific garbage — refused.
		for i := 0; i < len(s); i++ {
			if !isHexDigit(s[i]) {
				return nil, unsupported("unhex of a string with non-hexadecimal characters")
			}
		}
		if len(s)%2 == 1 {
			s = "0" + s
		}
		b, _ := hex.DecodeString(s)
		return string(b), nil
	}, typ: strTyp(1, tString)})

	reg("splitByChar", &fnDef{min: 2, max: 3, eval: func(c *callCtx, args []Value) (Value, error) {
		sep, err := strArg(c, args, 0)
		if err != nil {
			return nil, err
		}
		s, err := strArg(c, args, 1)
		if err != nil {
			return nil, err
		}
		if len(sep) != 1 {
			return nil, raise("BAD_ARGUMENTS", "illegal separator for function splitByChar: must be exactly one byte")
		}
		if len(args) == 3 {
			return nil, unsupported("splitByChar with max_substrings")
		}
		parts := strings.Split(s, sep)
		res := make(Array, len(parts))
		for i, p := range parts {
			res[i] = p
		}
		return res, nil
	}, typ: strTyp(2, tArray(tString))})
	reg("splitByString", &fnDef{min: 2, max: 2, eval: func(c *callCtx, args []Value) (Value, error) {
		sep, err := strArg(c, args, 0)
		if err != nil {
			return nil, err
		}
		s, err := strArg(c, args, 1)
		if err != nil {
			return nil, err
		}
		var parts []string
		if sep == "" {
			for i := 0; i < len(s); i++ {
				parts = append(parts, s[i:i+1])
			}
		} else {
			parts = strings.Split(s, sep)
		}
		res := make(Array, len(parts))
		for i, p := range parts {
			res[i] = p
		}
		return res, nil
	}, typ: strTyp(2, tArray(tString))})
	reg("arrayStringConcat", &fnDef{min: 1, max: 2, eval: func(c *callCtx, args []Value) (Value, error) {
		a, ok := args[0].(Array)
		if !ok {
			return nil, illegalArg(c, 0, args[0])
		}
		sep := ""
		if len(args) == 2 {
			var err error
			if sep, err = strArg(c, args, 1); err != nil {
				return nil, err
			}
		}
		parts := make([]string, 0, len(a))
		for _, v := range a {
			s, ok := v.(string)
			if !ok {
				if isNull(v) {
					continue
				}
				return nil, illegalArg(c, 0, args[0])
			}
			parts = append(parts, s)
		}
		return strings.Join(parts, sep), nil
	}, typ: constType(tString)})

	// rule A15: extractAllGroupsHorizontal(s, re) → one array per capture group holding that group's
	// text for every match, in match order; a regexp without groups raises (BAD_ARGUMENTS).
	reg("extractAllGroupsHorizontal", &fnDef{min: 2, max: 2, eval: func(c *callCtx, args []Value) (Value, error) {
		s, err := strArg(c, args, 0)
		if err != nil {
			return nil, err
		}
		p, err := strArg(c, args, 1)
		if err != nil {
			return nil, err
		}
		re, err := compileRE(p)
		if err != nil {
			return nil, err
		}
		ng := re.NumSubexp()
		if ng == 0 {
			return nil, raise("A15", "there are no groups in regexp %q (BAD_ARGUMENTS)", p)
		}
		res := make(Array, ng)
		for g := range res {
			res[g] = Array{}
		}
		for _, m := range re.FindAllStringSubmatchIndex(s, -1) {
			for g := 1; g <= ng; g++ {
				txt := ""
				if m[2*g] >= 0 {
					txt = s[m[2*g]:m[2*g+1]]
				}
				res[g-1] = append(res[g-1].(Array), txt)
			}
		}
		return res, nil
	}, typ: strTyp(2, tArray(tArray(tString)))})
	reg("extractAllGroupsVertical", &fnDef{min: 2, max: 2, eval: func(c *callCtx, args []Value) (Value, error) {
		s, err := strArg(c, args, 0)
		if err != nil {
			return nil, err
		}
		p, err := strArg(c, args, 1)
		if err != nil {
			return nil, err
		}
		re, err := compileRE(p)
		if err != nil {
			return nil, err
		}
		ng := re.NumSubexp()
		if ng == 0 {
			return nil, raise("A15", "there are no groups in regexp %q (BAD_ARGUMENTS)", p)
		}
		res := Array{}
		for _, m := range re.FindAllStringSubmatchIndex(s, -1) {
			row := make(Array, ng)
			for g := 1; g <= ng; g++ {
				txt := ""
				if m[2*g] >= 0 {
					txt = s[m[2*g]:m[2*g+1]]
				}
				row[g-1] = txt
			}
			res = append(res, row)
		}
		return res, nil
	}, typ: strTyp(2, tArray(tArray(tString)))})
	funcs["extractAllGroups"] = funcs["extractAllGroupsVertical"]
	reg("extract", &fnDef{min: 2, max: 2, eval: func(c *callCtx, args []Value) (Value, error) {
		s, err := strArg(c, args, 0)
		if err != nil {
			return nil, err
		}
		p, err := strArg(c, args, 1)
		if err != nil {
			return nil, err
		}
		re, err := compileRE(p)
		if err != nil {
			return nil, err
		}
		m := re.FindStringSubmatchIndex(s)
		if m == nil {
			return "", nil
		}
		// the first capture group if the regexp has one, else the whole match
		if re.NumSubexp() >= 1 {
			if m[2] < 0 {
				return "", nil
			}
			return s[m[2]:m[3]], nil
		}
		return s[m[0]:m[1]], nil
	}, typ: strTyp(2, tString)})
	reg("isValidUTF8", &fnDef{min: 1, max: 1, eval: func(c *callCtx, args []Value) (Value, error) {
		s, err := strArg(c, args, 0)
		if err != nil {
			return nil, err
		}
		return boolVal(utf8.ValidString(s)), nil
	}, typ: strTyp(1, tUInt8)})
}
