package chsql

import (
	"strings"
)

func mapArg(c *callCtx, args []Value, i int) (*Map, error) {
	m, ok := args[i].(*Map)
	if !ok {
		return nil, illegalArg(c, i, args[i])
	}
	return m, nil
}

func mapOfArg(i int) func(t *typeCall) (*Type, error) {
	return func(t *typeCall) (*Type, error) {
		if a := t.args[i]; a != nil && a.Name != "Map" {
			return nil, raise("ILLEGAL_TYPE_OF_ARGUMENT", "argument %d of function %s must be a map, got %s", i+1, t.f.Name, a)
		}
		return t.args[i], nil
	}
}

// typeCanon is the canonical type text used in hash inputs: Map(K,V) hashes like Array(Tuple(K,V))
// (ClickHouse hashes a Map through its nested array of pairs), FixedString like String.
func hashCanon(sb *strings.Builder, v Value) {
	switch x := v.(type) {
	case *Map:
		hashCanon(sb, mapAsArray(x))
	case Array:
		sb.WriteString("Array[")
		for _, e := range x {
			hashCanon(sb, e)
			sb.WriteByte(',')
		}
		sb.WriteByte(']')
	case Tuple:
		sb.WriteString("Tuple(")
		for _, e := range x {
			hashCanon(sb, e)
			sb.WriteByte(',')
		}
		sb.WriteByte(')')
	case string:
		sb.WriteString("String:")
		writeKey(sb, x)
	case Null:
		sb.WriteString("NULL")
	default:
		sb.WriteString(typeOfValue(v).String())
		sb.WriteByte(':')
		sb.WriteString(formatValue(v, true))
	}
}

// rule A19: cityHash64(args…) is opaque — modelled as FNV-1a/64 over a canonical, type-tagged
// serialisation of the arguments; every (input → output) pair is recorded so that
// DB.HashCollisions can show that the model was injective on the values seen.
func (db *DB) modelHash(args []Value) uint64 {
	var sb strings.Builder
	for _, a := range args {
		hashCanon(&sb, a)
		sb.WriteByte(';')
	}
	in := sb.String()
	h := uint64(14695981039346656037)
	for i := 0; i < len(in); i++ {
		h ^= uint64(in[i])
		h *= 1099511628211
	}
	db.mu.Lock()
	if db.hashes == nil {
		db.hashes = map[uint64]string{}
	}
	if prev, ok := db.hashes[h]; ok {
		if prev != in {
			db.colls = append(db.colls, "cityHash64 model collision: "+prev+" and "+in)
		}
	} else {
		db.hashes[h] = in
	}
	db.mu.Unlock()
	return h
}

func init() {
	reg("cityHash64", &fnDef{min: 1, max: -1, nulls: true, eval: func(c *callCtx, args []Value) (Value, error) {
		for _, a := range args {
			if _, ok := a.(*closure); ok {
				return nil, raise("ILLEGAL_TYPE_OF_ARGUMENT", "lambda passed to cityHash64")
			}
		}
		return c.db.modelHash(args), nil
	}, typ: constType(tUInt64)})

	// rule A16: mapFromArrays(keys, values) requires arrays of equal length.
	reg("mapFromArrays", &fnDef{min: 2, max: 2, eval: func(c *callCtx, args []Value) (Value, error) {
		ks, err := arrArg(c, args, 0)
		if err != nil {
			return nil, err
		}
		var vs Array
		switch v := args[1].(type) {
		case Array:
			vs = v
		case *Map:
			vs = mapAsArray(v)
		default:
			return nil, illegalArg(c, 1, args[1])
		}
		if len(ks) != len(vs) {
			return nil, raise("A16", "mapFromArrays: key and value array lengths differ (%d and %d) (SIZES_OF_ARRAYS_DONT_MATCH)", len(ks), len(vs))
		}
		for _, k := range ks {
			if isNull(k) {
				return nil, raise("BAD_ARGUMENTS", "mapFromArrays: NULL map key")
			}
		}
		return &Map{Keys: append([]Value{}, ks...), Vals: append([]Value{}, vs...)}, nil
	}, typ: func(t *typeCall) (*Type, error) {
		a, b := t.args[0], t.args[1]
		if a == nil || b == nil {
			return nil, nil
		}
		if a.Name != "Array" {
			return nil, raise("ILLEGAL_TYPE_OF_ARGUMENT", "first argument of function mapFromArrays must be an array, got %s", a)
		}
		var vt *Type
		switch b.Name {
		case "Array":
			vt = b.Args[0]
		case "Map":
			vt = tTuple(b.Args[0], b.Args[1])
		default:
			return nil, raise("ILLEGAL_TYPE_OF_ARGUMENT", "second argument of function mapFromArrays must be an array or a map, got %s", b)
		}
		kt := a.Args[0]
		if kt.Name == "Nullable" {
			return nil, raise("BAD_ARGUMENTS", "map keys cannot be Nullable")
		}
		return tMap(kt, vt), nil
	}})
	reg("map", &fnDef{min: 0, max: -1, nulls: true, eval: func(c *callCtx, args []Value) (Value, error) {
		if len(args)%2 != 0 {
			return nil, raise("NUMBER_OF_ARGUMENTS_DOESNT_MATCH", "function map requires an even number of arguments")
		}
		var ks, vs []Value
		for i := 0; i < len(args); i += 2 {
			ks, vs = append(ks, args[i]), append(vs, args[i+1])
		}
		ka, err := unifyArray(ks, "map keys")
		if err != nil {
			return nil, err
		}
		va, err := unifyArray(vs, "map values")
		if err != nil {
			return nil, err
		}
		return &Map{Keys: ka, Vals: va}, nil
	}, typ: func(t *typeCall) (*Type, error) {
		if len(t.args) == 0 {
			return tMap(tNothing, tNothing), nil
		}
		var kt, vt *Type
		for i := 0; i+1 < len(t.args); i += 2 {
			if t.args[i] == nil || t.args[i+1] == nil {
				return nil, nil
			}
			if i == 0 {
				kt, vt = t.args[0], t.args[1]
			} else {
				kt, vt = superType(kt, t.args[i]), superType(vt, t.args[i+1])
				if kt == nil || vt == nil {
					return nil, raise("NO_COMMON_TYPE", "no common type for the arguments of map")
				}
			}
		}
		return tMap(kt, vt), nil
	}})
	reg("mapKeys", &fnDef{min: 1, max: 1, eval: func(c *callCtx, args []Value) (Value, error) {
		m, err := mapArg(c, args, 0)
		if err != nil {
			return nil, err
		}
		return Array(append([]Value{}, m.Keys...)), nil
	}, typ: func(t *typeCall) (*Type, error) {
		a, err := mapOfArg(0)(t)
		if a == nil || err != nil {
			return nil, err
		}
		return tArray(a.Args[0]), nil
	}})
	reg("mapValues", &fnDef{min: 1, max: 1, eval: func(c *callCtx, args []Value) (Value, error) {
		m, err := mapArg(c, args, 0)
		if err != nil {
			return nil, err
		}
		return Array(append([]Value{}, m.Vals...)), nil
	}, typ: func(t *typeCall) (*Type, error) {
		a, err := mapOfArg(0)(t)
		if a == nil || err != nil {
			return nil, err
		}
		return tArray(a.Args[1]), nil
	}})
	reg("mapContains", &fnDef{min: 2, max: 2, eval: func(c *callCtx, args []Value) (Value, error) {
		m, err := mapArg(c, args, 0)
		if err != nil {
			return nil, err
		}
		for _, k := range m.Keys {
			if valueClass(k) != valueClass(args[1]) {
				return nil, illegalArg(c, 1, args[1])
			}
			if eq, err := valuesEqual(k, args[1]); err != nil {
				return nil, err
			} else if eq {
				return uint8(1), nil
			}
		}
		return uint8(0), nil
	}, typ: constType(tUInt8)})
	// rule A16: mapUpdate(a, b): entries of a, with values replaced by b's where the key exists in b,
	// followed by b's entries whose key is not in a — b wins.
	reg("mapUpdate", &fnDef{min: 2, max: 2, eval: func(c *callCtx, args []Value) (Value, error) {
		a, err := mapArg(c, args, 0)
		if err != nil {
			return nil, err
		}
		b, err := mapArg(c, args, 1)
		if err != nil {
			return nil, err
		}
		if len(a.Keys) > 0 && len(b.Keys) > 0 && (valueClass(a.Keys[0]) != valueClass(b.Keys[0]) || valueClass(a.Vals[0]) != valueClass(b.Vals[0])) {
			return nil, raise("ILLEGAL_TYPE_OF_ARGUMENT", "the two maps passed to mapUpdate must have the same type")
		}
		bIdx := map[string]int{}
		for i, k := range b.Keys {
			bIdx[keyOf(k)] = i // the last duplicate wins within b
		}
		res := &Map{}
		seen := map[string]bool{}
		for i, k := range a.Keys {
			ks := keyOf(k)
			if seen[ks] {
				continue // duplicate keys inside a collapse
			}
			seen[ks] = true
			v := a.Vals[i]
			if bi, ok := bIdx[ks]; ok {
				v = b.Vals[bi]
			}
			res.Keys, res.Vals = append(res.Keys, k), append(res.Vals, v)
		}
		for i, k := range b.Keys {
			ks := keyOf(k)
			if seen[ks] {
				continue
			}
			seen[ks] = true
			res.Keys, res.Vals = append(res.Keys, k), append(res.Vals, b.Vals[bIdx[ks]])
			_ = i
		}
		return res, nil
	}, typ: func(t *typeCall) (*Type, error) {
		a, b := t.args[0], t.args[1]
		if a == nil || b == nil {
			if a != nil {
				return mapOfArg(0)(t)
			}
			return nil, nil
		}
		if a.Name != "Map" || b.Name != "Map" {
			return nil, raise("ILLEGAL_TYPE_OF_ARGUMENT", "arguments of function mapUpdate must be maps, got %s and %s", a, b)
		}
		if st := superType(a, b); st != nil && (typesEqual(a, b) || a.Args[0].Name == "Nothing" || b.Args[0].Name == "Nothing") {
			return st, nil
		}
		return nil, raise("ILLEGAL_TYPE_OF_ARGUMENT", "the two maps passed to mapUpdate must have the same type, got %s and %s", a, b)
	}})
	// mapFilter((k, v) -> cond, m)
	reg("mapFilter", &fnDef{min: 2, max: 2, nulls: true, eval: func(c *callCtx, args []Value) (Value, error) {
		cl, ok := args[0].(*closure)
		if !ok {
			return nil, raise("ILLEGAL_TYPE_OF_ARGUMENT", "first argument of function mapFilter must be a lambda")
		}
		if isNull(args[1]) {
			return Null{}, nil
		}
		m, err := mapArg(c, args, 1)
		if err != nil {
			return nil, err
		}
		if len(cl.lam.Params) != 2 {
			return nil, raise("NUMBER_OF_ARGUMENTS_DOESNT_MATCH", "lambda of mapFilter must take two arguments (key, value)")
		}
		res := &Map{}
		for i := range m.Keys {
			v, err := cl.call(m.Keys[i], m.Vals[i])
			if err != nil {
				return nil, err
			}
			keep, err := lambdaTruth(c, v)
			if err != nil {
				return nil, err
			}
			if keep {
				res.Keys, res.Vals = append(res.Keys, m.Keys[i]), append(res.Vals, m.Vals[i])
			}
		}
		return res, nil
	}, typ: func(t *typeCall) (*Type, error) { return mapOfArg(1)(t) }})
	reg("mapApply", &fnDef{min: 2, max: 2, nulls: true, eval: func(c *callCtx, args []Value) (Value, error) {
		cl, ok := args[0].(*closure)
		if !ok {
			return nil, raise("ILLEGAL_TYPE_OF_ARGUMENT", "first argument of function mapApply must be a lambda")
		}
		m, err := mapArg(c, args, 1)
		if err != nil {
			return nil, err
		}
		res := &Map{}
		for i := range m.Keys {
			v, err := cl.call(m.Keys[i], m.Vals[i])
			if err != nil {
				return nil, err
			}
			t, ok := v.(Tuple)
			if !ok || len(t) != 2 {
				return nil, raise("ILLEGAL_TYPE_OF_ARGUMENT", "lambda of mapApply must return a (key, value) tuple")
			}
			res.Keys, res.Vals = append(res.Keys, t[0]), append(res.Vals, t[1])
		}
		return res, nil
	}, typ: func(t *typeCall) (*Type, error) {
		if r := t.lambdaRet; r != nil && r.Name == "Tuple" && len(r.Args) == 2 {
			return tMap(r.Args[0], r.Args[1]), nil
		}
		return nil, nil
	}})
}
