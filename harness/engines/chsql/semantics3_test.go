package chsql

import (
	"reflect"
	"testing"
)

var tMetrics = mkTable("metrics_15s",
	"fingerprint UInt64, timestamp_ns Int64, last AggregateFunction(argMax, Float64, Int64), max SimpleAggregateFunction(max, Float64), min SimpleAggregateFunction(min, Float64), count AggregateFunction(count), sum SimpleAggregateFunction(sum, Float64), bytes SimpleAggregateFunction(sum, Float64), type UInt8",
	// two stored parts for (1, 0): as if not yet merged
	R(1, 0, R(1.0, 5), 3.0, 1.0, 2, 4.0, 10.0, 1),
	R(1, 0, R(9.0, 14), 9.0, 9.0, 1, 9.0, 3.0, 1),
	R(1, 15, R(2.0, 20), 2.0, 2.0, 4, 8.0, 7.0, 1),
	R(2, 0, R(7.0, 1), 7.0, 7.0, 1, 7.0, 1.0, 1),
)

func TestSemSetOpsAndIn(t *testing.T) {
	tb := []*Table{tSamples, tSeries, tGin}
	runCases(t, []semCase{
		// ---- A8
		{name: "A8/union-all-keeps-duplicates", sql: `SELECT 1 AS x UNION ALL SELECT 1 AS x UNION ALL SELECT 2 AS x`, want: []string{"1", "1", "2"}},
		{name: "A8/intersect-binds-tighter", sql: `SELECT 1 AS x UNION ALL SELECT 2 AS x INTERSECT SELECT 2 AS x`, want: []string{"1", "2"}},
		{name: "A8/intersect-binds-tighter-left", sql: `SELECT 1 AS x INTERSECT SELECT 2 AS x UNION ALL SELECT 3 AS x`, want: []string{"3"}},
		{name: "A8/parentheses-override", sql: `(SELECT 1 AS x UNION ALL SELECT 2 AS x) INTERSECT SELECT 2 AS x`, want: []string{"2"}},
		{name: "A8/intersect-keeps-left-duplicates", sql: `SELECT x FROM (SELECT arrayJoin([1, 1, 2, 3]) AS x) INTERSECT SELECT arrayJoin([1, 3, 3, 4]) AS x`, want: []string{"1", "1", "3"}},
		{name: "A8/intersect-whole-rows", sql: `SELECT 1 AS a, 'x' AS b INTERSECT SELECT 1 AS a, 'y' AS b`, want: []string{}},
		{name: "A8/except", sql: `SELECT arrayJoin([1, 1, 2, 3]) AS x EXCEPT SELECT 1 AS x`, want: []string{"2", "3"}},
		{name: "A8/union-supertype", sql: `SELECT 1 AS x UNION ALL SELECT 300 AS x UNION ALL SELECT -1 AS x`, want: []string{"1", "300", "-1"}, types: "Int32"},
		{name: "A8/union-column-count", sql: `SELECT 1 UNION ALL SELECT 1, 2`, raise: "UNION_ALL_RESULT_STRUCTURES_MISMATCH"},
		{name: "A8/union-no-common-type", sql: `SELECT 1 UNION ALL SELECT 'a'`, raise: "NO_COMMON_TYPE"},
		{name: "A8/bare-union-rejected", sql: `SELECT 1 UNION SELECT 2`, raise: "EXPECTED_ALL_OR_DISTINCT"},
		{name: "A8/arm-with-own-with", sql: `WITH a AS (SELECT 1 AS x) SELECT x FROM a INTERSECT WITH b AS (SELECT 1 AS x) SELECT x FROM b`, want: []string{"1"}},
		{name: "A8/order-limit-inside-arm", sql: `SELECT x FROM (SELECT arrayJoin([3, 1, 2]) AS x ORDER BY x DESC LIMIT 1 UNION ALL SELECT 9 AS x)`, want: []string{"3", "9"}},
		{name: "A8/intersect-numeric-widths", sql: `SELECT toUInt8(5) AS x INTERSECT SELECT toUInt64(5) AS x`, want: []string{"5"}, types: "UInt64"},

		// ---- A9
		{name: "A9/in-list", tables: tb, sql: `SELECT count() FROM samples_v3 WHERE type IN (1,0)`, want: []string{"4"}},
		{name: "A9/not-in-list", tables: tb, sql: `SELECT count() FROM samples_v3 WHERE type NOT IN (1,0)`, want: []string{"1"}},
		{name: "A9/in-single-literal", tables: tb, sql: `SELECT count() FROM samples_v3 WHERE fingerprint IN (2)`, want: []string{"2"}},
		{name: "A9/in-strings", tables: tb, sql: `SELECT key FROM time_series_gin WHERE key IN ('lvl', 'n') ORDER BY key`, want: []string{"lvl", "n"}},
		{name: "A9/in-subquery", tables: tb, sql: `SELECT count() FROM samples_v3 WHERE fingerprint IN (SELECT fingerprint FROM time_series_gin WHERE key = 'lvl')`, want: []string{"2"}},
		{name: "A9/in-empty-set-false", tables: tb, sql: `SELECT count() FROM samples_v3 WHERE fingerprint IN (SELECT fingerprint FROM time_series_gin WHERE key = 'nope')`, want: []string{"0"}},
		{name: "A9/not-in-empty-set-true", tables: tb, sql: `SELECT count() FROM samples_v3 WHERE fingerprint NOT IN (SELECT fingerprint FROM time_series_gin WHERE key = 'nope')`, want: []string{"5"}},
		{name: "A9/tuple-in-cte", tables: tb,
			sql: `WITH ids AS (SELECT fingerprint, toInt64(2500) AS ts FROM time_series WHERE fingerprint = 1) SELECT value FROM samples_v3 AS s WHERE (s.fingerprint, s.timestamp_ns) IN (ids)`, want: []string{"2"}},
		{name: "A9/tuple-in-subquery", tables: tb,
			sql: `SELECT value FROM samples_v3 WHERE (fingerprint, type) IN (SELECT fingerprint, type FROM time_series WHERE fingerprint = 3)`, want: []string{"5"}},
		{name: "A9/tuple-in-list-of-tuples", sql: `SELECT (1, 'a') IN ((1, 'a'), (2, 'b')), (1, 'b') IN ((1, 'a'), (2, 'b')), (2, 'b') IN ((2, 'b'))`, want: []string{"1|0|1"}},
		{name: "A9/column-count-mismatch", tables: tb, sql: `SELECT count() FROM samples_v3 WHERE fingerprint IN (SELECT fingerprint, type FROM time_series)`, raise: "NUMBER_OF_COLUMNS_DOESNT_MATCH"},
		{name: "A9/global-in", tables: tb, sql: `SELECT count() FROM samples_v3 WHERE fingerprint GLOBAL IN (SELECT fingerprint FROM time_series WHERE type = 2)`, want: []string{"1"}},
		{name: "A9/in-table-name", tables: tb, sql: `SELECT count() FROM samples_v3 WHERE (fingerprint) IN (SELECT fingerprint FROM time_series)`, want: []string{"5"}},
		{name: "A9/in-unknown-table", tables: tb, sql: `SELECT count() FROM samples_v3 WHERE fingerprint IN (no_such_cte)`, raise: "UNKNOWN_TABLE"},
		{name: "A9/in-type-mismatch", tables: tb, sql: `SELECT count() FROM samples_v3 WHERE fingerprint IN (SELECT key FROM time_series_gin)`, raise: "TYPE_MISMATCH"},
		{name: "A9/in-width-mix", sql: `SELECT toUInt64(1) IN (1, 2), toUInt8(1) IN (SELECT toUInt64(1)), -1 IN (18446744073709551615), 256 IN (SELECT toUInt8(0))`, want: []string{"1|1|0|0"}},
		{name: "A9/in-lambda", sql: `SELECT arrayFilter(x -> x.1 IN ('a'), [('a', '1'), ('b', '2')]), mapFilter((k, v) -> k NOT IN ('a'), map('a', '1', 'b', '2'))`, want: []string{"[('a','1')]|{'b':'2'}"}},
		{name: "A9/null-in", sql: `SELECT NULL IN (1, 2), isNull(NULL IN (1))`, want: []string{`\N|1`}},
		{name: "A9/date-in-strings", tables: tb, sql: `SELECT count() FROM time_series WHERE date IN ('2023-11-14')`, want: []string{"2"}},
		{name: "A9/subquery-error-surfaces-on-empty-table", tables: []*Table{mkTable("e", "a UInt8")}, sql: `SELECT a FROM e WHERE a IN (SELECT intDiv(1, 0))`, raise: "A12"},
	})
}

func TestSemAggregates(t *testing.T) {
	tb := []*Table{tSamples, tSeries, tGin, tMetrics}
	empty := []*Table{mkTable("e", "k UInt8, v Float64, s String, n Nullable(Float64), arr Array(String)")}
	runCases(t, []semCase{
		// ---- A10
		{name: "A10/empty-with-group-by-no-row", tables: empty, sql: `SELECT k, count() FROM e GROUP BY k`, want: []string{}},
		{name: "A10/empty-without-group-by-one-row", tables: empty,
			sql:   `SELECT count(), sum(v), sum(k), min(v), max(k), any(s), avg(v), groupArray(s), uniqExact(s), argMax(s, v), groupBitOr(k), min(n), sum(n), quantile(0.5)(v), varPop(v) FROM e`,
			want:  []string{`0|0|0|0|0||nan|[]|0||0|\N|\N|nan|nan`},
			types: "UInt64|Float64|UInt64|Float64|UInt8|String|Float64|Array(String)|UInt64|String|UInt8|Nullable(Float64)|Nullable(Float64)|Float64|Float64"},
		{name: "A10/empty-where-filters-all", tables: tb, sql: `SELECT count(), max(value) FROM samples_v3 WHERE fingerprint = 99`, want: []string{"0|0"}},
		{name: "A10/constant-select-with-aggregate-empty", tables: empty, sql: `SELECT 'x', count() + 1 FROM e`, want: []string{"x|1"}},
		{name: "A10/any-consistent", tables: tb, sql: `SELECT fingerprint, any(type) FROM samples_v3 GROUP BY fingerprint ORDER BY fingerprint`, want: []string{"1|1", "2|1", "3|2"}},
		{name: "A10/any-differing-noted", tables: tb, sql: `SELECT fingerprint, any(value) FROM samples_v3 WHERE fingerprint = 1 GROUP BY fingerprint`, want: []string{"1|1"}, note: "any() over differing values"},
		{name: "A10/group-order-first-appearance", tables: tb, sql: `SELECT string, count() FROM (SELECT arrayJoin(['b', 'a', 'b', 'c', 'a']) AS string) GROUP BY string`, want: []string{"b|2", "a|2", "c|1"}},
		{name: "A10/count-variants", tables: tb, sql: `SELECT count(), count(*), COUNT(), count(fingerprint), count(DISTINCT fingerprint), count(distinct type), uniqExact(fingerprint, type) FROM samples_v3`, want: []string{"5|5|5|5|3|2|3"}},
		{name: "A10/count-skips-null", sql: `SELECT count(x), count(), sum(x), avg(x), max(x) FROM (SELECT arrayJoin([1, NULL, 3]) AS x)`, want: []string{"2|3|4|2|3"}},
		{name: "A10/having", tables: tb, sql: `SELECT fingerprint, sum(value) AS s FROM samples_v3 GROUP BY fingerprint HAVING s > 4 ORDER BY fingerprint`, want: []string{"2|30", "3|5"}},
		{name: "A10/aggregate-in-expression", tables: tb, sql: `SELECT toFloat64(count()) / 10.000000, (fingerprint, sum(value)), sum(value) / 5 FROM samples_v3 GROUP BY fingerprint ORDER BY fingerprint LIMIT 1`, want: []string{"0.2|(1,3)|0.6"}},
		{name: "A10/aggregate-in-order-by", tables: tb, sql: `SELECT fingerprint FROM samples_v3 GROUP BY fingerprint ORDER BY max(samples_v3.timestamp_ns) DESC`, want: []string{"2", "1", "3"}},
		{name: "A10/nested-aggregate-raises", tables: tb, sql: `SELECT sum(max(value)) FROM samples_v3`, raise: "ILLEGAL_AGGREGATION"},
		{name: "A10/aggregate-in-group-by-raises", tables: tb, sql: `SELECT 1 FROM samples_v3 GROUP BY max(value)`, raise: "ILLEGAL_AGGREGATION"},
		{name: "A10/sum-types", tables: tb, sql: `SELECT sum(type), sum(timestamp_ns), sum(value), sum(length(string)) FROM samples_v3`, want: []string{"6|10999|38|29"}, types: "UInt64|Int64|Float64|UInt64"},
		{name: "A10/min-max-strings-arrays", tables: tb, sql: `SELECT min(string), max(string), min([fingerprint, type]), max((type, value)) FROM samples_v3`, want: []string{"a one|e five|[1,1]|(2,5)"}},
		{name: "A10/avg-stddev-var", sql: `SELECT avg(x), varPop(x), stddevPop(x), varSamp(x) FROM (SELECT arrayJoin([2, 4, 4, 4, 5, 5, 7, 9]) AS x)`, want: []string{"5|4|2|4.571428571428571"}},
		{name: "A10/var-of-single", sql: `SELECT varPop(x), stddevPop(x), varSamp(x) FROM (SELECT 3 AS x)`, want: []string{"0|0|nan"}},
		{name: "A10/distinct-select", tables: tb, sql: `SELECT DISTINCT fingerprint, type FROM samples_v3 ORDER BY fingerprint`, want: []string{"1|1", "2|1", "3|2"}},
		{name: "A10/distinct-then-limit", tables: tb, sql: `SELECT DISTINCT type FROM samples_v3 LIMIT 1`, want: []string{"1"}},
		{name: "A10/distinct-order-by-other-column", tables: tb, sql: `SELECT DISTINCT fingerprint FROM samples_v3 ORDER BY timestamp_ns DESC`, want: []string{"3", "2", "1"}},

		// ---- A4 groupBitOr
		{name: "A4/groupBitOr-type", tables: []*Table{tGin}, sql: `SELECT toTypeName(groupBitOr(bitShiftLeft(key = 'app', 0))), toTypeName(groupBitOr(toUInt64(1))), toTypeName(groupBitOr(bitShiftLeft(key = 'app', 0) + bitShiftLeft(key = 'n', 1))) FROM time_series_gin`, want: []string{"UInt8|UInt64|UInt16"}},
		{name: "A4/groupBitOr-stream-select", tables: []*Table{tGin},
			sql:  `SELECT fingerprint FROM time_series_gin WHERE ((key == 'app') and (val == 'x')) or ((key == 'lvl') and (val != 'dbg')) GROUP BY fingerprint HAVING groupBitOr(bitShiftLeft((key == 'app') and (val == 'x'), 0) + bitShiftLeft((key == 'lvl') and (val != 'dbg'), 1)) == 3`,
			want: []string{"1"}},
		{name: "A4/groupBitOr-nine-matchers-cannot-hold",
			// nine UInt8 terms: the ninth (shift by 8) is always 0, so the mask can never reach 511
			tables: []*Table{mkTable("g", "fingerprint UInt64, key String", R(1, "k0"), R(1, "k1"), R(1, "k2"), R(1, "k3"), R(1, "k4"), R(1, "k5"), R(1, "k6"), R(1, "k7"), R(1, "k8"))},
			sql:    `SELECT fingerprint, groupBitOr(bitShiftLeft(key = 'k0', 0) + bitShiftLeft(key = 'k1', 1) + bitShiftLeft(key = 'k2', 2) + bitShiftLeft(key = 'k3', 3) + bitShiftLeft(key = 'k4', 4) + bitShiftLeft(key = 'k5', 5) + bitShiftLeft(key = 'k6', 6) + bitShiftLeft(key = 'k7', 7) + bitShiftLeft(key = 'k8', 8)) AS m, m == 511 FROM g GROUP BY fingerprint`,
			want:   []string{"1|255|0"}},
		{name: "A4/groupBitOr-nine-matchers-widened",
			tables: []*Table{mkTable("g", "fingerprint UInt64, key String", R(1, "k0"), R(1, "k1"), R(1, "k2"), R(1, "k3"), R(1, "k4"), R(1, "k5"), R(1, "k6"), R(1, "k7"), R(1, "k8"))},
			sql:    `SELECT groupBitOr(bitShiftLeft(toUInt64(key = 'k0'), 0) + bitShiftLeft(toUInt64(key = 'k1'), 1) + bitShiftLeft(toUInt64(key = 'k2'), 2) + bitShiftLeft(toUInt64(key = 'k3'), 3) + bitShiftLeft(toUInt64(key = 'k4'), 4) + bitShiftLeft(toUInt64(key = 'k5'), 5) + bitShiftLeft(toUInt64(key = 'k6'), 6) + bitShiftLeft(toUInt64(key = 'k7'), 7) + bitShiftLeft(toUInt64(key = 'k8'), 8)) AS m FROM g GROUP BY fingerprint`,
			want:   []string{"511"}},
		{name: "A4/groupBitOr-non-integer", tables: tb, sql: `SELECT groupBitOr(value) FROM samples_v3`, raise: "ILLEGAL_TYPE_OF_ARGUMENT"},

		// ---- A11
		{name: "A11/argMin-argMax", tables: tb, sql: `SELECT fingerprint, argMin(value, timestamp_ns), argMax(value, timestamp_ns), argMax(string, value) FROM samples_v3 GROUP BY fingerprint ORDER BY fingerprint`, want: []string{"1|1|2|b two", "2|10|20|d four", "3|5|5|e five"}},
		{name: "A11/argMax-tie-noted", sql: `SELECT argMax(v, k) FROM (SELECT arrayJoin([(1, 'a'), (1, 'b')]) AS t, t.1 AS k, t.2 AS v)`, want: []string{"a"}, note: "argMin/argMax tie"},

		// ---- -If, parametric, arrays
		{name: "agg/if-combinators", tables: tb, sql: `SELECT countIf(type = 1), sumIf(value, fingerprint = 2), minIf(value, value > 1), maxIf(value, type = 2), avgIf(value, fingerprint = 1), anyIf(string, fingerprint = 3) FROM samples_v3`, want: []string{"4|30|2|5|1.5|e five"}},
		{name: "agg/if-no-match-defaults", tables: tb, sql: `SELECT sumIf(value, type = 9), maxIf(value, type = 9), anyIf(string, type = 9), avgIf(value, type = 9) FROM samples_v3`, want: []string{"0|0||nan"}},
		{name: "agg/anyIf-nullable-null-when-no-match", tables: tb,
			// corpus: anyIf(toFloat64OrNull(val), key == 'n') → NULL when no row has the key; maxIf over NULLs → NULL; NULL >= 3 is not true
			sql:  `SELECT fingerprint, anyIf(toFloat64OrNull(val), key == 'n') AS agg_val, isNull(agg_val) FROM time_series_gin GROUP BY fingerprint ORDER BY fingerprint`,
			want: []string{`1|\N|1`, `2|\N|1`, "3|7|0"}},
		{name: "agg/maxIf-over-nullable", sql: `SELECT maxIf(x, isNotNull(x)) AS m, m >= 3.000000, isNull(m >= 3.000000) FROM (SELECT toFloat64OrNull(arrayJoin(['a', 'b'])) AS x)`, want: []string{`\N|\N|1`}},
		{name: "agg/having-null-filters-out", sql: `SELECT k FROM (SELECT 1 AS k, toFloat64OrNull('x') AS v) GROUP BY k HAVING max(v) >= 3`, want: []string{}},
		{name: "agg/groupArray-param", tables: tb, sql: `SELECT groupArray(2)(value), groupArray(100)(fingerprint), groupUniqArray(100)(fingerprint), groupUniqArray(2)(fingerprint) FROM samples_v3`, want: []string{"[1,2]|[1,1,2,2,3]|[1,2,3]|[1,2]"}},
		{name: "agg/groupArray-tuples", tables: tb, sql: `SELECT groupArray((value, fingerprint)) FROM samples_v3 WHERE type = 2`, want: []string{"[(5,3)]"}},
		{name: "agg/groupUniqArrayArray", sql: `SELECT groupUniqArrayArray(a) FROM (SELECT arrayJoin([[1, 2], [2, 3], [1]]) AS a)`, want: []string{"[1,2,3]"}},
		{name: "agg/parameter-on-plain-function", tables: tb, sql: `SELECT lower(1)('x')`, raise: "FUNCTION_CANNOT_HAVE_PARAMETERS"},
		{name: "agg/topk-shape", tables: tb,
			sql:  `SELECT arraySlice(arraySort(x -> (-x.1, x.2), groupArray((value, fingerprint))), 1, 2) AS slice FROM samples_v3`,
			want: []string{"[(20,2),(10,2)]"}},
		{name: "agg/bottomk-shape", tables: tb, sql: `SELECT arraySlice(arraySort(groupArray((value, fingerprint, string))), 1, 1) FROM samples_v3`, want: []string{"[(1,1,'a one')]"}},

		// ---- A20
		{name: "A20/quantile-interpolates", sql: `SELECT quantile(0.5)(x), quantile(0.9)(x), quantile(0)(x), quantile(1)(x), quantile(x), median(x), quantile(0.25)(x) FROM (SELECT arrayJoin([1, 2, 3, 4]) AS x)`, want: []string{"2.5|3.7|1|4|2.5|2.5|1.75"}},
		{name: "A20/quantile-odd", sql: `SELECT quantile(0.5)(x), quantile(0.9)(x) FROM (SELECT arrayJoin([10.0, 20.0, 30.0]) AS x)`, want: []string{"20|28"}},
		{name: "A20/quantile-single-and-type", sql: `SELECT quantile(0.9)(x) AS q, toTypeName(q) FROM (SELECT 7 AS x)`, want: []string{"7|Float64"}},
		{name: "A20/quantile-unsorted-input", sql: `SELECT quantile(0.5)(x) FROM (SELECT arrayJoin([9, 1, 5]) AS x)`, want: []string{"5"}},
		{name: "A20/quantile-level-out-of-range", sql: `SELECT quantile(1.5)(x) FROM (SELECT 1 AS x)`, raise: "PARAMETER_OUT_OF_BOUND"},
		{name: "A20/quantileExact", sql: `SELECT quantileExact(0.5)(x), toTypeName(quantileExact(0.5)(x)) FROM (SELECT arrayJoin([1, 2, 3, 4]) AS x)`, want: []string{"3|UInt8"}},

		// ---- A21 and the other -Merge forms over modelled states
		{name: "A21/countMerge", tables: tb, sql: `SELECT fingerprint, countMerge(count) FROM metrics_15s GROUP BY fingerprint ORDER BY fingerprint`, want: []string{"1|7", "2|1"}, types: "UInt64|UInt64"},
		{name: "A21/countMerge-per-bucket-rate", tables: tb,
			sql:  `SELECT intDiv(samples.timestamp_ns, 15) * 15 AS timestamp_ns, fingerprint AS fingerprint, toFloat64(countMerge(count)) / 60.000000 AS value FROM metrics_15s AS samples WHERE type IN (1,0) GROUP BY fingerprint, timestamp_ns ORDER BY fingerprint, timestamp_ns`,
			want: []string{"0|1|0.05", "15|1|0.06666666666666667", "0|2|0.016666666666666666"}},
		{name: "A21/argMaxMerge", tables: tb, sql: `SELECT fingerprint, timestamp_ns, argMaxMerge(samples.last) AS value FROM metrics_15s AS samples GROUP BY fingerprint, timestamp_ns ORDER BY fingerprint, timestamp_ns`, want: []string{"1|0|9", "1|15|2", "2|0|7"}, types: "UInt64|Int64|Float64"},
		{name: "A21/argMaxMerge-across-buckets", tables: tb, sql: `SELECT argMaxMerge(last) FROM metrics_15s WHERE fingerprint = 1`, want: []string{"2"}},
		{name: "A21/simple-aggregate-columns", tables: tb, sql: `SELECT fingerprint, max(max), min(min), sum(sum) / countMerge(count), sum(bytes) FROM metrics_15s GROUP BY fingerprint ORDER BY fingerprint`, want: []string{"1|9|1|3|20", "2|7|7|7|1"}},
		{name: "A21/empty-merge", tables: tb, sql: `SELECT countMerge(count), argMaxMerge(last) FROM metrics_15s WHERE fingerprint = 9`, want: []string{"0|0"}},
		{name: "A21/merge-of-non-state", tables: tb, sql: `SELECT countMerge(fingerprint) FROM metrics_15s`, raise: "ILLEGAL_TYPE_OF_ARGUMENT"},
		{name: "A21/merge-wrong-function", tables: tb, sql: `SELECT sumMerge(count) FROM metrics_15s`, raise: "ILLEGAL_TYPE_OF_ARGUMENT"},
		{name: "A21/state-then-merge", tables: tb,
			sql:  `SELECT fingerprint, countMerge(c), argMaxMerge(l), sumMerge(s), minMerge(mn), maxMerge(mx) FROM (SELECT fingerprint, type, countState() AS c, argMaxState(value, timestamp_ns) AS l, sumState(value) AS s, minState(value) AS mn, maxState(value) AS mx FROM samples_v3 GROUP BY fingerprint, type) GROUP BY fingerprint ORDER BY fingerprint`,
			want: []string{"1|2|2|3|1|2", "2|2|20|30|10|20", "3|1|5|5|5|5"}},
		{name: "A21/mergeState-then-finalize", tables: tb,
			sql:  `SELECT fingerprint, finalizeAggregation(v), finalizeAggregation(c) FROM (SELECT fingerprint, argMaxMergeState(samples.last) AS v, countMergeState(count) AS c FROM metrics_15s AS samples GROUP BY fingerprint) ORDER BY fingerprint`,
			want: []string{"1|2|7", "2|7|1"}},
		{name: "A21/mv-definition-matches-model", tables: tb,
			// the materialized view's SELECT over samples_v3 produces exactly the modelled states
			sql:  `SELECT fingerprint, intDiv(samples.timestamp_ns, 2000) * 2000 AS timestamp_ns, argMaxState(value, samples.timestamp_ns) AS last, maxSimpleState(value) AS max, countState() AS count, sumSimpleState(length(string)) AS bytes FROM samples_v3 AS samples GROUP BY fingerprint, timestamp_ns ORDER BY fingerprint, timestamp_ns`,
			want: []string{"1|0|(1,1000)|1|1|5", "1|2000|(2,2500)|2|1|5", "2|0|(10,1500)|10|1|7", "2|2000|(20,3999)|20|1|6", "3|2000|(5,2000)|5|1|6"}},
	})
}

func TestScanEvents(t *testing.T) {
	db := NewDB()
	db.AddTable(tSamples.Clone())
	db.AddTable(tSeries.Clone())
	db.AddTable(tGin.Clone())
	var evs []ScanEvent
	db.OnScan = func(ev ScanEvent) { evs = append(evs, ev) }
	_, err := db.Exec(`WITH fp AS (SELECT fingerprint FROM time_series_gin WHERE key = 'app' AND val = 'x') SELECT s.value, t.name FROM samples_v3 AS s ANY LEFT JOIN time_series AS t ON s.fingerprint = t.fingerprint PREWHERE s.timestamp_ns >= 1000 AND s.timestamp_ns < 2000 WHERE s.fingerprint IN (fp)`)
	if err != nil {
		t.Fatal(err)
	}
	byTable := map[string]ScanEvent{}
	for _, e := range evs {
		if _, dup := byTable[e.Table]; dup {
			t.Fatalf("table %s scanned twice: %+v", e.Table, evs)
		}
		byTable[e.Table] = e
	}
	if e := byTable["samples_v3"]; e.Offered != 5 || !reflect.DeepEqual(e.Admitted, []int{0}) || e.Alias != "s" || e.Where == "" {
		t.Fatalf("samples_v3 scan: %+v", e)
	}
	if e := byTable["time_series_gin"]; e.Offered != 5 || !reflect.DeepEqual(e.Admitted, []int{0}) {
		t.Fatalf("time_series_gin scan: %+v", e)
	}
	// right side of the JOIN: every left row (5 of them, the join runs before WHERE) matched rows 0, 1, 2
	if e := byTable["time_series"]; e.Offered != 3 || !reflect.DeepEqual(e.Admitted, []int{0, 1, 2}) || e.Alias != "t" {
		t.Fatalf("time_series scan: %+v", e)
	}
	// ARRAY JOIN multiplies rows but admitted lists source rows once
	evs = nil
	if _, err := db.Exec(`SELECT x FROM time_series ARRAY JOIN JSONExtractKeysAndValues(labels, 'String') AS x WHERE fingerprint = 1`); err != nil {
		t.Fatal(err)
	}
	if len(evs) != 1 || evs[0].Offered != 3 || !reflect.DeepEqual(evs[0].Admitted, []int{0}) {
		t.Fatalf("array join scan: %+v", evs)
	}
	// no WHERE: everything admitted, Where empty
	evs = nil
	if _, err := db.Exec(`SELECT count() FROM samples_v3`); err != nil {
		t.Fatal(err)
	}
	if len(evs) != 1 || len(evs[0].Admitted) != 5 || evs[0].Where != "" {
		t.Fatalf("full scan: %+v", evs)
	}
	// Clone keeps tables independent
	c := db.Clone()
	c.Tables["samples_v3"].Rows = nil
	if r, _ := db.Exec(`SELECT count() FROM samples_v3`); Format(r.Rows[0][0]) != "5" {
		t.Fatalf("clone aliasing")
	}
}
