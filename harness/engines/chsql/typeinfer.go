package chsql

// Static type inference. It serves three purposes:
//   - the analysis-time errors ClickHouse raises even over empty tables (unknown identifiers and
//     functions, wrong argument counts and types, NOT_AN_AGGREGATE);
//   - the types needed where no value is available: defaults for unmatched JOIN rows (rule A6),
//     aggregates over empty input (rule A10), out-of-range array elements (rule A15);
//   - Result.Cols[i].Type.
// A nil *Type means "unknown"; unknown never turns into a wrong answer: where a type is needed and
// unknown, execution stops with ErrUnsupported.

type typeFrame struct {
	parent *typeFrame
	name   string
	typ    *Type
}

func (f *typeFrame) lookup(name string) (*Type, bool) {
	for c := f; c != nil; c = c.parent {
		if c.name == name {
			return c.typ, true
		}
	}
	return nil, false
}

type typeEnv struct {
	lambda     *typeFrame
	aliasStack []string
	group      bool // group mode outside aggregates: bare columns must be GROUP BY keys
	keyCanon   map[string]int
	inAgg      bool
}

type typeCall struct {
	args      []*Type
	f         *Func
	lambdaRet *Type
	hasLambda bool
}

type typeKey struct {
	e     Expr
	alias string
	group bool
	inAgg bool
}

func (ev *env) typeEnv() *typeEnv {
	te := &typeEnv{aliasStack: ev.aliasStack, inAgg: ev.inAgg}
	if ev.group != nil && !ev.inAgg {
		te.group = true
		te.keyCanon = ev.group.keyCanon
	}
	// lambda parameters: their types come from the bound values
	var names []string
	var vals []Value
	var types []*Type
	for f := ev.lambda; f != nil; f = f.parent {
		names = append(names, f.name)
		vals = append(vals, f.val)
		types = append(types, f.typ)
	}
	for i := len(names) - 1; i >= 0; i-- {
		t := types[i]
		if t == nil {
			t = typeOfValue(vals[i])
		}
		if containsNothing(t) {
			t = nil
		}
		te.lambda = &typeFrame{parent: te.lambda, name: names[i], typ: t}
	}
	return te
}

func containsNothing(t *Type) bool {
	if t == nil {
		return true
	}
	if t.Name == "Nothing" {
		return true
	}
	for _, a := range t.Args {
		if containsNothing(a) {
			return true
		}
	}
	return false
}

func (te *typeEnv) lambdaNames() []string {
	var res []string
	for f := te.lambda; f != nil; f = f.parent {
		res = append(res, f.name)
	}
	return res
}

func (sc *selectCtx) typeOf(e Expr, te *typeEnv) (*Type, error) {
	if te == nil {
		te = &typeEnv{}
	}
	cacheable := te.lambda == nil
	var key typeKey
	if cacheable {
		top := ""
		if n := len(te.aliasStack); n > 0 {
			top = te.aliasStack[n-1]
		}
		key = typeKey{e, top, te.group, te.inAgg}
		if t, ok := sc.typeCache[key]; ok {
			return t, nil
		}
	}
	t, err := sc.typeOf1(e, te)
	if err != nil {
		return nil, err
	}
	if cacheable {
		if sc.typeCache == nil {
			sc.typeCache = map[typeKey]*Type{}
		}
		sc.typeCache[key] = t
	}
	return t, nil
}

func (sc *selectCtx) typeOf1(e Expr, te *typeEnv) (*Type, error) {
	if te.group && !te.inAgg {
		switch e.(type) {
		case *Literal, *Lambda:
		default:
			c, err := sc.canonOf(e, te.lambdaNames(), te.aliasStack)
			if err != nil {
				return nil, err
			}
			if _, ok := te.keyCanon[c]; ok {
				ne := *te
				ne.group = false
				return sc.typeOf(e, &ne)
			}
		}
	}
	switch x := e.(type) {
	case *Literal:
		return typeOfValue(x.Val), nil
	case *colRef:
		if te.group && !te.inAgg {
			return nil, raise("NOT_AN_AGGREGATE", "column %s is not under aggregate function and not in GROUP BY", sc.frame.cols[x.idx].name)
		}
		return sc.frame.cols[x.idx].typ, nil
	case *Aliased:
		ne := *te
		ne.aliasStack = append(append([]string{}, te.aliasStack...), x.Alias)
		return sc.typeOf(x.X, &ne)
	case *Ident:
		lam := func(n string) (Value, bool) {
			_, ok := te.lambda.lookup(n)
			return nil, ok
		}
		r, err := sc.resolveIdent(x, lam, te.aliasStack)
		if err != nil {
			return nil, err
		}
		switch r.kind {
		case idLambda:
			t, _ := te.lambda.lookup(x.Parts[0])
			return t, nil
		case idAlias:
			ne := *te
			ne.aliasStack = append(append([]string{}, te.aliasStack...), r.alias)
			return sc.typeOf(r.expr, &ne)
		}
		if te.group && !te.inAgg {
			return nil, raise("NOT_AN_AGGREGATE", "column %s is not under aggregate function and not in GROUP BY", sc.frame.cols[r.col].name)
		}
		return sc.frame.cols[r.col].typ, nil
	case *Lambda:
		return nil, nil
	case *Subquery:
		v, err := sc.x.scalarSubquery(x, sc)
		if err != nil {
			return nil, err
		}
		if t := sc.x.scalarTypes[x]; t != nil {
			return t, nil
		}
		if isNull(v) {
			return nil, nil
		}
		t := typeOfValue(v)
		if containsNothing(t) {
			return nil, nil
		}
		return t, nil
	case *Interval:
		if _, err := sc.typeOf(x.X, te); err != nil {
			return nil, err
		}
		return &Type{Name: "Interval"}, nil
	case *Star:
		return nil, raise("ILLEGAL_TYPE_OF_ARGUMENT", "asterisk is not allowed here")
	case *Func:
		return sc.typeOfFunc(x, te)
	}
	return nil, unsupported("expression node %T", e)
}

func stripNullable(t *Type) (*Type, bool) {
	if t != nil && t.Name == "Nullable" {
		return t.Args[0], true
	}
	return t, false
}

func (sc *selectCtx) typeOfFunc(f *Func, te *typeEnv) (*Type, error) {
	// aggregates
	if spec, ok := parseAggName(f.Name); ok {
		if te.inAgg {
			return nil, raise("ILLEGAL_AGGREGATION", "aggregate function %s is found inside another aggregate function", f.Name)
		}
		ne := *te
		ne.inAgg, ne.group = true, false
		args := f.Args
		if len(args) == 1 {
			if _, ok := args[0].(*Star); ok && spec.base == "count" {
				args = nil
			}
		}
		ts := make([]*Type, len(args))
		for i, a := range args {
			t, err := sc.typeOf(a, &ne)
			if err != nil {
				return nil, err
			}
			ts[i] = t
		}
		return aggStaticType(f, spec, ts)
	}
	switch f.Name {
	case "arrayJoin":
		if len(f.Args) != 1 {
			return nil, raise("NUMBER_OF_ARGUMENTS_DOESNT_MATCH", "arrayJoin takes one argument")
		}
		t, err := sc.typeOf(f.Args[0], te)
		if err != nil || t == nil {
			return nil, err
		}
		switch t.Name {
		case "Array":
			return t.Args[0], nil
		case "Map":
			return tTuple(t.Args[0], t.Args[1]), nil
		}
		return nil, raise("ILLEGAL_TYPE_OF_ARGUMENT", "argument for function arrayJoin must be Array or Map, got %s", t)
	case "in", "notIn", "globalIn", "globalNotIn":
		if len(f.Args) != 2 {
			return nil, raise("NUMBER_OF_ARGUMENTS_DOESNT_MATCH", "function %s takes two arguments", f.Name)
		}
		lt, err := sc.typeOf(f.Args[0], te)
		if err != nil {
			return nil, err
		}
		// ClickHouse analyses (and builds) the right-hand set whether or not any row reaches the IN
		if err := sc.prepareSet(f.Args[1], lt); err != nil {
			return nil, err
		}
		if lt != nil && lt.Name == "Nullable" {
			return tNullable(tUInt8), nil
		}
		return tUInt8, nil
	case "and", "or":
		if len(f.Args) < 2 {
			return nil, raise("NUMBER_OF_ARGUMENTS_DOESNT_MATCH", "function %s needs at least two arguments", f.Name)
		}
		nullable := false
		for _, a := range f.Args {
			t, err := sc.typeOf(a, te)
			if err != nil {
				return nil, err
			}
			if t == nil {
				continue
			}
			if !logicalArgOK(t) {
				return nil, raise("ILLEGAL_TYPE_OF_ARGUMENT", "illegal type %s of argument of function %s", t, f.Name)
			}
			if t.Name == "Nullable" {
				nullable = true
			}
		}
		if nullable {
			return tNullable(tUInt8), nil
		}
		return tUInt8, nil
	case "if", "multiIf":
		if f.Name == "if" && len(f.Args) != 3 || f.Name == "multiIf" && (len(f.Args) < 3 || len(f.Args)%2 == 0) {
			return nil, raise("NUMBER_OF_ARGUMENTS_DOESNT_MATCH", "invalid number of arguments for function %s", f.Name)
		}
		var st *Type
		known := true
		first := true
		for i, a := range f.Args {
			t, err := sc.typeOf(a, te)
			if err != nil {
				return nil, err
			}
			isCond := i%2 == 0 && i != len(f.Args)-1
			if isCond {
				if t != nil && !logicalArgOK(t) {
					return nil, raise("ILLEGAL_TYPE_OF_ARGUMENT", "illegal type %s of condition argument of function %s", t, f.Name)
				}
				continue
			}
			if t == nil {
				known = false
				continue
			}
			if first {
				st, first = t, false
				continue
			}
			if st = superType(st, t); st == nil {
				return nil, raise("NO_COMMON_TYPE", "there is no supertype for the branches of function %s", f.Name)
			}
		}
		if !known {
			return nil, nil
		}
		return st, nil
	case "CAST":
		if len(f.Args) != 2 {
			return nil, raise("NUMBER_OF_ARGUMENTS_DOESNT_MATCH", "CAST takes two arguments")
		}
		if _, err := sc.typeOf(f.Args[0], te); err != nil {
			return nil, err
		}
		tl, ok := stripAlias(f.Args[1]).(*Literal)
		if !ok {
			return nil, raise("ILLEGAL_COLUMN", "second argument of CAST must be a constant string")
		}
		ts, ok := tl.Val.(string)
		if !ok {
			return nil, raise("ILLEGAL_COLUMN", "second argument of CAST must be a constant string")
		}
		return ParseType(ts)
	}
	def, ok := funcs[f.Name]
	if !ok {
		return nil, unknownFunction(f.Name)
	}
	if f.HasParams {
		return nil, raise("FUNCTION_CANNOT_HAVE_PARAMETERS", "function %s is not parametric", f.Name)
	}
	if len(f.Args) < def.min || def.max >= 0 && len(f.Args) > def.max {
		return nil, raise("NUMBER_OF_ARGUMENTS_DOESNT_MATCH", "number of arguments for function %s doesn't match: passed %d", f.Name, len(f.Args))
	}
	tc := &typeCall{f: f, args: make([]*Type, len(f.Args))}
	var lam *Lambda
	for i, a := range f.Args {
		if l, ok := stripAlias(a).(*Lambda); ok {
			if i != 0 {
				return nil, raise("ILLEGAL_TYPE_OF_ARGUMENT", "lambda is allowed only as the first argument of function %s", f.Name)
			}
			lam = l
			tc.hasLambda = true
			continue
		}
		t, err := sc.typeOf(a, te)
		if err != nil {
			return nil, err
		}
		tc.args[i] = t
	}
	if lam != nil {
		ptypes, err := lambdaParamTypes(f, lam, tc.args)
		if err != nil {
			return nil, err
		}
		ne := *te
		for i, p := range lam.Params {
			pt := ptypes[i]
			if containsNothing(pt) {
				pt = nil
			}
			ne.lambda = &typeFrame{parent: ne.lambda, name: p, typ: pt}
		}
		rt, err := sc.typeOf(lam.Body, &ne)
		if err != nil {
			return nil, err
		}
		tc.lambdaRet = rt
	}
	if def.typ == nil {
		return nil, nil
	}
	nullable := false
	if !def.nulls {
		for i, a := range tc.args {
			if in, isN := stripNullable(a); isN {
				nullable = true
				if in.Name == "Nothing" {
					return tNullable(tNothing), nil
				}
				tc.args[i] = in
			}
		}
	}
	rt, err := def.typ(tc)
	if err != nil {
		return nil, err
	}
	if nullable && rt != nil {
		switch rt.Name {
		case "Array", "Map", "Tuple":
		default:
			rt = tNullable(rt)
		}
	}
	return rt, nil
}

// aggStaticType is the static type of an aggregate call given its argument types.
func aggStaticType(f *Func, spec *aggSpec, ts []*Type) (*Type, error) {
	mode := "final"
	orNull := false
	for i := len(spec.combs) - 1; i >= 0; i-- {
		switch spec.combs[i] {
		case "State":
			mode = "state"
		case "Merge":
			mode = "merge"
		case "MergeState":
			mode = "mergestate"
		case "OrNull":
			orNull = true
		case "If":
			if len(ts) == 0 {
				return nil, raise("NUMBER_OF_ARGUMENTS_DOESNT_MATCH", "incorrect number of arguments for aggregate function with -If suffix")
			}
			if ct := ts[len(ts)-1]; ct != nil && !logicalArgOK(ct) {
				return nil, raise("ILLEGAL_TYPE_OF_ARGUMENT", "illegal type %s of last argument for aggregate function with -If suffix", ct)
			}
			ts = ts[:len(ts)-1]
		case "Array":
			nt := make([]*Type, len(ts))
			for i, t := range ts {
				if t == nil {
					continue
				}
				if t.Name != "Array" {
					return nil, raise("ILLEGAL_TYPE_OF_ARGUMENT", "illegal type %s of argument for aggregate function with -Array suffix", t)
				}
				nt[i] = t.Args[0]
			}
			ts = nt
		}
	}
	base := normAggBase(spec.base)
	if f.Distinct && base == "count" {
		base = "uniqExact"
	}
	switch mode {
	case "merge", "mergestate":
		if len(ts) != 1 {
			return nil, raise("NUMBER_OF_ARGUMENTS_DOESNT_MATCH", "aggregate function %s takes one argument (a state)", f.Name)
		}
		st := ts[0]
		if st == nil {
			return nil, nil
		}
		if st.Name != "AggregateFunction" {
			return nil, raise("ILLEGAL_TYPE_OF_ARGUMENT", "illegal type %s of argument for aggregate function with -Merge suffix, must be AggregateFunction(...)", st)
		}
		if normAggBase(st.Func) != base {
			return nil, raise("ILLEGAL_TYPE_OF_ARGUMENT", "argument of %s is a state of %s, not of %s", f.Name, st.Func, spec.base)
		}
		if mode == "mergestate" {
			return st, nil
		}
		return aggResultType(base, st.Args), nil
	case "state":
		for _, t := range ts {
			if t == nil {
				return nil, nil
			}
		}
		inner := make([]*Type, len(ts))
		for i, t := range ts {
			inner[i], _ = stripNullable(t)
		}
		return &Type{Name: "AggregateFunction", Func: spec.base, Args: inner}, nil
	}
	// argument checks that do not depend on rows
	switch base {
	case "count":
		if len(ts) > 1 {
			return nil, raise("NUMBER_OF_ARGUMENTS_DOESNT_MATCH", "aggregate function count requires zero or one argument")
		}
	case "argMin", "argMax":
		if len(ts) != 2 {
			return nil, raise("NUMBER_OF_ARGUMENTS_DOESNT_MATCH", "aggregate function %s requires two arguments", f.Name)
		}
	case "uniq", "uniqExact":
		if len(ts) == 0 {
			return nil, raise("NUMBER_OF_ARGUMENTS_DOESNT_MATCH", "aggregate function %s requires at least one argument", f.Name)
		}
	default:
		if len(ts) != 1 {
			return nil, raise("NUMBER_OF_ARGUMENTS_DOESNT_MATCH", "aggregate function %s requires one argument", f.Name)
		}
	}
	switch base {
	case "sum", "avg", "varPop", "varSamp", "stddevPop", "stddevSamp", "quantile", "quantileExact":
		if t, _ := stripNullable(ts[0]); t != nil && !isNumType(t) && t.Name != "Nothing" {
			return nil, raise("ILLEGAL_TYPE_OF_ARGUMENT", "illegal type %s of argument for aggregate function %s", t, f.Name)
		}
	case "groupBitOr", "groupBitAnd", "groupBitXor":
		if t, _ := stripNullable(ts[0]); t != nil && !isIntType(t) && t.Name != "Nothing" {
			return nil, raise("ILLEGAL_TYPE_OF_ARGUMENT", "the type %s of argument for aggregate function %s is illegal, because it cannot be used in bitwise operations", t, f.Name)
		}
	}
	rt := aggResultType(base, ts)
	if orNull && rt != nil {
		switch rt.Name {
		case "Array", "Map", "Tuple":
		default:
			rt = tNullable(rt)
		}
	}
	return rt, nil
}

// lambdaParamTypes binds the lambda parameters of a higher-order function to the element types of
// its array (or map) arguments.
func lambdaParamTypes(f *Func, lam *Lambda, args []*Type) ([]*Type, error) {
	ptypes := make([]*Type, len(lam.Params))
	switch f.Name {
	case "mapFilter", "mapApply":
		if len(lam.Params) != 2 {
			return nil, raise("NUMBER_OF_ARGUMENTS_DOESNT_MATCH", "lambda of %s must take two arguments (key, value)", f.Name)
		}
		if len(args) > 1 && args[1] != nil {
			if args[1].Name != "Map" {
				return nil, raise("ILLEGAL_TYPE_OF_ARGUMENT", "second argument of function %s must be a map, got %s", f.Name, args[1])
			}
			ptypes[0], ptypes[1] = args[1].Args[0], args[1].Args[1]
		}
	default:
		if len(lam.Params) != len(f.Args)-1 {
			return nil, raise("NUMBER_OF_ARGUMENTS_DOESNT_MATCH", "lambda of %s takes %d arguments but %d arrays were passed", f.Name, len(lam.Params), len(f.Args)-1)
		}
		for i := range lam.Params {
			at := args[i+1]
			if at == nil {
				continue
			}
			if at.Name != "Array" {
				return nil, raise("ILLEGAL_TYPE_OF_ARGUMENT", "argument %d of function %s must be an array, got %s", i+2, f.Name, at)
			}
			ptypes[i] = at.Args[0]
		}
	}
	return ptypes, nil
}
