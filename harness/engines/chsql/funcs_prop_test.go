package chsql

import (
	"bytes"
	"encoding/hex"
	"encoding/json"
	"fmt"
	"math"
	"math/big"
	"math/rand"
	"regexp"
	"sort"
	"strconv"
	"strings"
	"testing"
	"time"
	"unicode/utf8"
)

// Randomised property tests: every scalar function family is compared with a naive, independently
// written re-implementation (big.Int arithmetic, Go's regexp / encoding/json / sort / strings
// packages). Seeds are fixed: the tests are deterministic.

const propN = 400

func evalOne(t *testing.T, db *DB, sql string) Value {
	t.Helper()
	res, err := db.Exec(sql)
	if err != nil {
		t.Fatalf("%s: %v", sql, err)
	}
	if len(res.Rows) != 1 || len(res.Rows[0]) != 1 {
		t.Fatalf("%s: want one value, got %v", sql, res.Rows)
	}
	return res.Rows[0][0]
}

func evalErr(db *DB, sql string) (Value, error) {
	res, err := db.Exec(sql)
	if err != nil {
		return nil, err
	}
	return res.Rows[0][0], nil
}

// sqlString renders s as a ClickHouse string literal exactly as qryn's sql.StringVal does.
func sqlString(s string) string {
	find := []string{"\\", "\000", "\n", "\r", "\b", "\t", "\x1a", "'"}
	repl := []string{"\\\\", "\\0", "\\n", "\\r", "\\b", "\\t", "\\x1a", "\\'"}
	for i, f := range find {
		s = strings.Replace(s, f, repl[i], -1)
	}
	return "'" + s + "'"
}

var intTypes = []string{"UInt8", "UInt16", "UInt32", "UInt64", "Int8", "Int16", "Int32", "Int64"}

func typeBits(n string) (signed bool, bits uint) {
	signed = strings.HasPrefix(n, "Int")
	b, _ := strconv.Atoi(strings.TrimLeft(n, "UInt"))
	return signed, uint(b)
}

func randInt(r *rand.Rand, typ string) *big.Int {
	signed, bits := typeBits(typ)
	lo, hi := new(big.Int), new(big.Int).Lsh(big.NewInt(1), bits)
	if signed {
		lo.Neg(new(big.Int).Lsh(big.NewInt(1), bits-1))
		hi.Lsh(big.NewInt(1), bits-1)
	}
	hi.Sub(hi, big.NewInt(1))
	switch r.Intn(6) {
	case 0:
		return lo
	case 1:
		return hi
	case 2:
		return big.NewInt(int64(r.Intn(5)))
	case 3:
		v := big.NewInt(int64(r.Intn(300)))
		if signed {
			v.Sub(v, big.NewInt(150))
		}
		if v.Cmp(lo) < 0 || v.Cmp(hi) > 0 {
			return big.NewInt(1)
		}
		return v
	}
	span := new(big.Int).Sub(hi, lo)
	span.Add(span, big.NewInt(1))
	v := new(big.Int).Rand(r, span)
	return v.Add(v, lo)
}

func intLit(typ string, v *big.Int) string {
	if v.Sign() < 0 {
		return fmt.Sprintf("to%s(%s)", typ, v.String())
	}
	return fmt.Sprintf("to%s(%s)", typ, v.String())
}

// wrap reduces v into the range of the named integer type (two's complement).
func wrap(v *big.Int, typ string) *big.Int {
	signed, bits := typeBits(typ)
	mod := new(big.Int).Lsh(big.NewInt(1), bits)
	r := new(big.Int).Mod(v, mod) // Mod is Euclidean: 0 <= r < mod
	if signed && r.Cmp(new(big.Int).Lsh(big.NewInt(1), bits-1)) >= 0 {
		r.Sub(r, mod)
	}
	return r
}

func valueToBig(v Value) *big.Int {
	k, u, i, _, _ := numInfo(v)
	switch k {
	case 'u':
		return new(big.Int).SetUint64(u)
	case 'i':
		return big.NewInt(i)
	}
	return nil
}

// naiveArithType re-states the NumberTraits rules independently (bit widths instead of byte sizes).
func naiveArithType(op, a, b string) string {
	sa, ba := typeBits(a)
	sb, bb := typeBits(b)
	mx := ba
	if bb > mx {
		mx = bb
	}
	dbl := func(x uint) uint {
		if x >= 64 {
			return 64
		}
		return 2 * x
	}
	name := func(signed bool, bits uint) string {
		if signed {
			return fmt.Sprintf("Int%d", bits)
		}
		return fmt.Sprintf("UInt%d", bits)
	}
	switch op {
	case "plus", "multiply":
		return name(sa || sb, dbl(mx))
	case "minus":
		return name(true, dbl(mx))
	case "intDiv":
		return name(sa || sb, ba)
	case "modulo":
		if sa {
			return name(true, dbl(bb))
		}
		return name(false, bb)
	case "bitAnd", "bitOr", "bitXor", "bitShiftLeft", "bitShiftRight":
		return name(sa || sb, mx)
	}
	panic(op)
}

func TestPropIntegerArithmetic(t *testing.T) {
	r := rand.New(rand.NewSource(1))
	db := NewDB()
	ops := map[string]string{"plus": "+", "minus": "-", "multiply": "*"}
	for i := 0; i < propN*3; i++ {
		ta, tb := intTypes[r.Intn(8)], intTypes[r.Intn(8)]
		a, b := randInt(r, ta), randInt(r, tb)
		for op, sym := range ops {
			sql := fmt.Sprintf("SELECT %s %s %s", intLit(ta, a), sym, intLit(tb, b))
			got := evalOne(t, db, sql)
			wantT := naiveArithType(op, ta, tb)
			var exact *big.Int
			switch op {
			case "plus":
				exact = new(big.Int).Add(a, b)
			case "minus":
				exact = new(big.Int).Sub(a, b)
			default:
				exact = new(big.Int).Mul(a, b)
			}
			want := wrap(exact, wantT)
			if typeOfValue(got).Name != wantT || valueToBig(got).Cmp(want) != 0 {
				t.Fatalf("%s = %s (%s), want %s (%s)", sql, Format(got), typeOfValue(got), want, wantT)
			}
		}
	}
}

func TestPropIntDivModulo(t *testing.T) {
	r := rand.New(rand.NewSource(2))
	db := NewDB()
	for i := 0; i < propN*4; i++ {
		ta, tb := intTypes[r.Intn(8)], intTypes[r.Intn(8)]
		a, b := randInt(r, ta), randInt(r, tb)
		for _, op := range []string{"intDiv", "modulo"} {
			sql := fmt.Sprintf("SELECT %s(%s, %s)", op, intLit(ta, a), intLit(tb, b))
			got, err := evalErr(db, sql)
			// operands outside the Int64 range in a mixed signed/unsigned division are refused (documented)
			sa, _ := typeBits(ta)
			sb, _ := typeBits(tb)
			big63 := new(big.Int).Lsh(big.NewInt(1), 63)
			if (sa != sb) && (a.Cmp(big63) >= 0 || b.Cmp(big63) >= 0) && b.Sign() != 0 {
				if err == nil {
					continue // small enough after all
				}
				continue
			}
			if b.Sign() == 0 {
				if re, ok := err.(*RaiseError); !ok || re.Rule != "A12" {
					t.Fatalf("%s: want A12 raise, got %v %v", sql, got, err)
				}
				continue
			}
			minI64 := new(big.Int).Neg(big63)
			if a.Cmp(minI64) == 0 && b.Cmp(big.NewInt(-1)) == 0 {
				if err == nil {
					t.Fatalf("%s: want raise for MIN / -1", sql)
				}
				continue
			}
			if err != nil {
				t.Fatalf("%s: %v", sql, err)
			}
			wantT := naiveArithType(op, ta, tb)
			var exact *big.Int
			if op == "intDiv" {
				exact = new(big.Int).Quo(a, b) // truncated toward zero
			} else {
				exact = new(big.Int).Rem(a, b)
			}
			want := wrap(exact, wantT)
			if typeOfValue(got).Name != wantT || valueToBig(got).Cmp(want) != 0 {
				t.Fatalf("%s = %s (%s), want %s (%s)", sql, Format(got), typeOfValue(got), want, wantT)
			}
		}
	}
}

func TestPropBitFunctions(t *testing.T) {
	r := rand.New(rand.NewSource(3))
	db := NewDB()
	for i := 0; i < propN*3; i++ {
		ta, tb := intTypes[r.Intn(4)], intTypes[r.Intn(4)] // unsigned operands
		a, b := randInt(r, ta), randInt(r, tb)
		for _, op := range []string{"bitAnd", "bitOr", "bitXor"} {
			sql := fmt.Sprintf("SELECT %s(%s, %s)", op, intLit(ta, a), intLit(tb, b))
			got := evalOne(t, db, sql)
			var exact *big.Int
			switch op {
			case "bitAnd":
				exact = new(big.Int).And(a, b)
			case "bitOr":
				exact = new(big.Int).Or(a, b)
			default:
				exact = new(big.Int).Xor(a, b)
			}
			wantT := naiveArithType(op, ta, tb)
			if typeOfValue(got).Name != wantT || valueToBig(got).Cmp(wrap(exact, wantT)) != 0 {
				t.Fatalf("%s = %s (%s), want %s (%s)", sql, Format(got), typeOfValue(got), exact, wantT)
			}
		}
		n := r.Intn(70)
		sql := fmt.Sprintf("SELECT bitShiftLeft(%s, %d)", intLit(ta, a), n)
		got := evalOne(t, db, sql)
		wantT := naiveArithType("bitShiftLeft", ta, "UInt8")
		_, bits := typeBits(wantT)
		want := big.NewInt(0)
		if uint(n) < bits {
			want = wrap(new(big.Int).Lsh(a, uint(n)), wantT)
		}
		if typeOfValue(got).Name != wantT || valueToBig(got).Cmp(want) != 0 {
			t.Fatalf("%s = %s (%s), want %s (%s)", sql, Format(got), typeOfValue(got), want, wantT)
		}
		sql = fmt.Sprintf("SELECT bitShiftRight(%s, %d)", intLit(ta, a), n)
		got = evalOne(t, db, sql)
		want = big.NewInt(0)
		if uint(n) < bits {
			want = new(big.Int).Rsh(a, uint(n))
		}
		if valueToBig(got).Cmp(want) != 0 {
			t.Fatalf("%s = %s, want %s", sql, Format(got), want)
		}
	}
}

func TestPropComparisonAcrossTypes(t *testing.T) {
	r := rand.New(rand.NewSource(4))
	db := NewDB()
	mk := func() (string, *big.Float) {
		if r.Intn(4) == 0 {
			cands := []float64{0, -0.5, 1.5, 255, 256, -1, 9007199254740992, 9007199254740993, 1.8446744073709552e19, -9.223372036854775808e18, 1e30, math.Inf(1), math.Inf(-1), 3}
			f := cands[r.Intn(len(cands))]
			lit := strconv.FormatFloat(f, 'g', -1, 64)
			if !strings.ContainsAny(lit, ".eIn") {
				lit += ".0"
			}
			switch {
			case math.IsInf(f, 1):
				lit = "inf"
			case math.IsInf(f, -1):
				lit = "-inf"
			}
			return "toFloat64(" + lit + ")", new(big.Float).SetPrec(200).SetFloat64(f)
		}
		ty := intTypes[r.Intn(8)]
		v := randInt(r, ty)
		return intLit(ty, v), new(big.Float).SetPrec(200).SetInt(v)
	}
	for i := 0; i < propN*4; i++ {
		la, a := mk()
		lb, b := mk()
		c := a.Cmp(b)
		want := map[string]bool{"=": c == 0, "!=": c != 0, "<": c < 0, "<=": c <= 0, ">": c > 0, ">=": c >= 0}
		for op, w := range want {
			sql := fmt.Sprintf("SELECT %s %s %s", la, op, lb)
			got := evalOne(t, db, sql)
			if got != boolVal(w) {
				t.Fatalf("%s = %s, want %v", sql, Format(got), w)
			}
		}
	}
	// NaN: only != is true
	for _, op := range []string{"=", "<", "<=", ">", ">="} {
		if got := evalOne(t, db, "SELECT nan "+op+" 1.0"); got != uint8(0) {
			t.Fatalf("nan %s 1.0 = %v", op, got)
		}
	}
	if got := evalOne(t, db, "SELECT nan != nan"); got != uint8(1) {
		t.Fatalf("nan != nan = %v", got)
	}
}

func randString(r *rand.Rand, alphabet string, maxLen int) string {
	n := r.Intn(maxLen + 1)
	b := make([]byte, n)
	for i := range b {
		b[i] = alphabet[r.Intn(len(alphabet))]
	}
	return string(b)
}

// rule A1 round trip: whatever bytes qryn's StringVal escapes, the literal decodes back to them.
func TestPropStringLiteralRoundTrip(t *testing.T) {
	r := rand.New(rand.NewSource(5))
	db := NewDB()
	alphabet := "ab'\\\"%_\n\r\t\x00\b\x1a \xc3\xa9`/=x0nN"
	for i := 0; i < propN*3; i++ {
		s := randString(r, alphabet, 12)
		got := evalOne(t, db, "SELECT "+sqlString(s))
		if got != s {
			t.Fatalf("literal %s decoded to %q, want %q", sqlString(s), got, s)
		}
		// '' doubling is the other accepted quoting of '
		alt := "'" + strings.NewReplacer("\\", "\\\\", "'", "''").Replace(s) + "'"
		if got := evalOne(t, db, "SELECT "+alt); got != s {
			t.Fatalf("literal %s decoded to %q, want %q", alt, got, s)
		}
	}
}

// naiveLikeRegexp translates a LIKE pattern to a Go regexp (an independent route from likeMatch).
func naiveLikeRegexp(p string, fold bool) (*regexp.Regexp, bool) {
	var sb strings.Builder
	sb.WriteString("(?s)^")
	if fold {
		sb.WriteString("(?i)")
	}
	for i := 0; i < len(p); i++ {
		switch c := p[i]; c {
		case '%':
			sb.WriteString(".*")
		case '_':
			sb.WriteString(".")
		case '\\':
			if i+1 >= len(p) {
				return nil, false
			}
			if n := p[i+1]; n == '%' || n == '_' || n == '\\' {
				i++
				sb.WriteString(regexp.QuoteMeta(string(n)))
			} else {
				sb.WriteString(`\\`) // unknown escape: a literal backslash, the next character stands for itself
			}
		default:
			sb.WriteString(regexp.QuoteMeta(string(c)))
		}
	}
	sb.WriteString("$")
	return regexp.MustCompile(sb.String()), true
}

func TestPropLike(t *testing.T) {
	r := rand.New(rand.NewSource(6))
	db := NewDB()
	for i := 0; i < propN*5; i++ {
		s := randString(r, "ab%_\\.\nA", 6)
		p := randString(r, "ab%_\\.A", 5)
		for _, fn := range []string{"like", "notLike", "ilike", "notILike"} {
			fold := fn == "ilike" || fn == "notILike"
			neg := strings.HasPrefix(fn, "not")
			sql := fmt.Sprintf("SELECT %s(%s, %s)", fn, sqlString(s), sqlString(p))
			got, err := evalErr(db, sql)
			re, ok := naiveLikeRegexp(p, fold)
			if !ok {
				if e, isR := err.(*RaiseError); !isR || e.Rule != "A2" {
					t.Fatalf("%s: pattern with trailing backslash must raise A2, got %v %v", sql, got, err)
				}
				continue
			}
			if err != nil {
				t.Fatalf("%s: %v", sql, err)
			}
			if want := re.MatchString(s) != neg; got != boolVal(want) {
				t.Fatalf("%s = %v, want %v", sql, got, want)
			}
		}
	}
}

func TestPropMatchAndExtract(t *testing.T) {
	r := rand.New(rand.NewSource(7))
	db := NewDB()
	pats := []string{"a", "a+", "^a", "b$", "a|b", "(a)(b)?", "[0-9]+", "(?i)A", ".", "a.b", "\\w+", "(\\d+) (\\w+)", "", "x*", "(", "a{2,1}", "[a", "\\"}
	for i := 0; i < propN*3; i++ {
		s := randString(r, "ab1 \nA", 8)
		p := pats[r.Intn(len(pats))]
		sql := fmt.Sprintf("SELECT match(%s, %s)", sqlString(s), sqlString(p))
		got, err := evalErr(db, sql)
		re, cerr := regexp.Compile("(?s)" + p)
		if cerr != nil {
			if e, ok := err.(*RaiseError); !ok || e.Rule != "A3" {
				t.Fatalf("%s: invalid regexp must raise A3, got %v %v", sql, got, err)
			}
			continue
		}
		if err != nil || got != boolVal(re.MatchString(s)) {
			t.Fatalf("%s = %v %v, want %v", sql, got, err, re.MatchString(s))
		}
		if re.NumSubexp() > 0 {
			got := evalOne(t, db, fmt.Sprintf("SELECT extractAllGroupsHorizontal(%s, %s)", sqlString(s), sqlString(p)))
			want := make(Array, re.NumSubexp())
			for g := range want {
				want[g] = Array{}
			}
			for _, m := range re.FindAllStringSubmatch(s, -1) {
				for g := 1; g < len(m); g++ {
					want[g-1] = append(want[g-1].(Array), m[g])
				}
			}
			if keyOf(got) != keyOf(want) {
				t.Fatalf("extractAllGroupsHorizontal(%q, %q) = %s, want %s", s, p, Format(got), Format(want))
			}
		}
	}
}

var floatGrammar = regexp.MustCompile(`^[+-]?([0-9]+(\.[0-9]*)?|\.[0-9]+)([eE][+-]?[0-9]+)?$`)
var floatSpecial = regexp.MustCompile(`^[+-]?(?i:inf|infinity|nan)$`)

func TestPropToFloat64OrNull(t *testing.T) {
	r := rand.New(rand.NewSource(8))
	db := NewDB()
	fixed := []string{"", "1", "-1", "+1", "1.5", ".5", "5.", ".", "1e3", "1E-3", "1e", "e3", "inf", "-inf", "+inf", "nan", "NaN", "Infinity", "infinit", "0x1", " 1", "1 ", "1_0", "1,5", "--1", "+-1", "1.2.3", "1e3.5", "९"}
	for i := 0; i < propN*4; i++ {
		var s string
		if i < len(fixed) {
			s = fixed[i]
		} else {
			s = randString(r, "0123456789.eE+- infa", 6)
		}
		got := evalOne(t, db, "SELECT toFloat64OrNull("+sqlString(s)+")")
		zero := evalOne(t, db, "SELECT toFloat64OrZero("+sqlString(s)+")")
		switch {
		case floatGrammar.MatchString(s):
			txt := s
			want, err := strconv.ParseFloat(txt, 64)
			if err != nil && !math.IsInf(want, 0) && want != 0 {
				t.Fatalf("naive parse of %q: %v", s, err)
			}
			if got != want || zero != want {
				t.Fatalf("toFloat64OrNull(%q) = %v / OrZero %v, want %v", s, got, zero, want)
			}
		case floatSpecial.MatchString(s):
			f, ok := got.(float64)
			low := strings.ToLower(s)
			if !ok || strings.Contains(low, "nan") != math.IsNaN(f) || strings.Contains(low, "inf") != math.IsInf(f, 0) || (strings.HasPrefix(s, "-") && strings.Contains(low, "inf")) != math.IsInf(f, -1) {
				t.Fatalf("toFloat64OrNull(%q) = %v", s, got)
			}
		default:
			if !isNull(got) || zero != float64(0) {
				t.Fatalf("toFloat64OrNull(%q) = %v / OrZero %v, want NULL / 0", s, got, zero)
			}
		}
	}
}

func TestPropStringFunctions(t *testing.T) {
	r := rand.New(rand.NewSource(9))
	db := NewDB()
	for i := 0; i < propN*2; i++ {
		s := randString(r, "abC:Z \xc3\xa9'\\", 10)
		q := sqlString(s)
		asciiLower := func(s string) string {
			b := []byte(s)
			for i := range b {
				if b[i] >= 'A' && b[i] <= 'Z' {
					b[i] += 32
				}
			}
			return string(b)
		}
		asciiUpper := func(s string) string {
			b := []byte(s)
			for i := range b {
				if b[i] >= 'a' && b[i] <= 'z' {
					b[i] -= 32
				}
			}
			return string(b)
		}
		checks := map[string]Value{
			"lower(" + q + ")":                 asciiLower(s),
			"upper(" + q + ")":                 asciiUpper(s),
			"length(" + q + ")":                uint64(len(s)),
			"lengthUTF8(" + q + ")":            uint64(naiveUTF8Len(s)),
			"hex(" + q + ")":                   strings.ToUpper(hex.EncodeToString([]byte(s))),
			"unhex(hex(" + q + "))":            s,
			"concat(" + q + ", 'x')":           s + "x",
			"empty(" + q + ")":                 boolVal(s == ""),
			"position(" + q + ", ':')":         uint64(strings.Index(s, ":") + 1),
			"startsWith(" + q + ", 'ab')":      boolVal(strings.HasPrefix(s, "ab")),
			"endsWith(" + q + ", 'Z')":         boolVal(strings.HasSuffix(s, "Z")),
			"reverse(reverse(" + q + "))":      s,
			"replaceAll(" + q + ", 'a', 'bb')": strings.ReplaceAll(s, "a", "bb"),
			"replaceOne(" + q + ", 'a', 'bb')": strings.Replace(s, "a", "bb", 1),
			"toString(" + q + ")":              s,
		}
		for e, want := range checks {
			if got := evalOne(t, db, "SELECT "+e); got != want {
				t.Fatalf("%s = %q, want %q", e, got, want)
			}
		}
		// splitByChar vs strings.Split, and element access with the '' default
		got := evalOne(t, db, "SELECT splitByChar(':', "+q+")").(Array)
		want := strings.Split(s, ":")
		if len(got) != len(want) {
			t.Fatalf("splitByChar(%q) = %s", s, Format(got))
		}
		for k := range want {
			if got[k] != want[k] {
				t.Fatalf("splitByChar(%q) = %s", s, Format(got))
			}
		}
		idx := r.Intn(5) + 1
		el := evalOne(t, db, fmt.Sprintf("SELECT splitByChar(':', %s)[%d]", q, idx))
		wantEl := ""
		if idx <= len(want) {
			wantEl = want[idx-1]
		}
		if el != wantEl {
			t.Fatalf("splitByChar(%q)[%d] = %q, want %q", s, idx, el, wantEl)
		}
		// substring
		off, ln := r.Intn(len(s)+3)+1, r.Intn(len(s)+2)
		sub := evalOne(t, db, fmt.Sprintf("SELECT substring(%s, %d, %d)", q, off, ln))
		wantSub := ""
		if off-1 < len(s) {
			end := off - 1 + ln
			if end > len(s) {
				end = len(s)
			}
			wantSub = s[off-1 : end]
		}
		if sub != wantSub {
			t.Fatalf("substring(%q, %d, %d) = %q, want %q", s, off, ln, sub, wantSub)
		}
		// format with automatic numbering
		f := evalOne(t, db, "SELECT format('{}-{}', "+q+", 'z')")
		if f != s+"-z" {
			t.Fatalf("format = %q", f)
		}
	}
}

func naiveUTF8Len(s string) int {
	n := 0
	for i := 0; i < len(s); i++ {
		if s[i] < 0x80 || s[i] >= 0xc0 {
			n++
		}
	}
	return n
}

func randRunes(r *rand.Rand, alphabet []rune, maxLen int) string {
	n := r.Intn(maxLen + 1)
	res := make([]rune, n)
	for i := range res {
		res[i] = alphabet[r.Intn(len(alphabet))]
	}
	return string(res)
}

func randIntSlice(r *rand.Rand, maxLen int) []int {
	n := r.Intn(maxLen + 1)
	res := make([]int, n)
	for i := range res {
		res[i] = r.Intn(7)
	}
	return res
}

func arrLit(a []int) string {
	if len(a) == 0 {
		return "arrayFilter(x -> x > 100, [1])"
	}
	parts := make([]string, len(a))
	for i, v := range a {
		parts[i] = strconv.Itoa(v)
	}
	return "[" + strings.Join(parts, ",") + "]"
}

func arrVal(a []int) string {
	parts := make([]string, len(a))
	for i, v := range a {
		parts[i] = strconv.Itoa(v)
	}
	return "[" + strings.Join(parts, ",") + "]"
}

func TestPropArrayFunctions(t *testing.T) {
	r := rand.New(rand.NewSource(10))
	db := NewDB()
	for i := 0; i < propN*2; i++ {
		a := randIntSlice(r, 7)
		lit := arrLit(a)
		sorted := append([]int{}, a...)
		sort.Ints(sorted)
		rev := make([]int, len(a))
		for k, v := range a {
			rev[len(a)-1-k] = v
		}
		var distinct []int
		seen := map[int]bool{}
		sum := 0
		for _, v := range a {
			sum += v
			if !seen[v] {
				seen[v] = true
				distinct = append(distinct, v)
			}
		}
		desc := append([]int{}, sorted...)
		sort.Sort(sort.Reverse(sort.IntSlice(desc)))
		var odd, doubled []int
		for _, v := range a {
			if v%2 == 1 {
				odd = append(odd, v)
			}
			doubled = append(doubled, v*2)
		}
		x := r.Intn(7)
		indexOf := 0
		for k, v := range a {
			if v == x {
				indexOf = k + 1
				break
			}
		}
		checks := map[string]string{
			"arraySort(" + lit + ")":                            arrVal(sorted),
			"arrayReverseSort(" + lit + ")":                     arrVal(desc),
			"arraySort(x -> -x, " + lit + ")":                   arrVal(desc),
			"arrayReverse(" + lit + ")":                         arrVal(rev),
			"arrayDistinct(" + lit + ")":                        arrVal(distinct),
			"arraySum(" + lit + ")":                             strconv.Itoa(sum),
			"length(" + lit + ")":                               strconv.Itoa(len(a)),
			"arrayFilter(x -> x % 2 = 1, " + lit + ")":          arrVal(odd),
			"arrayMap(x -> x * 2, " + lit + ")":                 arrVal(doubled),
			fmt.Sprintf("has(%s, %d)", lit, x):                  strconv.Itoa(map[bool]int{false: 0, true: 1}[indexOf > 0]),
			fmt.Sprintf("indexOf(%s, %d)", lit, x):              strconv.Itoa(indexOf),
			fmt.Sprintf("arrayExists(v -> v = %d, %s)", x, lit): strconv.Itoa(map[bool]int{false: 0, true: 1}[indexOf > 0]),
			"arrayConcat(" + lit + ", " + lit + ")":             arrVal(append(append([]int{}, a...), a...)),
			"empty(" + lit + ")":                                strconv.Itoa(map[bool]int{false: 0, true: 1}[len(a) == 0]),
		}
		for e, want := range checks {
			if got := Format(evalOne(t, db, "SELECT "+e)); got != want {
				t.Fatalf("%s = %s, want %s", e, got, want)
			}
		}
		// arrayElement with positive / negative / out-of-range index
		idx := r.Intn(17) - 8
		if idx != 0 {
			want := 0
			switch {
			case idx > 0 && idx <= len(a):
				want = a[idx-1]
			case idx < 0 && -idx <= len(a):
				want = a[len(a)+idx]
			}
			if got := Format(evalOne(t, db, fmt.Sprintf("SELECT %s[%d]", lit, idx))); got != strconv.Itoa(want) {
				t.Fatalf("%s[%d] = %s, want %d", lit, idx, got, want)
			}
		}
		// arraySlice(arr, off, len) with positive offset and non-negative length
		off, ln := r.Intn(9)+1, r.Intn(9)
		var sl []int
		if off-1 < len(a) {
			end := off - 1 + ln
			if end > len(a) {
				end = len(a)
			}
			sl = a[off-1 : end]
		}
		if got := Format(evalOne(t, db, fmt.Sprintf("SELECT arraySlice(%s, %d, %d)", lit, off, ln))); got != arrVal(sl) {
			t.Fatalf("arraySlice(%s, %d, %d) = %s, want %s", lit, off, ln, got, arrVal(sl))
		}
		// arrayFirst with default 0
		first := 0
		for _, v := range a {
			if v > 3 {
				first = v
				break
			}
		}
		if got := Format(evalOne(t, db, "SELECT arrayFirst(x -> x > 3, "+lit+")")); got != strconv.Itoa(first) {
			t.Fatalf("arrayFirst(%s) = %s, want %d", lit, got, first)
		}
		// arrayZip + tuple sort = sort of pairs
		b := make([]int, len(a))
		for k := range b {
			b[k] = r.Intn(5)
		}
		type pair struct{ x, y int }
		ps := make([]pair, len(a))
		for k := range a {
			ps[k] = pair{a[k], b[k]}
		}
		sort.SliceStable(ps, func(i, j int) bool {
			if ps[i].x != ps[j].x {
				return ps[i].x < ps[j].x
			}
			return ps[i].y < ps[j].y
		})
		parts := make([]string, len(ps))
		for k, p := range ps {
			parts[k] = fmt.Sprintf("(%d,%d)", p.x, p.y)
		}
		if got := Format(evalOne(t, db, "SELECT arraySort(arrayZip("+lit+", "+arrLit(b)+"))")); got != "["+strings.Join(parts, ",")+"]" {
			t.Fatalf("arraySort(arrayZip(%s, %s)) = %s", lit, arrLit(b), got)
		}
	}
}

type kv struct{ k, v string }

func mapLit(m []kv) string {
	if len(m) == 0 {
		return "mapFromArrays(arrayFilter(x -> x = '#', ['a']), arrayFilter(x -> x = '#', ['a']))"
	}
	ks, vs := make([]string, len(m)), make([]string, len(m))
	for i, e := range m {
		ks[i], vs[i] = sqlString(e.k), sqlString(e.v)
	}
	return "mapFromArrays([" + strings.Join(ks, ",") + "], [" + strings.Join(vs, ",") + "])"
}

func mapFmt(m []kv) string {
	parts := make([]string, len(m))
	for i, e := range m {
		parts[i] = quoteString(e.k) + ":" + quoteString(e.v)
	}
	return "{" + strings.Join(parts, ",") + "}"
}

func randMap(r *rand.Rand) []kv {
	n := r.Intn(4)
	var m []kv
	used := map[string]bool{}
	for len(m) < n {
		k := string("abcde"[r.Intn(5)])
		if used[k] {
			continue
		}
		used[k] = true
		m = append(m, kv{k, randString(r, "xy", 2)})
	}
	return m
}

// rule A16 against naive ordered-map operations.
func TestPropMapFunctions(t *testing.T) {
	r := rand.New(rand.NewSource(11))
	db := NewDB()
	for i := 0; i < propN*2; i++ {
		a, b := randMap(r), randMap(r)
		// mapUpdate: a's entries with b's values, then b's new keys
		var upd []kv
		for _, e := range a {
			v := e.v
			for _, f := range b {
				if f.k == e.k {
					v = f.v
				}
			}
			upd = append(upd, kv{e.k, v})
		}
		for _, f := range b {
			found := false
			for _, e := range a {
				if e.k == f.k {
					found = true
				}
			}
			if !found {
				upd = append(upd, f)
			}
		}
		if got := Format(evalOne(t, db, "SELECT mapUpdate("+mapLit(a)+", "+mapLit(b)+")")); got != mapFmt(upd) {
			t.Fatalf("mapUpdate(%s, %s) = %s, want %s", mapFmt(a), mapFmt(b), got, mapFmt(upd))
		}
		// subscript
		k := string("abcde"[r.Intn(5)])
		want := ""
		for _, e := range a {
			if e.k == k {
				want = e.v
				break
			}
		}
		if got := evalOne(t, db, "SELECT "+mapLit(a)+"["+sqlString(k)+"]"); got != want {
			t.Fatalf("%s[%s] = %q, want %q", mapFmt(a), k, got, want)
		}
		// mapFilter by key list (by / without)
		var in, notIn []kv
		for _, e := range a {
			if e.k == "a" || e.k == "c" {
				in = append(in, e)
			} else {
				notIn = append(notIn, e)
			}
		}
		if got := Format(evalOne(t, db, "SELECT mapFilter((k,v) -> k IN ('a','c'), "+mapLit(a)+")")); got != mapFmt(in) {
			t.Fatalf("mapFilter IN over %s = %s", mapFmt(a), got)
		}
		if got := Format(evalOne(t, db, "SELECT mapFilter((k,v) -> k NOT IN ('a','c'), "+mapLit(a)+")")); got != mapFmt(notIn) {
			t.Fatalf("mapFilter NOT IN over %s = %s", mapFmt(a), got)
		}
		// keys / values round trip
		if got := Format(evalOne(t, db, "SELECT mapFromArrays(mapKeys(m), mapValues(m)) FROM (SELECT "+mapLit(a)+" AS m)")); got != mapFmt(a) {
			t.Fatalf("keys/values round trip of %s = %s", mapFmt(a), got)
		}
		// length mismatch raises A16
		if len(a) > 0 {
			_, err := evalErr(db, "SELECT mapFromArrays(arrayConcat(mapKeys(m), ['extra']), mapValues(m)) FROM (SELECT "+mapLit(a)+" AS m)")
			if e, ok := err.(*RaiseError); !ok || e.Rule != "A16" {
				t.Fatalf("length mismatch: %v", err)
			}
		}
	}
}

func randJSONValue(r *rand.Rand, depth int) any {
	switch n := r.Intn(9); {
	case n == 0:
		return nil
	case n == 1:
		return r.Intn(2) == 0
	case n == 2:
		return json.Number(strconv.Itoa(r.Intn(2000) - 1000))
	case n == 3:
		return json.Number(strconv.FormatFloat(float64(r.Intn(1000))/8, 'f', -1, 64))
	case n <= 5 || depth >= 3:
		return randRunes(r, []rune("ab \"\\/\n\té<&{}[]:,\u2028"), 5)
	case n == 6:
		arr := make([]any, r.Intn(3))
		for i := range arr {
			arr[i] = randJSONValue(r, depth+1)
		}
		return arr
	default:
		return randJSONObject(r, depth+1)
	}
}

type orderedObj struct {
	keys []string
	vals []any
}

func (o orderedObj) MarshalJSON() ([]byte, error) {
	var buf bytes.Buffer
	buf.WriteByte('{')
	for i, k := range o.keys {
		if i > 0 {
			buf.WriteByte(',')
		}
		kb, _ := marshalNoHTML(k)
		buf.Write(kb)
		buf.WriteByte(':')
		vb, err := marshalNoHTML(o.vals[i])
		if err != nil {
			return nil, err
		}
		buf.Write(vb)
	}
	buf.WriteByte('}')
	return buf.Bytes(), nil
}

func marshalNoHTML(v any) ([]byte, error) {
	var buf bytes.Buffer
	enc := json.NewEncoder(&buf)
	enc.SetEscapeHTML(false)
	if err := enc.Encode(v); err != nil {
		return nil, err
	}
	return bytes.TrimRight(buf.Bytes(), "\n"), nil
}

func randJSONObject(r *rand.Rand, depth int) orderedObj {
	var o orderedObj
	n := r.Intn(4)
	used := map[string]bool{}
	for len(o.keys) < n {
		k := randString(r, "abc\"", 2) + string("xyz"[len(o.keys)%3])
		if used[k] {
			continue
		}
		used[k] = true
		o.keys = append(o.keys, k)
		o.vals = append(o.vals, randJSONValue(r, depth))
	}
	return o
}

// naiveRaw renders a generated JSON value the way JSONExtractRaw does (compact, numbers in
// shortest form, '/' not escaped) using encoding/json as the independent implementation.
func naiveRaw(v any) string {
	switch x := v.(type) {
	case json.Number:
		f, _ := x.Float64()
		if !strings.ContainsAny(string(x), ".eE") {
			return string(x)
		}
		return strconv.FormatFloat(f, 'f', -1, 64)
	case []any:
		parts := make([]string, len(x))
		for i, e := range x {
			parts[i] = naiveRaw(e)
		}
		return "[" + strings.Join(parts, ",") + "]"
	case orderedObj:
		parts := make([]string, len(x.keys))
		for i, k := range x.keys {
			kb, _ := marshalNoHTML(k)
			parts[i] = string(kb) + ":" + naiveRaw(x.vals[i])
		}
		return "{" + strings.Join(parts, ",") + "}"
	}
	b, _ := marshalNoHTML(v)
	return string(b)
}

func naiveJSONType(v any) string {
	switch x := v.(type) {
	case nil:
		return "Null"
	case bool:
		return "Bool"
	case string:
		return "String"
	case json.Number:
		if strings.ContainsAny(string(x), ".eE") {
			return "Double"
		}
		return "Int64"
	case []any:
		return "Array"
	case orderedObj:
		return "Object"
	}
	return "?"
}

// rule A14 against encoding/json.
func TestPropJSONFunctions(t *testing.T) {
	r := rand.New(rand.NewSource(12))
	db := NewDB()
	for i := 0; i < propN*2; i++ {
		obj := randJSONObject(r, 0)
		docB, err := marshalNoHTML(obj)
		if err != nil {
			t.Fatal(err)
		}
		doc := string(docB)
		q := sqlString(doc)
		// keys and values
		var want []string
		for k, key := range obj.keys {
			v := obj.vals[k]
			switch x := v.(type) {
			case nil:
				continue
			case string:
				want = append(want, "("+quoteString(key)+","+quoteString(x)+")")
			default:
				want = append(want, "("+quoteString(key)+","+quoteString(naiveRaw(v))+")")
			}
		}
		if got := Format(evalOne(t, db, "SELECT JSONExtractKeysAndValues("+q+", 'String')")); got != "["+strings.Join(want, ",")+"]" {
			t.Fatalf("JSONExtractKeysAndValues(%s)\n got  %s\n want [%s]", doc, got, strings.Join(want, ","))
		}
		for k, key := range obj.keys {
			v := obj.vals[k]
			kq := sqlString(key)
			wantStr := ""
			if s, ok := v.(string); ok {
				wantStr = s
			}
			if got := evalOne(t, db, "SELECT JSONExtractString("+q+", "+kq+")"); got != wantStr {
				t.Fatalf("JSONExtractString(%s, %q) = %q, want %q", doc, key, got, wantStr)
			}
			if got := evalOne(t, db, "SELECT JSONExtractRaw("+q+", "+kq+")"); got != naiveRaw(v) {
				t.Fatalf("JSONExtractRaw(%s, %q) = %q, want %q", doc, key, got, naiveRaw(v))
			}
			if got := evalOne(t, db, "SELECT JSONType("+q+", "+kq+")"); got != naiveJSONType(v) {
				t.Fatalf("JSONType(%s, %q) = %q, want %q", doc, key, got, naiveJSONType(v))
			}
			// by 1-based member index
			if got := evalOne(t, db, fmt.Sprintf("SELECT JSONExtractRaw(%s, %d)", q, k+1)); got != naiveRaw(v) {
				t.Fatalf("JSONExtractRaw(%s, %d) = %q, want %q", doc, k+1, got, naiveRaw(v))
			}
		}
		if got := evalOne(t, db, "SELECT JSONHas("+q+", 'no such key')"); got != uint8(0) {
			t.Fatalf("JSONHas on missing key = %v", got)
		}
		// validity of mutated documents agrees with encoding/json
		mut := []byte(doc)
		if len(mut) > 0 {
			p := r.Intn(len(mut))
			switch r.Intn(3) {
			case 0:
				mut = append(mut[:p], mut[p+1:]...)
			case 1:
				mut[p] = "{}[],:\"x1 "[r.Intn(10)]
			default:
				mut = append(mut[:p], append([]byte{"{}[],:\"x1"[r.Intn(9)]}, mut[p:]...)...)
			}
		}
		ms := string(mut)
		if bytes.ContainsAny(mut, "\x00") {
			continue
		}
		valid := json.Valid(mut) && utf8.Valid(mut) && !hasHugeInt(ms) // simdjson additionally insists on valid UTF-8
		if got := evalOne(t, db, "SELECT isValidJSON("+sqlString(ms)+")"); got != boolVal(valid) {
			t.Fatalf("isValidJSON(%q) = %v, encoding/json says %v", ms, got, valid)
		}
	}
}

var hugeInt = regexp.MustCompile(`[0-9]{19,}`)

func hasHugeInt(s string) bool { return hugeInt.MatchString(s) }

func TestPropDates(t *testing.T) {
	r := rand.New(rand.NewSource(13))
	db := NewDB()
	for i := 0; i < propN; i++ {
		d := time.Date(1971+r.Intn(120), time.Month(1+r.Intn(12)), 1+r.Intn(28), 0, 0, 0, 0, time.UTC)
		s := d.Format("2006-01-02")
		days := d.Unix() / 86400
		if got := evalOne(t, db, "SELECT toDate('"+s+"')"); got != Date(days) {
			t.Fatalf("toDate(%s) = %v", s, got)
		}
		if got := evalOne(t, db, "SELECT toString(toDate('"+s+"'))"); got != s {
			t.Fatalf("toString(toDate(%s)) = %v", s, got)
		}
		other := time.Date(1971+r.Intn(120), time.Month(1+r.Intn(12)), 1+r.Intn(28), 0, 0, 0, 0, time.UTC)
		o := other.Format("2006-01-02")
		for op, want := range map[string]bool{">=": !d.Before(other), "<=": !d.After(other), "=": d.Equal(other), "<": d.Before(other)} {
			if got := evalOne(t, db, "SELECT toDate('"+s+"') "+op+" '"+o+"'"); got != boolVal(want) {
				t.Fatalf("toDate(%s) %s '%s' = %v, want %v", s, op, o, got, want)
			}
		}
		if d.Unix() < 1<<32 {
			if got := evalOne(t, db, "SELECT toUnixTimestamp(toDate('"+s+"'))"); got != uint32(d.Unix()) {
				t.Fatalf("toUnixTimestamp(toDate(%s)) = %v", s, got)
			}
		}
		ts := r.Int63n(4e9)
		if got := evalOne(t, db, fmt.Sprintf("SELECT toDate(toDateTime(%d))", ts)); got != Date(ts/86400) {
			t.Fatalf("toDate(toDateTime(%d)) = %v", ts, got)
		}
	}
}

func TestPropQuantileAndMoments(t *testing.T) {
	r := rand.New(rand.NewSource(14))
	db := NewDB()
	for i := 0; i < propN; i++ {
		n := 1 + r.Intn(9)
		vals := make([]float64, n)
		parts := make([]string, n)
		for k := range vals {
			vals[k] = float64(r.Intn(400)) / 4
			parts[k] = strconv.FormatFloat(vals[k], 'f', -1, 64)
			if !strings.Contains(parts[k], ".") {
				parts[k] += ".0"
			}
		}
		src := "(SELECT arrayJoin([" + strings.Join(parts, ",") + "]) AS x)"
		p := []float64{0, 0.25, 0.5, 0.9, 0.99, 1}[r.Intn(6)]
		sorted := append([]float64{}, vals...)
		sort.Float64s(sorted)
		// rule A20, written from the documentation: position p·(n−1), linear interpolation
		pos := p * float64(n-1)
		lo := int(math.Floor(pos))
		want := sorted[lo]
		if lo+1 < n {
			frac := pos - float64(lo)
			want = sorted[lo]*(1-frac) + sorted[lo+1]*frac
		}
		got := evalOne(t, db, fmt.Sprintf("SELECT quantile(%v)(x) FROM %s", p, src)).(float64)
		if math.Abs(got-want) > 1e-9*math.Max(1, math.Abs(want)) {
			t.Fatalf("quantile(%v) of %v = %v, want %v", p, vals, got, want)
		}
		mean, sq := 0.0, 0.0
		mn, mx := vals[0], vals[0]
		for _, v := range vals {
			mean += v
			mn, mx = math.Min(mn, v), math.Max(mx, v)
		}
		sum := mean
		mean /= float64(n)
		for _, v := range vals {
			sq += (v - mean) * (v - mean)
		}
		res, err := db.Exec("SELECT avg(x), varPop(x), stddevPop(x), sum(x), min(x), max(x), count() FROM " + src)
		if err != nil {
			t.Fatal(err)
		}
		wantRow := []float64{mean, sq / float64(n), math.Sqrt(sq / float64(n)), sum, mn, mx, float64(n)}
		for k, w := range wantRow {
			g, _ := toFloat(res.Rows[0][k])
			if math.Abs(g-w) > 1e-7*math.Max(1, math.Abs(w)) {
				t.Fatalf("aggregate %d over %v = %v, want %v", k, vals, g, w)
			}
		}
	}
}

// rule A19: deterministic and injective on the values seen.
func TestPropHashModel(t *testing.T) {
	r := rand.New(rand.NewSource(15))
	db := NewDB()
	seen := map[string]Value{}
	byHash := map[uint64]string{}
	for i := 0; i < propN*5; i++ {
		s := randString(r, "abc", 5)
		h := evalOne(t, db, "SELECT cityHash64("+sqlString(s)+")")
		if prev, ok := seen[s]; ok && prev != h {
			t.Fatalf("cityHash64(%q) not deterministic", s)
		}
		seen[s] = h
		if other, ok := byHash[h.(uint64)]; ok && other != s {
			t.Fatalf("collision between %q and %q", s, other)
		}
		byHash[h.(uint64)] = s
	}
	if c := db.HashCollisions(); len(c) != 0 {
		t.Fatalf("collisions reported: %v", c)
	}
	// a cloned DB keeps the ledger
	c := db.Clone()
	for s, h := range seen {
		if got := evalOne(t, c, "SELECT cityHash64("+sqlString(s)+")"); got != h {
			t.Fatalf("clone disagrees on %q", s)
		}
		break
	}
}

// Whole-pipeline property: GROUP BY / aggregates / ORDER BY / LIMIT / ANY LEFT JOIN / IN against
// naive loops over random tables.
func TestPropPipeline(t *testing.T) {
	r := rand.New(rand.NewSource(16))
	for iter := 0; iter < 150; iter++ {
		db := NewDB()
		n := r.Intn(12)
		var rows [][]any
		type row struct {
			fp uint64
			ts int64
			v  float64
		}
		var data []row
		for i := 0; i < n; i++ {
			d := row{uint64(r.Intn(4)), int64(r.Intn(50)), float64(r.Intn(20)) / 2}
			data = append(data, d)
			rows = append(rows, R(d.fp, int(d.ts), d.v))
		}
		db.AddTable(mkTable("s", "fingerprint UInt64, timestamp_ns Int64, value Float64", rows...))
		m := r.Intn(5)
		labels := map[uint64]string{}
		var lrows [][]any
		for i := 0; i < m; i++ {
			fp := uint64(r.Intn(5))
			l := randString(r, "xyz", 3)
			if _, dup := labels[fp]; !dup {
				labels[fp] = l
			}
			lrows = append(lrows, R(fp, l))
		}
		db.AddTable(mkTable("l", "fingerprint UInt64, name String", lrows...))
		step := int64(1 + r.Intn(20))
		lo, hi := int64(r.Intn(25)), int64(25+r.Intn(30))

		// 1. bucketed aggregation with alias shadowing (rule A5) and WHERE on the qualified column
		res, err := db.Exec(fmt.Sprintf(`SELECT intDiv(s.timestamp_ns, %d) * %d AS timestamp_ns, fingerprint, count() AS c, sum(value) AS sv, max(value), argMax(value, s.timestamp_ns) FROM s WHERE s.timestamp_ns >= %d AND s.timestamp_ns < %d GROUP BY fingerprint, timestamp_ns ORDER BY fingerprint, timestamp_ns`, step, step, lo, hi))
		if err != nil {
			t.Fatal(err)
		}
		type key struct {
			fp uint64
			b  int64
		}
		type agg struct {
			c      int
			sum    float64
			max    float64
			lastTs int64
			last   float64
			tie    bool
		}
		groups := map[key]*agg{}
		for _, d := range data {
			if d.ts < lo || d.ts >= hi {
				continue
			}
			k := key{d.fp, d.ts / step * step}
			g := groups[k]
			if g == nil {
				g = &agg{max: d.v, lastTs: -1}
				groups[k] = g
			}
			g.c++
			g.sum += d.v
			g.max = math.Max(g.max, d.v)
			if d.ts > g.lastTs {
				g.lastTs, g.last, g.tie = d.ts, d.v, false
			} else if d.ts == g.lastTs && d.v != g.last {
				g.tie = true
			}
		}
		var keys []key
		for k := range groups {
			keys = append(keys, k)
		}
		sort.Slice(keys, func(i, j int) bool {
			if keys[i].fp != keys[j].fp {
				return keys[i].fp < keys[j].fp
			}
			return keys[i].b < keys[j].b
		})
		if len(res.Rows) != len(keys) {
			t.Fatalf("iter %d: %d groups, want %d", iter, len(res.Rows), len(keys))
		}
		for i, k := range keys {
			g := groups[k]
			row := res.Rows[i]
			if row[0] != k.b || row[1] != k.fp || row[2] != uint64(g.c) || row[3] != g.sum || row[4] != g.max {
				t.Fatalf("iter %d group %v: got %v want %+v", iter, k, row, g)
			}
			if !g.tie && row[5] != g.last {
				t.Fatalf("iter %d group %v: argMax %v want %v", iter, k, row[5], g.last)
			}
		}

		// 2. ORDER BY … DESC LIMIT n (rule A18: compare as multiset above the cut)
		lim := r.Intn(6)
		res, err = db.Exec(fmt.Sprintf(`SELECT timestamp_ns FROM s ORDER BY timestamp_ns DESC LIMIT %d`, lim))
		if err != nil {
			t.Fatal(err)
		}
		var all []int64
		for _, d := range data {
			all = append(all, d.ts)
		}
		sort.Slice(all, func(i, j int) bool { return all[i] > all[j] })
		if lim < len(all) {
			all = all[:lim]
		}
		if len(res.Rows) != len(all) {
			t.Fatalf("iter %d: limit rows %d want %d", iter, len(res.Rows), len(all))
		}
		for i := range all {
			if res.Rows[i][0] != all[i] {
				t.Fatalf("iter %d: order/limit row %d = %v want %d", iter, i, res.Rows[i][0], all[i])
			}
		}

		// 3. ANY LEFT JOIN with defaults (rule A6) and IN (rule A9)
		res, err = db.Exec(`SELECT s.fingerprint, l.name, s.fingerprint IN (SELECT fingerprint FROM l), s.fingerprint NOT IN (SELECT fingerprint FROM l) FROM s ANY LEFT JOIN l ON s.fingerprint = l.fingerprint`)
		if err != nil {
			t.Fatal(err)
		}
		if len(res.Rows) != len(data) {
			t.Fatalf("iter %d: join rows %d want %d", iter, len(res.Rows), len(data))
		}
		for i, d := range data {
			name, has := labels[d.fp]
			if res.Rows[i][0] != d.fp || res.Rows[i][1] != name || res.Rows[i][2] != boolVal(has) || res.Rows[i][3] != boolVal(!has) {
				t.Fatalf("iter %d: join row %d = %v want %d %q %v", iter, i, res.Rows[i], d.fp, name, has)
			}
		}

		// 4. DISTINCT and count(DISTINCT)
		res, err = db.Exec(`SELECT count(DISTINCT fingerprint), uniqExact(fingerprint, timestamp_ns) FROM s`)
		if err != nil {
			t.Fatal(err)
		}
		d1, d2 := map[uint64]bool{}, map[[2]int64]bool{}
		for _, d := range data {
			d1[d.fp] = true
			d2[[2]int64{int64(d.fp), d.ts}] = true
		}
		if res.Rows[0][0] != uint64(len(d1)) || res.Rows[0][1] != uint64(len(d2)) {
			t.Fatalf("iter %d: distinct counts %v want %d %d", iter, res.Rows[0], len(d1), len(d2))
		}
	}
}

// Format/parse round trip of floats.
func TestPropFloatFormat(t *testing.T) {
	r := rand.New(rand.NewSource(17))
	for i := 0; i < propN*5; i++ {
		f := math.Float64frombits(r.Uint64())
		if math.IsNaN(f) || math.IsInf(f, 0) {
			continue
		}
		s := formatFloat(f)
		g, ok := parseFloatText(s)
		if !ok || g != f {
			t.Fatalf("formatFloat(%v) = %q parses back to %v", f, s, g)
		}
		if strings.Contains(s, "e+") || strings.Contains(s, "e0") || strings.Contains(s, "e-0") {
			t.Fatalf("formatFloat(%v) = %q is not ClickHouse style", f, s)
		}
	}
}
