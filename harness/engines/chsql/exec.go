package chsql

import (
	"fmt"
	"sort"
	"strings"
)

// ---- relations, scopes ---------------------------------------------------------------------

type relCol struct {
	name string
	typ  *Type
}

type relation struct {
	cols []relCol
	rows [][]Value
}

// cteScope is one WITH item; scopes form a chain (innermost first), so later items and nested
// selects see earlier items, and an item's own definition sees only what precedes it.
type cteScope struct {
	parent *cteScope
	name   string
	sel    SelectNode // CTE
	scalar Expr       // WITH expr AS name
	rel    *relation
	busy   bool
}

func (s *cteScope) lookup(name string) *cteScope {
	for c := s; c != nil; c = c.parent {
		if c.name == name && c.sel != nil {
			return c
		}
	}
	return nil
}

type scalarRes struct {
	v   Value
	err error
}

type execCtx struct {
	db          *DB
	sets        map[Expr]*valueSet
	scalars     map[*Subquery]scalarRes
	scalarTypes map[*Subquery]*Type
	depth       int
}

func (x *execCtx) evalCTE(c *cteScope) (*relation, error) {
	if c.rel != nil {
		return c.rel, nil
	}
	if c.busy {
		return nil, raise("UNKNOWN_TABLE", "recursive reference to CTE %s", c.name)
	}
	c.busy = true
	defer func() { c.busy = false }()
	rel, err := x.evalSelectNode(c.sel, c.parent)
	if err != nil {
		return nil, err
	}
	c.rel = rel
	return rel, nil
}

func (x *execCtx) evalSelectNode(n SelectNode, scope *cteScope) (*relation, error) {
	x.depth++
	defer func() { x.depth-- }()
	if x.depth > 200 {
		return nil, unsupported("select nesting too deep")
	}
	switch s := n.(type) {
	case *SelectQuery:
		return x.evalSelect(s, scope)
	case *SetOp:
		l, err := x.evalSelectNode(s.Left, scope)
		if err != nil {
			return nil, err
		}
		r, err := x.evalSelectNode(s.Right, scope)
		if err != nil {
			return nil, err
		}
		return x.evalSetOp(s.Op, l, r)
	}
	return nil, unsupported("select node %T", n)
}

func (x *execCtx) evalSetOp(op string, l, r *relation) (*relation, error) {
	if len(l.cols) != len(r.cols) {
		return nil, raise("UNION_ALL_RESULT_STRUCTURES_MISMATCH", "%s: different number of columns (%d and %d)", op, len(l.cols), len(r.cols))
	}
	// result structure: names of the first arm, least supertypes of the column types
	res := &relation{cols: make([]relCol, len(l.cols))}
	for i := range l.cols {
		res.cols[i] = relCol{name: l.cols[i].name, typ: l.cols[i].typ}
		lt, rt := l.cols[i].typ, r.cols[i].typ
		if lt == nil || rt == nil {
			// fall back on the values
			if lt == nil && len(l.rows) > 0 {
				lt = typeOfValue(l.rows[0][i])
			}
			if rt == nil && len(r.rows) > 0 {
				rt = typeOfValue(r.rows[0][i])
			}
		}
		switch {
		case lt != nil && rt != nil && typesEqual(lt, rt):
			res.cols[i].typ = lt // identical types (AggregateFunction states included) pass through
		case lt != nil && rt != nil:
			st := superType(stateValueType(lt), stateValueType(rt))
			if st == nil {
				return nil, raise("NO_COMMON_TYPE", "%s: column %d has no common type for %s and %s", op, i+1, lt, rt)
			}
			res.cols[i].typ = st
		case lt != nil:
			res.cols[i].typ = lt
		default:
			res.cols[i].typ = rt
		}
	}
	conv := func(rows [][]Value) ([][]Value, error) {
		out := make([][]Value, len(rows))
		for ri, row := range rows {
			nr := make([]Value, len(row))
			for i, v := range row {
				if t := res.cols[i].typ; t != nil && !Conforms(v, t) {
					c, err := castValue(v, t)
					if err != nil {
						return nil, err
					}
					v = c
				}
				nr[i] = v
			}
			out[ri] = nr
		}
		return out, nil
	}
	lr, err := conv(l.rows)
	if err != nil {
		return nil, err
	}
	rr, err := conv(r.rows)
	if err != nil {
		return nil, err
	}
	switch op {
	case "UNION ALL":
		res.rows = append(lr, rr...)
	case "UNION DISTINCT":
		seen := map[string]bool{}
		for _, row := range append(lr, rr...) {
			k := keyOf(Tuple(row))
			if !seen[k] {
				seen[k] = true
				res.rows = append(res.rows, row)
			}
		}
	case "INTERSECT", "EXCEPT":
		// rule A8: INTERSECT keeps every left row (duplicates included) that equals some right row;
		// EXCEPT keeps every left row that equals no right row (IntersectOrExceptTransform).
		set := map[string]bool{}
		for _, row := range rr {
			set[keyOf(Tuple(row))] = true
		}
		for _, row := range lr {
			if set[keyOf(Tuple(row))] == (op == "INTERSECT") {
				res.rows = append(res.rows, row)
			}
		}
	default:
		return nil, unsupported("set operation %s", op)
	}
	return res, nil
}

// ---- frames --------------------------------------------------------------------------------

type frameCol struct {
	name  string
	quals []string // table alias, table name, db.table
	typ   *Type
	using bool // right-side column of a USING join: hidden from unqualified lookup and from *
}

type frame struct {
	cols []frameCol
}

func (f *frame) findUnqualified(name string) int {
	for i := range f.cols {
		if f.cols[i].name == name && !f.cols[i].using {
			return i
		}
	}
	return -1
}

func (f *frame) findQualified(qual, name string) int {
	for i := range f.cols {
		if f.cols[i].name != name {
			continue
		}
		for _, q := range f.cols[i].quals {
			if q == qual {
				return i
			}
		}
	}
	return -1
}

func (f *frame) hasQual(qual string) bool {
	for i := range f.cols {
		for _, q := range f.cols[i].quals {
			if q == qual {
				return true
			}
		}
	}
	return false
}

// selectCtx is the analysis context of one SELECT.
type selectCtx struct {
	x         *execCtx
	q         *SelectQuery
	scope     *cteScope
	frame     *frame
	quals     map[string]bool // table qualifiers in scope (also for sources with zero columns)
	aliases   map[string]Expr
	canon     map[canonKey]string
	hasAggC   map[Expr]int8
	typeCache map[typeKey]*Type
	// arrayJoinKey is the canonical text of the (single) arrayJoin() argument of this select.
	arrayJoinKey string
	arrayJoinX   Expr

	// prepared by analyze()
	items    []Expr
	names    []string
	types    []*Type
	orderX   []Expr
	limitByX []Expr
	groupX   []Expr
	agg      bool
	keyCanon map[string]int
}

type pipeRow struct {
	vals []Value
	src  int // index into the left base table's rows, or -1
}

// source of a FROM / JOIN operand
type sourceRel struct {
	rel   *relation
	base  *Table
	quals []string
	alias string
}

func (x *execCtx) evalTableExpr(te *TableExpr, scope *cteScope) (*sourceRel, error) {
	switch {
	case te.Func != nil:
		return nil, unsupported("table function %s", te.Func.Name)
	case te.Sel != nil:
		rel, err := x.evalSelectNode(te.Sel, scope)
		if err != nil {
			return nil, err
		}
		s := &sourceRel{rel: rel, alias: te.Alias}
		if te.Alias != "" {
			s.quals = []string{te.Alias}
		}
		return s, nil
	}
	if te.DB == "" {
		if c := scope.lookup(te.Name); c != nil {
			rel, err := x.evalCTE(c)
			if err != nil {
				return nil, err
			}
			s := &sourceRel{rel: rel, alias: te.Alias, quals: []string{te.Name}}
			if te.Alias != "" {
				s.quals = []string{te.Alias, te.Name}
			}
			return s, nil
		}
	}
	t := x.db.lookupTable(te.DB, te.Name)
	if t == nil {
		full := te.Name
		if te.DB != "" {
			full = te.DB + "." + te.Name
		}
		return nil, raise("UNKNOWN_TABLE", "table %s does not exist", full)
	}
	ts, err := t.ColTypes()
	if err != nil {
		return nil, err
	}
	rel := &relation{cols: make([]relCol, len(t.Cols)), rows: t.Rows}
	for i, c := range t.Cols {
		rel.cols[i] = relCol{name: c.Name, typ: ts[i]}
	}
	s := &sourceRel{rel: rel, base: t, alias: te.Alias}
	if te.Alias != "" {
		s.quals = append(s.quals, te.Alias)
	}
	s.quals = append(s.quals, te.Name)
	if te.DB != "" {
		s.quals = append(s.quals, te.DB+"."+te.Name)
	}
	return s, nil
}

func (f *frame) addSource(s *sourceRel, using map[string]bool) {
	for _, c := range s.rel.cols {
		f.cols = append(f.cols, frameCol{name: c.name, quals: s.quals, typ: c.typ, using: using[c.name]})
	}
}

// ---- SELECT --------------------------------------------------------------------------------

func (x *execCtx) evalSelect(q *SelectQuery, scope *cteScope) (*relation, error) {
	for _, w := range q.With {
		scope = &cteScope{parent: scope, name: w.Name, sel: w.Sel, scalar: w.X}
	}
	sc := &selectCtx{x: x, q: q, scope: scope, frame: &frame{}, quals: map[string]bool{}, canon: map[canonKey]string{}, hasAggC: map[Expr]int8{}}

	// FROM
	var rows []pipeRow
	var left *sourceRel
	if q.From != nil {
		var err error
		left, err = x.evalTableExpr(q.From, scope)
		if err != nil {
			return nil, err
		}
		sc.frame.addSource(left, nil)
		for _, ql := range left.quals {
			sc.quals[ql] = true
		}
		rows = make([]pipeRow, len(left.rel.rows))
		for i, r := range left.rel.rows {
			rows[i] = pipeRow{vals: r, src: i}
		}
	} else {
		// SELECT without FROM reads system.one (one row, column dummy UInt8)
		sc.frame.cols = append(sc.frame.cols, frameCol{name: "dummy", typ: tUInt8, quals: []string{"one", "system.one"}})
		rows = []pipeRow{{vals: []Value{uint8(0)}, src: -1}}
	}

	if err := sc.collectAliases(); err != nil {
		return nil, err
	}

	// JOINs and ARRAY JOINs in textual order
	for _, j := range q.Joins {
		var err error
		if j.Array {
			rows, err = sc.applyArrayJoin(j, rows)
		} else {
			rows, err = sc.applyJoin(j, rows)
		}
		if err != nil {
			return nil, err
		}
	}

	// static analysis that ClickHouse performs whether or not there are rows
	if err := sc.analyze(); err != nil {
		return nil, err
	}

	// PREWHERE / WHERE (both are plain filters; conjunction)
	var filters []Expr
	if q.Prewhere != nil {
		filters = append(filters, q.Prewhere)
	}
	if q.Where != nil {
		filters = append(filters, q.Where)
	}
	if len(filters) > 0 {
		kept := rows[:0:0]
		for _, r := range rows {
			ok := true
			for _, f := range filters {
				v, err := sc.newEnv(r.vals).eval(f)
				if err != nil {
					return nil, err
				}
				t, err := filterTruth(v)
				if err != nil {
					return nil, err
				}
				if !t {
					ok = false
					break
				}
			}
			if ok {
				kept = append(kept, r)
			}
		}
		if left != nil && left.base != nil {
			x.emitScan(left, len(left.rel.rows), kept, filters)
		}
		rows = kept
	} else if left != nil && left.base != nil {
		x.emitScan(left, len(left.rel.rows), rows, nil)
	}

	return sc.project(rows)
}

func (x *execCtx) emitScan(s *sourceRel, offered int, kept []pipeRow, filters []Expr) {
	if x.db.OnScan == nil {
		return
	}
	seen := map[int]bool{}
	adm := []int{}
	for _, r := range kept {
		if r.src >= 0 && !seen[r.src] {
			seen[r.src] = true
			adm = append(adm, r.src)
		}
	}
	sort.Ints(adm)
	var parts []string
	for _, f := range filters {
		parts = append(parts, exprText(f))
	}
	x.db.OnScan(ScanEvent{Table: s.base.Name, Alias: s.alias, Offered: offered, Admitted: adm, Where: strings.Join(parts, " AND ")})
}

// filterTruth interprets a WHERE/HAVING value: numbers are true when non-zero, NULL is false;
// other types are ILLEGAL_TYPE_OF_COLUMN_FOR_FILTER.
func filterTruth(v Value) (bool, error) {
	if isNull(v) {
		return false, nil
	}
	k, u, i, f, _ := numInfo(v)
	switch k {
	case 'u':
		return u != 0, nil
	case 'i':
		return i != 0, nil
	case 'f':
		return f != 0, nil
	}
	return false, raise("ILLEGAL_TYPE_OF_COLUMN_FOR_FILTER", "illegal type %s of column for filter", typeOfValue(v))
}

// ---- ARRAY JOIN ----------------------------------------------------------------------------

// rule A7: ARRAY JOIN arr [AS x]: one output row per element; rows whose array is empty are
// dropped (LEFT ARRAY JOIN keeps them with the element type's default). Several arrays in one
// ARRAY JOIN are zipped and must have equal lengths.
func (sc *selectCtx) applyArrayJoin(j *JoinClause, rows []pipeRow) ([]pipeRow, error) {
	type target struct {
		expr    Expr
		replace int // frame column replaced (ARRAY JOIN col without alias), or -1
		et      *Type
	}
	var targets []target
	newCols := []frameCol{}
	for _, e := range j.ArrayExprs {
		tg := target{replace: -1}
		inner := e
		alias := ""
		if a, ok := e.(*Aliased); ok {
			inner, alias = a.X, a.Alias
		}
		tg.expr = inner
		at, err := sc.typeOf(inner, nil)
		if err != nil {
			return nil, err
		}
		if at != nil {
			switch at.Name {
			case "Array":
				tg.et = at.Args[0]
			case "Map":
				tg.et = tTuple(at.Args[0], at.Args[1])
			default:
				return nil, raise("TYPE_MISMATCH", "ARRAY JOIN requires an array argument, got %s", at)
			}
		}
		if alias == "" {
			id, ok := inner.(*Ident)
			if !ok {
				return nil, raise("ALIAS_REQUIRED", "no alias for non-trivial value in ARRAY JOIN: %s", exprText(inner))
			}
			idx, err := sc.resolveColumn(id)
			if err != nil {
				return nil, err
			}
			tg.replace = idx
		} else {
			delete(sc.aliases, alias) // the ARRAY JOIN alias is a column, not an expression alias
			newCols = append(newCols, frameCol{name: alias, typ: tg.et})
		}
		targets = append(targets, tg)
	}
	base := len(sc.frame.cols)
	var out []pipeRow
	for _, r := range rows {
		arrays := make([]Array, len(targets))
		n := -1
		for i, tg := range targets {
			v, err := sc.newEnv(r.vals).eval(tg.expr)
			if err != nil {
				return nil, err
			}
			var arr Array
			switch a := v.(type) {
			case Array:
				arr = a
			case *Map:
				arr = mapAsArray(a)
			default:
				return nil, raise("TYPE_MISMATCH", "ARRAY JOIN requires an array argument, got %s", typeOfValue(v))
			}
			if n >= 0 && len(arr) != n {
				return nil, raise("SIZES_OF_ARRAYS_DONT_MATCH", "sizes of ARRAY-JOIN-ed arrays do not match")
			}
			n = len(arr)
			arrays[i] = arr
		}
		emit := func(elems []Value) {
			nv := make([]Value, base, base+len(newCols))
			copy(nv, r.vals)
			for i, tg := range targets {
				if tg.replace >= 0 {
					nv[tg.replace] = elems[i]
				} else {
					nv = append(nv, elems[i])
				}
			}
			out = append(out, pipeRow{vals: nv, src: r.src})
		}
		if n == 0 {
			if j.ArrayLeft {
				elems := make([]Value, len(targets))
				for i, tg := range targets {
					d, err := DefaultOf(tg.et)
					if err != nil {
						return nil, err
					}
					elems[i] = d
				}
				emit(elems)
			}
			continue
		}
		for k := 0; k < n; k++ {
			elems := make([]Value, len(targets))
			for i := range targets {
				elems[i] = arrays[i][k]
			}
			emit(elems)
		}
	}
	for _, tg := range targets {
		if tg.replace >= 0 {
			sc.frame.cols[tg.replace].typ = tg.et
		}
	}
	sc.frame.cols = append(sc.frame.cols, newCols...)
	sc.canon = map[canonKey]string{}
	return out, nil
}

// ---- JOIN ----------------------------------------------------------------------------------

func (sc *selectCtx) applyJoin(j *JoinClause, rows []pipeRow) ([]pipeRow, error) {
	x := sc.x
	right, err := x.evalTableExpr(j.Table, sc.scope)
	if err != nil {
		return nil, err
	}
	strict := j.Strictness
	if strict == "" {
		strict = "ALL"
	}
	switch {
	case j.Kind == "CROSS":
	case (j.Kind == "LEFT" || j.Kind == "INNER") && (strict == "ANY" || strict == "ALL"):
	case j.Kind == "LEFT" && (strict == "SEMI" || strict == "ANTI"):
	default:
		return nil, unsupported("%s %s JOIN", strict, j.Kind)
	}
	leftFrame := &frame{cols: sc.frame.cols}
	rightFrame := &frame{}
	rightFrame.addSource(right, nil)
	nl := len(sc.frame.cols)

	// key expressions
	var lkeys, rkeys []Expr
	using := map[string]bool{}
	if len(j.Using) > 0 {
		for _, u := range j.Using {
			using[u] = true
			lkeys = append(lkeys, &Ident{Parts: []string{u}})
			rkeys = append(rkeys, &Ident{Parts: []string{u}})
		}
	} else if j.On != nil {
		var conj []Expr
		flattenAnd(stripAlias(j.On), &conj)
		for _, c := range conj {
			f, ok := stripAlias(c).(*Func)
			if !ok || f.Name != "equals" || len(f.Args) != 2 {
				return nil, unsupported("JOIN ON condition other than a conjunction of equalities: %s", exprText(c))
			}
			a, b := f.Args[0], f.Args[1]
			aL, aR := sc.sideOf(a, leftFrame, rightFrame)
			bL, bR := sc.sideOf(b, leftFrame, rightFrame)
			switch {
			case aL && bR && !(aR && bL):
				lkeys, rkeys = append(lkeys, a), append(rkeys, b)
			case aR && bL:
				lkeys, rkeys = append(lkeys, b), append(rkeys, a)
			case aL && bR:
				lkeys, rkeys = append(lkeys, a), append(rkeys, b)
			default:
				return nil, raise("INVALID_JOIN_ON_EXPRESSION", "cannot split JOIN ON condition between the joined tables: %s", exprText(c))
			}
		}
	}
	leftSC := &selectCtx{x: x, q: sc.q, scope: sc.scope, frame: leftFrame, quals: sc.quals, aliases: map[string]Expr{}, canon: map[canonKey]string{}, hasAggC: map[Expr]int8{}}
	rightQuals := map[string]bool{}
	for _, ql := range right.quals {
		rightQuals[ql] = true
	}
	rightSC := &selectCtx{x: x, q: sc.q, scope: sc.scope, frame: rightFrame, quals: rightQuals, aliases: map[string]Expr{}, canon: map[canonKey]string{}, hasAggC: map[Expr]int8{}}

	keyOfRow := func(c *selectCtx, keys []Expr, vals []Value) (string, bool, error) {
		var sb strings.Builder
		for _, k := range keys {
			v, err := c.newEnv(vals).eval(k)
			if err != nil {
				return "", false, err
			}
			if containsNull(v) || containsNaN(v) {
				return "", false, nil // NULL and NaN keys never match
			}
			writeKey(&sb, v)
		}
		return sb.String(), true, nil
	}
	// key class check (String vs number joins are type errors in ClickHouse)
	if len(rows) > 0 && len(right.rel.rows) > 0 {
		for i := range lkeys {
			lv, err := leftSC.newEnv(rows[0].vals).eval(lkeys[i])
			if err != nil {
				return nil, err
			}
			rv, err := rightSC.newEnv(right.rel.rows[0]).eval(rkeys[i])
			if err != nil {
				return nil, err
			}
			if !isNull(lv) && !isNull(rv) && valueClass(lv) != valueClass(rv) {
				return nil, raise("TYPE_MISMATCH", "JOIN keys have incompatible types %s and %s", typeOfValue(lv), typeOfValue(rv))
			}
		}
	}

	index := map[string][]int{}
	if j.Kind != "CROSS" {
		for i, r := range right.rel.rows {
			k, ok, err := keyOfRow(rightSC, rkeys, r)
			if err != nil {
				return nil, err
			}
			if ok {
				index[k] = append(index[k], i)
			}
		}
	}
	// rule A6: join_use_nulls = 0 → unmatched right columns take their type's default value
	var defaults []Value
	needDefaults := func() ([]Value, error) {
		if defaults != nil {
			return defaults, nil
		}
		d := make([]Value, len(right.rel.cols))
		for i, c := range right.rel.cols {
			t := c.typ
			if t == nil && len(right.rel.rows) > 0 {
				t = typeOfValue(right.rel.rows[0][i])
			}
			v, err := DefaultOf(t)
			if err != nil {
				return nil, fmt.Errorf("%w (right column %s of JOIN)", err, c.name)
			}
			d[i] = v
		}
		defaults = d
		return d, nil
	}
	combine := func(l pipeRow, r []Value) pipeRow {
		nv := make([]Value, nl+len(r))
		copy(nv, l.vals)
		copy(nv[nl:], r)
		return pipeRow{vals: nv, src: l.src}
	}
	matchedRight := map[int]bool{}
	usedKey := map[string]bool{}
	var out []pipeRow
	for _, l := range rows {
		if j.Kind == "CROSS" {
			for ri, r := range right.rel.rows {
				matchedRight[ri] = true
				out = append(out, combine(l, r))
			}
			continue
		}
		k, ok, err := keyOfRow(leftSC, lkeys, l.vals)
		if err != nil {
			return nil, err
		}
		var m []int
		if ok {
			m = index[k]
		}
		for _, ri := range m {
			matchedRight[ri] = true
		}
		switch {
		case strict == "SEMI":
			if len(m) > 0 {
				out = append(out, combine(l, right.rel.rows[m[0]]))
			}
		case strict == "ANTI":
			if len(m) == 0 {
				d, err := needDefaults()
				if err != nil {
					return nil, err
				}
				out = append(out, combine(l, d))
			}
		case len(m) == 0:
			if j.Kind == "LEFT" {
				d, err := needDefaults()
				if err != nil {
					return nil, err
				}
				out = append(out, combine(l, d))
			}
		case strict == "ANY" && j.Kind == "LEFT":
			// rule A6: ANY LEFT — at most one right row per left row (the first in the right
			// relation's order here; ClickHouse keeps the first one it inserted into the hash table).
			out = append(out, combine(l, right.rel.rows[m[0]]))
		case strict == "ANY" && j.Kind == "INNER":
			// rule A6: ANY INNER with any_join_distinct_right_table_keys=0 — "one row per key from both
			// tables": a right key is used at most once, so later left rows with the same key are dropped.
			if !usedKey[k] {
				usedKey[k] = true
				out = append(out, combine(l, right.rel.rows[m[0]]))
			}
		default:
			for _, ri := range m {
				out = append(out, combine(l, right.rel.rows[ri]))
			}
		}
	}
	if right.base != nil && x.db.OnScan != nil {
		adm := make([]int, 0, len(matchedRight))
		for ri := range matchedRight {
			adm = append(adm, ri)
		}
		sort.Ints(adm)
		where := ""
		if j.On != nil {
			where = exprText(j.On)
		} else if len(j.Using) > 0 {
			where = "USING (" + strings.Join(j.Using, ", ") + ")"
		}
		x.db.OnScan(ScanEvent{Table: right.base.Name, Alias: right.alias, Offered: len(right.rel.rows), Admitted: adm, Where: where})
	}
	sc.frame.addSource(right, using)
	for _, ql := range right.quals {
		sc.quals[ql] = true
	}
	sc.canon = map[canonKey]string{}
	return out, nil
}

func flattenAnd(e Expr, out *[]Expr) {
	if f, ok := e.(*Func); ok && f.Name == "and" {
		for _, a := range f.Args {
			flattenAnd(stripAlias(a), out)
		}
		return
	}
	*out = append(*out, e)
}

// sideOf reports whether every column of e can be resolved in the left / right frame.
func (sc *selectCtx) sideOf(e Expr, lf, rf *frame) (left, right bool) {
	left, right = true, true
	n := 0
	var walk func(e Expr)
	walk = func(e Expr) {
		switch x := e.(type) {
		case *Ident:
			n++
			check := func(f *frame) bool {
				switch len(x.Parts) {
				case 1:
					return f.findUnqualified(x.Parts[0]) >= 0
				case 2:
					return f.findQualified(x.Parts[0], x.Parts[1]) >= 0
				case 3:
					return f.findQualified(x.Parts[0]+"."+x.Parts[1], x.Parts[2]) >= 0
				}
				return false
			}
			if !check(lf) {
				left = false
			}
			if !check(rf) {
				right = false
			}
		case *Aliased:
			walk(x.X)
		case *Func:
			for _, a := range x.Args {
				walk(a)
			}
		case *Lambda, *Subquery:
			left, right = false, false
		}
	}
	walk(e)
	if n == 0 {
		return false, false
	}
	return
}

// ---- projection, aggregation, ordering ---------------------------------------------------------

type outRow struct {
	vals  []Value
	order []Value
	lby   string
}

// analyze performs the row-independent analysis ClickHouse does before execution: asterisk
// expansion, positional arguments, aggregate detection, GROUP BY key matching (NOT_AN_AGGREGATE),
// identifier / function / argument type checks of every clause, result types.
func (sc *selectCtx) analyze() error {
	q := sc.q
	items, names, err := sc.expandItems()
	if err != nil {
		return err
	}
	sc.items, sc.names = items, names
	if err := sc.findArrayJoin(); err != nil {
		return err
	}
	// positional arguments (enable_positional_arguments = 1): a bare integer literal N in GROUP BY /
	// ORDER BY / LIMIT BY means the N-th select item
	positional := func(e Expr, what string) (Expr, error) {
		if l, ok := e.(*Literal); ok {
			if isInteger(l.Val) {
				f, _ := toFloat(l.Val)
				n := int(f)
				if n < 1 || n > len(items) {
					return nil, raise("BAD_ARGUMENTS", "positional argument %d in %s is out of range", n, what)
				}
				return items[n-1], nil
			}
		}
		return e, nil
	}
	sc.orderX = make([]Expr, len(q.OrderBy))
	for i, o := range q.OrderBy {
		if sc.orderX[i], err = positional(o.X, "ORDER BY"); err != nil {
			return err
		}
	}
	sc.limitByX = make([]Expr, len(q.LimitBy))
	for i, e := range q.LimitBy {
		if sc.limitByX[i], err = positional(e, "LIMIT BY"); err != nil {
			return err
		}
	}
	sc.groupX = make([]Expr, len(q.GroupBy))
	for i, e := range q.GroupBy {
		if sc.groupX[i], err = positional(e, "GROUP BY"); err != nil {
			return err
		}
	}
	// is this an aggregating select?
	sc.agg = len(sc.groupX) > 0
	check := append(append([]Expr{}, items...), sc.orderX...)
	check = append(check, sc.limitByX...)
	if q.Having != nil {
		check = append(check, q.Having)
	}
	for _, e := range check {
		if sc.agg {
			break
		}
		a, err := sc.hasAgg(e, nil)
		if err != nil {
			return err
		}
		sc.agg = sc.agg || a
	}
	te := &typeEnv{}
	for _, g := range sc.groupX {
		a, err := sc.hasAgg(g, nil)
		if err != nil {
			return err
		}
		if a {
			return raise("ILLEGAL_AGGREGATION", "aggregate function in GROUP BY: %s", exprText(g))
		}
		if _, err := sc.typeOf(g, te); err != nil {
			return err
		}
	}
	// WHERE / PREWHERE
	for _, f := range []Expr{q.Prewhere, q.Where} {
		if f == nil {
			continue
		}
		a, err := sc.hasAgg(f, nil)
		if err != nil {
			return err
		}
		if a {
			// rule A5 (last sentence): aggregates / aggregate-valued aliases are illegal in WHERE
			return raise("ILLEGAL_AGGREGATION", "aggregate function in WHERE/PREWHERE: %s", exprText(f))
		}
		t, err := sc.typeOf(f, te)
		if err != nil {
			return err
		}
		if t != nil && !logicalArgOK(t) {
			return raise("ILLEGAL_TYPE_OF_COLUMN_FOR_FILTER", "illegal type %s of column for filter", t)
		}
	}
	if sc.agg {
		if sc.arrayJoinKey != "" {
			return unsupported("arrayJoin() together with aggregation")
		}
		sc.keyCanon = map[string]int{}
		for i, g := range sc.groupX {
			c, err := sc.canonOf(g, nil, nil)
			if err != nil {
				return err
			}
			if _, dup := sc.keyCanon[c]; !dup {
				sc.keyCanon[c] = i
			}
		}
		te = &typeEnv{group: true, keyCanon: sc.keyCanon}
	}
	sc.types = make([]*Type, len(items))
	for i, it := range items {
		t, err := sc.typeOf(it, te)
		if err != nil {
			return err
		}
		sc.types[i] = t
	}
	rest := append(append([]Expr{}, sc.orderX...), sc.limitByX...)
	for _, e := range rest {
		if _, err := sc.typeOf(e, te); err != nil {
			return err
		}
	}
	if q.Having != nil {
		t, err := sc.typeOf(q.Having, te)
		if err != nil {
			return err
		}
		if t != nil && !logicalArgOK(t) {
			return raise("ILLEGAL_TYPE_OF_COLUMN_FOR_FILTER", "illegal type %s of column for HAVING", t)
		}
	}
	return nil
}

func (sc *selectCtx) project(rows []pipeRow) (*relation, error) {
	q := sc.q
	x := sc.x
	items, names, types := sc.items, sc.names, sc.types
	orderX, limitByX, groupX, agg := sc.orderX, sc.limitByX, sc.groupX, sc.agg

	var outs []outRow
	evalOut := func(ev *env) error {
		o := outRow{vals: make([]Value, len(items))}
		for i, it := range items {
			v, err := ev.eval(it)
			if err != nil {
				return err
			}
			o.vals[i] = v
		}
		if q.Having != nil {
			hv, err := ev.eval(q.Having)
			if err != nil {
				return err
			}
			t, err := filterTruth(hv)
			if err != nil {
				return err
			}
			if !t {
				return nil
			}
		}
		for _, oe := range orderX {
			v, err := ev.eval(oe)
			if err != nil {
				return err
			}
			o.order = append(o.order, v)
		}
		if len(limitByX) > 0 {
			var sb strings.Builder
			for _, le := range limitByX {
				v, err := ev.eval(le)
				if err != nil {
					return err
				}
				writeKey(&sb, v)
			}
			o.lby = sb.String()
		}
		outs = append(outs, o)
		return nil
	}

	if agg {
		// group rows; output order = first appearance of the group (deterministic choice)
		type group struct {
			keys []Value
			rows [][]Value
		}
		var groups []*group
		index := map[string]*group{}
		for _, r := range rows {
			keys := make([]Value, len(groupX))
			var sb strings.Builder
			for i, g := range groupX {
				v, err := sc.newEnv(r.vals).eval(g)
				if err != nil {
					return nil, err
				}
				keys[i] = v
				writeKey(&sb, v)
			}
			k := sb.String()
			g := index[k]
			if g == nil {
				g = &group{keys: keys}
				index[k] = g
				groups = append(groups, g)
			}
			g.rows = append(g.rows, r.vals)
		}
		// rule A10: no GROUP BY → exactly one group even over empty input; with GROUP BY and empty
		// input → no row.
		if len(groupX) == 0 && len(groups) == 0 {
			groups = append(groups, &group{})
		}
		keyCanon := sc.keyCanon
		for _, g := range groups {
			ev := sc.newEnv(nil)
			ev.group = &groupCtx{rows: g.rows, keyCanon: keyCanon, keyVals: g.keys}
			if err := evalOut(ev); err != nil {
				return nil, err
			}
		}
	} else {
		for _, r := range rows {
			if sc.arrayJoinKey == "" {
				if err := evalOut(sc.newEnv(r.vals)); err != nil {
					return nil, err
				}
				continue
			}
			// arrayJoin(arr) in the select list multiplies the row (identical calls share the expansion)
			av, err := sc.newEnv(r.vals).eval(sc.arrayJoinArg())
			if err != nil {
				return nil, err
			}
			arr, ok := av.(Array)
			if !ok {
				if m, isMap := av.(*Map); isMap {
					arr = mapAsArray(m)
				} else {
					return nil, raise("ILLEGAL_TYPE_OF_ARGUMENT", "arrayJoin requires an array, got %s", typeOfValue(av))
				}
			}
			for _, el := range arr {
				ev := sc.newEnv(r.vals)
				ev.arrayJoinVal, ev.hasArrayJoin = el, true
				if err := evalOut(ev); err != nil {
					return nil, err
				}
			}
		}
	}

	// DISTINCT is applied before ORDER BY and LIMIT; the first row of each class survives
	// (which one ClickHouse keeps is unspecified when ORDER BY uses non-selected columns).
	if q.Distinct {
		seen := map[string]bool{}
		kept := outs[:0:0]
		for _, o := range outs {
			k := keyOf(Tuple(o.vals))
			if !seen[k] {
				seen[k] = true
				kept = append(kept, o)
			}
		}
		outs = kept
	}

	// ORDER BY: stable; NaN then NULL come last for both directions unless NULLS FIRST (rule A18 note:
	// tie order is unspecified in ClickHouse; here ties keep their input order).
	if len(q.OrderBy) > 0 {
		var sortErr error
		sort.SliceStable(outs, func(a, b int) bool {
			for i, oi := range q.OrderBy {
				c, err := orderCompare(outs[a].order[i], outs[b].order[i], oi)
				if err != nil {
					sortErr = err
					return false
				}
				if c != 0 {
					return c < 0
				}
			}
			return false
		})
		if sortErr != nil {
			return nil, sortErr
		}
	}

	// LIMIT n [OFFSET m] BY cols
	if len(limitByX) > 0 {
		n, err := sc.constUint(q.LimitByN, "LIMIT BY")
		if err != nil {
			return nil, err
		}
		off := uint64(0)
		if q.LimitByOffset != nil {
			if off, err = sc.constUint(q.LimitByOffset, "LIMIT BY OFFSET"); err != nil {
				return nil, err
			}
		}
		cnt := map[string]uint64{}
		kept := outs[:0:0]
		for _, o := range outs {
			c := cnt[o.lby]
			cnt[o.lby] = c + 1
			if c >= off && c < off+n {
				kept = append(kept, o)
			}
		}
		outs = kept
	}

	// OFFSET / LIMIT
	if q.Offset != nil {
		off, err := sc.constUint(q.Offset, "OFFSET")
		if err != nil {
			return nil, err
		}
		if off >= uint64(len(outs)) {
			outs = nil
		} else {
			outs = outs[off:]
		}
	}
	if q.Limit != nil {
		n, err := sc.constUint(q.Limit, "LIMIT")
		if err != nil {
			return nil, err
		}
		if n < uint64(len(outs)) {
			outs = outs[:n]
		}
	}

	rel := &relation{cols: make([]relCol, len(items)), rows: make([][]Value, len(outs))}
	for i := range items {
		rel.cols[i] = relCol{name: names[i], typ: types[i]}
	}
	for i, o := range outs {
		rel.rows[i] = o.vals
	}
	if x.db.StrictTypes {
		for _, r := range rel.rows {
			for i, v := range r {
				if t := types[i]; t != nil && !Conforms(v, t) {
					return nil, fmt.Errorf("chsql internal: column %s inferred as %s but value is %s (%s)", names[i], t, Format(v), typeOfValue(v))
				}
			}
		}
	}
	return rel, nil
}

func orderCompare(a, b Value, oi *OrderItem) (int, error) {
	special := func(v Value) int { // 0 ordinary, 1 NaN, 2 NULL
		if isNull(v) {
			return 2
		}
		if f, ok := v.(float64); ok && f != f {
			return 1
		}
		return 0
	}
	sa, sb := special(a), special(b)
	if sa != 0 || sb != 0 {
		if sa == sb {
			return 0, nil
		}
		c := -1
		if sa > sb {
			c = 1
		}
		if oi.NullsFirst != nil && *oi.NullsFirst {
			c = -c
		}
		return c, nil
	}
	c, err := sortCompare(a, b)
	if err != nil {
		return 0, err
	}
	if oi.Desc {
		c = -c
	}
	return c, nil
}

func (sc *selectCtx) constUint(e Expr, what string) (uint64, error) {
	v, err := sc.newConstEnv().eval(e)
	if err != nil {
		return 0, err
	}
	k, u, i, _, _ := numInfo(v)
	switch k {
	case 'u':
		return u, nil
	case 'i':
		if i < 0 {
			return 0, unsupported("negative %s", what)
		}
		return uint64(i), nil
	}
	return 0, raise("INVALID_LIMIT_EXPRESSION", "%s must be a constant non-negative integer, got %s", what, Format(v))
}

// expandItems expands asterisks and names the result columns.
func (sc *selectCtx) expandItems() (items []Expr, names []string, err error) {
	for _, it := range sc.q.Items {
		if st, ok := it.(*Star); ok {
			if st.Qualifier != "" && !sc.quals[st.Qualifier] {
				return nil, nil, raise("UNKNOWN_IDENTIFIER", "unknown table qualifier %s in asterisk", st.Qualifier)
			}
			n := 0
			for i, c := range sc.frame.cols {
				if c.using {
					continue
				}
				if sc.q.From == nil {
					continue // SELECT * without FROM has no real columns besides dummy; keep CH behaviour simple
				}
				if st.Qualifier != "" {
					match := false
					for _, ql := range c.quals {
						if ql == st.Qualifier {
							match = true
						}
					}
					if !match {
						continue
					}
				}
				items = append(items, &colRef{idx: i})
				names = append(names, c.name)
				n++
			}
			if n == 0 && sc.q.From == nil {
				items = append(items, &colRef{idx: 0})
				names = append(names, "dummy")
			}
			continue
		}
		items = append(items, it)
		switch v := it.(type) {
		case *Aliased:
			names = append(names, v.Alias)
		case *Ident:
			names = append(names, v.Parts[len(v.Parts)-1])
		default:
			names = append(names, exprName(it))
		}
	}
	return items, names, nil
}

// colRef is an internal expression: direct reference to a frame column (from * expansion).
type colRef struct{ idx int }
