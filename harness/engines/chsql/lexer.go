package chsql

import (
	"fmt"
	"strings"
)

type tokKind int

const (
	tokEOF    tokKind = iota
	tokIdent          // bare identifier or keyword
	tokQIdent         // `quoted` or "quoted" identifier
	tokNumber
	tokString
	tokOp
)

type token struct {
	kind tokKind
	text string // identifier name (unquoted), decoded string literal, number text, operator
	pos  int
	end  int
	// afterDot: number token lexed in tuple-index position (digits only)
}

// SyntaxError is a statement ClickHouse's parser would reject; it is reported as a RaiseError
// with Rule "SYNTAX_ERROR".
func syntaxErr(pos int, format string, args ...any) error {
	return &RaiseError{Rule: "SYNTAX_ERROR", Msg: fmt.Sprintf("at byte %d: ", pos) + fmt.Sprintf(format, args...)}
}

func isIdentStart(c byte) bool {
	return c == '_' || c >= 'a' && c <= 'z' || c >= 'A' && c <= 'Z'
}

func isIdentChar(c byte) bool { return isIdentStart(c) || c >= '0' && c <= '9' }

func isDigit(c byte) bool { return c >= '0' && c <= '9' }

func isHexDigit(c byte) bool {
	return isDigit(c) || c >= 'a' && c <= 'f' || c >= 'A' && c <= 'F'
}

func hexVal(c byte) byte {
	switch {
	case c >= '0' && c <= '9':
		return c - '0'
	case c >= 'a' && c <= 'f':
		return c - 'a' + 10
	}
	return c - 'A' + 10
}

// decodeStringBody decodes the inside of a '…' literal starting at s[i] (just after the opening
// quote) and returns the decoded bytes and the index just after the closing quote.
//
// rule A1: \b \f \r \n \t \0 \a \v \xHH \\ \' (and \" \` \/ \= as ClickHouse's parseComplexEscapeSequence
// does: an escaped quote character or any of these maps to itself) are decoded; \N is kept as \N;
// any other \c stays as the two characters \c; ” inside a literal is one quote.
func decodeQuoted(s string, i int, quote byte) (string, int, error) {
	var sb strings.Builder
	for i < len(s) {
		c := s[i]
		if c == quote {
			if i+1 < len(s) && s[i+1] == quote {
				sb.WriteByte(quote)
				i += 2
				continue
			}
			return sb.String(), i + 1, nil
		}
		if c != '\\' {
			sb.WriteByte(c)
			i++
			continue
		}
		i++
		if i >= len(s) {
			return "", i, syntaxErr(i, "unterminated escape sequence")
		}
		e := s[i]
		i++
		switch e {
		case 'b':
			sb.WriteByte('\b')
		case 'f':
			sb.WriteByte('\f')
		case 'r':
			sb.WriteByte('\r')
		case 'n':
			sb.WriteByte('\n')
		case 't':
			sb.WriteByte('\t')
		case '0':
			sb.WriteByte(0)
		case 'a':
			sb.WriteByte('\a')
		case 'v':
			sb.WriteByte('\v')
		case 'e':
			sb.WriteByte(0x1b)
		case '\\', '\'', '"', '`', '/', '=':
			sb.WriteByte(e)
		case 'x':
			if i+1 < len(s) && isHexDigit(s[i]) && isHexDigit(s[i+1]) {
				sb.WriteByte(hexVal(s[i])<<4 | hexVal(s[i+1]))
				i += 2
			} else {
				return "", i, syntaxErr(i, "bad \\x escape in string literal")
			}
		default:
			sb.WriteByte('\\')
			sb.WriteByte(e)
		}
	}
	return "", i, syntaxErr(i, "unterminated quoted literal")
}

func lex(s string) ([]token, error) {
	var toks []token
	i := 0
	prevAllowsTupleIndex := func() bool {
		if len(toks) < 2 {
			return false
		}
		d := toks[len(toks)-1]
		if d.kind != tokOp || d.text != "." {
			return false
		}
		p := toks[len(toks)-2]
		if p.end != d.pos {
			return false
		}
		switch p.kind {
		case tokIdent, tokQIdent:
			return true
		case tokNumber:
			return true // x.1.2
		case tokOp:
			return p.text == ")" || p.text == "]"
		}
		return false
	}
	for i < len(s) {
		c := s[i]
		switch {
		case c == ' ' || c == '\t' || c == '\n' || c == '\r' || c == '\f' || c == '\v':
			i++
		case c == '-' && i+1 < len(s) && s[i+1] == '-':
			for i < len(s) && s[i] != '\n' {
				i++
			}
		case c == '/' && i+1 < len(s) && s[i+1] == '*':
			j := strings.Index(s[i+2:], "*/")
			if j < 0 {
				return nil, syntaxErr(i, "unterminated /* comment")
			}
			i += 2 + j + 2
		case c == '#' && (i+1 < len(s) && (s[i+1] == ' ' || s[i+1] == '!')):
			for i < len(s) && s[i] != '\n' {
				i++
			}
		case isIdentStart(c):
			st := i
			for i < len(s) && isIdentChar(s[i]) {
				i++
			}
			toks = append(toks, token{kind: tokIdent, text: s[st:i], pos: st, end: i})
		case c == '`' || c == '"':
			str, ni, err := decodeQuoted(s, i+1, c)
			if err != nil {
				return nil, err
			}
			if str == "" {
				return nil, syntaxErr(i, "empty quoted identifier")
			}
			toks = append(toks, token{kind: tokQIdent, text: str, pos: i, end: ni})
			i = ni
		case c == '\'':
			str, ni, err := decodeQuoted(s, i+1, '\'')
			if err != nil {
				return nil, err
			}
			toks = append(toks, token{kind: tokString, text: str, pos: i, end: ni})
			i = ni
		case isDigit(c) || c == '.' && i+1 < len(s) && isDigit(s[i+1]) && !(len(toks) > 0 && toks[len(toks)-1].end == i && (toks[len(toks)-1].kind == tokIdent || toks[len(toks)-1].kind == tokQIdent || toks[len(toks)-1].kind == tokNumber || toks[len(toks)-1].text == ")" || toks[len(toks)-1].text == "]")):
			st := i
			if prevAllowsTupleIndex() {
				for i < len(s) && isDigit(s[i]) {
					i++
				}
				toks = append(toks, token{kind: tokNumber, text: s[st:i], pos: st, end: i})
				break
			}
			if c == '0' && i+1 < len(s) && (s[i+1] == 'x' || s[i+1] == 'X') && i+2 < len(s) && isHexDigit(s[i+2]) {
				i += 2
				for i < len(s) && isHexDigit(s[i]) {
					i++
				}
			} else {
				for i < len(s) && isDigit(s[i]) {
					i++
				}
				if i < len(s) && s[i] == '.' {
					i++
					for i < len(s) && isDigit(s[i]) {
						i++
					}
				}
				if i < len(s) && (s[i] == 'e' || s[i] == 'E') {
					j := i + 1
					if j < len(s) && (s[j] == '+' || s[j] == '-') {
						j++
					}
					if j < len(s) && isDigit(s[j]) {
						for j < len(s) && isDigit(s[j]) {
							j++
						}
						i = j
					}
				}
			}
			if i < len(s) && isIdentChar(s[i]) {
				return nil, syntaxErr(i, "bad number literal %q", s[st:i+1])
			}
			toks = append(toks, token{kind: tokNumber, text: s[st:i], pos: st, end: i})
		default:
			st := i
			two := ""
			if i+1 < len(s) {
				two = s[i : i+2]
			}
			switch two {
			case "==", "!=", "<>", "<=", ">=", "->", "::", "||":
				i += 2
				if two == "<=" && i < len(s) && s[i] == '>' {
					i++
				}
				toks = append(toks, token{kind: tokOp, text: s[st:i], pos: st, end: i})
				continue
			}
			switch c {
			case '(', ')', '[', ']', ',', '.', ';', '+', '-', '*', '/', '%', '=', '<', '>', '?', ':', '{', '}':
				i++
				toks = append(toks, token{kind: tokOp, text: string(c), pos: st, end: i})
			case '!':
				// ClickHouse's lexer: a lone '!' is ErrorSingleExclamationMark.
				return nil, syntaxErr(i, "single exclamation mark is not an operator")
			default:
				return nil, syntaxErr(i, "unexpected character %q", c)
			}
		}
	}
	toks = append(toks, token{kind: tokEOF, pos: len(s), end: len(s)})
	return toks, nil
}
