package chsql

import (
	"math"
	"strconv"
	"strings"
)

// Parse parses one statement. Syntax ClickHouse rejects yields *RaiseError{Rule:"SYNTAX_ERROR"};
// valid ClickHouse syntax outside the subset yields an error wrapping ErrUnsupported.
func Parse(sql string) (st *Statement, err error) {
	defer func() {
		if r := recover(); r != nil {
			st, err = nil, unsupported("internal parser error: %v", r)
		}
	}()
	return parse(sql)
}

func parse(sql string) (*Statement, error) {
	toks, err := lex(sql)
	if err != nil {
		return nil, err
	}
	p := &parser{toks: toks, src: sql}
	st := &Statement{SQL: sql}
	if p.isKw("EXPLAIN") || p.isKw("INSERT") || p.isKw("CREATE") || p.isKw("ALTER") || p.isKw("DROP") ||
		p.isKw("SHOW") || p.isKw("DESCRIBE") || p.isKw("DESC") || p.isKw("SET") || p.isKw("USE") ||
		p.isKw("OPTIMIZE") || p.isKw("TRUNCATE") || p.isKw("RENAME") || p.isKw("SYSTEM") || p.isKw("KILL") {
		return nil, unsupported("statement kind %s", strings.ToUpper(p.cur().text))
	}
	sel, err := p.parseSelectUnion()
	if err != nil {
		return nil, err
	}
	st.Select = sel
	if p.acceptKw("FORMAT") {
		t := p.cur()
		if t.kind != tokIdent {
			return nil, syntaxErr(t.pos, "expected format name")
		}
		st.Format = t.text
		p.i++
	}
	// a trailing SETTINGS after FORMAT is legal
	if p.isKw("SETTINGS") {
		if _, err := p.parseSettings(); err != nil {
			return nil, err
		}
	}
	p.acceptOp(";")
	if p.cur().kind != tokEOF {
		return nil, syntaxErr(p.cur().pos, "unexpected %q after end of statement", p.cur().text)
	}
	return st, nil
}

type parser struct {
	toks []token
	i    int
	src  string
}

func (p *parser) cur() token { return p.toks[p.i] }
func (p *parser) peek(n int) token {
	if p.i+n < len(p.toks) {
		return p.toks[p.i+n]
	}
	return p.toks[len(p.toks)-1]
}

func (p *parser) isKwAt(n int, kw string) bool {
	t := p.peek(n)
	return t.kind == tokIdent && strings.EqualFold(t.text, kw)
}
func (p *parser) isKw(kw string) bool { return p.isKwAt(0, kw) }
func (p *parser) acceptKw(kw string) bool {
	if p.isKw(kw) {
		p.i++
		return true
	}
	return false
}
func (p *parser) expectKw(kw string) error {
	if !p.acceptKw(kw) {
		return syntaxErr(p.cur().pos, "expected %s, found %q", kw, p.cur().text)
	}
	return nil
}
func (p *parser) isOpAt(n int, op string) bool {
	t := p.peek(n)
	return t.kind == tokOp && t.text == op
}
func (p *parser) isOp(op string) bool { return p.isOpAt(0, op) }
func (p *parser) acceptOp(op string) bool {
	if p.isOp(op) {
		p.i++
		return true
	}
	return false
}
func (p *parser) expectOp(op string) error {
	if !p.acceptOp(op) {
		return syntaxErr(p.cur().pos, "expected %q, found %q", op, p.cur().text)
	}
	return nil
}

// reserved words that cannot be a bare (AS-less) alias or start an expression element.
var reservedAfterExpr = map[string]bool{}

func init() {
	for _, k := range strings.Fields(`FROM PREWHERE WHERE GROUP HAVING ORDER LIMIT OFFSET UNION INTERSECT EXCEPT SETTINGS FORMAT
		ARRAY LEFT RIGHT INNER FULL CROSS JOIN GLOBAL ANY ALL ASOF SEMI ANTI ON USING FINAL SAMPLE WITH WINDOW QUALIFY INTO
		AS AND OR NOT IN LIKE ILIKE BETWEEN IS ASC DESC NULLS BY THEN ELSE END WHEN TOTALS FETCH INTERPOLATE DIV MOD SELECT`) {
		reservedAfterExpr[k] = true
	}
}

func (p *parser) identName() (string, bool) {
	t := p.cur()
	if t.kind == tokQIdent {
		p.i++
		return t.text, true
	}
	if t.kind == tokIdent {
		p.i++
		return t.text, true
	}
	return "", false
}

// ---- selects -------------------------------------------------------------------------------

// parseSelectUnion: UNION ALL / EXCEPT level (lowest), left-associative.
func (p *parser) parseSelectUnion() (SelectNode, error) {
	left, err := p.parseSelectIntersect()
	if err != nil {
		return nil, err
	}
	for {
		switch {
		case p.isKw("UNION"):
			p.i++
			op := ""
			switch {
			case p.acceptKw("ALL"):
				op = "UNION ALL"
			case p.acceptKw("DISTINCT"):
				op = "UNION DISTINCT"
			default:
				// union_default_mode = '' → "Expected ALL or DISTINCT in SelectWithUnion query"
				return nil, raise("EXPECTED_ALL_OR_DISTINCT", "UNION without ALL or DISTINCT (union_default_mode is empty)")
			}
			right, err := p.parseSelectIntersect()
			if err != nil {
				return nil, err
			}
			left = &SetOp{Op: op, Left: left, Right: right}
		case p.isKw("EXCEPT"):
			p.i++
			if p.acceptKw("DISTINCT") {
				return nil, unsupported("EXCEPT DISTINCT")
			}
			p.acceptKw("ALL")
			right, err := p.parseSelectIntersect()
			if err != nil {
				return nil, err
			}
			left = &SetOp{Op: "EXCEPT", Left: left, Right: right}
		default:
			return left, nil
		}
	}
}

// rule A8 (precedence half): INTERSECT binds tighter than UNION ALL / EXCEPT.
func (p *parser) parseSelectIntersect() (SelectNode, error) {
	left, err := p.parseSelectArm()
	if err != nil {
		return nil, err
	}
	for p.isKw("INTERSECT") {
		p.i++
		if p.acceptKw("DISTINCT") {
			return nil, unsupported("INTERSECT DISTINCT")
		}
		p.acceptKw("ALL")
		right, err := p.parseSelectArm()
		if err != nil {
			return nil, err
		}
		left = &SetOp{Op: "INTERSECT", Left: left, Right: right}
	}
	return left, nil
}

func (p *parser) parseSelectArm() (SelectNode, error) {
	if p.isOp("(") {
		p.i++
		n, err := p.parseSelectUnion()
		if err != nil {
			return nil, err
		}
		if err := p.expectOp(")"); err != nil {
			return nil, err
		}
		return n, nil
	}
	return p.parseSelectQuery()
}

// startsSelect reports whether the tokens at offset n (after any number of '(') start a select.
func (p *parser) startsSelectAt(n int) bool {
	for p.isOpAt(n, "(") {
		n++
	}
	return p.isKwAt(n, "SELECT") || p.isKwAt(n, "WITH")
}

func (p *parser) parseSelectQuery() (*SelectQuery, error) {
	q := &SelectQuery{}
	if p.acceptKw("WITH") {
		for {
			item, err := p.parseWithItem()
			if err != nil {
				return nil, err
			}
			q.With = append(q.With, item)
			if !p.acceptOp(",") {
				break
			}
		}
	}
	if err := p.expectKw("SELECT"); err != nil {
		return nil, err
	}
	if p.acceptKw("DISTINCT") {
		q.Distinct = true
		if p.isKw("ON") {
			return nil, unsupported("DISTINCT ON")
		}
	} else {
		p.acceptKw("ALL")
	}
	if p.isKw("TOP") {
		return nil, unsupported("TOP")
	}
	for {
		e, err := p.parseAliasedExpr(true)
		if err != nil {
			return nil, err
		}
		q.Items = append(q.Items, e)
		if !p.acceptOp(",") {
			break
		}
	}
	if p.acceptKw("FROM") {
		te, err := p.parseTableExpr()
		if err != nil {
			return nil, err
		}
		q.From = te
		for {
			j, ok, err := p.parseJoin()
			if err != nil {
				return nil, err
			}
			if !ok {
				break
			}
			q.Joins = append(q.Joins, j)
		}
		if p.isOp(",") {
			return nil, unsupported("comma (cross) join")
		}
	}
	var err error
	if p.acceptKw("PREWHERE") {
		if q.Prewhere, err = p.parseAliasedExpr(false); err != nil {
			return nil, err
		}
	}
	if p.acceptKw("WHERE") {
		if q.Where, err = p.parseAliasedExpr(false); err != nil {
			return nil, err
		}
	}
	if p.isKw("GROUP") {
		p.i++
		if err := p.expectKw("BY"); err != nil {
			return nil, err
		}
		if p.isKw("ALL") && !p.isOpAt(1, "(") {
			return nil, unsupported("GROUP BY ALL")
		}
		if p.isKw("ROLLUP") || p.isKw("CUBE") || p.isKw("GROUPING") {
			return nil, unsupported("GROUP BY modifiers")
		}
		for {
			e, err := p.parseAliasedExpr(false)
			if err != nil {
				return nil, err
			}
			q.GroupBy = append(q.GroupBy, e)
			if !p.acceptOp(",") {
				break
			}
		}
		if p.isKw("WITH") && (p.isKwAt(1, "TOTALS") || p.isKwAt(1, "ROLLUP") || p.isKwAt(1, "CUBE")) {
			return nil, unsupported("WITH TOTALS/ROLLUP/CUBE")
		}
	}
	if p.acceptKw("HAVING") {
		if q.Having, err = p.parseAliasedExpr(false); err != nil {
			return nil, err
		}
	}
	if p.isKw("WINDOW") || p.isKw("QUALIFY") {
		return nil, unsupported("WINDOW/QUALIFY")
	}
	if p.isKw("ORDER") {
		p.i++
		if err := p.expectKw("BY"); err != nil {
			return nil, err
		}
		for {
			e, err := p.parseAliasedExpr(false)
			if err != nil {
				return nil, err
			}
			it := &OrderItem{X: e}
			if p.acceptKw("DESC") || p.acceptKw("DESCENDING") {
				it.Desc = true
			} else if p.acceptKw("ASC") || p.acceptKw("ASCENDING") {
			}
			if p.acceptKw("NULLS") {
				b := false
				if p.acceptKw("FIRST") {
					b = true
				} else if !p.acceptKw("LAST") {
					return nil, syntaxErr(p.cur().pos, "expected FIRST or LAST")
				}
				it.NullsFirst = &b
			}
			if p.isKw("COLLATE") || p.isKw("WITH") && p.isKwAt(1, "FILL") {
				return nil, unsupported("ORDER BY COLLATE / WITH FILL")
			}
			q.OrderBy = append(q.OrderBy, it)
			if !p.acceptOp(",") {
				break
			}
		}
	}
	// LIMIT n [OFFSET m] | LIMIT m, n | LIMIT n BY cols [LIMIT …] | OFFSET m
	for p.isKw("LIMIT") {
		p.i++
		first, err := p.parseExpr(0)
		if err != nil {
			return nil, err
		}
		var second Expr
		comma := false
		if p.acceptOp(",") {
			comma = true
			if second, err = p.parseExpr(0); err != nil {
				return nil, err
			}
		} else if p.isKw("OFFSET") {
			p.i++
			if second, err = p.parseExpr(0); err != nil {
				return nil, err
			}
		}
		if p.isKw("BY") {
			p.i++
			if q.LimitBy != nil || q.Limit != nil {
				return nil, syntaxErr(p.cur().pos, "misplaced LIMIT BY")
			}
			if comma {
				q.LimitByOffset, q.LimitByN = first, second
			} else {
				q.LimitByN, q.LimitByOffset = first, second
			}
			for {
				e, err := p.parseAliasedExpr(false)
				if err != nil {
					return nil, err
				}
				q.LimitBy = append(q.LimitBy, e)
				if !p.acceptOp(",") {
					break
				}
			}
			continue
		}
		if q.Limit != nil {
			return nil, syntaxErr(p.cur().pos, "duplicate LIMIT")
		}
		if comma {
			q.Offset, q.Limit = first, second
		} else {
			q.Limit, q.Offset = first, second
		}
		if p.isKw("WITH") && p.isKwAt(1, "TIES") {
			return nil, unsupported("LIMIT WITH TIES")
		}
		break
	}
	if p.isKw("OFFSET") && q.Offset == nil {
		p.i++
		if q.Offset, err = p.parseExpr(0); err != nil {
			return nil, err
		}
		if p.acceptKw("ROW") || p.acceptKw("ROWS") {
		}
		if p.isKw("FETCH") {
			return nil, unsupported("FETCH")
		}
	}
	if p.isKw("SETTINGS") {
		if q.Settings, err = p.parseSettings(); err != nil {
			return nil, err
		}
	}
	return q, nil
}

// parseSettings parses `SETTINGS k=v[,] k=v …`. qryn's builder separates settings by blanks
// instead of commas (which ClickHouse rejects when there are two or more); both are accepted here
// and the clause is ignored — the statement text is checked by other monitors.
func (p *parser) parseSettings() (map[string]string, error) {
	if err := p.expectKw("SETTINGS"); err != nil {
		return nil, err
	}
	res := map[string]string{}
	for {
		name, ok := p.identName()
		if !ok {
			return nil, syntaxErr(p.cur().pos, "expected setting name")
		}
		if err := p.expectOp("="); err != nil {
			return nil, err
		}
		t := p.cur()
		switch t.kind {
		case tokNumber, tokString, tokIdent:
			res[name] = t.text
			p.i++
		case tokOp:
			if t.text == "-" && p.peek(1).kind == tokNumber {
				res[name] = "-" + p.peek(1).text
				p.i += 2
			} else {
				return nil, syntaxErr(t.pos, "bad setting value")
			}
		default:
			return nil, syntaxErr(t.pos, "bad setting value")
		}
		if p.acceptOp(",") {
			continue
		}
		// blank-separated continuation: ident '='
		if (p.cur().kind == tokIdent || p.cur().kind == tokQIdent) && p.isOpAt(1, "=") {
			continue
		}
		return res, nil
	}
}

func (p *parser) parseWithItem() (*WithItem, error) {
	// name AS (select)
	if (p.cur().kind == tokIdent || p.cur().kind == tokQIdent) && p.isKwAt(1, "AS") && p.isOpAt(2, "(") && p.startsSelectAt(2) {
		name, _ := p.identName()
		p.i++ // AS
		sel, err := p.parseSelectArm()
		if err != nil {
			return nil, err
		}
		return &WithItem{Name: name, Sel: sel}, nil
	}
	// expr AS name
	e, err := p.parseExpr(0)
	if err != nil {
		return nil, err
	}
	if err := p.expectKw("AS"); err != nil {
		return nil, err
	}
	name, ok := p.identName()
	if !ok {
		return nil, syntaxErr(p.cur().pos, "expected alias in WITH")
	}
	return &WithItem{Name: name, X: e}, nil
}

func (p *parser) parseTableExpr() (*TableExpr, error) {
	te := &TableExpr{}
	switch {
	case p.isOp("("):
		if !p.startsSelectAt(0) {
			return nil, syntaxErr(p.cur().pos, "expected sub-select in FROM")
		}
		sel, err := p.parseSelectArm()
		if err != nil {
			return nil, err
		}
		te.Sel = sel
	default:
		name, ok := p.identName()
		if !ok {
			return nil, syntaxErr(p.cur().pos, "expected table name, found %q", p.cur().text)
		}
		if p.isOp("(") {
			// table function
			p.i++
			f := &Func{Name: name}
			if !p.isOp(")") {
				for {
					a, err := p.parseAliasedExpr(false)
					if err != nil {
						return nil, err
					}
					f.Args = append(f.Args, a)
					if !p.acceptOp(",") {
						break
					}
				}
			}
			if err := p.expectOp(")"); err != nil {
				return nil, err
			}
			te.Func = f
		} else if p.isOp(".") {
			p.i++
			tbl, ok := p.identName()
			if !ok {
				return nil, syntaxErr(p.cur().pos, "expected table name after '.'")
			}
			te.DB, te.Name = name, tbl
		} else {
			te.Name = name
		}
	}
	if p.acceptKw("FINAL") {
		te.Final = true
	}
	if p.acceptKw("AS") {
		a, ok := p.identName()
		if !ok {
			return nil, syntaxErr(p.cur().pos, "expected alias")
		}
		te.Alias = a
	} else if t := p.cur(); t.kind == tokQIdent || t.kind == tokIdent && !reservedAfterExpr[strings.ToUpper(t.text)] {
		te.Alias = t.text
		p.i++
	}
	if p.acceptKw("FINAL") {
		te.Final = true
	}
	if p.isKw("SAMPLE") {
		return nil, unsupported("SAMPLE")
	}
	return te, nil
}

func (p *parser) parseJoin() (*JoinClause, bool, error) {
	start := p.i
	j := &JoinClause{}
	// [LEFT] ARRAY JOIN
	if p.isKw("ARRAY") && p.isKwAt(1, "JOIN") || p.isKw("LEFT") && p.isKwAt(1, "ARRAY") && p.isKwAt(2, "JOIN") {
		if p.acceptKw("LEFT") {
			j.ArrayLeft = true
		}
		p.i += 2
		j.Array = true
		for {
			e, err := p.parseAliasedExpr(true)
			if err != nil {
				return nil, false, err
			}
			j.ArrayExprs = append(j.ArrayExprs, e)
			if !p.acceptOp(",") {
				break
			}
		}
		return j, true, nil
	}
	if p.acceptKw("GLOBAL") {
		j.Global = true
	}
	seen := false
	for {
		t := p.cur()
		if t.kind != tokIdent {
			break
		}
		u := strings.ToUpper(t.text)
		switch u {
		case "ANY", "ALL", "SEMI", "ANTI", "ASOF":
			if j.Strictness != "" {
				return nil, false, syntaxErr(t.pos, "duplicate join strictness")
			}
			j.Strictness = u
		case "INNER", "LEFT", "RIGHT", "FULL", "CROSS":
			if j.Kind != "" {
				return nil, false, syntaxErr(t.pos, "duplicate join kind")
			}
			j.Kind = u
		case "OUTER":
		default:
			goto done
		}
		seen = true
		p.i++
	}
done:
	if !p.isKw("JOIN") {
		if seen || j.Global {
			if p.i == start {
				return nil, false, nil
			}
			return nil, false, syntaxErr(p.cur().pos, "expected JOIN")
		}
		return nil, false, nil
	}
	p.i++
	if j.Kind == "" {
		j.Kind = "INNER"
	}
	te, err := p.parseTableExpr()
	if err != nil {
		return nil, false, err
	}
	j.Table = te
	if p.acceptKw("ON") {
		if j.On, err = p.parseExpr(0); err != nil {
			return nil, false, err
		}
	} else if p.acceptKw("USING") {
		paren := p.acceptOp("(")
		for {
			n, ok := p.identName()
			if !ok {
				return nil, false, syntaxErr(p.cur().pos, "expected column in USING")
			}
			j.Using = append(j.Using, n)
			if !p.acceptOp(",") {
				break
			}
		}
		if paren {
			if err := p.expectOp(")"); err != nil {
				return nil, false, err
			}
		}
	} else if j.Kind != "CROSS" {
		return nil, false, syntaxErr(p.cur().pos, "expected ON or USING")
	}
	return j, true, nil
}

// ---- expressions ---------------------------------------------------------------------------

// parseAliasedExpr parses one list element: expr [AS alias] (or a bare alias where allowed).
func (p *parser) parseAliasedExpr(allowBare bool) (Expr, error) {
	e, err := p.parseExpr(0)
	if err != nil {
		return nil, err
	}
	return p.parseOptAlias(e, allowBare)
}

func (p *parser) parseOptAlias(e Expr, allowBare bool) (Expr, error) {
	if p.isKw("AS") {
		p.i++
		a, ok := p.identName()
		if !ok {
			return nil, syntaxErr(p.cur().pos, "expected alias after AS")
		}
		if _, isStar := e.(*Star); isStar {
			return nil, syntaxErr(p.cur().pos, "alias on asterisk")
		}
		return &Aliased{X: e, Alias: a}, nil
	}
	if allowBare {
		t := p.cur()
		if t.kind == tokQIdent || t.kind == tokIdent && !reservedAfterExpr[strings.ToUpper(t.text)] {
			if _, isStar := e.(*Star); !isStar {
				p.i++
				return &Aliased{X: e, Alias: t.text}, nil
			}
		}
	}
	return e, nil
}

// Operator priorities follow ClickHouse's ParserExpression operator table:
// lambda 1, ternary 2, OR 3, AND 4, NOT 5, BETWEEN 6, IS [NOT] NULL 8, comparison/LIKE/IN 9,
// || 10, + - 11, * / % 12, unary minus 13, '.' '::' '[]' 14.
const (
	prTernary = 2
	prOr      = 3
	prAnd     = 4
	prNot     = 5
	prBetween = 6
	prIsNull  = 8
	prCmp     = 9
	prConcat  = 10
	prAdd     = 11
	prMul     = 12
	prNeg     = 13
)

func bin(name string, a, b Expr) *Func { return &Func{Name: name, Args: []Expr{a, b}} }

func (p *parser) parseExpr(minPr int) (Expr, error) {
	left, err := p.parseUnary(minPr)
	if err != nil {
		return nil, err
	}
	for {
		t := p.cur()
		var name string
		pr := 0
		adv := 1
		if t.kind == tokOp {
			switch t.text {
			case "+":
				name, pr = "plus", prAdd
			case "-":
				name, pr = "minus", prAdd
			case "*":
				name, pr = "multiply", prMul
			case "/":
				name, pr = "divide", prMul
			case "%":
				name, pr = "modulo", prMul
			case "||":
				name, pr = "concat", prConcat
			case "=", "==":
				name, pr = "equals", prCmp
			case "!=", "<>":
				name, pr = "notEquals", prCmp
			case "<":
				name, pr = "less", prCmp
			case "<=":
				name, pr = "lessOrEquals", prCmp
			case ">":
				name, pr = "greater", prCmp
			case ">=":
				name, pr = "greaterOrEquals", prCmp
			case "<=>":
				return nil, unsupported("<=> operator")
			case "?":
				if prTernary < minPr {
					return left, nil
				}
				p.i++
				a, err := p.parseExpr(prTernary + 1)
				if err != nil {
					return nil, err
				}
				if err := p.expectOp(":"); err != nil {
					return nil, err
				}
				b, err := p.parseExpr(prTernary)
				if err != nil {
					return nil, err
				}
				left = &Func{Name: "if", Args: []Expr{left, a, b}}
				continue
			}
		} else if t.kind == tokIdent {
			switch strings.ToUpper(t.text) {
			case "AND":
				name, pr = "and", prAnd
			case "OR":
				name, pr = "or", prOr
			case "DIV":
				name, pr = "intDiv", prMul
			case "MOD":
				name, pr = "modulo", prMul
			case "LIKE":
				name, pr = "like", prCmp
			case "ILIKE":
				name, pr = "ilike", prCmp
			case "IN":
				name, pr = "in", prCmp
			case "GLOBAL":
				if p.isKwAt(1, "IN") {
					name, pr, adv = "globalIn", prCmp, 2
				} else if p.isKwAt(1, "NOT") && p.isKwAt(2, "IN") {
					name, pr, adv = "globalNotIn", prCmp, 3
				}
			case "NOT":
				switch {
				case p.isKwAt(1, "LIKE"):
					name, pr, adv = "notLike", prCmp, 2
				case p.isKwAt(1, "ILIKE"):
					name, pr, adv = "notILike", prCmp, 2
				case p.isKwAt(1, "IN"):
					name, pr, adv = "notIn", prCmp, 2
				case p.isKwAt(1, "BETWEEN"):
					name, pr, adv = "notBetween", prBetween, 2
				}
			case "BETWEEN":
				name, pr = "between", prBetween
			case "IS":
				if prIsNull < minPr {
					return left, nil
				}
				if p.isKwAt(1, "NULL") {
					p.i += 2
					left = &Func{Name: "isNull", Args: []Expr{left}}
					continue
				}
				if p.isKwAt(1, "NOT") && p.isKwAt(2, "NULL") {
					p.i += 3
					left = &Func{Name: "isNotNull", Args: []Expr{left}}
					continue
				}
				return nil, unsupported("IS [NOT] DISTINCT FROM")
			}
		}
		if name == "" || pr < minPr {
			return left, nil
		}
		p.i += adv
		if name == "between" || name == "notBetween" {
			lo, err := p.parseExpr(prBetween + 1)
			if err != nil {
				return nil, err
			}
			if err := p.expectKw("AND"); err != nil {
				return nil, err
			}
			hi, err := p.parseExpr(prBetween + 1)
			if err != nil {
				return nil, err
			}
			if name == "between" {
				left = bin("and", bin("greaterOrEquals", left, lo), bin("lessOrEquals", left, hi))
			} else {
				left = bin("or", bin("less", left, lo), bin("greater", left, hi))
			}
			continue
		}
		right, err := p.parseExpr(pr + 1)
		if err != nil {
			return nil, err
		}
		// and/or chains are flattened like ClickHouse's "mergeable" operators
		left = bin(name, left, right)
	}
}

func isFuncNamed(e Expr, name string) bool {
	f, ok := e.(*Func)
	return ok && f.Name == name
}

func (p *parser) parseUnary(minPr int) (Expr, error) {
	t := p.cur()
	// NOT is always the prefix operator (priority 5): `NOT (a) = b` is NOT((a) = b), as in ClickHouse.
	if t.kind == tokIdent && strings.EqualFold(t.text, "NOT") {
		p.i++
		x, err := p.parseExpr(prNot)
		if err != nil {
			return nil, err
		}
		return &Func{Name: "not", Args: []Expr{x}}, nil
	}
	if t.kind == tokOp && t.text == "-" {
		p.i++
		// negative numeric literal (ClickHouse's ParserNumber consumes the sign)
		if n := p.cur(); n.kind == tokNumber && n.pos == t.end {
			lit, err := parseNumber(n, true)
			if err != nil {
				return nil, err
			}
			p.i++
			return p.parsePostfix(lit)
		}
		x, err := p.parseExpr(prNeg)
		if err != nil {
			return nil, err
		}
		return &Func{Name: "negate", Args: []Expr{x}}, nil
	}
	if t.kind == tokOp && t.text == "+" {
		p.i++
		return p.parseExpr(prNeg)
	}
	prim, err := p.parsePrimary()
	if err != nil {
		return nil, err
	}
	return p.parsePostfix(prim)
}

func parseNumber(t token, neg bool) (*Literal, error) {
	s := t.text
	if strings.HasPrefix(s, "0x") || strings.HasPrefix(s, "0X") {
		u, err := strconv.ParseUint(s[2:], 16, 64)
		if err != nil {
			return nil, unsupported("hex literal %s", s)
		}
		if neg {
			if u > 1<<63 {
				return &Literal{Val: -float64(u)}, nil
			}
			return &Literal{Val: smallestInt(-int64(u))}, nil
		}
		return &Literal{Val: smallestUInt(u)}, nil
	}
	if !strings.ContainsAny(s, ".eE") {
		// rule A4: integer literals get the smallest type that holds them
		u, err := strconv.ParseUint(s, 10, 64)
		if err == nil {
			if !neg {
				return &Literal{Val: smallestUInt(u)}, nil
			}
			if u <= 1<<63 {
				return &Literal{Val: smallestInt(-int64(u))}, nil // -(1<<63) wraps correctly
			}
		}
		// too large for 64 bits → Float64
	}
	f, err := strconv.ParseFloat(s, 64)
	if err != nil {
		if ne, ok := err.(*strconv.NumError); !ok || ne.Err != strconv.ErrRange {
			return nil, syntaxErr(t.pos, "bad number %q", s)
		}
	}
	if neg {
		f = -f
	}
	return &Literal{Val: f}, nil
}

func (p *parser) parsePostfix(e Expr) (Expr, error) {
	for {
		switch {
		case p.isOp("["):
			p.i++
			idx, err := p.parseAliasedExpr(false)
			if err != nil {
				return nil, err
			}
			if err := p.expectOp("]"); err != nil {
				return nil, err
			}
			e = bin("arrayElement", e, idx)
		case p.isOp(".") && p.peek(1).kind == tokNumber:
			n, err := strconv.ParseUint(p.peek(1).text, 10, 64)
			if err != nil {
				return nil, syntaxErr(p.cur().pos, "bad tuple index")
			}
			p.i += 2
			e = bin("tupleElement", e, intLiteral(n))
		case p.isOp(".") && (p.peek(1).kind == tokIdent || p.peek(1).kind == tokQIdent):
			// compound identifier continuation is handled in parsePrimary; here it would be a
			// named tuple element / JSON path on a non-identifier
			return nil, unsupported("named tuple element access")
		case p.isOp("::"):
			p.i++
			tn, err := p.parseTypeName()
			if err != nil {
				return nil, err
			}
			e = &Func{Name: "CAST", Args: []Expr{e, &Literal{Val: tn}}}
		default:
			return e, nil
		}
	}
}

// parseTypeName consumes a type name (identifier with optional balanced parenthesised arguments)
// and returns its source text.
func (p *parser) parseTypeName() (string, error) {
	t := p.cur()
	if t.kind != tokIdent {
		return "", syntaxErr(t.pos, "expected type name")
	}
	st := t.pos
	end := t.end
	p.i++
	if p.isOp("(") {
		depth := 0
		for {
			c := p.cur()
			if c.kind == tokEOF {
				return "", syntaxErr(c.pos, "unterminated type name")
			}
			if c.kind == tokOp && c.text == "(" {
				depth++
			}
			if c.kind == tokOp && c.text == ")" {
				depth--
			}
			end = c.end
			p.i++
			if depth == 0 {
				break
			}
		}
	}
	return p.src[st:end], nil
}

var intervalUnits = map[string]string{
	"second": "second", "seconds": "second", "minute": "minute", "minutes": "minute", "hour": "hour", "hours": "hour",
	"day": "day", "days": "day", "week": "week", "weeks": "week", "month": "month", "months": "month",
	"quarter": "quarter", "quarters": "quarter", "year": "year", "years": "year",
}

func (p *parser) parsePrimary() (Expr, error) {
	t := p.cur()
	switch t.kind {
	case tokNumber:
		p.i++
		return parseNumber(t, false)
	case tokString:
		p.i++
		return &Literal{Val: t.text}, nil
	case tokOp:
		switch t.text {
		case "(":
			return p.parseParen()
		case "[":
			p.i++
			f := &Func{Name: "array"}
			if !p.isOp("]") {
				for {
					e, err := p.parseAliasedExpr(false)
					if err != nil {
						return nil, err
					}
					f.Args = append(f.Args, e)
					if !p.acceptOp(",") {
						break
					}
				}
			}
			if err := p.expectOp("]"); err != nil {
				return nil, err
			}
			return f, nil
		case "*":
			p.i++
			return &Star{}, nil
		case "{":
			return nil, unsupported("query parameters / map literals")
		}
		return nil, syntaxErr(t.pos, "unexpected %q", t.text)
	case tokEOF:
		return nil, syntaxErr(t.pos, "unexpected end of statement")
	}
	// identifier / keyword
	if t.kind == tokIdent {
		up := strings.ToUpper(t.text)
		switch up {
		case "NULL":
			if !p.isOpAt(1, "(") {
				p.i++
				return &Literal{Val: Null{}}, nil
			}
		case "TRUE", "FALSE":
			if !p.isOpAt(1, "(") && !p.isOpAt(1, ".") {
				p.i++
				if up == "TRUE" {
					return &Literal{Val: uint8(1)}, nil
				}
				return &Literal{Val: uint8(0)}, nil
			}
		case "NAN", "INF":
			// ClickHouse's number parser accepts nan / inf (any case) as Float64 literals
			if !p.isOpAt(1, "(") && !p.isOpAt(1, ".") {
				p.i++
				if up == "NAN" {
					return &Literal{Val: math.NaN()}, nil
				}
				return &Literal{Val: math.Inf(1)}, nil
			}
		case "SELECT", "WITH", "FROM", "WHERE":
			return nil, syntaxErr(t.pos, "unexpected keyword %s", up)
		case "CASE":
			if !p.isOpAt(1, "(") {
				return p.parseCase()
			}
		case "CAST":
			if p.isOpAt(1, "(") {
				return p.parseCastFunc()
			}
		case "INTERVAL":
			if !p.isOpAt(1, "(") && !p.isOpAt(1, ".") && !p.isOpAt(1, ",") && !p.isOpAt(1, ")") {
				return p.parseInterval()
			}
		case "EXTRACT", "SUBSTRING", "TRIM", "POSITION":
			// SQL-standard special syntaxes (EXTRACT(x FROM y), TRIM(BOTH …)) are not emitted by the planners;
			// ordinary call syntax falls through to the generic path below.
		case "DATE", "TIMESTAMP":
			if p.peek(1).kind == tokString {
				return nil, unsupported("DATE/TIMESTAMP literal operator")
			}
		case "EXISTS":
			if p.isOpAt(1, "(") && p.startsSelectAt(1) {
				return nil, unsupported("EXISTS")
			}
		}
	}
	// lambda: x -> body
	if p.isOpAt(1, "->") {
		name, _ := p.identName()
		p.i++
		body, err := p.parseExpr(0)
		if err != nil {
			return nil, err
		}
		return &Lambda{Params: []string{name}, Body: body}, nil
	}
	name, _ := p.identName()
	if p.isOp("(") && t.kind == tokIdent || p.isOp("(") && t.kind == tokQIdent {
		return p.parseCall(name)
	}
	id := &Ident{Parts: []string{name}}
	for p.isOp(".") {
		n := p.peek(1)
		if n.kind == tokIdent || n.kind == tokQIdent {
			p.i += 2
			id.Parts = append(id.Parts, n.text)
			continue
		}
		if n.kind == tokOp && n.text == "*" {
			if len(id.Parts) != 1 {
				return nil, unsupported("db.table.* asterisk")
			}
			p.i += 2
			return &Star{Qualifier: id.Parts[0]}, nil
		}
		break
	}
	if len(id.Parts) > 3 {
		return nil, unsupported("identifier with %d parts", len(id.Parts))
	}
	return id, nil
}

func (p *parser) parseParen() (Expr, error) {
	// '(' is current. A parenthesised select?
	if p.startsSelectAt(1) {
		save := p.i
		p.i++
		sel, err := p.parseSelectUnion()
		if err == nil && p.acceptOp(")") {
			return &Subquery{Sel: sel}, nil
		}
		direct := p.toks[save+1].kind == tokIdent
		if err == nil {
			err = syntaxErr(p.cur().pos, "expected ')' after sub-select, found %q", p.cur().text)
		}
		if direct {
			return nil, err
		}
		p.i = save // "((select …) + 1)": re-parse as an ordinary parenthesised expression
	}
	// lambda with parenthesised parameter list: (x, y) -> body
	if n, ok := p.lambdaParamsAhead(); ok {
		var params []string
		p.i++
		for !p.isOp(")") {
			name, _ := p.identName()
			params = append(params, name)
			p.acceptOp(",")
		}
		p.i = n // at "->"
		p.i++
		body, err := p.parseExpr(0)
		if err != nil {
			return nil, err
		}
		return &Lambda{Params: params, Body: body}, nil
	}
	open := p.cur()
	p.i++
	if p.isOp(")") {
		// "()" — the empty tuple (ClickHouse ≥ 23.x parses it as tuple())
		p.i++
		return &Func{Name: "tuple"}, nil
	}
	var elems []Expr
	trailingComma := false
	for {
		e, err := p.parseAliasedExpr(false)
		if err != nil {
			return nil, err
		}
		elems = append(elems, e)
		if p.acceptOp(",") {
			if p.isOp(")") {
				trailingComma = true
				break
			}
			continue
		}
		break
	}
	if !p.acceptOp(")") {
		return nil, syntaxErr(p.cur().pos, "expected ')' to match '(' at byte %d, found %q", open.pos, p.cur().text)
	}
	if len(elems) == 1 && !trailingComma {
		return elems[0], nil
	}
	return &Func{Name: "tuple", Args: elems}, nil
}

// lambdaParamsAhead checks for "( ident [, ident]* ) ->" and returns the index of "->".
func (p *parser) lambdaParamsAhead() (int, bool) {
	n := 1
	for {
		t := p.peek(n)
		if t.kind != tokIdent && t.kind != tokQIdent {
			return 0, false
		}
		n++
		if p.isOpAt(n, ",") {
			n++
			continue
		}
		if p.isOpAt(n, ")") {
			n++
			break
		}
		return 0, false
	}
	if p.isOpAt(n, "->") {
		return p.i + n, true
	}
	return 0, false
}

func (p *parser) parseArgs() ([]Expr, bool, error) {
	if err := p.expectOp("("); err != nil {
		return nil, false, err
	}
	var args []Expr
	distinct := false
	if p.isKw("DISTINCT") && !p.isOpAt(1, ",") && !p.isOpAt(1, ")") {
		p.i++
		distinct = true
	}
	if p.acceptOp(")") {
		return args, distinct, nil
	}
	for {
		e, err := p.parseAliasedExpr(false)
		if err != nil {
			return nil, false, err
		}
		args = append(args, e)
		if !p.acceptOp(",") {
			break
		}
	}
	if err := p.expectOp(")"); err != nil {
		return nil, false, err
	}
	return args, distinct, nil
}

func (p *parser) parseCall(name string) (Expr, error) {
	args, distinct, err := p.parseArgs()
	if err != nil {
		return nil, err
	}
	if strings.EqualFold(name, "count") && len(args) == 1 {
		if st, ok := args[0].(*Star); ok && st.Qualifier == "" {
			args = nil // count(*) is count()
		}
	}
	f := &Func{Name: name, Args: args, Distinct: distinct}
	if p.isOp("(") {
		// parametric aggregate: f(params)(args)
		args2, distinct2, err := p.parseArgs()
		if err != nil {
			return nil, err
		}
		f.Params, f.HasParams, f.Args, f.Distinct = args, true, args2, distinct2
	}
	if p.isKw("OVER") {
		return nil, unsupported("window functions")
	}
	if p.isKw("FILTER") && p.isOpAt(1, "(") {
		return nil, unsupported("FILTER clause")
	}
	// normalise the case-insensitive SQL-standard spellings that occur
	switch strings.ToLower(name) {
	case "count", "sum", "min", "max", "avg", "any", "lower", "upper", "length", "abs", "round", "floor", "ceil",
		"coalesce", "least", "greatest", "concat", "substring", "replace", "now", "if", "trim", "position", "hex", "unhex", "tuple", "array", "cast", "mod", "pow", "power", "sqrt", "exp", "ln", "log", "log2", "log10", "truncate", "trunc", "date":
		if ln := strings.ToLower(name); ln != name {
			f.Name = ln
		}
	}
	if f.Name == "cast" {
		f.Name = "CAST"
	}
	return f, nil
}

func (p *parser) parseCastFunc() (Expr, error) {
	p.i++ // CAST
	if err := p.expectOp("("); err != nil {
		return nil, err
	}
	x, err := p.parseExpr(0)
	if err != nil {
		return nil, err
	}
	// CAST(x AS T) | CAST(x, 'T') | CAST(x AS alias, 'T')
	if p.acceptKw("AS") {
		if p.cur().kind == tokIdent && !p.isOpAt(1, ",") {
			tn, err := p.parseTypeName()
			if err != nil {
				return nil, err
			}
			if err := p.expectOp(")"); err != nil {
				return nil, err
			}
			return &Func{Name: "CAST", Args: []Expr{x, &Literal{Val: tn}}}, nil
		}
		a, ok := p.identName()
		if !ok {
			return nil, syntaxErr(p.cur().pos, "bad CAST")
		}
		x = &Aliased{X: x, Alias: a}
	}
	if err := p.expectOp(","); err != nil {
		return nil, err
	}
	ty, err := p.parseAliasedExpr(false)
	if err != nil {
		return nil, err
	}
	if err := p.expectOp(")"); err != nil {
		return nil, err
	}
	return &Func{Name: "CAST", Args: []Expr{x, ty}}, nil
}

func (p *parser) parseCase() (Expr, error) {
	p.i++ // CASE
	var subject Expr
	var err error
	if !p.isKw("WHEN") {
		if subject, err = p.parseExpr(0); err != nil {
			return nil, err
		}
	}
	f := &Func{Name: "multiIf"}
	for p.acceptKw("WHEN") {
		c, err := p.parseExpr(0)
		if err != nil {
			return nil, err
		}
		if err := p.expectKw("THEN"); err != nil {
			return nil, err
		}
		v, err := p.parseExpr(0)
		if err != nil {
			return nil, err
		}
		if subject != nil {
			c = bin("equals", subject, c)
		}
		f.Args = append(f.Args, c, v)
	}
	if len(f.Args) == 0 {
		return nil, syntaxErr(p.cur().pos, "CASE without WHEN")
	}
	if p.acceptKw("ELSE") {
		v, err := p.parseExpr(0)
		if err != nil {
			return nil, err
		}
		f.Args = append(f.Args, v)
	} else {
		f.Args = append(f.Args, &Literal{Val: Null{}})
	}
	if err := p.expectKw("END"); err != nil {
		return nil, err
	}
	return f, nil
}

func (p *parser) parseInterval() (Expr, error) {
	p.i++ // INTERVAL
	if t := p.cur(); t.kind == tokString {
		// INTERVAL '1 day'
		fields := strings.Fields(t.text)
		if len(fields) == 2 {
			if u, ok := intervalUnits[strings.ToLower(fields[1])]; ok {
				n, err := strconv.ParseInt(fields[0], 10, 64)
				if err != nil {
					return nil, unsupported("INTERVAL %q", t.text)
				}
				p.i++
				return &Interval{X: &Literal{Val: smallestInt(n)}, Unit: u}, nil
			}
		}
		if len(fields) != 1 {
			return nil, unsupported("INTERVAL %q", t.text)
		}
	}
	x, err := p.parseExpr(prNeg)
	if err != nil {
		return nil, err
	}
	u := p.cur()
	if u.kind != tokIdent {
		return nil, syntaxErr(u.pos, "expected interval unit")
	}
	unit, ok := intervalUnits[strings.ToLower(u.text)]
	if !ok {
		return nil, unsupported("interval unit %s", u.text)
	}
	p.i++
	if lit, ok := x.(*Literal); ok {
		if s, ok := lit.Val.(string); ok {
			n, err := strconv.ParseInt(strings.TrimSpace(s), 10, 64)
			if err != nil {
				return nil, unsupported("INTERVAL %q", s)
			}
			x = &Literal{Val: smallestInt(n)}
		}
	}
	return &Interval{X: x, Unit: unit}, nil
}
