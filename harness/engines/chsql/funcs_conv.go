package chsql

import (
	"math"
	"strings"
	"time"
)

func toIntFn(name string) *fnDef {
	t := tSimple(name)
	return &fnDef{min: 1, max: 1, eval: func(c *callCtx, args []Value) (Value, error) {
		switch args[0].(type) {
		case Array, Tuple, *Map, intervalVal:
			return nil, illegalArg(c, 0, args[0])
		}
		return castValue(args[0], t)
	}, typ: func(tc *typeCall) (*Type, error) {
		if a := tc.args[0]; a != nil {
			switch a.Name {
			case "Array", "Tuple", "Map":
				return nil, raise("ILLEGAL_TYPE_OF_ARGUMENT", "illegal type %s of argument of function to%s", a, name)
			}
		}
		return t, nil
	}}
}

// rule A13: toFloat64OrNull / toFloat64OrZero take a String and use ClickHouse's float text grammar.
func orNullZeroFn(t *Type, parse func(string) (Value, bool), orNull bool) *fnDef {
	return &fnDef{min: 1, max: 1, eval: func(c *callCtx, args []Value) (Value, error) {
		s, ok := args[0].(string)
		if !ok {
			// "Illegal type … of first argument of function toFloat64OrNull. Conversion functions with postfix
			// 'OrZero' or 'OrNull' should take String argument"
			return nil, illegalArg(c, 0, args[0])
		}
		if v, ok := parse(s); ok {
			return v, nil
		}
		if orNull {
			return Null{}, nil
		}
		return DefaultOf(t)
	}, typ: func(tc *typeCall) (*Type, error) {
		if a := tc.args[0]; a != nil && !isStringType(a) {
			return nil, raise("ILLEGAL_TYPE_OF_ARGUMENT", "illegal type %s of first argument of function %s; conversion functions with postfix 'OrZero' or 'OrNull' should take String argument", a, tc.f.Name)
		}
		if orNull {
			return tNullable(t), nil
		}
		return t, nil
	}}
}

func parseIntText(signed bool, size int) func(string) (Value, bool) {
	return func(s string) (Value, bool) {
		v, err := parseIntStrict(s, signed, size, "")
		if err != nil {
			return nil, false
		}
		return v, true
	}
}

func unixToDate(sec int64) Date { return Date(floorDiv(sec, 86400)) }

func init() {
	for _, n := range []string{"UInt8", "UInt16", "UInt32", "UInt64", "Int8", "Int16", "Int32", "Int64"} {
		reg("to"+n, toIntFn(n))
		signed, size, _ := intTypeInfo(n)
		reg("to"+n+"OrNull", orNullZeroFn(tSimple(n), parseIntText(signed, size), true))
		reg("to"+n+"OrZero", orNullZeroFn(tSimple(n), parseIntText(signed, size), false))
	}
	fl := &fnDef{min: 1, max: 1, eval: func(c *callCtx, args []Value) (Value, error) {
		switch args[0].(type) {
		case Array, Tuple, *Map, intervalVal:
			return nil, illegalArg(c, 0, args[0])
		}
		return castValue(args[0], tFloat64)
	}, typ: func(tc *typeCall) (*Type, error) {
		if a := tc.args[0]; a != nil {
			switch a.Name {
			case "Array", "Tuple", "Map":
				return nil, raise("ILLEGAL_TYPE_OF_ARGUMENT", "illegal type %s of argument of function toFloat64", a)
			}
		}
		return tFloat64, nil
	}}
	reg("toFloat64", fl)
	reg("toFloat32", fl)
	pf := func(s string) (Value, bool) {
		f, ok := parseFloatText(s)
		if !ok {
			return nil, false
		}
		return f, true
	}
	reg("toFloat64OrNull", orNullZeroFn(tFloat64, pf, true))
	reg("toFloat64OrZero", orNullZeroFn(tFloat64, pf, false))
	reg("toFloat32OrNull", orNullZeroFn(tFloat64, pf, true))
	reg("toFloat32OrZero", orNullZeroFn(tFloat64, pf, false))

	reg("toString", &fnDef{min: 1, max: 2, eval: func(c *callCtx, args []Value) (Value, error) {
		if _, ok := args[0].(intervalVal); ok {
			return nil, illegalArg(c, 0, args[0])
		}
		return castValue(args[0], tString)
	}, typ: constType(tString)})

	// rule A17: toDate parses 'YYYY-MM-DD'; dates have no zone (server time zone = UTC).
	reg("toDate", &fnDef{min: 1, max: 2, eval: func(c *callCtx, args []Value) (Value, error) {
		return castValue(args[0], tDate)
	}, typ: constType(tDate)})
	funcs["DATE"] = funcs["toDate"]
	funcs["date"] = funcs["toDate"]
	reg("toDateTime", &fnDef{min: 1, max: 2, eval: func(c *callCtx, args []Value) (Value, error) {
		return castValue(args[0], tDateTime)
	}, typ: constType(tDateTime)})
	reg("toUnixTimestamp", &fnDef{min: 1, max: 2, eval: func(c *callCtx, args []Value) (Value, error) {
		switch x := args[0].(type) {
		case Date:
			return uint32(int64(x) * 86400), nil
		case DateTime:
			return uint32(int64(x)), nil
		case string:
			d, ok := parseDateTime(x)
			if !ok {
				return nil, raise("CANNOT_PARSE_DATETIME", "cannot parse %q as DateTime", x)
			}
			return uint32(int64(d)), nil
		}
		return nil, illegalArg(c, 0, args[0])
	}, typ: constType(tUInt32)})
	reg("toStartOfDay", &fnDef{min: 1, max: 2, eval: func(c *callCtx, args []Value) (Value, error) {
		switch x := args[0].(type) {
		case Date:
			return DateTime(int64(x) * 86400), nil
		case DateTime:
			return DateTime(floorDiv(int64(x), 86400) * 86400), nil
		}
		return nil, illegalArg(c, 0, args[0])
	}, typ: constType(tDateTime)})
	reg("now", &fnDef{min: 0, max: 1, eval: func(c *callCtx, args []Value) (Value, error) {
		return DateTime(c.db.now()), nil
	}, typ: constType(tDateTime)})
	funcs["NOW"] = funcs["now"]
	reg("today", &fnDef{min: 0, max: 0, eval: func(c *callCtx, args []Value) (Value, error) {
		return unixToDate(c.db.now()), nil
	}, typ: constType(tDate)})
	reg("toYYYYMMDD", &fnDef{min: 1, max: 2, eval: func(c *callCtx, args []Value) (Value, error) {
		var sec int64
		switch x := args[0].(type) {
		case Date:
			sec = int64(x) * 86400
		case DateTime:
			sec = int64(x)
		default:
			return nil, illegalArg(c, 0, args[0])
		}
		t := time.Unix(sec, 0).UTC()
		return uint32(t.Year()*10000 + int(t.Month())*100 + t.Day()), nil
	}, typ: constType(tUInt32)})

	reg("toTypeName", &fnDef{min: 1, max: 1, nulls: true, eval: func(c *callCtx, args []Value) (Value, error) {
		if t, err := c.ev.sc.typeOf(c.f.Args[0], c.ev.typeEnv()); err == nil && t != nil {
			return t.String(), nil
		}
		return typeOfValue(args[0]).String(), nil
	}, typ: constType(tString)})

	// ---- NULL handling ----
	reg("isNull", &fnDef{min: 1, max: 1, nulls: true, eval: func(c *callCtx, args []Value) (Value, error) {
		if isNull(args[0]) {
			return uint8(1), nil
		}
		return uint8(0), nil
	}, typ: constType(tUInt8)})
	reg("isNotNull", &fnDef{min: 1, max: 1, nulls: true, eval: func(c *callCtx, args []Value) (Value, error) {
		if isNull(args[0]) {
			return uint8(0), nil
		}
		return uint8(1), nil
	}, typ: constType(tUInt8)})
	reg("assumeNotNull", &fnDef{min: 1, max: 1, nulls: true, eval: func(c *callCtx, args []Value) (Value, error) {
		if isNull(args[0]) {
			t, err := c.ev.sc.typeOf(c.f.Args[0], c.ev.typeEnv())
			if err != nil {
				return nil, err
			}
			if t != nil && t.Name == "Nullable" {
				return DefaultOf(t.Args[0])
			}
			return nil, unsupported("assumeNotNull(NULL) of unknown type (implementation-specific result)")
		}
		return args[0], nil
	}, typ: func(t *typeCall) (*Type, error) {
		if a := t.args[0]; a != nil && a.Name == "Nullable" {
			return a.Args[0], nil
		}
		return t.args[0], nil
	}})
	reg("toNullable", &fnDef{min: 1, max: 1, nulls: true, eval: func(c *callCtx, args []Value) (Value, error) {
		return args[0], nil
	}, typ: func(t *typeCall) (*Type, error) { return tNullable(t.args[0]), nil }})
	coalesceTyp := func(t *typeCall) (*Type, error) {
		var st *Type
		allNullable := true
		for i, a := range t.args {
			if a == nil {
				return nil, nil
			}
			in := a
			if a.Name == "Nullable" {
				in = a.Args[0]
			} else {
				allNullable = false
			}
			if i == 0 {
				st = in
			} else if st = superType(st, in); st == nil {
				return nil, raise("NO_COMMON_TYPE", "there is no supertype for the arguments of function %s", t.f.Name)
			}
			if a.Name != "Nullable" {
				break // later arguments are unreachable
			}
		}
		if allNullable {
			return tNullable(st), nil
		}
		return st, nil
	}
	reg("coalesce", &fnDef{min: 1, max: -1, nulls: true, eval: func(c *callCtx, args []Value) (Value, error) {
		for _, a := range args {
			if !isNull(a) {
				return c.castToStatic(a)
			}
		}
		return Null{}, nil
	}, typ: coalesceTyp})
	reg("ifNull", &fnDef{min: 2, max: 2, nulls: true, eval: func(c *callCtx, args []Value) (Value, error) {
		if !isNull(args[0]) {
			return c.castToStatic(args[0])
		}
		return c.castToStatic(args[1])
	}, typ: coalesceTyp})
	reg("nullIf", &fnDef{min: 2, max: 2, nulls: true, eval: func(c *callCtx, args []Value) (Value, error) {
		if isNull(args[0]) || isNull(args[1]) {
			return args[0], nil
		}
		eq, err := valuesEqual(args[0], args[1])
		if err != nil {
			return nil, err
		}
		if eq {
			return Null{}, nil
		}
		return args[0], nil
	}, typ: func(t *typeCall) (*Type, error) { return tNullable(t.args[0]), nil }})

	// ---- rounding, min/max of arguments ----
	roundFn := func(name string, op func(float64) float64) {
		reg(name, &fnDef{min: 1, max: 2, eval: func(c *callCtx, args []Value) (Value, error) {
			if !isNumeric(args[0]) {
				return nil, illegalArg(c, 0, args[0])
			}
			n := int64(0)
			if len(args) == 2 {
				b, ok := bitsOf(args[1])
				if !ok {
					return nil, illegalArg(c, 1, args[1])
				}
				n = int64(b)
			}
			f, isF := args[0].(float64)
			if !isF {
				if n >= 0 {
					return args[0], nil // integers are unchanged for non-negative precision
				}
				return nil, unsupported("%s of an integer with negative precision", name)
			}
			if math.IsNaN(f) || math.IsInf(f, 0) {
				return f, nil
			}
			scale := math.Pow(10, float64(n))
			return op(f*scale) / scale, nil
		}, typ: func(t *typeCall) (*Type, error) {
			if a := t.args[0]; a != nil && !isNumType(a) {
				return nil, raise("ILLEGAL_TYPE_OF_ARGUMENT", "illegal type %s of argument of function %s", a, name)
			}
			return t.args[0], nil
		}})
	}
	roundFn("round", math.RoundToEven) // ClickHouse round() uses banker's rounding for floats
	roundFn("floor", math.Floor)
	roundFn("ceil", math.Ceil)
	funcs["ceiling"] = funcs["ceil"]
	roundFn("trunc", math.Trunc)
	funcs["truncate"] = funcs["trunc"]

	lg := func(name string, pickGreater bool) {
		reg(name, &fnDef{min: 2, max: 2, eval: func(c *callCtx, args []Value) (Value, error) {
			cmp, un, err := compareValues(args[0], args[1])
			if err != nil {
				return nil, err
			}
			pick := args[0]
			if !un && (pickGreater && cmp < 0 || !pickGreater && cmp > 0) {
				pick = args[1]
			}
			return c.castToStatic(pick)
		}, typ: func(t *typeCall) (*Type, error) {
			a, b := t.args[0], t.args[1]
			if a == nil || b == nil {
				return nil, nil
			}
			if isNumType(a) && isNumType(b) {
				// least/greatest on numbers use the "ResultOfIf"-like promotion; for same types it is the type itself
				if st := superType(a, b); st != nil {
					return st, nil
				}
				return tFloat64, nil
			}
			st := superType(a, b)
			if st == nil {
				return nil, raise("NO_COMMON_TYPE", "no common type for arguments of %s", name)
			}
			return st, nil
		}})
	}
	lg("least", false)
	lg("greatest", true)

	mathFn := func(name string, op func(float64) float64) {
		reg(name, &fnDef{min: 1, max: 1, eval: func(c *callCtx, args []Value) (Value, error) {
			f, ok := toFloat(args[0])
			if !ok {
				return nil, illegalArg(c, 0, args[0])
			}
			return op(f), nil
		}, typ: constType(tFloat64)})
	}
	mathFn("sqrt", math.Sqrt)
	mathFn("exp", math.Exp)
	mathFn("log", math.Log)
	funcs["ln"] = funcs["log"]
	mathFn("log2", math.Log2)
	mathFn("log10", math.Log10)
	reg("pow", &fnDef{min: 2, max: 2, eval: func(c *callCtx, args []Value) (Value, error) {
		a, ok1 := toFloat(args[0])
		b, ok2 := toFloat(args[1])
		if !ok1 || !ok2 {
			return nil, raise("ILLEGAL_TYPE_OF_ARGUMENT", "illegal types of arguments of function pow")
		}
		return math.Pow(a, b), nil
	}, typ: constType(tFloat64)})
	funcs["power"] = funcs["pow"]
	reg("isNaN", &fnDef{min: 1, max: 1, eval: func(c *callCtx, args []Value) (Value, error) {
		f, ok := args[0].(float64)
		if !ok {
			if isNumeric(args[0]) {
				return uint8(0), nil
			}
			return nil, illegalArg(c, 0, args[0])
		}
		if math.IsNaN(f) {
			return uint8(1), nil
		}
		return uint8(0), nil
	}, typ: constType(tUInt8)})
	reg("isFinite", &fnDef{min: 1, max: 1, eval: func(c *callCtx, args []Value) (Value, error) {
		f, ok := toFloat(args[0])
		if !ok {
			return nil, illegalArg(c, 0, args[0])
		}
		if math.IsNaN(f) || math.IsInf(f, 0) {
			return uint8(0), nil
		}
		return uint8(1), nil
	}, typ: constType(tUInt8)})

	// finalizeAggregation(state): for the modelled states, finalisation depends on the function
	reg("finalizeAggregation", &fnDef{min: 1, max: 1, eval: func(c *callCtx, args []Value) (Value, error) {
		t, err := c.ev.sc.typeOf(c.f.Args[0], c.ev.typeEnv())
		if err != nil {
			return nil, err
		}
		if t == nil || t.Name != "AggregateFunction" {
			return nil, unsupported("finalizeAggregation of an expression whose state type is unknown")
		}
		return aggMerge(c.db, "finalizeAggregation", normAggBase(t.Func), []Value{args[0]}, t.Args, false)
	}, typ: func(t *typeCall) (*Type, error) {
		a := t.args[0]
		if a == nil {
			return nil, nil
		}
		if a.Name != "AggregateFunction" {
			return nil, raise("ILLEGAL_TYPE_OF_ARGUMENT", "argument for function finalizeAggregation must have type AggregateFunction, got %s", a)
		}
		return aggResultType(normAggBase(a.Func), a.Args), nil
	}})
}

func normAggBase(b string) string {
	if b == "median" {
		return "quantile"
	}
	return b
}

// castToStatic converts a value to the statically inferred result type of the current call
// (used by functions whose result is the supertype of their arguments).
func (c *callCtx) castToStatic(v Value) (Value, error) {
	t, err := c.ev.sc.typeOf(c.f, c.ev.typeEnv())
	if err != nil {
		return nil, err
	}
	if t == nil || Conforms(v, t) {
		return v, nil
	}
	return castValue(v, t)
}

var _ = strings.ToLower
