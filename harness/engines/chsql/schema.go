package chsql

// QrynSchema returns a DB holding empty tables with qryn's real column sets (taken from
// /repo/ctrl/qryn/sql/{log,traces,profiles}.sql after all migrations of those files).
//
// AggregatingMergeTree tables hold one partial state per stored row (see doc.go):
//
//	metrics_15s.last   AggregateFunction(argMax, Float64, Int64)  → Tuple{float64 value, int64 timestamp_ns}
//	metrics_15s.count  AggregateFunction(count)                    → uint64
//	metrics_15s.max/min/sum/bytes  SimpleAggregateFunction(…, Float64) → float64
//
// With cluster=true every table also gets its `<name>_dist` Distributed twin. A twin shares the
// *Table with the local table (a one-node cluster: reading the distributed table reads the local
// rows), so filling `samples_v3` fills `samples_v3_dist` too; scan events carry the local name.
func QrynSchema(cluster bool) *DB {
	db := NewDB()
	add := func(name string, cols ...Column) {
		t := &Table{Name: name, Cols: cols, Rows: [][]Value{}}
		if _, err := t.ColTypes(); err != nil {
			panic(err)
		}
		db.AddTable(t)
		if cluster {
			db.Tables[name+"_dist"] = t
		}
	}
	c := func(n, t string) Column { return Column{Name: n, Type: t} }

	// ---- logs / metrics (log.sql)
	add("time_series",
		c("date", "Date"), c("fingerprint", "UInt64"), c("labels", "String"), c("name", "String"), c("type", "UInt8"))
	add("time_series_gin",
		c("date", "Date"), c("key", "String"), c("val", "String"), c("fingerprint", "UInt64"), c("type", "UInt8"))
	add("samples_v3",
		c("fingerprint", "UInt64"), c("timestamp_ns", "Int64"), c("value", "Float64"), c("string", "String"), c("type", "UInt8"))
	add("metrics_15s",
		c("fingerprint", "UInt64"), c("timestamp_ns", "Int64"),
		c("last", "AggregateFunction(argMax, Float64, Int64)"),
		c("max", "SimpleAggregateFunction(max, Float64)"),
		c("min", "SimpleAggregateFunction(min, Float64)"),
		c("count", "AggregateFunction(count)"),
		c("sum", "SimpleAggregateFunction(sum, Float64)"),
		c("bytes", "SimpleAggregateFunction(sum, Float64)"),
		c("type", "UInt8"))
	add("settings",
		c("fingerprint", "UInt64"), c("type", "String"), c("name", "String"), c("value", "String"), c("inserted_at", "DateTime64(9, 'UTC')"))

	// ---- traces (traces.sql)
	add("tempo_traces",
		c("oid", "String"), c("trace_id", "FixedString(16)"), c("span_id", "FixedString(8)"), c("parent_id", "String"),
		c("name", "String"), c("timestamp_ns", "Int64"), c("duration_ns", "Int64"), c("service_name", "String"),
		c("payload_type", "Int8"), c("payload", "String"))
	add("tempo_traces_attrs_gin",
		c("oid", "String"), c("date", "Date"), c("key", "String"), c("val", "String"),
		c("trace_id", "FixedString(16)"), c("span_id", "FixedString(8)"), c("timestamp_ns", "Int64"), c("duration", "Int64"))
	add("tempo_traces_kv",
		c("oid", "String"), c("date", "Date"), c("key", "String"), c("val_id", "UInt64"), c("val", "String"))

	// ---- profiles (profiles.sql)
	add("profiles",
		c("timestamp_ns", "UInt64"), c("fingerprint", "UInt64"), c("type_id", "LowCardinality(String)"),
		c("sample_types_units", "Array(Tuple(String, String))"), c("service_name", "LowCardinality(String)"),
		c("duration_ns", "UInt64"), c("payload_type", "LowCardinality(String)"), c("payload", "String"),
		c("values_agg", "Array(Tuple(String, Int64, Int32))"),
		c("tree", "Array(Tuple(UInt64, UInt64, UInt64, Array(Tuple(String, Int64, Int64))))"),
		c("functions", "Array(Tuple(UInt64, String))"))
	add("profiles_series",
		c("date", "Date"), c("type_id", "LowCardinality(String)"), c("sample_types_units", "Array(Tuple(String, String))"),
		c("service_name", "LowCardinality(String)"), c("fingerprint", "UInt64"), c("tags", "Array(Tuple(String, String))"))
	add("profiles_series_gin",
		c("date", "Date"), c("key", "String"), c("val", "String"), c("type_id", "LowCardinality(String)"),
		c("sample_types_units", "Array(Tuple(String, String))"), c("service_name", "LowCardinality(String)"), c("fingerprint", "UInt64"))
	add("profiles_series_keys",
		c("date", "Date"), c("key", "String"), c("val", "String"), c("val_id", "UInt64"))
	return db
}
