package chsql

import (
	"strconv"
	"strings"
)

// Expr is an expression node: *Literal, *Ident, *Func, *Lambda, *Subquery, *Aliased, *Star, *Interval.
type Expr interface{}

// Literal is a constant. Val is already typed per rule A4 (smallest integer type that holds it).
type Literal struct {
	Val Value
}

// Ident is a possibly qualified identifier (a, t.a, db.t.a).
type Ident struct {
	Parts []string
}

// Func is a function call, an operator (Name is the ClickHouse function the operator maps to,
// e.g. plus, equals, and, tupleElement, arrayElement, tuple, array, CAST) or an aggregate.
type Func struct {
	Name      string
	Params    []Expr // parametric aggregates: quantile(0.5)(x) → Params=[0.5]
	Args      []Expr
	Distinct  bool // count(DISTINCT x)
	HasParams bool
}

// Lambda is `x -> body` / `(x, y) -> body`.
type Lambda struct {
	Params []string
	Body   Expr
}

// Subquery is a parenthesised select used as an expression (scalar subquery or IN operand).
type Subquery struct {
	Sel SelectNode
}

// Aliased is `X AS Alias`.
type Aliased struct {
	X     Expr
	Alias string
}

// Star is `*` or `t.*`.
type Star struct {
	Qualifier string
}

// Interval is `INTERVAL n unit` / `INTERVAL 'n unit'`.
type Interval struct {
	X    Expr
	Unit string // second, minute, hour, day, week, month, quarter, year (lower case)
}

// SelectNode is *SelectQuery or *SetOp.
type SelectNode interface{}

// WithItem is one element of a WITH clause: a CTE (Sel != nil) or a scalar alias (X != nil).
type WithItem struct {
	Name string
	Sel  SelectNode
	X    Expr
}

// TableExpr is a FROM / JOIN operand.
type TableExpr struct {
	DB, Name string     // table or CTE name
	Sel      SelectNode // sub-select
	Func     *Func      // table function (unsupported at execution)
	Alias    string
	Final    bool
}

// JoinClause is a JOIN or an ARRAY JOIN, in textual order.
type JoinClause struct {
	Array      bool // ARRAY JOIN
	ArrayLeft  bool // LEFT ARRAY JOIN
	ArrayExprs []Expr

	Global     bool
	Strictness string // "", "ANY", "ALL", "SEMI", "ANTI", "ASOF"
	Kind       string // "INNER", "LEFT", "RIGHT", "FULL", "CROSS"
	Table      *TableExpr
	On         Expr
	Using      []string
}

// OrderItem is one ORDER BY element.
type OrderItem struct {
	X          Expr
	Desc       bool
	NullsFirst *bool
}

// SelectQuery is one SELECT.
type SelectQuery struct {
	With          []*WithItem
	Distinct      bool
	Items         []Expr
	From          *TableExpr
	Joins         []*JoinClause
	Prewhere      Expr
	Where         Expr
	GroupBy       []Expr
	GroupByAll    bool
	WithTotals    bool
	Having        Expr
	OrderBy       []*OrderItem
	LimitByN      Expr
	LimitByOffset Expr
	LimitBy       []Expr
	Limit         Expr
	Offset        Expr
	Settings      map[string]string
}

// SetOp is UNION ALL / UNION DISTINCT / INTERSECT / EXCEPT between two selects.
type SetOp struct {
	Op          string // "UNION ALL", "UNION DISTINCT", "INTERSECT", "EXCEPT"
	Left, Right SelectNode
}

// Statement is a parsed statement.
type Statement struct {
	SQL    string
	Select SelectNode
	Format string
}

// ---- formatting (ClickHouse column-name style) ---------------------------------------------

// exprName renders an expression the way ClickHouse names a result column without alias
// (operators as functions: plus(a, b), tupleElement(x, 1) …). Best effort.
func exprName(e Expr) string {
	switch x := e.(type) {
	case *Literal:
		return formatValue(x.Val, true)
	case *Ident:
		return strings.Join(x.Parts, ".")
	case *Aliased:
		return x.Alias
	case *Star:
		if x.Qualifier != "" {
			return x.Qualifier + ".*"
		}
		return "*"
	case *Lambda:
		return "lambda(tuple(" + strings.Join(x.Params, ", ") + "), " + exprName(x.Body) + ")"
	case *Subquery:
		return "_subquery"
	case *Interval:
		return "toInterval" + strings.ToUpper(x.Unit[:1]) + x.Unit[1:] + "(" + exprName(x.X) + ")"
	case *Func:
		var sb strings.Builder
		sb.WriteString(x.Name)
		if x.HasParams {
			sb.WriteByte('(')
			for i, p := range x.Params {
				if i > 0 {
					sb.WriteString(", ")
				}
				sb.WriteString(exprName(p))
			}
			sb.WriteByte(')')
		}
		sb.WriteByte('(')
		if x.Distinct {
			sb.WriteString("DISTINCT ")
		}
		for i, a := range x.Args {
			if i > 0 {
				sb.WriteString(", ")
			}
			sb.WriteString(exprName(a))
		}
		sb.WriteByte(')')
		return sb.String()
	}
	return "?"
}

// exprText renders an expression including its aliases (diagnostics, ScanEvent.Where).
func exprText(e Expr) string {
	switch x := e.(type) {
	case *Aliased:
		return exprText(x.X) + " AS " + x.Alias
	case *Func:
		var sb strings.Builder
		sb.WriteString(x.Name)
		if x.HasParams {
			sb.WriteByte('(')
			for i, p := range x.Params {
				if i > 0 {
					sb.WriteString(", ")
				}
				sb.WriteString(exprText(p))
			}
			sb.WriteByte(')')
		}
		sb.WriteByte('(')
		if x.Distinct {
			sb.WriteString("DISTINCT ")
		}
		for i, a := range x.Args {
			if i > 0 {
				sb.WriteString(", ")
			}
			sb.WriteString(exprText(a))
		}
		sb.WriteByte(')')
		return sb.String()
	case *Lambda:
		return "(" + strings.Join(x.Params, ", ") + ") -> " + exprText(x.Body)
	case *Subquery:
		return "(subquery)"
	}
	return exprName(e)
}

func stripAlias(e Expr) Expr {
	for {
		a, ok := e.(*Aliased)
		if !ok {
			return e
		}
		e = a.X
	}
}

func intLiteral(n uint64) *Literal { return &Literal{Val: smallestUInt(n)} }

func smallestUInt(n uint64) Value {
	switch {
	case n <= 0xff:
		return uint8(n)
	case n <= 0xffff:
		return uint16(n)
	case n <= 0xffffffff:
		return uint32(n)
	}
	return n
}

func smallestInt(n int64) Value {
	if n >= 0 {
		return smallestUInt(uint64(n))
	}
	switch {
	case n >= -128:
		return int8(n)
	case n >= -32768:
		return int16(n)
	case n >= -2147483648:
		return int32(n)
	}
	return n
}

func itoa(i int) string { return strconv.Itoa(i) }
