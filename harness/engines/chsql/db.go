package chsql

import (
	"fmt"
	"sort"
	"sync"
)

// Column is a named, typed column. Type is a ClickHouse type name.
type Column struct{ Name, Type string }

// Table is an in-memory table, row-major.
type Table struct {
	Name string
	Cols []Column
	Rows [][]Value

	types []*Type
}

// ColTypes returns the parsed column types (cached).
func (t *Table) ColTypes() ([]*Type, error) {
	if len(t.types) == len(t.Cols) && len(t.Cols) > 0 {
		return t.types, nil
	}
	ts := make([]*Type, len(t.Cols))
	for i, c := range t.Cols {
		ty, err := ParseType(c.Type)
		if err != nil {
			return nil, fmt.Errorf("table %s column %s: %w", t.Name, c.Name, err)
		}
		ts[i] = ty
	}
	t.types = ts
	return ts, nil
}

// Check verifies that every stored value has the Go type matching its column type.
func (t *Table) Check() error {
	ts, err := t.ColTypes()
	if err != nil {
		return err
	}
	for r, row := range t.Rows {
		if len(row) != len(t.Cols) {
			return fmt.Errorf("chsql: table %s row %d has %d values, want %d", t.Name, r, len(row), len(t.Cols))
		}
		for c, v := range row {
			if !Conforms(v, ts[c]) {
				return fmt.Errorf("chsql: table %s row %d column %s: value %s (%T) does not conform to %s", t.Name, r, t.Cols[c].Name, Format(v), v, t.Cols[c].Type)
			}
		}
	}
	return nil
}

// Clone copies the table (rows are copied shallowly: values are immutable by convention).
func (t *Table) Clone() *Table {
	n := &Table{Name: t.Name, Cols: append([]Column(nil), t.Cols...)}
	n.Rows = make([][]Value, len(t.Rows))
	for i, r := range t.Rows {
		n.Rows[i] = append([]Value(nil), r...)
	}
	return n
}

// ScanEvent describes one read of a base table (see DB.OnScan).
type ScanEvent struct {
	Table    string
	Alias    string
	Offered  int
	Admitted []int
	Where    string
}

// DB is a set of tables plus the per-database hash ledger.
type DB struct {
	Tables map[string]*Table
	// OnScan, if set, is called once for every read of a BASE table (not CTEs/sub-selects) after
	// that select's PREWHERE+WHERE were applied: which rows (indexes into Table.Rows) were offered
	// and which were admitted. For a base table that is the right side of a JOIN, admitted = rows
	// that matched the ON condition of at least one left row.
	OnScan func(ev ScanEvent)

	// NowUnix is the value of now(); 0 means 1700003600 (a fixed instant keeps runs deterministic).
	NowUnix int64

	// StrictTypes makes every select verify that each produced value conforms to the statically
	// inferred column type (self-check of the type inference; used by the package's tests).
	StrictTypes bool

	mu     sync.Mutex
	hashes map[uint64]string // cityHash64 model: output → canonical input (rule A19)
	colls  []string
	notes  []string
}

// NewDB returns an empty database.
func NewDB() *DB { return &DB{Tables: map[string]*Table{}} }

// AddTable registers t under its name (replacing a previous table of that name).
func (db *DB) AddTable(t *Table) {
	if db.Tables == nil {
		db.Tables = map[string]*Table{}
	}
	db.Tables[t.Name] = t
}

// Clone deep-copies tables; the hash ledger, OnScan and settings are carried over (the ledger is copied).
func (db *DB) Clone() *DB {
	n := &DB{Tables: map[string]*Table{}, OnScan: db.OnScan, NowUnix: db.NowUnix, StrictTypes: db.StrictTypes}
	done := map[*Table]*Table{}
	for k, t := range db.Tables {
		c, ok := done[t]
		if !ok {
			c = t.Clone()
			done[t] = c
		}
		n.Tables[k] = c
	}
	db.mu.Lock()
	defer db.mu.Unlock()
	if db.hashes != nil {
		n.hashes = make(map[uint64]string, len(db.hashes))
		for k, v := range db.hashes {
			n.hashes[k] = v
		}
	}
	n.colls = append([]string(nil), db.colls...)
	return n
}

// HashCollisions reports pairs of different inputs that cityHash64's model mapped to the same
// output during this DB's lifetime (rule A19: the model must be injective on the values seen).
func (db *DB) HashCollisions() []string {
	db.mu.Lock()
	defer db.mu.Unlock()
	return append([]string(nil), db.colls...)
}

// Notes returns diagnostics recorded during execution, e.g. "any() over differing values" (rule A10).
func (db *DB) Notes() []string {
	db.mu.Lock()
	defer db.mu.Unlock()
	res := append([]string(nil), db.notes...)
	sort.Strings(res)
	return res
}

// ResetNotes clears Notes.
func (db *DB) ResetNotes() {
	db.mu.Lock()
	db.notes = nil
	db.mu.Unlock()
}

func (db *DB) note(s string) {
	db.mu.Lock()
	defer db.mu.Unlock()
	for _, n := range db.notes {
		if n == s {
			return
		}
	}
	if len(db.notes) < 1000 {
		db.notes = append(db.notes, s)
	}
}

func (db *DB) lookupTable(dbName, name string) *Table {
	if dbName != "" {
		if t, ok := db.Tables[dbName+"."+name]; ok {
			return t
		}
	}
	if t, ok := db.Tables[name]; ok {
		return t
	}
	return nil
}

func (db *DB) now() int64 {
	if db.NowUnix != 0 {
		return db.NowUnix
	}
	return 1700003600
}

// Result is the outcome of a statement.
type Result struct {
	Cols []Column
	Rows [][]Value
}

// Exec parses and executes one statement.
func (db *DB) Exec(sql string) (res *Result, err error) {
	defer func() {
		if r := recover(); r != nil {
			res, err = nil, unsupported("internal error: %v", r)
		}
	}()
	st, err := Parse(sql)
	if err != nil {
		return nil, err
	}
	return db.ExecStmt(st)
}

// ExecStmt executes a parsed statement.
func (db *DB) ExecStmt(st *Statement) (res *Result, err error) {
	defer func() {
		if r := recover(); r != nil {
			res, err = nil, unsupported("internal error: %v", r)
		}
	}()
	x := &execCtx{db: db, sets: map[Expr]*valueSet{}, scalars: map[*Subquery]scalarRes{}}
	rel, err := x.evalSelectNode(st.Select, nil)
	if err != nil {
		return nil, err
	}
	res = &Result{Rows: rel.rows}
	if res.Rows == nil {
		res.Rows = [][]Value{}
	}
	for _, c := range rel.cols {
		res.Cols = append(res.Cols, Column{Name: c.name, Type: c.typ.String()})
	}
	return res, nil
}
