// Package chsql is E-CHSQL: a reference interpreter for the subset of ClickHouse SQL
// that qryn's query planners emit, executing over small in-memory tables.
//
// It is an oracle: it computes what ClickHouse would return for a statement. It is never
// more lenient than ClickHouse: statements ClickHouse rejects at analysis or run time yield
// a *RaiseError; anything outside the implemented subset yields an error wrapping
// ErrUnsupported (the caller must count such cases as undecided).
//
// # Value conventions
//
// A Value is one of the following Go dynamic types, and nothing else:
//
//	uint8, uint16, uint32, uint64      UInt8 … UInt64 (Bool literals true/false are uint8 1/0)
//	int8, int16, int32, int64          Int8 … Int64
//	float64                            Float64 (Float32 columns are widened to float64)
//	string                             String, FixedString(N), LowCardinality(String), Enum (JSONType result)
//	Array                              Array(T): type Array []Value
//	Tuple                              Tuple(T1, …): type Tuple []Value
//	*Map                               Map(K, V): ordered, Keys[i] ↦ Vals[i]
//	Null                               NULL: type Null struct{}
//	Date                               Date: days since 1970-01-01 (int32)
//	DateTime                           DateTime / DateTime64: unix seconds (int64), UTC
//
// Table rows must hold exactly the Go type matching the column's declared type
// (Table.Check verifies this). AggregateFunction columns of AggregatingMergeTree tables
// hold "partial states" modelled as finalised partial aggregates:
//
//	AggregateFunction(count)            uint64 (the partial count)
//	AggregateFunction(sum, T)           the partial sum (same Go type sum(T) returns)
//	AggregateFunction(min|max|any, T)   the partial value
//	AggregateFunction(argMax|argMin, V, K)   Tuple{value, key}
//	AggregateFunction(avg, T)           Tuple{float64 sum, uint64 count}
//	AggregateFunction(uniqExact|groupUniqArray, T)  Array of distinct values
//	AggregateFunction(groupArray, T)    Array
//	SimpleAggregateFunction(f, T)       a plain T
//
// The -State combinator produces these, -Merge / -MergeState combine them.
//
// # Determinism
//
// Where ClickHouse leaves the result unspecified the interpreter is deterministic:
// GROUP BY emits groups in order of first appearance, groupUniqArray keeps first-appearance
// order, any() takes the first row's value, argMin/argMax take the first row reaching the
// extreme, ORDER BY is a stable sort, DISTINCT keeps the first row of each class.
// Callers must not rely on these choices where ClickHouse does not define them (rules A10,
// A11, A18 of DESIGN.md Appendix A).
//
// # Settings assumed (ClickHouse defaults)
//
// prefer_column_name_to_alias=0, join_use_nulls=0, any_join_distinct_right_table_keys=0,
// transform_null_in=0, short_circuit_function_evaluation='enable',
// enable_positional_arguments=1, aggregate_functions_null_for_empty=0,
// union_default_mode=” (so bare UNION is rejected), server time zone UTC, old (pre-24.3)
// analyzer alias semantics: aliases are query-wide and substituted textually.
package chsql
