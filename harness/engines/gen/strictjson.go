package gen

import (
	"fmt"
	"unicode/utf8"

	"github.com/golang/snappy"
)

func Unsnappy(b []byte) ([]byte, error) { return snappy.Decode(nil, b) }

// StrictJSONStringMap parses a JSON object whose values are strings, strictly per RFC 8259
// (no raw control characters, only the defined escapes), but passes bytes ≥ 0x20 through
// unchanged (as ClickHouse's JSON functions do), so that arbitrary label bytes can be compared.
func StrictJSONStringMap(b []byte) ([][2]string, error) {
	p := &sj{b: b}
	p.ws()
	if !p.eat('{') {
		return nil, p.err("expected {")
	}
	var out [][2]string
	p.ws()
	if p.eat('}') {
		p.ws()
		if p.i != len(p.b) {
			return nil, p.err("trailing bytes")
		}
		return out, nil
	}
	seen := map[string]bool{}
	for {
		p.ws()
		k, err := p.str()
		if err != nil {
			return nil, err
		}
		p.ws()
		if !p.eat(':') {
			return nil, p.err("expected :")
		}
		p.ws()
		v, err := p.str()
		if err != nil {
			return nil, err
		}
		if seen[k] {
			return nil, p.err("duplicate key " + k)
		}
		seen[k] = true
		out = append(out, [2]string{k, v})
		p.ws()
		if p.eat(',') {
			continue
		}
		if p.eat('}') {
			break
		}
		return nil, p.err("expected , or }")
	}
	p.ws()
	if p.i != len(p.b) {
		return nil, p.err("trailing bytes")
	}
	return out, nil
}

type sj struct {
	b []byte
	i int
}

func (p *sj) err(m string) error { return fmt.Errorf("%s at byte %d", m, p.i) }
func (p *sj) ws() {
	for p.i < len(p.b) && (p.b[p.i] == ' ' || p.b[p.i] == '\t' || p.b[p.i] == '\n' || p.b[p.i] == '\r') {
		p.i++
	}
}
func (p *sj) eat(c byte) bool {
	if p.i < len(p.b) && p.b[p.i] == c {
		p.i++
		return true
	}
	return false
}

func hex4(b []byte) (rune, bool) {
	if len(b) < 4 {
		return 0, false
	}
	var r rune
	for _, c := range b[:4] {
		r <<= 4
		switch {
		case c >= '0' && c <= '9':
			r |= rune(c - '0')
		case c >= 'a' && c <= 'f':
			r |= rune(c-'a') + 10
		case c >= 'A' && c <= 'F':
			r |= rune(c-'A') + 10
		default:
			return 0, false
		}
	}
	return r, true
}

func (p *sj) str() (string, error) {
	if !p.eat('"') {
		return "", p.err("expected string")
	}
	var out []byte
	for {
		if p.i >= len(p.b) {
			return "", p.err("unterminated string")
		}
		c := p.b[p.i]
		switch {
		case c == '"':
			p.i++
			return string(out), nil
		case c < 0x20:
			return "", p.err(fmt.Sprintf("raw control character 0x%02x in string", c))
		case c == '\\':
			if p.i+1 >= len(p.b) {
				return "", p.err("dangling backslash")
			}
			e := p.b[p.i+1]
			p.i += 2
			switch e {
			case '"', '\\', '/':
				out = append(out, e)
			case 'b':
				out = append(out, '\b')
			case 'f':
				out = append(out, '\f')
			case 'n':
				out = append(out, '\n')
			case 'r':
				out = append(out, '\r')
			case 't':
				out = append(out, '\t')
			case 'u':
				r, ok := hex4(p.b[p.i:])
				if !ok {
					return "", p.err("bad \\u escape")
				}
				p.i += 4
				if r >= 0xd800 && r < 0xdc00 && p.i+6 <= len(p.b) && p.b[p.i] == '\\' && p.b[p.i+1] == 'u' {
					if r2, ok := hex4(p.b[p.i+2:]); ok && r2 >= 0xdc00 && r2 < 0xe000 {
						r = 0x10000 + (r-0xd800)<<10 + (r2 - 0xdc00)
						p.i += 6
					}
				}
				out = utf8.AppendRune(out, r)
			default:
				return "", p.err(fmt.Sprintf("invalid escape \\%c", e))
			}
		default:
			out = append(out, c)
			p.i++
		}
	}
}
