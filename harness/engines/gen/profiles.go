package gen

import (
	"bytes"
	"compress/gzip"
	"fmt"
	"math/rand"
	"mime/multipart"
	"net/url"
	"strings"

	pprof "github.com/google/pprof/profile"
)

// ProfCase is an abstract pprof profile: sample types, functions, stacks with values.
type ProfCase struct {
	ID          string
	SampleTypes [][2]string // type, unit
	PeriodType  [2]string
	Funcs       []string
	Stacks      []ProfStack
	FromSec     int64
	UntilSec    int64
	Service     string
	Tags        [][2]string
	PadComment  int `json:",omitempty"`
}

type ProfStack struct {
	Frames []int   // indexes into Funcs, ROOT FIRST (pprof stores leaf first)
	Values []int64 // one per sample type
	NoLine []bool  // frame has a location without line info ("n/a")
}

type ProfOpts struct {
	ID        string
	MaxTypes  int
	MaxStacks int
	MaxDepth  int
	Funcs     int
	BaseSec   int64
	Deep      bool // one stack deeper than the 511-level clamp
	NoLines   bool
	MultiLine bool
	PadComment int // a pprof comment of this many bytes: the stored payload grows, the stacks do not
}

var periodTypes = [][2]string{{"cpu", "nanoseconds"}, {"space", "bytes"}, {"goroutine", "count"}, {"block", "count"}, {"contentions", "count"}, {"wall", "nanoseconds"}}

func NewProfCase(r *rand.Rand, o ProfOpts) ProfCase {
	c := ProfCase{ID: o.ID, FromSec: o.BaseSec, UntilSec: o.BaseSec + 10, Service: "svc_" + o.ID}
	nt := 1 + r.Intn(o.MaxTypes)
	names := [][2]string{{"samples", "count"}, {"cpu", "nanoseconds"}, {"alloc_objects", "count"}, {"alloc_space", "bytes"}, {"inuse_space", "bytes"}}
	perm := r.Perm(len(names))
	for i := 0; i < nt; i++ {
		c.SampleTypes = append(c.SampleTypes, names[perm[i]])
	}
	c.PeriodType = periodTypes[r.Intn(len(periodTypes))]
	nf := 2 + r.Intn(o.Funcs)
	for i := 0; i < nf; i++ {
		c.Funcs = append(c.Funcs, fmt.Sprintf("pkg.fn%d_%s", i, o.ID))
	}
	ns := r.Intn(o.MaxStacks + 1)
	for i := 0; i < ns; i++ {
		d := 1 + r.Intn(o.MaxDepth)
		if o.Deep && i == 0 {
			d = 520 + r.Intn(80)
		}
		st := ProfStack{}
		for j := 0; j < d; j++ {
			f := r.Intn(nf)
			if j > 0 && r.Intn(4) == 0 {
				f = st.Frames[j-1] // direct recursion
			}
			if i > 0 && j < len(c.Stacks[i-1].Frames) && r.Intn(2) == 0 {
				f = c.Stacks[i-1].Frames[j] // shared prefix
			}
			st.Frames = append(st.Frames, f)
			st.NoLine = append(st.NoLine, o.NoLines && r.Intn(6) == 0)
		}
		for t := 0; t < nt; t++ {
			st.Values = append(st.Values, int64(r.Intn(1000)))
		}
		c.Stacks = append(c.Stacks, st)
	}
	c.Tags = [][2]string{{"rid", o.ID}, {"region", SafeStr(r, 2, 5)}}
	c.PadComment = o.PadComment
	return c
}

// Build renders the pprof profile (uncompressed protobuf).
func (c ProfCase) Build(multiLine bool) *pprof.Profile {
	p := &pprof.Profile{PeriodType: &pprof.ValueType{Type: c.PeriodType[0], Unit: c.PeriodType[1]}, Period: 1, TimeNanos: c.FromSec * 1e9, DurationNanos: (c.UntilSec - c.FromSec) * 1e9}
	for _, st := range c.SampleTypes {
		p.SampleType = append(p.SampleType, &pprof.ValueType{Type: st[0], Unit: st[1]})
	}
	m := &pprof.Mapping{ID: 1, Start: 0x1000, Limit: 0x9000, File: "bin"}
	p.Mapping = []*pprof.Mapping{m}
	fns := make([]*pprof.Function, len(c.Funcs))
	for i, n := range c.Funcs {
		fns[i] = &pprof.Function{ID: uint64(i + 1), Name: n, SystemName: n, Filename: "f.go"}
	}
	p.Function = fns
	if c.PadComment > 0 {
		p.Comments = []string{"pad-" + c.ID + "-" + strings.Repeat("c", c.PadComment)}
	}
	locByKey := map[string]*pprof.Location{}
	loc := func(f int, noLine bool) *pprof.Location {
		k := fmt.Sprintf("%d/%v", f, noLine)
		if l, ok := locByKey[k]; ok {
			return l
		}
		l := &pprof.Location{ID: uint64(len(p.Location) + 1), Mapping: m, Address: uint64(0x1000 + len(p.Location))}
		if !noLine {
			l.Line = []pprof.Line{{Function: fns[f], Line: int64(10 + f)}}
			if multiLine && f%3 == 0 {
				// inlined frames: the writer takes Line[0]
				l.Line = append(l.Line, pprof.Line{Function: fns[(f+1)%len(fns)], Line: 99})
			}
		}
		p.Location = append(p.Location, l)
		locByKey[k] = l
		return l
	}
	for _, st := range c.Stacks {
		s := &pprof.Sample{Value: append([]int64{}, st.Values...)}
		for j := len(st.Frames) - 1; j >= 0; j-- { // leaf first
			s.Location = append(s.Location, loc(st.Frames[j], st.NoLine[j]))
		}
		p.Sample = append(p.Sample, s)
	}
	return p
}

func (c ProfCase) nameParam() string {
	s := c.Service + "{"
	for i, t := range c.Tags {
		if i > 0 {
			s += ","
		}
		s += t[0] + "=" + t[1]
	}
	return s + "}"
}

// RenderProfile renders the /ingest request: multipart (gzip'd "profile" part) or binary.
func RenderProfile(r *rand.Rand, c ProfCase, multipartForm bool, multiLine bool) Request {
	p := c.Build(multiLine)
	var raw bytes.Buffer
	if err := p.WriteUncompressed(&raw); err != nil {
		panic(err)
	}
	q := url.Values{"from": {fmt.Sprint(c.FromSec)}, "until": {fmt.Sprint(c.UntilSec)}, "name": {c.nameParam()}}
	rq := Request{Proto: "pprof-binary", Method: "POST", Path: "/ingest?" + q.Encode()}
	if multipartForm {
		var body bytes.Buffer
		mw := multipart.NewWriter(&body)
		fw, _ := mw.CreateFormFile("profile", "profile.pprof")
		gz := gzip.NewWriter(fw)
		gz.Write(raw.Bytes())
		gz.Close()
		mw.Close()
		rq.Proto = "pprof-multipart"
		rq.ContentType = mw.FormDataContentType()
		rq.Body = body.Bytes()
	} else {
		rq.ContentType = "binary/octet-stream"
		rq.Body = raw.Bytes()
	}
	return rq
}

// Sums returns Σ sample values per sample type (all stacks have ≥ 1 frame).
func (c ProfCase) Sums() []int64 {
	out := make([]int64, len(c.SampleTypes))
	for _, st := range c.Stacks {
		for i, v := range st.Values {
			out[i] += v
		}
	}
	return out
}
