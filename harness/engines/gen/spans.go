package gen

import (
	"bytes"
	"encoding/binary"
	"encoding/hex"
	"encoding/json"
	"fmt"
	"hash/fnv"
	"math/rand"
	"sort"
	"strconv"
	"strings"

	otlpCommon "go.opentelemetry.io/proto/otlp/common/v1"
	otlpRes "go.opentelemetry.io/proto/otlp/resource/v1"
	otlpTrace "go.opentelemetry.io/proto/otlp/trace/v1"
	"google.golang.org/protobuf/proto"
)

// Attr is a typed attribute value (OTLP AnyValue shape).
type Attr struct {
	Key  string  `json:"k"`
	Kind string  `json:"kind"` // str int bool double array kvlist
	S    string  `json:"s,omitempty"`
	I    int64   `json:"i,omitempty"`
	B    bool    `json:"b,omitempty"`
	D    float64 `json:"d,omitempty"`
	Arr  []Attr  `json:"arr,omitempty"` // elements (Key unused)
	KV   []Attr  `json:"kv,omitempty"`
}

type Span struct {
	TraceID  []byte `json:"trace_id"`
	SpanID   []byte `json:"span_id"`
	ParentID []byte `json:"parent_id"` // nil or 8 bytes
	Name     string `json:"name"`
	StartNs  int64  `json:"start"`
	DurNs    int64  `json:"dur"`
	Service  string `json:"service"`          // "" = none given
	Attrs    []Attr `json:"attrs"`            // span level
	ResAttrs []Attr `json:"res_attrs"`        // resource level (OTLP) — excluding service.name
	Group    int    `json:"group"`            // resource/scope group index (OTLP)
	Remote   string `json:"remote,omitempty"` // zipkin remoteEndpoint.serviceName
}

type SpanCase struct {
	Spans  []Span
	Reused int // spans that were given the span id of a span of another trace
}

// Flat is the flattening the property defines: nested lists/maps by dotted path.
func Flatten(prefix string, a Attr, out map[string]string) {
	k := prefix + a.Key
	switch a.Kind {
	case "str":
		out[k] = a.S
	case "int":
		out[k] = strconv.FormatInt(a.I, 10)
	case "bool":
		out[k] = strconv.FormatBool(a.B)
	case "double":
		out[k] = strconv.FormatFloat(a.D, 'f', -1, 64)
	case "array":
		for i, e := range a.Arr {
			e.Key = strconv.Itoa(i)
			Flatten(k+".", e, out)
		}
	case "kvlist":
		for _, e := range a.KV {
			Flatten(k+".", e, out)
		}
	}
}

type SpanOpts struct {
	ID       string
	N        int
	Groups   int
	Hostile  bool
	BaseNs   int64
	Zipkin   bool // only string attributes, µs timestamps
	Nested   bool
	BigAttrs bool
	// ReuseSpanIDs: some spans of DIFFERENT traces share a span id (ids are unique per trace only; all-zero-but-one
	// and all-ff ids from independent SDK instances collide in practice)
	ReuseSpanIDs bool
}

func randAttr(r *rand.Rand, key string, o SpanOpts, depth int) Attr {
	kinds := []string{"str", "int", "bool", "double"}
	if o.Nested && depth < 2 {
		kinds = append(kinds, "array", "kvlist")
	}
	if o.Zipkin {
		kinds = []string{"str"}
	}
	a := Attr{Key: key, Kind: kinds[r.Intn(len(kinds))]}
	switch a.Kind {
	case "str":
		a.S = SafeStr(r, 1, 10)
		if o.Hostile && r.Intn(2) == 0 {
			a.S = HostileStr(r, 4)
		}
		if o.BigAttrs && r.Intn(4) == 0 {
			a.S = strings.Repeat(SafeStr(r, 4, 8), 3000)
		}
	case "int":
		a.I = r.Int63n(1<<40) - (1 << 20)
	case "bool":
		a.B = r.Intn(2) == 0
	case "double":
		// exactly representable with <= 4 decimals so that every rendering is lossless
		a.D = float64(r.Intn(1<<20)) + float64(r.Intn(16))/16.0
	case "array":
		n := 1 + r.Intn(3)
		for i := 0; i < n; i++ {
			a.Arr = append(a.Arr, randAttr(r, "", o, depth+1))
		}
	case "kvlist":
		n := 1 + r.Intn(3)
		for i := 0; i < n; i++ {
			a.KV = append(a.KV, randAttr(r, fmt.Sprintf("m%d", i), o, depth+1))
		}
	}
	return a
}

var attrNames = []string{"http.method", "http.status_code", "db.system", "peer.host", "custom_tag", "error", "component", "span.kind2", "a.b.c", "x"}

func NewSpanCase(r *rand.Rand, o SpanOpts) SpanCase {
	var c SpanCase
	if o.Groups < 1 {
		o.Groups = 1
	}
	nTraces := 1 + r.Intn(3)
	traces := make([][]byte, nTraces)
	for i := range traces {
		traces[i] = make([]byte, 16)
		r.Read(traces[i])
		if r.Intn(6) == 0 {
			for j := range traces[i] {
				traces[i][j] = 0xff // maximal id
			}
			traces[i][15] = byte(i)
		} else if o.Zipkin && r.Intn(5) == 0 {
			for j := 0; j < 8; j++ {
				traces[i][j] = 0 // 64-bit trace id: rendered as 16 hex digits
			}
		}
	}
	unit := int64(1)
	if o.Zipkin {
		unit = 1000
	}
	type grp struct {
		service string
		res     []Attr
	}
	groups := make([]grp, o.Groups)
	for g := range groups {
		groups[g].service = fmt.Sprintf("svc-%s-%d", o.ID, g)
		noRes := !o.Zipkin && r.Intn(12) == 0 // OTLP group without any resource information
		n := r.Intn(3)
		if o.Zipkin || noRes {
			n = 0
		}
		if noRes {
			groups[g].service = ""
		}
		for i := 0; i < n; i++ {
			groups[g].res = append(groups[g].res, randAttr(r, fmt.Sprintf("res.attr%d", i), o, 0))
		}
	}
	for i := 0; i < o.N; i++ {
		s := Span{TraceID: traces[r.Intn(nTraces)], SpanID: make([]byte, 8), Name: fmt.Sprintf("op-%s-%d", o.ID, i)}
		r.Read(s.SpanID)
		// span ids are unique per case by construction: embed the index
		s.SpanID[0], s.SpanID[1] = byte(i>>8), byte(i)
		h := fnv.New32a()
		h.Write([]byte(o.ID))
		binary.BigEndian.PutUint32(s.SpanID[2:6], h.Sum32())
		if o.Hostile && r.Intn(3) == 0 {
			s.Name += HostileStr(r, 3)
		}
		if r.Intn(2) == 0 && i > 0 {
			s.ParentID = c.Spans[r.Intn(i)].SpanID
		}
		s.StartNs = (o.BaseNs/unit + int64(i)*13 + int64(r.Intn(7))) * unit
		s.DurNs = int64(1+r.Intn(1000000)) * unit
		s.Group = r.Intn(o.Groups)
		s.Service = groups[s.Group].service
		s.ResAttrs = groups[s.Group].res
		na := r.Intn(5)
		perm := r.Perm(len(attrNames))
		for j := 0; j < na; j++ {
			s.Attrs = append(s.Attrs, randAttr(r, attrNames[perm[j]], o, 0))
		}
		if o.BigAttrs && i == 0 {
			s.Attrs = append(s.Attrs, Attr{Key: "big.blob", Kind: "str", S: strings.Repeat(SafeStr(r, 5, 9), 12000)})
		}
		c.Spans = append(c.Spans, s)
	}
	if o.ReuseSpanIDs {
		for i := 1; i < len(c.Spans); i++ {
			j := r.Intn(i)
			if r.Intn(2) == 0 && !bytes.Equal(c.Spans[i].TraceID, c.Spans[j].TraceID) {
				used := false
				for k := range c.Spans {
					if k != i && bytes.Equal(c.Spans[k].TraceID, c.Spans[i].TraceID) && bytes.Equal(c.Spans[k].SpanID, c.Spans[j].SpanID) {
						used = true
					}
				}
				if !used {
					old := c.Spans[i].SpanID
					c.Spans[i].SpanID = append([]byte{}, c.Spans[j].SpanID...)
					for k := range c.Spans { // children of the renamed span inside its trace follow it
						if bytes.Equal(c.Spans[k].TraceID, c.Spans[i].TraceID) && bytes.Equal(c.Spans[k].ParentID, old) {
							c.Spans[k].ParentID = c.Spans[i].SpanID
						}
					}
					c.Reused++
				}
			}
		}
	}
	return c
}

func anyValue(a Attr) *otlpCommon.AnyValue {
	switch a.Kind {
	case "str":
		return &otlpCommon.AnyValue{Value: &otlpCommon.AnyValue_StringValue{StringValue: a.S}}
	case "int":
		return &otlpCommon.AnyValue{Value: &otlpCommon.AnyValue_IntValue{IntValue: a.I}}
	case "bool":
		return &otlpCommon.AnyValue{Value: &otlpCommon.AnyValue_BoolValue{BoolValue: a.B}}
	case "double":
		return &otlpCommon.AnyValue{Value: &otlpCommon.AnyValue_DoubleValue{DoubleValue: a.D}}
	case "array":
		av := &otlpCommon.ArrayValue{}
		for _, e := range a.Arr {
			av.Values = append(av.Values, anyValue(e))
		}
		return &otlpCommon.AnyValue{Value: &otlpCommon.AnyValue_ArrayValue{ArrayValue: av}}
	case "kvlist":
		kv := &otlpCommon.KeyValueList{}
		for _, e := range a.KV {
			kv.Values = append(kv.Values, &otlpCommon.KeyValue{Key: e.Key, Value: anyValue(e)})
		}
		return &otlpCommon.AnyValue{Value: &otlpCommon.AnyValue_KvlistValue{KvlistValue: kv}}
	}
	return nil
}

func kvs(as []Attr) []*otlpCommon.KeyValue {
	var out []*otlpCommon.KeyValue
	for _, a := range as {
		out = append(out, &otlpCommon.KeyValue{Key: a.Key, Value: anyValue(a)})
	}
	return out
}

// RenderOTLP renders the case as an OTLP/HTTP protobuf export request body.
func RenderOTLP(r *rand.Rand, c SpanCase) Request {
	td := &otlpTrace.TracesData{}
	byGroup := map[int][]Span{}
	var order []int
	for _, s := range c.Spans {
		if _, ok := byGroup[s.Group]; !ok {
			order = append(order, s.Group)
		}
		byGroup[s.Group] = append(byGroup[s.Group], s)
	}
	for _, g := range order {
		spans := byGroup[g]
		res := &otlpRes.Resource{Attributes: kvs(spans[0].ResAttrs)}
		if spans[0].Service != "" {
			res.Attributes = append(res.Attributes, &otlpCommon.KeyValue{Key: "service.name", Value: anyValue(Attr{Kind: "str", S: spans[0].Service})})
			r.Shuffle(len(res.Attributes), func(i, j int) { res.Attributes[i], res.Attributes[j] = res.Attributes[j], res.Attributes[i] })
		}
		// split the group's spans over 1..2 scopes
		nsc := 1 + r.Intn(2)
		scopes := make([]*otlpTrace.ScopeSpans, nsc)
		for i := range scopes {
			scopes[i] = &otlpTrace.ScopeSpans{Scope: &otlpCommon.InstrumentationScope{Name: fmt.Sprintf("scope%d", i)}}
		}
		for _, s := range spans {
			sp := &otlpTrace.Span{TraceId: s.TraceID, SpanId: s.SpanID, ParentSpanId: s.ParentID, Name: s.Name,
				StartTimeUnixNano: uint64(s.StartNs), EndTimeUnixNano: uint64(s.StartNs + s.DurNs), Attributes: kvs(s.Attrs),
				Kind: otlpTrace.Span_SPAN_KIND_SERVER}
			sc := scopes[r.Intn(nsc)]
			sc.Spans = append(sc.Spans, sp)
		}
		rs := &otlpTrace.ResourceSpans{Resource: res, ScopeSpans: scopes}
		if len(res.Attributes) == 0 {
			rs.Resource = nil // the resource is optional in OTLP
		}
		td.ResourceSpans = append(td.ResourceSpans, rs)
	}
	b, err := proto.Marshal(td)
	if err != nil {
		panic(err)
	}
	return Request{Proto: "otlp-traces", Method: "POST", Path: "/v1/traces", ContentType: "application/x-protobuf", Body: b}
}

// RenderZipkin renders the case as Zipkin v2 JSON (array or NDJSON framing).
func RenderZipkin(r *rand.Rand, c SpanCase, ndjson bool) Request {
	var items []string
	for _, s := range c.Spans {
		tid := hex.EncodeToString(s.TraceID)
		if strings.HasPrefix(tid, "0000000000000000") {
			tid = tid[16:]
		}
		parts := []string{
			`"traceId":"` + tid + `"`,
			`"id":"` + hex.EncodeToString(s.SpanID) + `"`,
			`"name":` + jstr(nil, s.Name),
		}
		if r.Intn(2) == 0 {
			parts = append(parts, `"timestamp":`+strconv.FormatInt(s.StartNs/1000, 10), `"duration":`+strconv.FormatInt(s.DurNs/1000, 10))
		} else {
			parts = append(parts, `"timestamp":"`+strconv.FormatInt(s.StartNs/1000, 10)+`"`, `"duration":"`+strconv.FormatInt(s.DurNs/1000, 10)+`"`)
		}
		if s.ParentID != nil {
			parts = append(parts, `"parentId":"`+hex.EncodeToString(s.ParentID)+`"`)
		}
		if s.Service != "" {
			parts = append(parts, `"localEndpoint":{"serviceName":`+jstr(nil, s.Service)+`,"ipv4":"10.0.0.1"}`)
		}
		if len(s.Attrs) > 0 {
			var tags []string
			for _, a := range s.Attrs {
				tags = append(tags, jstr(nil, a.Key)+":"+jstr(r, a.S))
			}
			parts = append(parts, `"tags":{`+strings.Join(tags, ",")+`}`)
		}
		parts = append(parts, `"kind":"SERVER"`)
		r.Shuffle(len(parts), func(i, j int) { parts[i], parts[j] = parts[j], parts[i] })
		items = append(items, "{"+strings.Join(parts, ",")+"}")
	}
	paths := []string{"/tempo/spans", "/tempo/api/push", "/api/v2/spans"}
	rq := Request{Proto: "zipkin-json", Method: "POST", Path: paths[r.Intn(len(paths))], ContentType: "application/json"}
	if ndjson {
		rq.Proto = "zipkin-ndjson"
		rq.ContentType = "ndjson"
		// framing: LF after every line, LF as separator only (the last line ends with the body), or CRLF
		switch r.Intn(4) {
		case 0:
			rq.Body = []byte(strings.Join(items, "\n"))
		case 1:
			rq.Body = []byte(strings.Join(items, "\r\n") + "\r\n")
		default:
			rq.Body = []byte(strings.Join(items, "\n") + "\n")
		}
	} else {
		rq.Body = []byte("[" + strings.Join(items, ",") + "]")
	}
	return rq
}

// ExpectedTags: the flattened attributes a span must be findable by (span and resource level).
func (s Span) ExpectedTags() map[string]string {
	out := map[string]string{}
	for _, a := range s.ResAttrs {
		Flatten("", a, out)
	}
	for _, a := range s.Attrs {
		Flatten("", a, out)
	}
	return out
}

func (s Span) String() string {
	b, _ := json.Marshal(s)
	return string(b)
}

func SortedKeys(m map[string]string) []string {
	ks := make([]string, 0, len(m))
	for k := range m {
		ks = append(ks, k)
	}
	sort.Strings(ks)
	return ks
}
