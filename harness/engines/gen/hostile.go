package gen

import (
	"bytes"
	"compress/gzip"
	"encoding/json"
	"fmt"
	"math/rand"
	"net/url"
	"strings"

	"github.com/golang/snappy"
	otlpCommon "go.opentelemetry.io/proto/otlp/common/v1"
	otlpLogs "go.opentelemetry.io/proto/otlp/logs/v1"
	otlpTrace "go.opentelemetry.io/proto/otlp/trace/v1"
	"google.golang.org/protobuf/proto"
)

// Route families of the ingest side; every hostile case names one.
var IngestRoutes = []string{
	"/loki/api/v1/push", "/influx/api/v2/write", "/cf/v1/insert", "/api/v2/series", "/api/v2/logs", "/v1/logs",
	"/v1/prom/remote/write", "/api/v1/prom/remote/write", "/prom/remote/write", "/api/prom/remote/write", "/api/prom/push",
	"/idx/_doc", "/idx/_create/7", "/_bulk", "/idx/_bulk",
	"/tempo/spans", "/tempo/api/push", "/api/v2/spans", "/v1/traces", "/ingest",
}

// HostileCase is one hostile request with a class label (route × content-type × operator).
type HostileCase struct {
	Req   Request `json:"req"`
	Class string  `json:"class"`
	Op    string  `json:"op"`
}

func randBytes(r *rand.Rand, n int) []byte {
	b := make([]byte, n)
	r.Read(b)
	return b
}

// byte-level mutation of a valid body
func mutateBytes(r *rand.Rand, b []byte) ([]byte, string) {
	if len(b) == 0 {
		return randBytes(r, 1+r.Intn(64)), "random"
	}
	out := append([]byte{}, b...)
	switch r.Intn(8) {
	case 0:
		return out[:r.Intn(len(out))], "truncate"
	case 1:
		for i := 0; i < 1+r.Intn(8); i++ {
			out[r.Intn(len(out))] ^= byte(1 << uint(r.Intn(8)))
		}
		return out, "bitflip"
	case 2:
		i := r.Intn(len(out))
		j := i + r.Intn(len(out)-i)
		return append(out[:i], out[j:]...), "delete-range"
	case 3:
		i := r.Intn(len(out))
		j := i + r.Intn(min(len(out)-i, 200))
		dup := append([]byte{}, out[i:j]...)
		return append(out[:j], append(dup, out[j:]...)...), "dup-range"
	case 4:
		i := r.Intn(len(out))
		return append(out[:i], append(randBytes(r, 1+r.Intn(32)), out[i:]...)...), "splice-random"
	case 5:
		for i := range out {
			if out[i] >= '0' && out[i] <= '9' && r.Intn(6) == 0 {
				out[i] = "0987654321"[r.Intn(10)]
			}
		}
		return out, "digits"
	case 6:
		i := r.Intn(len(out))
		out[i] = []byte{'"', '\\', '{', '}', '[', ']', ',', ':', 0, '\n', 0xff, 0xc3}[r.Intn(12)]
		return out, "struct-char"
	}
	return randBytes(r, 1+r.Intn(256)), "random"
}

var hugeNums = []string{"0", "-1", "9223372036854775807", "9223372036854775808", "18446744073709551616", "1e400", "-1e400", "1e-400", "NaN", "0.0000000000000000000000001", "00", "1.5", "-0", "123456789012345678901234567890"}

// JSON structure-aware mutation
func mutateJSON(r *rand.Rand, body []byte, ids bool) ([]byte, string) {
	var v any
	dec := json.NewDecoder(bytes.NewReader(body))
	dec.UseNumber()
	if err := dec.Decode(&v); err != nil {
		return mutateBytes(r, body)
	}
	op := ""
	var walk func(n any, depth int) any
	done := false
	walk = func(n any, depth int) any {
		if done {
			return n
		}
		switch x := n.(type) {
		case map[string]any:
			keys := make([]string, 0, len(x))
			for k := range x {
				keys = append(keys, k)
			}
			if len(keys) > 0 && r.Intn(3) == 0 {
				k := keys[r.Intn(len(keys))]
				switch r.Intn(5) {
				case 0:
					delete(x, k)
					op = "drop-key:" + k
				case 1:
					x[k] = retype(r, x[k])
					op = "retype:" + k
				case 2:
					x[k+"_dup"] = x[k]
					op = "dup-key"
				case 3:
					x[k] = json.Number(hugeNums[r.Intn(len(hugeNums))])
					op = "huge-number:" + k
				case 4:
					if ids {
						x[k] = badID(r)
						op = "bad-id:" + k
					} else {
						x[k] = nil
						op = "null:" + k
					}
				}
				done = true
				return x
			}
			for _, k := range keys {
				x[k] = walk(x[k], depth+1)
			}
			return x
		case []any:
			if r.Intn(4) == 0 {
				switch r.Intn(4) {
				case 0:
					op = "empty-array"
					done = true
					return []any{}
				case 1:
					if len(x) > 0 {
						op = "dup-elem"
						done = true
						return append(x, x[r.Intn(len(x))])
					}
				case 2:
					op = "elem-retype"
					done = true
					return append(x, retype(r, nil))
				case 3:
					op = "array-to-object"
					done = true
					return map[string]any{"a": x}
				}
			}
			for i := range x {
				x[i] = walk(x[i], depth+1)
			}
			return x
		default:
			if r.Intn(10) == 0 {
				op = "leaf-retype"
				done = true
				return retype(r, n)
			}
		}
		return n
	}
	v = walk(v, 0)
	if !done {
		v = retype(r, v)
		op = "root-retype"
	}
	var sb bytes.Buffer
	writeJSON(&sb, v)
	return sb.Bytes(), "json:" + strings.SplitN(op, ":", 2)[0]
}

// writeJSON marshals with json.Number passed through verbatim (incl. non-JSON numbers).
func writeJSON(sb *bytes.Buffer, v any) {
	switch x := v.(type) {
	case json.Number:
		sb.WriteString(string(x))
	case map[string]any:
		sb.WriteByte('{')
		i := 0
		for k, e := range x {
			if i > 0 {
				sb.WriteByte(',')
			}
			i++
			kb, _ := json.Marshal(k)
			sb.Write(kb)
			sb.WriteByte(':')
			writeJSON(sb, e)
		}
		sb.WriteByte('}')
	case []any:
		sb.WriteByte('[')
		for i, e := range x {
			if i > 0 {
				sb.WriteByte(',')
			}
			writeJSON(sb, e)
		}
		sb.WriteByte(']')
	default:
		b, _ := json.Marshal(x)
		sb.Write(b)
	}
}

func retype(r *rand.Rand, v any) any {
	switch r.Intn(9) {
	case 0:
		return nil
	case 1:
		return json.Number(hugeNums[r.Intn(len(hugeNums))])
	case 2:
		return "str"
	case 3:
		return []any{}
	case 4:
		return map[string]any{}
	case 5:
		return true
	case 6:
		return []any{v, v}
	case 7:
		return map[string]any{"x": v}
	}
	return ""
}

func badID(r *rand.Rand) any {
	hexd := "0123456789abcdef"
	switch r.Intn(8) {
	case 0:
		return ""
	case 1:
		return "zz"
	case 2:
		return nil
	case 3:
		return json.Number("12345")
	}
	n := []int{1, 15, 17, 31, 33, 64, 2}[r.Intn(7)]
	b := make([]byte, n)
	for i := range b {
		b[i] = hexd[r.Intn(16)]
	}
	return string(b)
}

func deepJSON(n int) []byte {
	return []byte(strings.Repeat("[", n) + strings.Repeat("]", n))
}

func gz(b []byte) []byte {
	var buf bytes.Buffer
	w := gzip.NewWriter(&buf)
	w.Write(b)
	w.Close()
	return buf.Bytes()
}

// NewHostile derives one hostile request for route number ri from valid cases.
func NewHostile(r *rand.Rand, id string, ri int) HostileCase {
	route := IngestRoutes[ri%len(IngestRoutes)]
	base := int64(1700000000) * 1e9
	var rq Request
	isJSON, ids := false, false
	switch {
	case route == "/loki/api/v1/push":
		p := []string{"loki-json-values", "loki-json-entries", "loki-proto"}[r.Intn(3)]
		rq = Render(r, p, NewLogCase(r, LogOpts{ID: id, Proto: p, Streams: 1 + r.Intn(3), MaxEntries: 5, Hostile: true, BaseNs: base}))
		isJSON = p != "loki-proto"
	case route == "/influx/api/v2/write":
		p := []string{"influx-log", "influx-metric"}[r.Intn(2)]
		rq = Render(r, p, NewLogCase(r, LogOpts{ID: id, Proto: p, Streams: 2, MaxEntries: 4, BaseNs: base}))
		if r.Intn(2) == 0 {
			rq.Path += "?precision=" + []string{"ns", "us", "ms", "s", "", "h", "-1", "%00", strings.Repeat("9", 40)}[r.Intn(9)]
		}
	case route == "/cf/v1/insert":
		rq = Request{Proto: "cf", Method: "POST", Path: route + "?ddsource=" + url.QueryEscape(HostileStr(r, 3)), ContentType: "application/json",
			Body: []byte(`{"EventType":"fetch","Outcome":"ok","ScriptName":"s","EventTimestampMs":1700000000000,"Event":{"RayID":"x"},"Logs":[{"Message":["m"],"Level":"log","TimestampMs":1700000000000}]}` + "\n" + `{"ActionResult":true,"ActionType":"a","ActorType":"b","ResourceType":"c","When":"2023-11-14T22:13:20Z"}` + "\n")}
		isJSON = false
	case route == "/api/v2/series":
		rq = Render(r, "datadog-metrics", NewLogCase(r, LogOpts{ID: id, Proto: "datadog-metrics", Streams: 2, MaxEntries: 4, BaseNs: base}))
		isJSON = true
	case route == "/api/v2/logs":
		rq = Render(r, "datadog-logs", NewLogCase(r, LogOpts{ID: id, Proto: "datadog-logs", Streams: 2, MaxEntries: 4, BaseNs: base}))
		rq.Path += "?ddsource=" + url.QueryEscape(HostileStr(r, 2))
		isJSON = true
	case route == "/v1/logs":
		rq = Render(r, "otlp-logs", NewLogCase(r, LogOpts{ID: id, Proto: "otlp-logs", Streams: 2, MaxEntries: 4, Hostile: true, BaseNs: base}))
	case strings.Contains(route, "prom"):
		rq = Render(r, "remote-write", NewLogCase(r, LogOpts{ID: id, Proto: "remote-write", Streams: 2, MaxEntries: 4, BaseNs: base}))
		rq.Path = route
	case strings.Contains(route, "_bulk"):
		rq = Request{Proto: "elastic-bulk", Method: "POST", Path: route, ContentType: "application/x-ndjson",
			Body: []byte(`{"index":{"_index":"idx","_id":"1"}}` + "\n" + `{"message":"hello ` + id + `","level":"info","n":5}` + "\n" + `{"create":{"_index":"other"}}` + "\n" + `{"message":"second"}` + "\n")}
	case strings.Contains(route, "_doc") || strings.Contains(route, "_create"):
		rq = Request{Proto: "elastic-doc", Method: "POST", Path: route, ContentType: "application/json", Body: []byte(`{"message":"hello ` + id + `","level":"info","nested":{"a":[1,2,{"b":null}]}}`)}
		isJSON = true
		if r.Intn(3) == 0 {
			rq.Method = "PUT"
			rq.Path = "/idx/_doc/9"
		}
	case route == "/v1/traces":
		rq = RenderOTLP(r, NewSpanCase(r, SpanOpts{ID: id, N: 3, Groups: 2, Hostile: true, BaseNs: base, Nested: true}))
	case route == "/ingest":
		pc := NewProfCase(r, ProfOpts{ID: id, MaxTypes: 2, MaxStacks: 5, MaxDepth: 5, Funcs: 4, BaseSec: base / 1e9})
		rq = RenderProfile(r, pc, r.Intn(2) == 0, false)
	default: // zipkin routes
		nd := r.Intn(3) == 0
		rq = RenderZipkin(r, NewSpanCase(r, SpanOpts{ID: id, N: 1 + r.Intn(3), Hostile: true, BaseNs: base, Zipkin: true}), nd)
		rq.Path = route
		isJSON, ids = !nd, true
	}
	rq.Expect = nil
	hc := HostileCase{Req: rq}
	// choose the operator
	opn := r.Intn(12)
	switch {
	case opn <= 3 && isJSON:
		hc.Req.Body, hc.Op = mutateJSON(r, rq.Body, ids)
	case opn <= 5:
		hc.Req.Body, hc.Op = mutateBytes(r, rq.Body)
	case opn == 6:
		hc.Req.Body, hc.Op = randBytes(r, r.Intn(512)), "random-bytes"
	case opn == 7:
		hc.Op = "special"
		hc.Req = special(r, id, route, rq)
	case opn == 8:
		hc.Op = "encoding"
		switch r.Intn(6) {
		case 0:
			hc.Req.Headers = map[string]string{"Content-Encoding": "gzip"}
			hc.Req.Body = gz(rq.Body)
			hc.Op = "encoding:gzip-valid"
		case 1:
			hc.Req.Headers = map[string]string{"Content-Encoding": "gzip"} // lying: body is not gzip
			hc.Op = "encoding:gzip-lie"
		case 2:
			hc.Req.Headers = map[string]string{"Content-Encoding": "snappy"}
			hc.Op = "encoding:snappy-lie"
		case 3:
			hc.Req.Headers = map[string]string{"Content-Encoding": "gzip"}
			b := gz(rq.Body)
			hc.Req.Body = b[:len(b)/2]
			hc.Op = "encoding:gzip-truncated"
		case 4:
			hc.Req.Headers = map[string]string{"Content-Encoding": "br"}
			hc.Op = "encoding:unsupported"
		case 5:
			hc.Req.Headers = map[string]string{"Content-Encoding": "gzip"}
			hc.Req.Body = gz(bytes.Repeat([]byte{'['}, 8<<20))
			hc.Op = "encoding:gzip-8MiB-of-brackets"
		}
	case opn == 9:
		hc.Op = "headers"
		hc.Req.Headers = map[string]string{"X-Ttl-Days": []string{"-1", "65536", "abc", "", "7"}[r.Intn(5)], "X-Async-Insert": []string{"1", "0", "yes", ""}[r.Intn(4)],
			"X-Scope-Meta": printable(HostileStr(r, 3)), "X-CH-DSN": []string{"", "n1", "nope", "c-x"}[r.Intn(4)]}
		if r.Intn(2) == 0 {
			hc.Req.ContentType = []string{"", "text/plain", "application/json", "application/x-protobuf", "ndjson", "multipart/form-data", "multipart/form-data; boundary=x", "binary/octet-stream", "application/x-www-form-urlencoded", "*/*"}[r.Intn(10)]
			hc.Op = "headers+content-type"
		}
	case opn == 10 && isJSON:
		hc.Req.Body, hc.Op = deepJSON(10000), "deep-nesting"
	default:
		hc.Req.Body, hc.Op = []byte{}, "empty-body"
	}
	ct := hc.Req.ContentType
	if i := strings.Index(ct, ";"); i > 0 {
		ct = ct[:i]
	}
	hc.Class = routeClass(route) + "|" + ct + "|" + strings.SplitN(hc.Op, ":", 2)[0]
	return hc
}

func routeClass(route string) string {
	switch {
	case strings.Contains(route, "prom"):
		return "prom-remote-write"
	case strings.Contains(route, "_bulk"):
		return "elastic-bulk"
	case strings.Contains(route, "_doc"), strings.Contains(route, "_create"):
		return "elastic-doc"
	case route == "/tempo/spans" || route == "/tempo/api/push" || route == "/api/v2/spans":
		return "zipkin"
	}
	return route
}

// special: hand-written hostile shapes per route family (boundary ids, absent sub-messages,
// parameter values), the kind a byte mutator rarely produces.
func special(r *rand.Rand, id, route string, rq Request) Request {
	switch routeClass(route) {
	case "zipkin":
		bodies := []string{`[{}]`, `[{"id":"1"}]`, `[{"traceId":"1"}]`, `[{"traceId":"","id":""}]`, `[{"traceId":"00000000000000000000000000000001","id":"0000000000000002","timestamp":"x"}]`,
			`[{"traceId":"` + strings.Repeat("f", 33) + `","id":"` + strings.Repeat("f", 17) + `","name":"n","timestamp":1,"duration":-1}]`,
			`[1,2,3]`, `[[]]`, `{}`, `[{"traceId":"0102","id":"03","tags":{"a":1,"b":null,"c":{"d":"e"}},"localEndpoint":{},"remoteEndpoint":{"serviceName":5}}]`,
			`[{"traceId":"abcdefabcdefabcdefabcdefabcdefab","id":"abcdefabcdefabcd","parentId":"zz","timestamp":9223372036854775807,"duration":"9223372036854775807"}]`,
			`[{"traceId":"abcdefabcdefabcdefabcdefabcdefab","id":"abcdefabcdefabcd","name":"` + strings.Repeat("n", 100000) + `"}]`}
		rq.Body = []byte(bodies[r.Intn(len(bodies))])
		if r.Intn(4) == 0 {
			rq.ContentType = "ndjson"
			rq.Body = []byte(strings.Trim(string(rq.Body), "[]") + "\n\n{\n" + strings.Repeat("x", 70000) + "\n")
		}
	case "/v1/traces":
		td := &otlpTrace.TracesData{}
		sp := &otlpTrace.Span{TraceId: randBytes(r, []int{0, 1, 15, 16, 17, 32}[r.Intn(6)]), SpanId: randBytes(r, []int{0, 1, 7, 8, 9, 16}[r.Intn(6)]), Name: "s" + id,
			StartTimeUnixNano: []uint64{0, 1, 1 << 63, ^uint64(0)}[r.Intn(4)], EndTimeUnixNano: []uint64{0, 1, 1 << 62}[r.Intn(3)]}
		if r.Intn(2) == 0 {
			sp.Attributes = []*otlpCommon.KeyValue{{Key: "nil-value"}, nil, {Key: "", Value: &otlpCommon.AnyValue{}}, {Key: "arr", Value: &otlpCommon.AnyValue{Value: &otlpCommon.AnyValue_ArrayValue{}}}, {Key: "kv", Value: &otlpCommon.AnyValue{Value: &otlpCommon.AnyValue_KvlistValue{}}}}
			sp.Attributes = sp.Attributes[r.Intn(len(sp.Attributes)):]
		}
		rs := &otlpTrace.ResourceSpans{ScopeSpans: []*otlpTrace.ScopeSpans{{Spans: []*otlpTrace.Span{sp, nil}[:1+r.Intn(2)]}}}
		if r.Intn(3) == 0 {
			// a large export (batch-sized code paths) with the odd span somewhere inside
			n := 130 + r.Intn(300)
			spans := make([]*otlpTrace.Span, 0, n+1)
			for i := 0; i < n; i++ {
				spans = append(spans, &otlpTrace.Span{TraceId: randBytes(r, 16), SpanId: randBytes(r, 8), Name: fmt.Sprintf("s%s-%d", id, i), StartTimeUnixNano: 1700000000000000000 + uint64(i), EndTimeUnixNano: 1700000000000001000 + uint64(i),
					Attributes: []*otlpCommon.KeyValue{{Key: "k", Value: &otlpCommon.AnyValue{Value: &otlpCommon.AnyValue_StringValue{StringValue: "v"}}}}})
			}
			at := r.Intn(n)
			spans = append(spans[:at], append([]*otlpTrace.Span{sp}, spans[at:]...)...)
			rs.ScopeSpans[0].Spans = spans
		}
		if r.Intn(2) == 0 {
			rs.ScopeSpans = append(rs.ScopeSpans, nil)
		}
		td.ResourceSpans = []*otlpTrace.ResourceSpans{rs}
		if r.Intn(3) == 0 {
			td.ResourceSpans = append(td.ResourceSpans, nil)
		}
		b, err := proto.Marshal(td)
		if err == nil {
			rq.Body = b
		}
	case "/v1/logs":
		ld := &otlpLogs.LogsData{ResourceLogs: []*otlpLogs.ResourceLogs{{ScopeLogs: []*otlpLogs.ScopeLogs{{LogRecords: []*otlpLogs.LogRecord{{TimeUnixNano: 1700000000000000000, Body: nil,
			Attributes: []*otlpCommon.KeyValue{{Key: "nil"}, {Key: "k", Value: &otlpCommon.AnyValue{}}}[:r.Intn(3)]}}}}}}}
		b, err := proto.Marshal(ld)
		if err == nil {
			rq.Body = b
		}
	case "/ingest":
		u, _ := url.Parse(rq.Path)
		q := u.Query()
		vals := []string{"", "0", "-1", "abc", "1", "99999999999999999999999", "18446744073709551615", "1700000000", "1700000000000000000000", "1e9", " 5", "%00"}
		switch r.Intn(4) {
		case 0:
			q.Set("from", vals[r.Intn(len(vals))])
		case 1:
			q.Set("until", vals[r.Intn(len(vals))])
		case 2:
			q.Set("name", []string{"", "{", "}", "a{", "a{b}", "a{b=}", "a{=,=}", "a{b=c,d}", "{b=c}", "a}{", "a{b=c}x", strings.Repeat("a", 5000) + "{x=y}", "a{" + strings.Repeat("k=v,", 3000) + "z=1}"}[r.Intn(13)])
		case 3:
			q.Set("from", vals[r.Intn(len(vals))])
			q.Set("until", vals[r.Intn(len(vals))])
		}
		rq.Path = "/ingest?" + q.Encode()
		if r.Intn(3) == 0 {
			q.Del([]string{"from", "until", "name"}[r.Intn(3)])
			rq.Path = "/ingest?" + q.Encode()
		}
	case "prom-remote-write", "/loki/api/v1/push":
		switch r.Intn(4) {
		case 0:
			rq.Body = snappy.Encode(nil, randBytes(r, 200))
		case 1:
			// declared decoded length far above the 10 MiB limit
			rq.Body = append([]byte{0xff, 0xff, 0xff, 0xff, 0x0f}, randBytes(r, 50)...)
		case 2:
			rq.Body = snappy.Encode(nil, []byte{})
		case 3:
			rq.ContentType = "application/x-protobuf"
			rq.Body = randBytes(r, 100)
		}
	default:
		rq.Body = []byte(fmt.Sprintf(`{"%s":%s}`, HostileStr(r, 2), hugeNums[r.Intn(len(hugeNums))]))
	}
	return rq
}

func printable(s string) string {
	var sb strings.Builder
	for i := 0; i < len(s); i++ {
		if s[i] >= 0x20 && s[i] < 0x7f {
			sb.WriteByte(s[i])
		}
	}
	return sb.String()
}
