// Package gen renders abstract ingest cases (streams × entries with unique ids) into the
// wire bodies of every ingest protocol; the expected rows are known by construction.
package gen

import (
	"bytes"
	"encoding/json"
	"fmt"
	"math/rand"
	"strconv"
	"strings"
	"time"

	"github.com/golang/snappy"
	"github.com/metrico/qryn/writer/utils/proto/logproto"
	"github.com/metrico/qryn/writer/utils/proto/prompb"
	otlpCommon "go.opentelemetry.io/proto/otlp/common/v1"
	otlpLogs "go.opentelemetry.io/proto/otlp/logs/v1"
	otlpRes "go.opentelemetry.io/proto/otlp/resource/v1"
	"google.golang.org/protobuf/proto"
)

type Entry struct {
	TsNs     int64
	Line     string
	Value    float64
	HasLine  bool
	HasValue bool
	// RFCZoneMin: where the protocol can write the time as RFC3339 text, write it so, in the zone this many minutes
	// east of UTC (RFCZone true)
	RFCZone    bool
	RFCZoneMin int
}

type Stream struct {
	SID     string      // unique stream id, also the value of label "sid"
	Labels  [][2]string // includes {"sid", SID}
	Entries []Entry
}

type LogCase struct {
	Streams []Stream
}

// ExpRow is one sample row the writer must produce for the case.
type ExpRow struct {
	SID   string  `json:"sid"`
	TsNs  int64   `json:"ts"`
	Line  string  `json:"line"`
	Value float64 `json:"value"`
	Type  uint8   `json:"type"` // 1 log, 2 metric, 0 both
}

type Request struct {
	Proto       string            `json:"proto"`
	Method      string            `json:"method"`
	Path        string            `json:"path"`
	ContentType string            `json:"content_type"`
	Headers     map[string]string `json:"headers,omitempty"`
	Body        []byte            `json:"body"`
	HalfClose   bool              `json:"half_close,omitempty"` // the client shuts its sending side once the request is out (HTTP/1.0-style clients, some proxies)
	Expect      []ExpRow          `json:"expect,omitempty"`
	Streams     int               `json:"streams"`
	MultiChunk  bool              `json:"multi_chunk"`
	// SlowUploadMs > 0: the client sends the body in 512 KiB pieces with that pause between them (a slow uplink),
	// so that a streaming parser hands its portions over at different times
	SlowUploadMs int `json:"slow_upload_ms,omitempty"`
}

func fnv32(s string) uint32 {
	h := uint32(2166136261)
	for i := 0; i < len(s); i++ {
		h = (h ^ uint32(s[i])) * 16777619
	}
	return h
}

var LogProtos = []string{"loki-json-values", "loki-json-entries", "loki-proto", "remote-write", "influx-log", "influx-metric", "datadog-logs", "datadog-metrics", "otlp-logs"}

const Safe = "abcdefghijklmnopqrstuvwxyz0123456789_"

var hostilePieces = []string{"'", "\"", "\\", "%", "_", ".", "*", "+", "?", "(", ")", "[", "]", "{", "}", "|", "^", "$", "/", "-", "#", ";", ",", "=", ":", "<", ">", "\n", "\t", "\x00", "\x7f", "\x07", "é", "😀", " ", "\\n", "\\\"", "''"}

func SafeStr(r *rand.Rand, min, max int) string {
	n := min + r.Intn(max-min+1)
	b := make([]byte, n)
	for i := range b {
		b[i] = Safe[r.Intn(len(Safe)-1)] // no '_' run at random; still allowed
	}
	return string(b)
}

// HostileStr mixes safe runs with hostile pieces; valid UTF-8 (protobuf strings require it).
func HostileStr(r *rand.Rand, maxPieces int) string {
	var sb strings.Builder
	n := 1 + r.Intn(maxPieces)
	for i := 0; i < n; i++ {
		if r.Intn(2) == 0 {
			sb.WriteString(SafeStr(r, 1, 5))
		} else {
			sb.WriteString(hostilePieces[r.Intn(len(hostilePieces))])
		}
	}
	return sb.String()
}

type LogOpts struct {
	ID         string // unique prefix for ids of this case
	Proto      string
	Streams    int
	MaxEntries int
	Hostile    bool
	BaseNs     int64
	Big        bool // cross the 1000-points / 1 MiB chunk thresholds
	TTLLabel   bool // a third of the streams carry the reserved label __ttl_days__ (stripped by the writer, sets the row TTL)
	Huge       bool // every stream is more than 1 MiB: the parser hands the body over in one portion per stream
	LabelPool  []string
	ZoneTwins  bool // the first stream gets pairs of entries two hours apart that read the same on the wall clock of two zones (…T10:00:00+02:00, …T10:00:00Z)
	FarStream  bool // the second stream's entries lie in the year 2255 (legal; beyond what a ClickHouse Date holds)
	Exact      int  // > 0: the first stream has exactly this many entries (threshold boundaries)
	Pad        int  // every line is padded by this many bytes
	Unordered  bool // half of the streams push their entries out of time order (legal: the store orders by timestamp)
}

// protoCaps: what each protocol can carry.
type caps struct {
	hasLine, hasValue, both bool
	tsUnit                  int64 // timestamp granularity in ns
	hostileLabels           bool
	hostileLines            bool
}

var protoCaps = map[string]caps{
	"loki-json-values":  {true, false, true, 1, true, true},
	"loki-json-entries": {true, true, true, 1, true, true},
	"loki-proto":        {true, false, false, 1, true, true},
	"remote-write":      {false, true, false, 1e6, true, false},
	"influx-log":        {true, false, false, 1, false, false},
	"influx-metric":     {false, true, false, 1, false, false},
	"datadog-logs":      {true, false, false, 1e6, false, true},
	"datadog-metrics":   {false, true, false, 1e9, false, false},
	"otlp-logs":         {true, false, false, 1, true, true},
}

func NewLogCase(r *rand.Rand, o LogOpts) LogCase {
	cp := protoCaps[o.Proto]
	var c LogCase
	names := o.LabelPool
	if names == nil {
		names = []string{"app", "env", "host", "job", "level", "pod", "zone", "k8s_ns"}
	}
	for s := 0; s < o.Streams; s++ {
		st := Stream{SID: fmt.Sprintf("sid-%s-%d", o.ID, s)}
		st.Labels = append(st.Labels, [2]string{"sid", st.SID})
		nl := r.Intn(4)
		perm := r.Perm(len(names))
		for i := 0; i < nl; i++ {
			v := SafeStr(r, 1, 8)
			if o.Hostile && cp.hostileLabels && r.Intn(2) == 0 {
				v = HostileStr(r, 4)
				if len(v) > 90 {
					v = v[:40]
					v = strings.ToValidUTF8(v, "")
				}
			}
			if v == "" {
				v = "x"
			}
			st.Labels = append(st.Labels, [2]string{names[perm[i]], v})
		}
		if o.TTLLabel && r.Intn(3) == 0 && !strings.HasPrefix(o.Proto, "datadog") {
			st.Labels = append(st.Labels, [2]string{"__ttl_days__", []string{"1", "7", "30"}[r.Intn(3)]})
		}
		r.Shuffle(len(st.Labels), func(i, j int) { st.Labels[i], st.Labels[j] = st.Labels[j], st.Labels[i] })
		ne := 1 + r.Intn(o.MaxEntries)
		if o.Big && s == 0 {
			ne = 1100 + r.Intn(1500)
		}
		if o.Exact > 0 && s == 0 {
			ne = o.Exact
		}
		if o.Huge {
			ne = 1900 + r.Intn(300) // every stream is a portion of its own (the parsers cut between streams)
		}
		for e := 0; e < ne; e++ {
			en := Entry{}
			// timestamps: unique per (stream, entry) at the protocol's granularity, some shared across streams
			base := o.BaseNs
			if o.FarStream && s == 1 {
				base = 9000000000000000000
			}
			en.TsNs = (base/cp.tsUnit + int64(e)*7 + int64(r.Intn(5))) * cp.tsUnit
			if e > 0 && en.TsNs <= st.Entries[e-1].TsNs {
				en.TsNs = st.Entries[e-1].TsNs + cp.tsUnit
			}
			id := fmt.Sprintf("%s-%d-%d", o.ID, s, e)
			kind := 0 // line
			switch {
			case cp.hasLine && cp.hasValue:
				kind = r.Intn(3)
			case cp.hasValue && !cp.hasLine:
				kind = 1
			case cp.both && r.Intn(3) == 0:
				kind = 2
			}
			if kind == 0 || kind == 2 {
				en.HasLine = true
				en.Line = "L[" + id + "]"
				if o.Hostile && cp.hostileLines {
					en.Line += HostileStr(r, 5)
				}
				if o.Big && s == 0 || o.Huge {
					en.Line += strings.Repeat("p", 400+r.Intn(400))
				}
				if o.Pad > 0 {
					en.Line += strings.Repeat("g", o.Pad)
				}
			}
			if kind == 1 || kind == 2 {
				en.HasValue = true
				en.Value = float64(r.Intn(1<<20)) + float64(r.Intn(4))*0.25
			}
			st.Entries = append(st.Entries, en)
		}
		if o.ZoneTwins && s == 0 {
			var tw []Entry
			for k, e := range st.Entries {
				if k >= 3 {
					tw = append(tw, e)
					continue
				}
				e.RFCZone, e.RFCZoneMin = true, 120
				t := e
				t.TsNs += 7200e9 + int64(k+1)*int64(cp.tsUnit)
				t.RFCZoneMin = 0
				if t.HasLine {
					t.Line = "L[" + fmt.Sprintf("%s-%d-tw%d", o.ID, s, k) + "]"
				}
				tw = append(tw, e, t)
			}
			st.Entries = tw
		}
		if o.Unordered && s%2 == 0 && len(st.Entries) > 1 {
			ur := rand.New(rand.NewSource(int64(len(st.Entries))*7919 + int64(s)))
			ur.Shuffle(len(st.Entries), func(i, j int) { st.Entries[i], st.Entries[j] = st.Entries[j], st.Entries[i] })
		}
		c.Streams = append(c.Streams, st)
	}
	return c
}

func (c LogCase) expect() []ExpRow {
	var out []ExpRow
	for _, s := range c.Streams {
		for _, e := range s.Entries {
			t := uint8(0)
			switch {
			case e.HasLine && !e.HasValue:
				t = 1
			case e.HasValue && !e.HasLine:
				t = 2
			}
			out = append(out, ExpRow{SID: s.SID, TsNs: e.TsNs, Line: e.Line, Value: e.Value, Type: t})
		}
	}
	return out
}

func (c LogCase) entries() int {
	n := 0
	for _, s := range c.Streams {
		n += len(s.Entries)
	}
	return n
}

// jstr renders a JSON string; with hostile=true it varies escape styles.
func jstr(r *rand.Rand, s string) string {
	b, _ := json.Marshal(s)
	if r != nil && r.Intn(3) == 0 {
		// use \u00XX for some ASCII characters (equivalent JSON)
		var sb strings.Builder
		inner := string(b[1 : len(b)-1])
		sb.WriteByte('"')
		for i := 0; i < len(inner); i++ {
			ch := inner[i]
			if ch == '\\' && i+1 < len(inner) {
				n := 2
				if inner[i+1] == 'u' {
					n = 6
				}
				sb.WriteString(inner[i:min(len(inner), i+n)])
				i += n - 1
				continue
			}
			if ch >= 'a' && ch <= 'f' && r.Intn(4) == 0 {
				fmt.Fprintf(&sb, "\\u%04x", ch)
				continue
			}
			sb.WriteByte(ch)
		}
		sb.WriteByte('"')
		return sb.String()
	}
	return string(b)
}

func lokiLabelString(lbls [][2]string) string {
	parts := make([]string, len(lbls))
	for i, l := range lbls {
		parts[i] = l[0] + "=" + strconv.Quote(l[1])
	}
	return "{" + strings.Join(parts, ", ") + "}"
}

func fnum(v float64) string { return strconv.FormatFloat(v, 'g', -1, 64) }

// Render produces the request for the case in its protocol.
func Render(r *rand.Rand, proto_ string, c LogCase) Request {
	req := Request{Proto: proto_, Method: "POST", Expect: c.expect(), Streams: len(c.Streams)}
	switch proto_ {
	case "loki-json-values":
		var sb strings.Builder
		sb.WriteString(`{"streams":[`)
		for i, s := range c.Streams {
			if i > 0 {
				sb.WriteString(",")
			}
			var lb strings.Builder
			lb.WriteString(`"stream":{`)
			for j, l := range s.Labels {
				if j > 0 {
					lb.WriteString(",")
				}
				lb.WriteString(jstr(r, l[0]) + ":" + jstr(r, l[1]))
			}
			lb.WriteString("}")
			var vb strings.Builder
			vb.WriteString(`"values":[`)
			for j, e := range s.Entries {
				if j > 0 {
					vb.WriteString(",")
				}
				vb.WriteString(`["` + strconv.FormatInt(e.TsNs, 10) + `",` + jstr(r, e.Line))
				if e.HasValue {
					vb.WriteString("," + fnum(e.Value))
				}
				vb.WriteString("]")
			}
			vb.WriteString("]")
			sb.WriteString("{")
			if r.Intn(2) == 0 {
				sb.WriteString(lb.String() + "," + vb.String())
			} else {
				sb.WriteString(vb.String() + `,"ignored_key":{"x":[1,2,{"y":null}]},` + lb.String())
			}
			sb.WriteString("}")
		}
		sb.WriteString("]}")
		req.Path, req.ContentType, req.Body = "/loki/api/v1/push", "application/json", []byte(sb.String())
	case "loki-json-entries":
		var sb strings.Builder
		sb.WriteString(`{"streams":[`)
		for i, s := range c.Streams {
			if i > 0 {
				sb.WriteString(",")
			}
			lb := `"labels":` + jstr(nil, lokiLabelString(s.Labels))
			var vb strings.Builder
			vb.WriteString(`"entries":[`)
			for j, e := range s.Entries {
				if j > 0 {
					vb.WriteString(",")
				}
				ts := strconv.FormatInt(e.TsNs, 10)
				if r.Intn(2) == 0 {
					ts = time.Unix(0, e.TsNs).UTC().Format(time.RFC3339Nano)
				}
				if e.RFCZone {
					ts = time.Unix(0, e.TsNs).In(time.FixedZone("", e.RFCZoneMin*60)).Format(time.RFC3339Nano)
				}
				key := "ts"
				if r.Intn(2) == 0 {
					key = "timestamp"
				}
				parts := []string{`"` + key + `":"` + ts + `"`}
				if e.HasLine {
					parts = append(parts, `"line":`+jstr(r, e.Line))
				}
				if e.HasValue {
					parts = append(parts, `"value":`+fnum(e.Value))
				}
				r.Shuffle(len(parts), func(a, b int) { parts[a], parts[b] = parts[b], parts[a] })
				vb.WriteString("{" + strings.Join(parts, ",") + "}")
			}
			vb.WriteString("]")
			if r.Intn(2) == 0 {
				sb.WriteString("{" + lb + "," + vb.String() + "}")
			} else {
				sb.WriteString("{" + vb.String() + "," + lb + "}")
			}
		}
		sb.WriteString("]}")
		req.Path, req.ContentType, req.Body = "/loki/api/v1/push", "application/json", []byte(sb.String())
	case "loki-proto":
		pr := &logproto.PushRequest{}
		for _, s := range c.Streams {
			st := &logproto.StreamAdapter{Labels: lokiLabelString(s.Labels)}
			for _, e := range s.Entries {
				st.Entries = append(st.Entries, &logproto.EntryAdapter{
					Timestamp: &logproto.Timestamp{Seconds: e.TsNs / 1e9, Nanos: int32(e.TsNs % 1e9)}, Line: e.Line})
			}
			pr.Streams = append(pr.Streams, st)
		}
		b, err := proto.Marshal(pr)
		if err != nil {
			panic(err)
		}
		req.Path, req.ContentType, req.Body = "/loki/api/v1/push", "application/x-protobuf", snappy.Encode(nil, b)
	case "remote-write":
		wr := &prompb.WriteRequest{}
		for _, s := range c.Streams {
			ts := &prompb.TimeSeries{}
			for _, l := range s.Labels {
				ts.Labels = append(ts.Labels, &prompb.Label{Name: l[0], Value: l[1]})
			}
			for _, e := range s.Entries {
				ts.Samples = append(ts.Samples, &prompb.Sample{Value: e.Value, Timestamp: e.TsNs / 1e6})
			}
			wr.Timeseries = append(wr.Timeseries, ts)
		}
		b, err := proto.Marshal(wr)
		if err != nil {
			panic(err)
		}
		paths := []string{"/v1/prom/remote/write", "/api/v1/prom/remote/write", "/prom/remote/write", "/api/prom/remote/write", "/api/prom/push"}
		req.Path, req.ContentType, req.Body = paths[r.Intn(len(paths))], "application/x-protobuf", snappy.Encode(nil, b)
	case "influx-log", "influx-metric":
		var sb strings.Builder
		// one line per entry; a line's labels = measurement + tags of its stream
		for _, s := range c.Streams {
			for _, e := range s.Entries {
				sb.WriteString("m_" + strings.ReplaceAll(s.SID, "-", "_"))
				for _, l := range s.Labels {
					sb.WriteString("," + l[0] + "=" + influxEsc(l[1]))
				}
				if proto_ == "influx-log" {
					sb.WriteString(` message="` + strings.NewReplacer(`\`, `\\`, `"`, `\"`).Replace(e.Line) + `"`)
				} else {
					if e.Value == float64(int64(e.Value)) && r.Intn(2) == 0 {
						sb.WriteString(" v=" + strconv.FormatInt(int64(e.Value), 10) + "i")
					} else {
						sb.WriteString(" v=" + fnum(e.Value))
					}
				}
				sb.WriteString(" " + strconv.FormatInt(e.TsNs, 10) + "\n")
			}
		}
		req.Path, req.ContentType, req.Body = "/influx/api/v2/write", "text/plain", []byte(sb.String())
	case "datadog-logs":
		var items []string
		for _, s := range c.Streams {
			for _, e := range s.Entries {
				tags := []string{}
				for _, l := range s.Labels {
					tags = append(tags, l[0]+":"+l[1])
				}
				// the optional fields differ from stream to stream (decided by the stream id, so that the same stream looks
				// the same in whatever body it travels): what one entry carries must not show up on the next
				hv := fnv32(s.SID)
				parts := []string{`"ddtags":` + jstr(nil, strings.Join(tags, ",")), `"message":` + jstr(r, e.Line), `"timestamp":` + strconv.FormatInt(e.TsNs/1e6, 10)}
				if hv&1 == 0 {
					parts = append(parts, `"ddsource":"src"`)
				}
				if hv&2 == 0 {
					parts = append(parts, `"hostname":"h1"`)
				}
				if hv&4 == 0 {
					parts = append(parts, `"service":"svc"`)
				}
				if hv&8 == 0 {
					parts = append(parts, `"source_type":"st`+strconv.Itoa(int(hv>>4&3))+`"`)
				}
				r.Shuffle(len(parts), func(a, b int) { parts[a], parts[b] = parts[b], parts[a] })
				items = append(items, "{"+strings.Join(parts, ",")+"}")
			}
		}
		req.Path, req.ContentType, req.Body = "/api/v2/logs", "application/json", []byte("["+strings.Join(items, ",")+"]")
	case "datadog-metrics":
		var items []string
		for _, s := range c.Streams {
			var res []string
			for _, l := range s.Labels {
				res = append(res, `{"name":`+jstr(nil, l[1])+`,"type":`+jstr(nil, l[0])+`}`)
			}
			var pts []string
			for _, e := range s.Entries {
				pts = append(pts, `{"timestamp":`+strconv.FormatInt(e.TsNs/1e9, 10)+`,"value":`+fnum(e.Value)+`}`)
			}
			parts := []string{`"metric":"dd.metric"`, `"resources":[` + strings.Join(res, ",") + `]`, `"points":[` + strings.Join(pts, ",") + `]`, `"type":0`}
			r.Shuffle(len(parts), func(a, b int) { parts[a], parts[b] = parts[b], parts[a] })
			items = append(items, "{"+strings.Join(parts, ",")+"}")
		}
		req.Path, req.ContentType, req.Body = "/api/v2/series", "application/json", []byte(`{"series":[`+strings.Join(items, ",")+`]}`)
	case "otlp-logs":
		ld := &otlpLogs.LogsData{}
		for _, s := range c.Streams {
			// split the stream's labels over resource / scope / record attributes
			var resA, scA, recA []*otlpCommon.KeyValue
			for i, l := range s.Labels {
				kv := &otlpCommon.KeyValue{Key: l[0], Value: &otlpCommon.AnyValue{Value: &otlpCommon.AnyValue_StringValue{StringValue: l[1]}}}
				switch (i + r.Intn(3)) % 3 {
				case 0:
					resA = append(resA, kv)
				case 1:
					scA = append(scA, kv)
				default:
					recA = append(recA, kv)
				}
			}
			// a third of the streams: the resource also carries every key the record and the scope carry, with another
			// value (the more specific level wins: resource < scope < record)
			if fnv32(s.SID)%3 == 0 {
				for _, kv := range append(append([]*otlpCommon.KeyValue{}, recA...), scA...) {
					resA = append(resA, &otlpCommon.KeyValue{Key: kv.Key, Value: &otlpCommon.AnyValue{Value: &otlpCommon.AnyValue_StringValue{StringValue: "shadowed"}}})
				}
			}
			sl := &otlpLogs.ScopeLogs{Scope: &otlpCommon.InstrumentationScope{Name: "sc", Attributes: scA}}
			if len(scA) == 0 && r.Intn(2) == 0 {
				sl.Scope = nil // the scope is optional in OTLP
			}
			for _, e := range s.Entries {
				sl.LogRecords = append(sl.LogRecords, &otlpLogs.LogRecord{TimeUnixNano: uint64(e.TsNs), Attributes: recA,
					Body: &otlpCommon.AnyValue{Value: &otlpCommon.AnyValue_StringValue{StringValue: e.Line}}})
			}
			rl := &otlpLogs.ResourceLogs{Resource: &otlpRes.Resource{Attributes: resA}, ScopeLogs: []*otlpLogs.ScopeLogs{sl}}
			if len(resA) == 0 && r.Intn(2) == 0 {
				rl.Resource = nil // so is the resource
			}
			ld.ResourceLogs = append(ld.ResourceLogs, rl)
		}
		b, err := proto.Marshal(ld)
		if err != nil {
			panic(err)
		}
		req.Path, req.ContentType, req.Body = "/v1/logs", "application/x-protobuf", b
	default:
		panic("unknown proto " + proto_)
	}
	req.MultiChunk = c.entries() > 1000 || len(req.Body) > 1<<20
	return req
}

func influxEsc(s string) string {
	return strings.NewReplacer(",", `\,`, "=", `\=`, " ", `\ `).Replace(s)
}

var _ = bytes.NewBuffer
