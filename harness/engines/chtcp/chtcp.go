// Package chtcp is E-CHTCP: a fake ClickHouse server speaking the native TCP protocol
// (DESIGN §3 C20). It accepts the hello of both client libraries qryn uses (ch-go = insert
// path, clickhouse-go = read path / general-purpose client), answers Ping with Pong, decodes
// Query packets and logs each one as a DB-INTERACTION with a logical sequence number.
// INSERT statements are played to the end (header block -> data blocks -> end of stream);
// every other statement is answered with a server exception (code 60, unknown table).
//
// Nothing in here decides anything: it is an observer with a log. Pings and connection
// attempts are logged with their own kinds so that an oracle can tell background liveness
// traffic (watchdogs, pool warm-up) from query-level interactions.
package chtcp

import (
	"fmt"
	"net"
	"regexp"
	"strings"
	"sync"
	"time"

	"github.com/ClickHouse/ch-go/proto"
)

// Revision announced by the fake. It is below 54458 on purpose: from that revision on the
// clients send an "addendum" after the hello, which the fake does not need.
const Revision = 54451

// Kinds of events.
const (
	KConn      = "conn"      // TCP connection accepted
	KHello     = "hello"     // client hello decoded (Client / Lib are known from here on)
	KPing      = "ping"      // Ping packet (answered with Pong); NOT an interaction
	KQuery     = "query"     // Query packet: the DB-INTERACTION
	KData      = "data"      // one non-empty data block of an INSERT (Rows, Cols)
	KInsertEnd = "insertend" // INSERT exchange finished, EndOfStream sent
	KException = "exception" // server exception sent
	KCancel    = "cancel"    // client cancelled
	KClose     = "close"     // connection ended
	KError     = "error"     // protocol problem (Body holds the text)
)

type Event struct {
	Seq    int64  `json:"seq"` // logical time: position in the log, starting at 1
	Kind   string `json:"kind"`
	Conn   int    `json:"conn"`
	Client string `json:"client,omitempty"` // client name from the hello
	Lib    string `json:"lib,omitempty"`    // "ch-go" | "clickhouse-go" | "other"
	Body   string `json:"body,omitempty"`   // query text / error text
	Rows   int    `json:"rows,omitempty"`
	Cols   int    `json:"cols,omitempty"`
	Insert bool   `json:"insert,omitempty"`
}

type Server struct {
	ln     net.Listener
	mu     sync.Mutex
	log    []Event
	conns  map[net.Conn]struct{}
	nconn  int
	closed bool
	wg     sync.WaitGroup
	// Handler, if set, executes every statement that carries no data blocks (DDL, SELECT, INSERT with its values
	// in the text): it returns the result column (nil = a statement without result) or the server exception to
	// answer with. Without a handler such statements are refused with code 60.
	Handler func(db, body string) (res *Result, exc *Exc)
}

// Exc is a server exception to answer with.
type Exc struct {
	Code          int
	Name, Message string
}

// Result is a one-column result set.
type Result struct {
	Name   string
	Type   string // "String" | "UInt64"
	Values []any
}

// Start listens on 127.0.0.1:0.
func Start() (*Server, error) {
	ln, err := net.Listen("tcp", "127.0.0.1:0")
	if err != nil {
		return nil, err
	}
	s := &Server{ln: ln, conns: map[net.Conn]struct{}{}}
	s.wg.Add(1)
	go s.accept()
	return s, nil
}

func (s *Server) Port() int    { return s.ln.Addr().(*net.TCPAddr).Port }
func (s *Server) Addr() string { return s.ln.Addr().String() }

// Close stops the listener and drops every connection.
func (s *Server) Close() {
	s.mu.Lock()
	if s.closed {
		s.mu.Unlock()
		return
	}
	s.closed = true
	for c := range s.conns {
		c.Close()
	}
	s.mu.Unlock()
	s.ln.Close()
	done := make(chan struct{})
	go func() { s.wg.Wait(); close(done) }()
	select {
	case <-done:
	case <-time.After(3 * time.Second):
	}
}

func (s *Server) add(e Event) int64 {
	s.mu.Lock()
	defer s.mu.Unlock()
	e.Seq = int64(len(s.log) + 1)
	if len(e.Body) > 4096 {
		e.Body = e.Body[:4096] + "…"
	}
	s.log = append(s.log, e)
	return e.Seq
}

// Seq is the current logical time (number of events logged so far).
func (s *Server) Seq() int64 {
	s.mu.Lock()
	defer s.mu.Unlock()
	return int64(len(s.log))
}

// Since returns a copy of the events with Seq > seq, optionally restricted to some kinds.
func (s *Server) Since(seq int64, kinds ...string) []Event {
	s.mu.Lock()
	defer s.mu.Unlock()
	if seq < 0 {
		seq = 0
	}
	if seq > int64(len(s.log)) {
		return nil
	}
	out := []Event{}
	for _, e := range s.log[seq:] {
		if len(kinds) == 0 {
			out = append(out, e)
			continue
		}
		for _, k := range kinds {
			if e.Kind == k {
				out = append(out, e)
				break
			}
		}
	}
	return out
}

// Interactions are the query-level events after seq (the DB-INTERACTIONs of DESIGN C20).
func (s *Server) Interactions(seq int64) []Event { return s.Since(seq, KQuery) }

// Counts is a histogram of event kinds.
func (s *Server) Counts() map[string]int {
	s.mu.Lock()
	defer s.mu.Unlock()
	m := map[string]int{}
	for _, e := range s.log {
		m[e.Kind]++
		if e.Kind == KQuery {
			m["query/"+e.Lib]++
		}
	}
	return m
}

func (s *Server) accept() {
	defer s.wg.Done()
	for {
		c, err := s.ln.Accept()
		if err != nil {
			return
		}
		s.mu.Lock()
		if s.closed {
			s.mu.Unlock()
			c.Close()
			return
		}
		s.nconn++
		id := s.nconn
		s.conns[c] = struct{}{}
		s.mu.Unlock()
		s.wg.Add(1)
		go func() {
			defer s.wg.Done()
			s.serve(c, id)
			c.Close()
			s.mu.Lock()
			delete(s.conns, c)
			s.mu.Unlock()
		}()
	}
}

// LibOf classifies a client name of the native-protocol hello.
func LibOf(name string) string {
	l := strings.ToLower(name)
	switch {
	case strings.Contains(l, "clickhouse-go"):
		return "clickhouse-go"
	case strings.Contains(l, "ch-go"):
		return "ch-go"
	}
	return "other"
}

type conn struct {
	s      *Server
	id     int
	c      net.Conn
	r      *proto.Reader
	w      proto.Buffer
	rev    int
	client string
	lib    string
	db     string
}

func (c *conn) ev(kind, body string) Event {
	return Event{Kind: kind, Conn: c.id, Client: c.client, Lib: c.lib, Body: body}
}

func (c *conn) flush() error {
	c.c.SetWriteDeadline(time.Now().Add(30 * time.Second))
	_, err := c.c.Write(c.w.Buf)
	c.w.Reset()
	return err
}

func (c *conn) exception(code int, msg string) error {
	proto.ServerCodeException.Encode(&c.w)
	(&proto.Exception{Code: proto.Error(code), Name: "DB::Exception", Message: msg}).EncodeAware(&c.w, c.rev)
	c.s.add(c.ev(KException, fmt.Sprintf("code=%d %s", code, msg)))
	return c.flush()
}

func (s *Server) serve(nc net.Conn, id int) {
	c := &conn{s: s, id: id, c: nc, r: proto.NewReader(nc)}
	s.add(c.ev(KConn, nc.RemoteAddr().String()))
	defer func() {
		if r := recover(); r != nil {
			s.add(c.ev(KError, fmt.Sprintf("panic in fake server: %v", r)))
		}
		s.add(c.ev(KClose, ""))
	}()
	code, err := c.r.UVarInt()
	if err != nil {
		return // port probe / connection dropped before the hello
	}
	if proto.ClientCode(code) != proto.ClientCodeHello {
		s.add(c.ev(KError, fmt.Sprintf("first packet is %d, not hello", code)))
		return
	}
	var h proto.ClientHello
	if err := h.Decode(c.r); err != nil {
		s.add(c.ev(KError, "hello: "+err.Error()))
		return
	}
	c.client, c.lib, c.db = h.Name, LibOf(h.Name), h.Database
	c.rev = Revision
	if h.ProtocolVersion < c.rev {
		c.rev = h.ProtocolVersion
	}
	s.add(c.ev(KHello, fmt.Sprintf("proto=%d db=%q user=%q", h.ProtocolVersion, h.Database, h.User)))
	(&proto.ServerHello{Name: "ClickHouse", Major: 23, Minor: 3, Revision: Revision, Timezone: "UTC",
		DisplayName: "verif-fake", Patch: 1}).EncodeAware(&c.w, c.rev)
	if c.flush() != nil {
		return
	}
	for {
		code, err := c.r.UVarInt()
		if err != nil {
			return
		}
		switch proto.ClientCode(code) {
		case proto.ClientCodePing:
			s.add(c.ev(KPing, ""))
			proto.ServerCodePong.Encode(&c.w)
			if c.flush() != nil {
				return
			}
		case proto.ClientCodeCancel:
			s.add(c.ev(KCancel, ""))
		case proto.ClientCodeQuery:
			if !c.query() {
				return
			}
		case proto.ClientCodeData:
			// a stray data block (e.g. after an exception raced with the client's input): try
			// to skip it; if that is impossible the connection is useless.
			if _, _, err := c.readData(false); err != nil {
				s.add(c.ev(KError, "stray data: "+err.Error()))
				return
			}
		default:
			s.add(c.ev(KError, fmt.Sprintf("unknown client packet %d", code)))
			return
		}
	}
}

// readData reads the body of a client Data packet (the packet code has been consumed).
func (c *conn) readData(compressed bool) (rows, cols int, err error) {
	var cd proto.ClientData
	if err = cd.DecodeAware(c.r, c.rev); err != nil {
		return
	}
	if compressed {
		c.r.EnableCompression()
		defer c.r.DisableCompression()
	}
	var b proto.Block
	var res proto.Results
	if err = b.DecodeBlock(c.r, c.rev, res.Auto()); err != nil {
		return
	}
	return b.Rows, b.Columns, nil
}

func (c *conn) expectData(compressed bool) (rows, cols int, err error) {
	code, err := c.r.UVarInt()
	if err != nil {
		return 0, 0, err
	}
	switch proto.ClientCode(code) {
	case proto.ClientCodeData:
		return c.readData(compressed)
	case proto.ClientCodeCancel:
		return 0, 0, errCancelled
	}
	return 0, 0, fmt.Errorf("expected data packet, got %d", code)
}

var errCancelled = fmt.Errorf("cancelled by client")

// an INSERT whose rows follow in data blocks ends with VALUES (or has no VALUES / FORMAT clause at all)
var insertTailRe = regexp.MustCompile(`(?is)(VALUES|FORMAT\s+\w+)\s*;?\s*$|^[^()]*\([^)]*\)\s*$|^\s*INSERT\s+INTO\s+\S+\s*$`)

var insertRe = regexp.MustCompile(`(?is)^\s*INSERT\s+INTO\s+([^\s(]+)\s*(?:\(([^)]*)\))?`)

// IsInsert tells whether a statement is an INSERT (table and column list if so).
func IsInsert(body string) (table string, cols []string, ok bool) {
	m := insertRe.FindStringSubmatch(body)
	if m == nil {
		return "", nil, false
	}
	table = strings.Trim(m[1], "`\"")
	if i := strings.LastIndex(table, "."); i >= 0 {
		table = strings.Trim(table[i+1:], "`\"")
	}
	for _, f := range strings.Split(m[2], ",") {
		f = strings.Trim(strings.TrimSpace(f), "`\"")
		if f != "" {
			cols = append(cols, f)
		}
	}
	return table, cols, true
}

// Column types of the tables qryn inserts into (ctrl's schema), used for the header block of
// an INSERT. A column that is not listed makes the fake answer with an exception instead.
var knownTypes = map[string]map[string]string{
	"samples_v3":  {"type": "UInt8", "fingerprint": "UInt64", "timestamp_ns": "Int64", "string": "String", "value": "Float64"},
	"time_series": {"type": "UInt8", "date": "Date", "fingerprint": "UInt64", "labels": "String"},
	"tempo_traces": {"oid": "String", "trace_id": "FixedString(16)", "span_id": "FixedString(8)", "parent_id": "String",
		"name": "String", "timestamp_ns": "Int64", "duration_ns": "Int64", "service_name": "String",
		"payload_type": "Int8", "payload": "String"},
	"tempo_traces_attrs_gin": {"oid": "String", "date": "Date", "key": "String", "val": "String",
		"trace_id": "FixedString(16)", "span_id": "FixedString(8)", "timestamp_ns": "Int64", "duration": "Int64"},
	"settings": {"fingerprint": "UInt64", "type": "String", "name": "String", "value": "String", "inserted_at": "DateTime64(9, 'UTC')"},
}

func headerTypes(table string, cols []string) ([]string, bool) {
	table = strings.TrimSuffix(table, "_dist")
	kt := knownTypes[table]
	if kt == nil || len(cols) == 0 {
		return nil, false
	}
	out := make([]string, len(cols))
	for i, c := range cols {
		t, ok := kt[c]
		if !ok {
			return nil, false
		}
		out[i] = t
	}
	return out, true
}

// hdrCol is a zero-row column of an arbitrary type, enough for a header ("sample") block.
type hdrCol struct{ t string }

func (h hdrCol) Type() proto.ColumnType     { return proto.ColumnType(h.t) }
func (h hdrCol) Rows() int                  { return 0 }
func (h hdrCol) EncodeColumn(*proto.Buffer) {}
func (h hdrCol) WriteColumn(*proto.Writer)  {}

// query handles one Query packet; false = drop the connection.
func (c *conn) query() bool {
	var q proto.Query
	if err := q.DecodeAware(c.r, c.rev); err != nil {
		c.s.add(c.ev(KError, "query decode: "+err.Error()))
		return false
	}
	table, cols, isInsert := IsInsert(q.Body)
	e := c.ev(KQuery, q.Body)
	e.Insert = isInsert
	c.s.add(e)
	compressed := q.Compression == proto.CompressionEnabled
	// external tables: the client terminates them with an empty Data block
	for {
		rows, ncols, err := c.expectData(compressed)
		if err == errCancelled {
			c.s.add(c.ev(KCancel, ""))
			return true
		}
		if err != nil {
			c.s.add(c.ev(KError, "external data: "+err.Error()))
			return false
		}
		if rows == 0 && ncols == 0 {
			break
		}
	}
	if h := c.s.Handler; h != nil && !(isInsert && insertTailRe.MatchString(q.Body)) {
		res, ex := h(c.db, q.Body)
		if ex != nil {
			proto.ServerCodeException.Encode(&c.w)
			(&proto.Exception{Code: proto.Error(ex.Code), Name: ex.Name, Message: ex.Message}).EncodeAware(&c.w, c.rev)
			c.s.add(c.ev(KException, fmt.Sprintf("code=%d %s", ex.Code, ex.Message)))
			return c.flush() == nil
		}
		if res != nil {
			if compressed {
				return c.exception(1000, "verif fake ClickHouse: compressed result blocks are not built") == nil
			}
			// header block (no rows), then the rows
			for _, withRows := range []bool{false, true} {
				var data proto.ColInput
				n := 0
				switch res.Type {
				case "UInt64":
					col := new(proto.ColUInt64)
					if withRows {
						for _, v := range res.Values {
							col.Append(v.(uint64))
						}
						n = len(res.Values)
					}
					data = col
				default:
					col := new(proto.ColStr)
					if withRows {
						for _, v := range res.Values {
							col.Append(fmt.Sprint(v))
						}
						n = len(res.Values)
					}
					data = col
				}
				if withRows && n == 0 {
					break
				}
				proto.ServerCodeData.Encode(&c.w)
				c.w.PutString("")
				in := []proto.InputColumn{{Name: res.Name, Data: data}}
				if err := (proto.Block{Columns: 1, Rows: n, Info: proto.BlockInfo{BucketNum: -1}}).EncodeBlock(&c.w, c.rev, in); err != nil {
					c.s.add(c.ev(KError, "encode result: "+err.Error()))
					return false
				}
			}
		}
		proto.ServerCodeEndOfStream.Encode(&c.w)
		return c.flush() == nil
	}
	if !isInsert {
		return c.exception(60, "verif fake ClickHouse: table does not exist (statement logged, not executed)") == nil
	}
	types, ok := headerTypes(table, cols)
	if !ok || compressed {
		// a correct header block cannot be built (unknown table/column, or the client wants
		// compressed blocks): refuse the INSERT; it is logged all the same.
		return c.exception(60, "verif fake ClickHouse: cannot describe table "+table) == nil
	}
	in := make([]proto.InputColumn, len(cols))
	for i := range cols {
		in[i] = proto.InputColumn{Name: cols[i], Data: hdrCol{types[i]}}
	}
	proto.ServerCodeData.Encode(&c.w)
	c.w.PutString("")
	if err := (proto.Block{Columns: len(in), Rows: 0, Info: proto.BlockInfo{BucketNum: -1}}).EncodeBlock(&c.w, c.rev, in); err != nil {
		c.s.add(c.ev(KError, "encode header: "+err.Error()))
		return false
	}
	if c.flush() != nil {
		return false
	}
	total := 0
	for {
		rows, ncols, err := c.expectData(false)
		if err == errCancelled {
			c.s.add(c.ev(KCancel, ""))
			return true
		}
		if err != nil {
			c.s.add(c.ev(KError, "insert data: "+err.Error()))
			return false
		}
		if rows == 0 && ncols == 0 {
			break
		}
		d := c.ev(KData, table)
		d.Rows, d.Cols = rows, ncols
		c.s.add(d)
		total += rows
	}
	proto.ServerCodeEndOfStream.Encode(&c.w)
	d := c.ev(KInsertEnd, table)
	d.Rows = total
	c.s.add(d)
	return c.flush() == nil
}
