package chtcp

import (
	"context"
	"strings"
	"testing"
	"time"

	"github.com/ClickHouse/ch-go"
	"github.com/ClickHouse/ch-go/proto"
	"github.com/ClickHouse/clickhouse-go/v2"
)

func TestBothClients(t *testing.T) {
	s, err := Start()
	if err != nil {
		t.Fatal(err)
	}
	defer s.Close()
	ctx, cancel := context.WithTimeout(context.Background(), 10*time.Second)
	defer cancel()

	cl, err := ch.Dial(ctx, ch.Options{Address: s.Addr(), Database: "db", User: "u", Password: "p"})
	if err != nil {
		t.Fatal("dial", err)
	}
	if err := cl.Ping(ctx); err != nil {
		t.Fatal("ping", err)
	}
	tp := proto.ColUInt8{1, 2}
	dt := proto.ColDate{1, 2}
	fp := proto.ColUInt64{10, 20}
	lb := &proto.ColStr{}
	lb.Append("x")
	lb.Append("y")
	err = cl.Do(ctx, ch.Query{Body: "INSERT INTO time_series (type, date, fingerprint, labels) VALUES ",
		Input: proto.Input{{Name: "type", Data: tp}, {Name: "date", Data: dt}, {Name: "fingerprint", Data: fp}, {Name: "labels", Data: lb}}})
	if err != nil {
		t.Fatal("insert", err)
	}
	// trace insert with FixedString columns (Inferable on the client side)
	tid := &proto.ColFixedStr{Size: 16}
	tid.Append([]byte("0123456789abcdef"))
	sid := &proto.ColFixedStr{Size: 8}
	sid.Append([]byte("01234567"))
	ts := proto.ColInt64{1}
	err = cl.Do(ctx, ch.Query{Body: "INSERT INTO tempo_traces (trace_id ,span_id, timestamp_ns)",
		Input: proto.Input{{Name: "trace_id", Data: tid}, {Name: "span_id", Data: sid}, {Name: "timestamp_ns", Data: ts}}})
	if err != nil {
		t.Fatal("insert traces", err)
	}
	// unknown table: exception, connection stays usable
	err = cl.Do(ctx, ch.Query{Body: "INSERT INTO nope (a)", Input: proto.Input{{Name: "a", Data: ts}}})
	if err == nil || !strings.Contains(err.Error(), "cannot describe") {
		t.Fatal("expected exception, got", err)
	}
	cl.Close()

	conn, err := clickhouse.Open(&clickhouse.Options{Addr: []string{s.Addr()}, Auth: clickhouse.Auth{Database: "db", Username: "u", Password: "p"},
		Compression: &clickhouse.Compression{Method: clickhouse.CompressionLZ4}, DialTimeout: 2 * time.Second})
	if err != nil {
		t.Fatal(err)
	}
	if err := conn.Ping(ctx); err != nil {
		t.Fatal("chgo ping", err)
	}
	if _, err = conn.Query(ctx, "SELECT 1 FROM time_series LIMIT 1"); err == nil || !strings.Contains(err.Error(), "60") {
		t.Fatal("expected code 60, got", err)
	}
	if err := conn.Ping(ctx); err != nil {
		t.Fatal("chgo ping after exception", err)
	}
	conn.Close()
	time.Sleep(50 * time.Millisecond)

	qs := s.Interactions(0)
	if len(qs) != 4 {
		t.Fatalf("want 4 queries, got %d: %+v", len(qs), qs)
	}
	if qs[0].Lib != "ch-go" || !qs[0].Insert || qs[3].Lib != "clickhouse-go" || qs[3].Insert {
		t.Fatalf("bad classification: %+v", qs)
	}
	cnt := s.Counts()
	if cnt[KInsertEnd] != 2 || cnt[KData] != 2 || cnt[KPing] < 3 || cnt[KConn] < 2 || cnt[KError] != 0 {
		t.Fatalf("counts: %v\n%+v", cnt, s.Since(0))
	}
	for _, e := range s.Since(0, KData) {
		if e.Rows < 1 {
			t.Fatalf("data event without rows: %+v", e)
		}
	}
}

func TestIsInsert(t *testing.T) {
	tb, cols, ok := IsInsert("INSERT INTO `db`.samples_v3_dist (type,fingerprint, `timestamp_ns`, string, value)")
	if !ok || tb != "samples_v3_dist" || len(cols) != 5 || cols[2] != "timestamp_ns" {
		t.Fatal(tb, cols, ok)
	}
	if _, _, ok := IsInsert("SELECT 1"); ok {
		t.Fatal("select is not insert")
	}
	if ty, ok := headerTypes("samples_v3_dist", cols); !ok || ty[4] != "Float64" {
		t.Fatal(ty, ok)
	}
}
