// Package race is E-RACE: collects Go race-detector reports written with
// GORACE="halt_on_error=0 log_path=…", de-duplicates them and classifies them by scope.
package race

import (
	"os"
	"path/filepath"
	"regexp"
	"sort"
	"strings"
)

type Report struct {
	Text    string
	Frames  [][]string // per stack: qryn frames (function names), outermost last
	Files   []string   // qryn source files mentioned
	Key     string
	Summary string
}

// Collect reads every log file with the given path prefix.
func Collect(logPrefix string) []Report {
	files, _ := filepath.Glob(logPrefix + "*")
	var out []Report
	for _, f := range files {
		b, err := os.ReadFile(f)
		if err != nil {
			continue
		}
		parts := strings.Split(string(b), "==================")
		for _, p := range parts {
			if strings.Contains(p, "WARNING: DATA RACE") {
				out = append(out, parse(p))
			}
		}
		os.Remove(f)
	}
	return out
}

var frameRe = regexp.MustCompile(`(?m)^\s*(github\.com/metrico/qryn/[^\s(]+)`)
var fileRe = regexp.MustCompile(`(?m)^\s+(/repo/[^\s:]+):(\d+)`)

func parse(text string) Report {
	r := Report{Text: text}
	// split into stacks at blank lines
	for _, st := range strings.Split(text, "\n\n") {
		var fr []string
		for _, m := range frameRe.FindAllStringSubmatch(st, -1) {
			fr = append(fr, strings.TrimPrefix(m[1], "github.com/metrico/qryn/"))
		}
		if len(fr) > 0 {
			r.Frames = append(r.Frames, fr)
		}
	}
	seen := map[string]bool{}
	for _, m := range fileRe.FindAllStringSubmatch(text, -1) {
		if !seen[m[1]] {
			seen[m[1]] = true
			r.Files = append(r.Files, strings.TrimPrefix(m[1], "/repo/"))
		}
	}
	// key: innermost qryn frame of the first two stacks (the two racing accesses), line numbers stripped
	var ks []string
	for i := 0; i < len(r.Frames) && i < 2; i++ {
		ks = append(ks, strip(r.Frames[i][0]))
	}
	sort.Strings(ks)
	r.Key = strings.Join(ks, "~")
	if r.Key == "" {
		r.Key = "no-qryn-frame"
	}
	r.Summary = r.Key
	return r
}

func strip(f string) string {
	f = regexp.MustCompile(`\.func\d+(\.\d+)*`).ReplaceAllString(f, ".func")
	f = regexp.MustCompile(`\[[^\]]*\]`).ReplaceAllString(f, "")
	return f
}

func Dedupe(rs []Report) []Report {
	seen := map[string]bool{}
	var out []Report
	for _, r := range rs {
		if !seen[r.Key] {
			seen[r.Key] = true
			out = append(out, r)
		}
	}
	sort.Slice(out, func(i, j int) bool { return out[i].Key < out[j].Key })
	return out
}

type Scope struct {
	// a report is in scope if BOTH racing accesses have their innermost qryn frame in one of these
	// function-name prefixes …
	Funcs []string
	// … and none of them is in the exclusion list (statistics, liveness timestamps)
	Exclude []string
}

// ScopeInsertBatch: state anchored by C01/C02 — the open batch (columns, results, size, insert
// context) of the insert services, the pooled columns and the per-table append routines.
var ScopeInsertBatch = Scope{
	Funcs: []string{"writer/service.(*InsertServiceV2).Request", "writer/service.(*InsertServiceV2).swapBuffers", "writer/service.(*InsertServiceV2).fetchLoopIteration",
		"writer/service.(*InsertServiceV2).PlanFlush", "writer/service.(*InsertServiceV2).Run", "writer/service/impl.", "writer/service.(*PooledColumn", "writer/service.(*colPool",
		"writer/service.FixedStrAdaptor", "writer/service.(*FixedStrAdaptor", "writer/service.Int64Adaptor", "writer/service.(*Int64Adaptor", "writer/service.ColTuple", "writer/utils/promise."},
	Exclude: []string{"writer/service.(*InsertServiceV2).Ping", "writer/service.(*InsertServiceV2).ping", "writer/utils/stat."},
}

func InScope(r Report, s Scope) bool {
	if len(r.Frames) < 2 {
		return false
	}
	for i := 0; i < 2; i++ {
		f := r.Frames[i][0]
		for _, e := range s.Exclude {
			if strings.HasPrefix(f, e) {
				return false
			}
		}
		ok := false
		for _, p := range s.Funcs {
			if strings.HasPrefix(f, p) {
				ok = true
			}
		}
		if !ok {
			return false
		}
	}
	return true
}
