#!/bin/bash
# Runs the repository's own test suite (hooks OFF) and prints pass/fail counts: must stay at 58 passing tests.
cd /repo && . /w/out/goenv.sh && MF=$(gomodflag) && go test $MF -json -vet=off -count=1 -timeout 25m ./... 2>/dev/null > /tmp/baseline.json
python3 - <<'P'
import json
p=f=0; fails=[]
for l in open('/tmp/baseline.json'):
    try: d=json.loads(l)
    except: continue
    if d.get('Test') and d.get('Action')=='pass': p+=1
    if d.get('Test') and d.get('Action')=='fail': f+=1; fails.append(d['Package']+'::'+d['Test'])
print('baseline: pass',p,'fail',f,fails[:10])
P
rm -f /tmp/baseline.json
