#!/bin/bash
# development aid: ./mut.sh <name> <patch-or-sedscript.sh> <PROP...>  -> applies a change to a scratch worktree of /repo and runs checks against it
# usage: mut.sh name 'python/sed command run inside worktree' C01 C02
set -u
NAME="$1"; CMD="$2"; shift 2
WT=/tmp/mutwt-$NAME
git -C /repo worktree remove --force "$WT" >/dev/null 2>&1
git -C /repo worktree add --detach "$WT" HEAD >/dev/null 2>&1 || { echo "worktree failed"; exit 2; }
[ -f /repo/verif_hooks.go ] && cp /repo/verif_hooks.go "$WT/" 
( cd "$WT" && bash -c "$CMD" ) || { echo "mutation command failed"; git -C /repo worktree remove --force "$WT"; exit 2; }
( cd "$WT" && git diff --stat | tail -1 )
for P in "$@"; do
  VERIF_REPO="$WT" /verif/check "$P" ${TIER:-quick} 2>&1 | grep -E "^(VIOLATION|RESULT|INCONCLUSIVE|KNOWN)|sig=" | cut -c1-260 | head -${LINES_MAX:-8}
done
git -C /repo worktree remove --force "$WT"
