#!/bin/bash
# Offline setup: verify the toolchain and warm the Go build cache (every check rebuilds from /repo's working tree anyway).
set -u
HERE="$(cd "$(dirname "$0")" && pwd)"
. "$HERE/env.sh"
"$GO" version || { echo "go toolchain missing"; exit 1; }
cd "$HERE/harness" && cp /repo/go.sum ./go.sum 2>/dev/null
"$GO" build -tags verif -o /dev/null ./cmd/vrun || { echo "harness does not build"; exit 1; }
echo "setup ok"
