#!/usr/bin/env python3
"""Regenerates /verif/MANIFEST.json from the table below (kept in one place so the file is always valid)."""
import json, sys
BASE = open('/root/.vp/BASELINE.json').read()
baseline_cmd = json.loads(BASE)['cmd']

CHECKS = {
 # id: (engine, category, text, note, technique, design_ref)
}
def add(pid, engine, cat, text, note, tech, ref):
    CHECKS[pid] = (engine, cat, text, note, tech, ref)

add('C03', 'E-RUN+E-CHW+gen', 'exploration',
    'Generated well-formed bodies of all nine log/metric ingest protocols are pushed through the real router, parsers and insert services; an offline oracle compares the multiset of sample rows that reached the fake ClickHouse client with the rows known by construction (timestamp, text, value, type, stream). Held = no mismatch on the explored bodies, every protocol and multi-chunk bodies covered.',
    'Trusted: the body renderers (well-formedness of generated bodies), ch-go column objects read directly, attribution of a row to its stream through the stored label document. ClickHouse itself is not involved.',
    'differential runtime monitoring: real ingest path vs rows known by construction', 'DESIGN §3 C03')

add('C01', 'E-RUN+E-CHW+gen (+E-RACE in thorough)', 'exploration',
    'History checking with fault injection: per batching configuration one child process runs the real writer (router, parsers, retry, batching services) against the fake ClickHouse client; concurrent mixed pushes in calm / random-fault / targeted phases (table keeps failing, fails once, insert held while requests arrive, reconnect refused). Offline oracle on one logical clock: every row owned by a 2xx request is in a successful INSERT that returned before the answer; unanswered requests with an idle database are violations. Thorough adds 70+ configurations and the race detector with a scope classifier.',
    'Trusted: the fake client (outcome script = what ClickHouse answered), unique-id attribution of rows to requests, the wrapped insert services as observers of Request() and of the fulfilment of its promise (a fulfilled promise of a request that carried rows needs an INSERT into the service table called after the hand-over and returned before the fulfilment; series rows of streams pushed by several clients at once are judged there only), the logical clock (block return tick taken before Do returns, answer tick after the reply is read). Retry success after a single failure is recorded but not required (the statement does not demand it).',
    'runtime monitoring: offline history checker over recorded HTTP answers and INSERT ledger, scripted fault injection, race detector', 'DESIGN §3 C01')
add('C02', 'E-RUN+E-CHW+gen (+E-RACE in thorough)', 'exploration',
    'Every INSERT block handed to the fake client under the C01 workload plus shape stress is checked online (equal per-column row counts, ch-go encoder accepts it) and offline (every decoded row of samples/series/spans/tags/profiles equals one submitted row in all fields, no row duplicated inside a block, all rows of a single-chunk acknowledged request sit together in one successful block).',
    'Trusted: decoding of ch-go column objects, unique ids embedded in every field that can carry one; contiguity/order of rows inside a block is not required.',
    'runtime monitoring: online block assertions + offline row-level comparison against rows known by construction, race detector', 'DESIGN §3 C02')

add('C05', 'E-RUN+E-CHW+gen', 'exploration',
    'Robustness fuzzing of the real writer in crash-isolated child processes: every ingest route × content type × mutation operator (byte level, JSON structure, protobuf with absent sub-messages, boundary ids, query parameters, lying/truncated encodings, headers, random bytes). Monitors: process death (attributed through a write-ahead log to the request in flight), unanswered request with goroutine dumps showing the request stuck in qryn frames, connection closed without response, a well-formed canary push after every hostile request (acknowledged, rows intact), rectangular shared batches, goroutine census before/after.',
    'Trusted: fake always-succeeding insert client (every hundredth case also pushes a multi-portion body at full speed beside another client; every 400th one while all INSERTs fail); the wedged verdict needs a client timeout of 15 s AND two identical goroutine dumps 2 s apart (a timeout alone is inconclusive). Inputs are sampled, not enumerated.',
    'runtime monitoring: crash-isolated fuzzing with liveness, canary and goroutine-census monitors', 'DESIGN §3 C05')

add('C04', 'E-RUN+E-CHW+gen', 'exploration',
    'Three runtime monitors: (1) the exported ingest parsers are run on random label sets (hostile bytes) in two orders and through every protocol that can carry the set unchanged - fingerprints must agree, no collision among the distinct sets (CityHash type), the stored label document must be strict JSON decoding to exactly the set; (2) push histories (several days, cache resets with a 40 ms cache period, series INSERT failing through all retries followed by a client retry, clustered and single mode) against the real writer - every acknowledged sample must have a successfully inserted series row, returned before the answer, dated so that the read side finds it; (3) the same histories in child processes with TZ east and west of UTC and samples at UTC/local midnight +-1 s.',
    'Trusted: read-side search rule restated in the oracle (date(t-30min) <= d <= date(t), UTC); byte-preserving strict JSON parser; fake insert client. Bernstein (32-bit) fingerprint collisions are reported as a note, not judged.',
    'runtime monitoring: differential run of the exported parsers + offline conservation check over recorded histories, time-zone sweep', 'DESIGN §3 C04')
add('C18', 'E-RUN+E-CAT', 'fault_enumeration',
    'The real maintenance.Update runs against a fake clickhouse.Conn with a modelled catalogue (E-CAT). For each of 10 deployment configurations every statement of the uninterrupted run is a fault point in three kinds (fails before effect; effect applied but error returned and connection dead; version write fails), followed by up to three restarts on the surviving catalogue; thorough adds a second fault at every statement of the first restart. Oracle: restarts complete, scripts applied in file order without gaps, a recorded version never ahead of completed scripts, final catalogue equal to the uninterrupted run, a further run executes no script.',
    'Trusted: E-CAT DDL model and ClickHouse error behaviour (codes 57/60/15...), one catalogue stands for the whole cluster. Fault kinds: before / after / version-write / refused / server-exception (incl. the distributed-DDL timeout). The rows of `ver` are node-local, definitions cluster-wide; in clustered configurations every start reaches the other of two nodes. Exhaustive over fault points of the enumerated configurations in the quick tier; triple faults are sampled.',
    'runtime fault enumeration on the real Update against a modelled catalogue, statement-log monitor', 'DESIGN §3 C18, Appendix B')
add('C19', 'E-RUN+E-CAT+E-CHTCP', 'fault_enumeration',
    'The real Update+Rotate run against E-CAT with a modelled settings table and per-table TTL / storage policy. Scenarios = deployment x sequences of 1-4 retention configurations (ttl days, 0-3 tiers with durations 1 s..100 y and disks, storage policy present/absent, clustered or not); every statement of every run is a fault point followed by restarts. Oracle: every data table ends with the configured TTL (tier moves clamped to >= 1 min / >= 1 day) and storage policy, markers written only after all tables of their group were altered, interrupted runs converge, a second run with unchanged configuration issues no ALTER. Node lists go through ctrl.Rotate; every other one through the production RotateAll/rotateDB over the native protocol to one fake server per node in front of the node\'s catalogue, with tier timeouts in operators\' spellings.',
    'Trusted: E-CAT model of ALTER ... MODIFY TTL/SETTING (incl. storage policies and their disks: TO DISK off-policy is refused, code 450) and of the settings table (argMax read semantics). Required values are computed from the configuration and the property text, not from the statements issued. Fault points complete per configuration; configurations sampled by the PRNG.',
    'runtime fault enumeration on the real Rotate against a modelled catalogue, statement-log monitor', 'DESIGN §3 C19, Appendix B')

add('C06', 'E-RUN+gen+E-SQLDRV', 'exploration',
    'Round trip across the writer/reader boundary: generated span batches (OTLP protobuf; Zipkin JSON array and NDJSON) go through the exported ingest parsers; oracle 1 checks exactly one trace row per span with the pushed ids/parent/times/name/service and exactly one tag row per flattened attribute with the same ids and times; oracle 2 replays the stored rows as database rows (scripted database/sql driver) into the real trace read path and compares ids, name, times, parent, service and every pushed attribute with its typed value.',
    'Trusted: the span renderers; flattening rule restated from the property text; double-valued tag rows compared within 1e-6 (6-decimal rendering not judged); service name judged only where unambiguous.',
    'runtime monitoring: differential round trip through the real write and read paths vs spans known by construction', 'DESIGN §3 C06')
add('C20', 'real binary + E-CHTCP + hook', 'exploration',
    'The real qryn binary (built from the working tree with -tags verif) is started in writer and reader mode with basic auth configured, CORS on and off, against a fake native-protocol ClickHouse server; the real route table is dumped by the hook and every route x method is hit with a matrix of Authorization headers x Accept-Encoding x Origin. Oracle: without exactly the right credentials the answer is 401 (400 for a malformed header), never a handler body, and no query reaches the fake database; with the right credentials the request reaches the handler (database interactions observed).',
    'Trusted: the fake ClickHouse wire server as the observer of database interactions; route table = what mux.Walk reports for the router main registered; listening sockets of the process = what /proc/<pid>/fd and /proc/<pid>/net/tcp* show (every listener besides the application port is probed with the dumped routes without credentials; port-valued setting names found in the sources besides PORT / CLICKHOUSE_PORT get an instance of their own). Exhaustive over the dumped route table x the header list of the tier.',
    'runtime monitoring of the real binary: route walk x header matrix with a database-interaction monitor', 'DESIGN §3 C20, §5')

add('C07', 'E-RUN+E-SQLDRV+E-CHSQL+E-REF(logq)', 'translation_validation',
    'Translation validation by execution: queries are generated from an abstract LogQL model (matchers = != =~ !~ incl. >= 9 of them, line filters |= != |~ !~, label filters with and/or/parentheses over string and numeric comparisons, json with parameters incl. nested paths and array indexes, regexp with named groups, drop), rendered to text, parsed and planned by the real qryn chain exactly as the query_range service does; the SQL it sends is executed by the reference ClickHouse-subset interpreter on generated tables (hostile label values/lines, samples at the window edges, metric-type series) and the rows coming out of the real row scanner are compared with a direct LogQL evaluator: same lines, each under its own labels, limit = newest/oldest. Violations are minimised by deleting stages and signed with the minimal failing shape.',
    'Trusted: E-CHSQL as the model of ClickHouse (DESIGN Appendix A, self-tested), the direct evaluator (DESIGN Appendix E); judged cases are built so that every reasonable reading of LogQL agrees (regex anchoring, matchers on absent labels are probes); window granularity is one second as in the service.',
    'runtime translation validation: generated SQL executed by a reference interpreter vs direct evaluation on the same tables', 'DESIGN §3 C07')

add('C16', 'E-RUN+gen+E-CHSQL+E-SQLDRV', 'exploration',
    'Generated pprof profiles (1-4 sample types, 0-200 samples, depth up to 600 crossing the 511-level clamp, direct/indirect recursion, shared frames, locations without line info, inlined lines) go through both exported profile parsers; oracle A checks the stored tree per sample type (total = self + children, roots = sum of sample values, values_agg, function ids resolve, multiset of (name path, self, total) equals an independent fold of the abstract case); oracle B merges multisets of 1-6 stored trees in all permutations / shuffled row orders through the reader tree merge and layout code, fed both directly and through the real PlanMergeTraces SQL executed by E-CHSQL and the real ProfService over the scripted driver, and checks sums, order independence and flame-graph nesting (bars ordered, disjoint, inside their parent span, self <= total).',
    'Trusted: the abstract profile generator and its fold, E-CHSQL for the SQL aggregation step (disagreement between the SQL feed and the direct fold is reported as undecided, not as a violation). The sample types of one profile type are also requested at the same time through the real service (statements held at the scripted database until all have arrived): each caller must get what the same request returns on its own. Levels beyond the 511 clamp are judged on conservation only.',
    'runtime monitoring: conservation and nesting invariants checked on the outputs of the real parsers, merge and layout code', 'DESIGN §3 C16')

add('C08', 'E-RUN+E-SQLDRV+E-CHSQL+E-REF(logq)', 'translation_validation',
    'Translation validation by execution for metric queries: every range function (rate, count/bytes over time, bytes_rate, sum/avg/min/max/first/last over unwrapped labels) x vector aggregation x by/without (prefix and suffix) x comparison x topk/bottomk, ranges 1 s..1 h, steps range/4, range, 3 x range, pipelines with line/label filters and json extraction; every pipeline is run below and above the 15 s shortcut threshold. Two comparison points: (i) rows of the executed SQL vs tumbling buckets of the direct evaluator (exact for step <= range; at the two edge buckets both the strict and the widened window are accepted), (ii) points after the real Go post-processors (every output value is a bucket value of its series, output series = series with a non-zero bucket, buckets represented on aligned grids).',
    'Trusted: E-CHSQL and the direct evaluator (Appendix A/E). Not judged (probes, counted in evidence): vector aggregation without by/without, unwrap_value, unwrap of non-numeric text, unwrap of an extracted label without by(), results that depend on whether the unwrapped label stays in the series identity, ties in topk and first/last, quantile/absent. The bucket starting exactly at the window end is ignored.',
    'runtime translation validation: generated SQL executed by a reference interpreter and real post-processors vs direct evaluation', 'DESIGN §3 C08')

add('C09', 'E-RUN+E-SQLDRV+E-CHSQL+E-REF(logq)', 'exploration',
    'Three runtime monitors on pipelines that are split between ClickHouse and the in-process engine: (1) split pipelines (json / logfmt / line_format / label_format followed by line and label filters, json with parameters, label_format, drop, line_format, unwrap, range and vector aggregation with by/without, comparison, limits 0/1/k) run through the real planner chain over E-CHSQL and compared with the direct evaluator; (2) cross-engine agreement: the same pipeline planned entirely in SQL and forced in-process by an identity line_format stage must give the same entries/values and the same meaning of limit; (3) the in-process chain built by internal_planner.Plan is fed by a scripted upstream processor delivering the reference entries in random channel batchings (1..120 entries per message, empty messages).',
    'Trusted: E-CHSQL for the SQL half, the direct evaluator; malformed / non-object JSON lines under a parameterless json stage are probes; channel batchings are sampled, goroutine schedules are whatever the runtime produces.',
    'runtime monitoring: differential execution of the same pipeline on both engines and against a reference evaluator, scripted upstream batching', 'DESIGN §3 C09')
add('C10', 'E-RUN+E-SQLDRV+E-LEX', 'exploration',
    'Every SQL string the real reader sends to the scripted database/sql driver is recorded for 134 string-valued positions (LogQL matchers, line filters, label filters, json paths, regexp, drop, templates; PromQL matchers and match[]; TraceQL attributes; Tempo tags and URL tag names; Pyroscope selectors, type ids and label names; label names in URLs) x hostile strings (quotes, backslash runs, NUL, newlines, comment markers, multi-byte and invalid UTF-8, LIKE wildcards, 64 KiB) rendered in each language\'s own quoting. Oracle: an independent ClickHouse token lexer tokenises the statement for a benign marker and for the hostile string; token kinds and all non-literal token texts must be identical, every statement must lex to completion, and each differing literal must decode (two decoders) to the position\'s documented transform of the string.',
    'Trusted: the lexer E-LEX and its two string decoders (rule A1 and the server decoder), the per-position transform table written from the property text (identity, LIKE pattern meaning contains s, anchored regex for Prometheus/Pyroscope, composite values).',
    'runtime monitoring: differential token-structure comparison of recorded SQL with an independent lexer', 'DESIGN §3 C10')
add('C11', 'E-RUN+E-SQLDRV+E-CHSQL+E-REF(reftraceql)', 'translation_validation',
    'Generated TraceQL scripts (nested and/or with parentheses, repeated terms, span./resource./dot prefixes, every operator, aggregators with units, chains of 2-4 selectors, long decimal literals) are parsed back by qryn\'s parser and sent through the real read path (GET /api/search and the v2 tags/values routes -> controller -> service -> planners -> simple and complex request processors, single-node and cluster tables). Every statement qryn issues is executed by the reference ClickHouse-subset interpreter over tables filled the way the writer fills them (missing, numeric and non-numeric values, spans on the window edges); the returned trace and span sets, the limit cut and its recency order are compared with an independent direct TraceQL evaluator under every reading the property text leaves open; a statement ClickHouse would reject, a planner panic and a non-JSON answer are violations by themselves. Violations are minimised and filed under the minimal failing shape; for {A} && {B} the answer is additionally compared with what the implemented row intersection gives, so that known defect has one key.',
    'Trusted: E-CHSQL (self-tested on a corpus of captured statements), the direct evaluator engines/reftraceql written from the property text, the table filling. Cases on which the readings disagree are probes (counted, not judged). Chains of three or more selectors never execute (known finding), so their semantics are not observed.',
    'runtime monitoring: translation validation by executing the recorded SQL against a reference interpreter and comparing with a direct evaluator', 'DESIGN §3 C11')
add('C12', 'E-RUN+E-SQLDRV+E-RDCAT+E-RACE', 'exploration',
    'Crash-isolated robustness fuzzing of all 35 read routes of the real reader (router, controllers, services, planners, post-processors; Loki incl. tail over a websocket, Prometheus, Tempo v1/v2, Pyroscope) on the scripted database/sql driver: grammar-generated, mutated and random-byte query texts for LogQL/PromQL/TraceQL/Pyroscope selectors, boundary values for start/end/step/limit/direction/time (zero, negative, reversed, huge, NaN/Inf, fractions, RFC3339), result sets of every statement kind in well-formed and nine hostile shapes (wrong Go types, short ids, bad payloads, fingerprint 0, inconsistent arrays), database errors at open and at row k, cancelled contexts, clients that stop reading early or mid-response. Monitors per request: process death (child process per lane, address space capped), an HTTP answer within the watchdog (a request is wedged only if none of its goroutines is running or runnable in two dumps 2 s apart), connection closed without response, driver.Rows left open, goroutine census and connection states after quiescence. A child ends itself after a confirmed leak or wedge so that leaked work is never attributed to a later case.',
    'Trusted: the scripted driver and its classification of the statements the reader issues, the goroutine census filter, the address-space cap (8 GiB; an out-of-memory death on a block below 1 GiB is undecided unless the live heap grew by more than 3 GiB while the request was open). A request still computing at the client timeout is a violation only when its goroutine stays in the same frames and the live heap has grown by more than 1 GiB since it began and keeps rising over three samples; otherwise undecided. A concurrent lane (8 clients, Go-side pipelines with per-line template arguments + canonical requests of all families) observes process death, unanswered connections and leftovers; a death there is attributed to the lane, not to one request. Database failures include connection-level ones for as long as the request lasts; the reader runs behind its production connection wrapper. Input classes are skipped after a confirmed wedge/leak or three deaths (counted). The race-detector subset is not run for C12: a -race binary cannot start under the address-space cap.',
    'runtime monitoring: crash-isolated fuzzing with response, goroutine-census, open-rows and connection-state monitors', 'DESIGN §3 C12')
add('C15', 'E-RUN+E-SQLDRV+E-RDCAT', 'exploration',
    'Scripted result sets (any number of series, any distribution of rows over series and channel batches incl. empty batches, batch boundaries inside a series, 3000+ rows, fingerprint 0, label and line contents with control bytes / quotes / invalid UTF-8, floats from 1e-300 to 1e300, integral values, NaN-free) are fed through the real reader for every document-producing endpoint (Loki streams/matrix/vector for SQL and pipeline paths, labels, label values, series; Prometheus matrix/vector/scalar/labels/series; Tempo trace JSON, search, TraceQL, tags/values v1+v2). Oracle: the concatenated response chunks are decoded strictly as exactly one JSON document (no trailing data, no duplicate keys), validated against the documented shape of that endpoint, and compared with the scripted rows: exactly one object per stream/series, every row once, timestamps and values rendered without loss, strings equal after decoding.',
    'Trusted: the strict decoder and the per-endpoint shape validators (self-tested on hand-computed documents), the result-set generators.',
    'runtime monitoring: response-document validation and row conservation against scripted result sets', 'DESIGN §3 C15')
add('C13', 'E-RUN+E-SQLDRV+E-CHSQL', 'exploration',
    'The real reader (router -> controllers -> services -> planners) runs in-process on a scripted database/sql driver whose handler executes every statement with the reference interpreter over generated tables holding probe rows (at from, from+1ns, middle, to-1, indexed under the dates the writer stores), sentinel rows (1 ns, 1 s, one range bucket, 15 s, 1 day, 31 days outside on both sides, with own and shared keys), grey rows inside the widening the property allows, and rows of the other signal (one sharing a probe fingerprint). Two observers: the HTTP response (no sentinel / other-signal marker may appear, every selected probe must; the answer must equal the answer on the database minus sentinel data rows) and the interpreter\'s scan monitor (every base-table scan: no sentinel or other-type row admitted by a data-table scan, date bounds read from the WHERE must cover the probe index rows). 76 endpoint positions (Loki query_range/instant/labels/values/series/tail, Prometheus labels/values/series/query/query_range and CLokiQuerier.Select with 29 hint functions, Tempo trace/search/TraceQL/tags/values v1+v2, Pyroscope types/labels/series/selects/render-diff) x windows crossing midnight, month ends and sub-second ones x single-node and cluster layouts x reader zones UTC / America/New_York / Asia/Tokyo (one child process per zone) and writer zones for trace tag rows.',
    'Trusted: E-CHSQL incl. its per-scan admitted-row monitor, the row generators (dates as the writer stores them), the per-endpoint window semantics listed as assumptions in the evidence. A data bound narrower than the window is reported as probe-missing/data-bound (assumption recorded). Loki tail: sentinel and scan verdicts only.',
    'runtime monitoring: sentinel/probe rows with a scan-level admission monitor inside the reference interpreter and end-to-end response comparison', 'DESIGN §3 C13')
add('C17', 'E-RUN+E-SQLDRV+E-CHSQL+upstream promql engine', 'exploration',
    'Four monitors: (1) cursor model check - random Seek/Next/At sequences on model.Series iterators against a sequential model of the chunkenc.Iterator contract; (2) Prometheus matcher sets and Pyroscope selectors through the real transpilers, SQL executed by E-CHSQL over generated index tables, selected series compared with Prometheus matcher semantics; (3) CLokiQuerier.Select end to end over the scripted driver (each series once, own labels, samples in range ascending); (4) /api/v1/query_range and /api/v1/query through the real router vs the upstream promql engine over an in-memory reference storage holding the same samples.',
    'Trusted: E-CHSQL, the Prometheus matcher evaluator (cross-checked against labels.Matcher), the pinned upstream promql engine as reference; samples exactly on a window\'s left edge are probes.',
    'runtime monitoring: cursor model checking over recorded operation sequences, differential execution against the upstream engine', 'DESIGN §3 C17')

add('C14', 'E-RUN+E-SQLDRV+E-CHSQL+E-REF(logq)', 'exploration',
    'Two runtime monitors over recorded SQL: (a) determinism - every LogQL (log, metric, split), TraceQL (incl. the multi-portion processor, whose per-portion statements must keep one structure) and Pyroscope request is translated three times interleaved with other queries, and mixes of queries are translated from 8 goroutines: the statements must be byte-identical; (b) re-execution - one prepared LogQL chain is executed five times with advancing windows exactly as Tail does and every execution is compared with a fresh translation for the same window: identical statements, or at least identical rows when executed by the reference interpreter on the same tables.',
    'Trusted: statement recording at the database/sql seam; E-CHSQL for the semantic fallback. Re-execution of TraceQL / profile plan objects is covered only through the processors that call Process repeatedly inside one request.',
    'runtime monitoring: differential comparison of recorded SQL across repeated and concurrent translations and plan re-executions', 'DESIGN §3 C14')

NOT_APPLICABLE = {
}
ALL = ['C%02d' % i for i in range(1, 21)]
PENDING_REASON = 'check not built yet in this revision of /verif (runtime monitoring applies; see DESIGN.md §3)'

def main():
    checks = []
    for pid in ALL:
        if pid not in CHECKS: continue
        engine, cat, text, note, tech, ref = CHECKS[pid]
        checks.append({
            'property_id': pid,
            'quick_cmd': './check %s quick' % pid,
            'thorough_cmd': './check %s thorough' % pid,
            'evidence_file': '/verif/evidence/%s.json' % pid,
            'replay_cmd_template': './check %s --replay {path}' % pid,
            'engine': engine,
            'level_claimed': {'category': cat, 'text': text, 'design_ref': ref},
            'level_note': note,
            'technique': tech,
        })
    na = []
    for pid in ALL:
        if pid in CHECKS: continue
        na.append({'property_id': pid, 'reason': NOT_APPLICABLE.get(pid, PENDING_REASON)})
    m = {
        'version': 1,
        'setup_cmd': './setup.sh',
        'hooks': {
            'guard': 'verif',
            'enable': 'go build -tags verif (the harness module replaces github.com/metrico/qryn with /repo; the C20 rig builds /repo itself with -tags verif)',
            'baseline_off_cmd': baseline_cmd,
            'source_commits': HOOK_COMMITS,
            'add_only': True,
        },
        'engines': ENGINES,
        'checks': checks,
        'not_applicable': na,
        'notes': 'Runtime monitoring and sanitizers only. Every check: ./check <ID> [quick|thorough]; exit 0 held, 1 violation (VIOLATION line), 2 inconclusive. Known findings: /verif/known_findings.txt.',
    }
    json.dump(m, open('/verif/MANIFEST.json', 'w'), indent=1)
    print('MANIFEST.json written:', len(checks), 'checks,', len(na), 'not claimed')

HOOK_COMMITS = ['2f6c793', 'd487fd0']
ENGINES = [
 {'name': 'E-RUN', 'path': 'harness/engines/run', 'serves_properties': ALL, 'kind_free_text': 'case runner: seeds, child processes with write-ahead log, verdicts, evidence, known findings'},
 {'name': 'E-CHW', 'path': 'harness/engines/chw', 'serves_properties': ['C01','C02','C03','C04','C05','C06'], 'kind_free_text': 'fake ClickHouse insert client with fault scripts and a logically-clocked ledger; in-process assembly of the real writer'},
 {'name': 'E-CAT', 'path': 'harness/engines/cat', 'serves_properties': ['C18','C19'], 'kind_free_text': 'fake clickhouse.Conn with a modelled catalogue (DDL effects, ClickHouse errors, ver/settings tables, fault injection at statement i)'},
 {'name': 'E-RACE', 'path': 'harness/engines/race', 'serves_properties': ['C01','C02'], 'kind_free_text': 'race-detector report collector, de-duplication and scope classifier'},
 {'name': 'E-SQLDRV', 'path': 'harness/engines/sqldrv', 'serves_properties': ['C06','C07','C08','C09','C10','C11','C12','C13','C14','C15','C17'], 'kind_free_text': 'scripted database/sql driver behind the reader seams (statement log, scripted rows, faults, open-rows tracking) and in-process assembly of the real reader routes'},
 {'name': 'E-RDCAT', 'path': 'harness/engines/rdcat', 'serves_properties': ['C12','C15'], 'kind_free_text': 'catalogue of the reader\'s 35 routes and 23 statement kinds with request, query-text and result-set generators (well-formed and hostile shapes) and strict response validators'},
 {'name': 'E-CHSQL', 'path': 'harness/engines/chsql', 'serves_properties': ['C07','C08','C09','C11','C13','C14','C16','C17'], 'kind_free_text': 'reference interpreter for the ClickHouse SQL subset the planners emit (oracle; self-tested against a corpus of captured statements)'},
 {'name': 'E-CHTCP', 'path': 'harness/engines/chtcp', 'serves_properties': ['C19','C20'], 'kind_free_text': 'fake native-protocol ClickHouse TCP server (hello, ping, query log, INSERT exchange; optional statement handler answering DDL and one-column SELECTs)'},
 {'name': 'E-REF logq', 'path': 'harness/engines/logq', 'serves_properties': ['C07','C08','C09','C13','C14'], 'kind_free_text': 'abstract LogQL model, direct reference evaluator, query/database generators, executor running the real planner chain over E-CHSQL'},
 {'name': 'E-LEX', 'path': 'harness/engines/lex', 'serves_properties': ['C10'], 'kind_free_text': 'ClickHouse token lexer and string/LIKE decoders (never fails on any byte string)'},
 {'name': 'gen', 'path': 'harness/engines/gen', 'serves_properties': ['C01','C02','C03','C04','C05','C06'], 'kind_free_text': 'ingest body generators (expected rows known by construction)'},
]
if __name__ == '__main__':
    main()
