# sourced by check and setup: offline Go environment for building /repo + harness
export GOFLAGS=-mod=mod GOPROXY=off GONOSUMDB='*' GONOSUMCHECK=1 GOFLAGS=-mod=mod
unset GOSUMDB
TC=/root/go/pkg/mod/golang.org/toolchain@v0.0.1-go1.24.2.linux-amd64/bin/go
if [ -x "$TC" ]; then export GO="$TC" GOTOOLCHAIN=local; else export GO=go GOTOOLCHAIN=auto; fi
